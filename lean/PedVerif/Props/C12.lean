import PedVerif.Spec.ValidateRegions
import PedVerif.Lemmas.ValidateRef
/-!
# C12 — @validate is a gate: the body only ever sees validated values

Property theorems about the model `PedVerif.Validate` (three loops of `_wrapper_content`, `Parameter.validate`, the
hand-over), whose decision code is regenerated from the source (`PedVerif.Gen.Validate`).  Conversion and validators are
arbitrary functions `PV → Except Rej PV`.

Contents: basic lemmas · the loops in source order · `gate_spec` (items in processing order) · per-name characterisation
of the three loops (`res_get`) · the gate theorems (`reject_blocks_body*`, `first_rejecting_decides`, `strict_surplus*`,
`required_*`, `nonrequired_none_passes_unvalidated`, `default_cascade`, `missing_without_default_blocks`) ·
`res_only_chain_outputs` / `body_sees_only_chain_outputs` · dict and call-binding lemmas about the generated dispatch
(`dispatch_unfold`, `callWith_split_eq`, `dispatch_eq_bindDict`; shared with `Props/C13.lean`, which imports this file) ·
the receiver of a method, recognised by the signature (`receiver_by_signature` about the generated rule, `receiver_eq_spec`,
`dispatch_ok_bindDict`) · `gate_by_name` for every call (`gate_by_name_full_proved`; the former failing input of the repaired finding
`selfKeywordBypassesGate`: `fixed_self_keyword`) · which parameter a rejection names
(`chainHandlerName_self` about the generated `from_validator_exception` rule, `rejection_names_the_rejecting_parameter`,
`validate_independent_of_carried_names`, `validateParam_eq_relabel`, `call_rejection_names_the_rejecting_parameter`,
`rejection_naming_partial` / `rejection_naming_full_fails`) · non-vacuity examples · the VAR_POSITIONAL parameter
under any name (`zip_branch_iff_var_positional`, `ordinary_key_never_zips`, `no_zip_without_var_positional`,
`var_positional_spelling_irrelevant`, `body_sees_only_chain_outputs_full_proved`) · re-entrant and
overlapping calls (`runValidateW_fst`, `call_outcome_independent_of_other_calls`, `gate_holds_for_outer_call`,
`reject_blocks_outer_body`, `reentrancy_source_shape`).
-/
set_option linter.unusedSimpArgs false
namespace PedVerif.Validate
open PedVerif.Gen.Validate

/-! ## Basic lemmas -/

/-- **C12 (strict, the generated tests).** In the branch "no Parameter declared for this key" the keyword loop raises
    TooManyArguments iff `strict`, and the positional loop iff `strict` and the key is not **the receiver's name** (`recv` =
    `receiver_name`: `self` when the first parameter of the signature is called `self` — the receiver of a method, which Python
    binds itself — and `None`, equal to no key, otherwise) — for every key: no other name is exempt, in particular no substring or
    superstring of `self` (`s`, `e`, `l`, `f`, `se`, `el`, `lf`, `sel`, `elf`, `selfie`, …), nor `cls`, `args`, `kwargs`, nor
    `self` itself when it is not the receiver (an ordinary parameter in a later position).  Proved about the generated
    `kwStrictTest` / `posStrictTest`, so a membership / substring test that exempts more names breaks the proof. -/
theorem strict_exempts_only_the_receiver :
    (∀ strict k, kwStrictTest strict k = strict) ∧
    (∀ strict k (recv : Option Name), posStrictTest strict k recv = (strict && some k != recv)) := by
  refine ⟨?_, ?_⟩
  · intro strict k; cases strict <;> simp [kwStrictTest]
  · intro strict k recv
    cases strict
    · simp [posStrictTest]
    · cases recv with
      | none => simp [posStrictTest]
      | some r =>
        by_cases h : k = r
        · subst h; simp [posStrictTest]
        · have hb : (some k == some r) = false := by simpa using h
          have hb' : (some r == some k) = false := by simpa using fun h' : r = k => h h'.symm
          simp [posStrictTest, bne, hb, hb', h]

@[simp] theorem kwStrictTest_eq (strict : Bool) (k : Name) : kwStrictTest strict k = strict := strict_exempts_only_the_receiver.1 strict k
@[simp] theorem posStrictTest_eq (strict : Bool) (k : Name) (recv : Option Name) :
    posStrictTest strict k recv = (strict && some k != recv) :=
  strict_exempts_only_the_receiver.2 strict k recv

/-- **C12 (the receiver, the generated rule).** The wrappers recognise the receiver of a method *by the signature*: `receiver_name`
    is `'self'` iff the **first** parameter of the signature is called `self` — whether or not some other parameter carries that
    name — and `None` otherwise; and `receiver_name` is the key both wrappers test (`if receiver_name in result`) and pop.  Proved
    about the generated `receiverName` / `wrapperReceiverKey` / `asyncWrapperReceiverKey`: the former shape of the source (the
    literal key `'self'`), or a rule that looks for `self` anywhere in the signature, breaks this proof. -/
theorem receiver_by_signature :
    receiverBySignature = true ∧
    (∀ firstIsSelf anyIsSelf, receiverName firstIsSelf anyIsSelf = if firstIsSelf then some selfName else none) ∧
    (∀ r, wrapperReceiverKey r = r) ∧ (∀ r, asyncWrapperReceiverKey r = r) := by
  refine ⟨by decide, ?_, ?_, ?_⟩
  · intro f a; cases f <;> cases a <;> decide
  · intro r; rfl
  · intro r; rfl

theorem firstParameter_eq (sig : Sig) : (sigItems sig).head?.map (·.1) = firstParameter sig := by
  unfold sigItems firstParameter
  cases hp : sig.pos with
  | cons x r => simp
  | nil =>
    cases hv : sig.varArgs with
    | true => simp
    | false => cases hk : sig.kwOnly <;> simp

/-- the model's `receiver_name` is the specification's receiver: the first parameter of the signature, if it is called `self` -/
theorem receiver_eq_spec (sig : Sig) : sig.receiver = specReceiver sig := by
  unfold Sig.receiver specReceiver
  rw [receiver_by_signature.2.1, firstParameter_eq]
  by_cases h : firstParameter sig = some selfName <;> simp [h]

theorem receiverKey_eq (sig : Sig) (a : Bool) : receiverKey sig a = specReceiver sig := by
  unfold receiverKey
  cases a <;> simp [receiver_by_signature.2.2.1, receiver_by_signature.2.2.2, receiver_eq_spec]

theorem specReceiver_cases (sig : Sig) : specReceiver sig = none ∨ specReceiver sig = some selfName := by
  unfold specReceiver; split <;> simp

/-! ### the specification's own lookups are the model's -/

/-- "the last declaration of a name wins": the specification's `specFindP` is the model's `parameter_dict` lookup -/
theorem specFindP_eq : ∀ (ps : List VParam) (k : Name), specFindP ps k = findP ps k := by
  intro ps
  induction ps with
  | nil => intro k; rfl
  | cons p r ih =>
    intro k
    have ih' := ih k
    unfold specFindP at ih' ⊢
    simp only [List.reverse_cons, List.find?_append, findP, ih']
    cases findP r k with
    | some q => rfl
    | none => cases h : (p.name == k) <;> simp [List.find?_cons, h]

theorem specDefault_eq (sig : Sig) (n : Name) : specDefault sig n = sig.default? n := by
  unfold specDefault Sig.default? Sig.named
  induction (sig.pos ++ sig.kwOnly) with
  | nil => rfl
  | cons s r ih =>
    simp only [List.filter_cons, List.find?_cons]
    cases h : (s.name == n) with
    | true => simp
    | false => simpa using ih

/-- the specification of the trailing strict block (Flask JSON requests) is what the model's `flaskCheck` computes -/
theorem specFlask_eq (c : Cfg) (res : Assoc) : specFlask c res = flaskCheck c.ps c.strict c.req res := by
  unfold specFlask flaskCheck
  have h1 : c.ps.all (fun p => (specFindP c.ps p.name).all (·.flaskJson))
      = c.ps.all (fun p => match findP c.ps p.name with | some q => q.flaskJson | Option.none => true) := by
    congr 1; funext p; rw [specFindP_eq]; cases findP c.ps p.name <;> rfl
  rw [h1]
  cases c.req with
  | noContext => rfl
  | notJson => rfl
  | json keys =>
    have h2 : keys.all (fun k => (specFindP c.ps k).isSome) = !keys.any (fun k => (findP c.ps k).isNone) := by
      induction keys with
      | nil => rfl
      | cons k ks ih =>
        simp only [specFindP_eq] at ih
        simp only [List.all_cons, List.any_cons, specFindP_eq, ih]
        cases findP c.ps k <;> simp
    simp only [h2]
    cases keys.any (fun k => (findP c.ps k).isNone) <;> rfl

theorem findP_name : ∀ (ps : List VParam) (k : Name) (p : VParam), findP ps k = some p → p.name = k := by
  intro ps
  induction ps with
  | nil => intro k p h; simp [findP] at h
  | cons q r ih =>
    intro k p h
    simp only [findP] at h
    cases hr : findP r k with
    | some q' => rw [hr] at h; simp only [Option.some.injEq] at h; subst h; exact ih k _ hr
    | none =>
      rw [hr] at h
      by_cases hq : (q.name == k) = true
      · simp only [hq, ↓reduceIte, Option.some.injEq] at h; subst h; simpa using hq
      · simp [hq] at h

theorem findP_isSome_of_mem : ∀ (ps : List VParam) (p : VParam), p ∈ ps → (findP ps p.name).isSome = true := by
  intro ps
  induction ps with
  | nil => intro p h; simp at h
  | cons q r ih =>
    intro p h
    simp only [findP]
    cases hr : findP r p.name with
    | some q' => simp
    | none =>
      simp only [List.mem_cons] at h
      rcases h with rfl | h
      · simp
      · have := ih p h; rw [hr] at this; simp at this

/-- the generated `is_required` rule says: required iff `required=True` and no default was given -/
theorem isRequired_eq (p : VParam) : p.isRequired = p.specRequired := by
  unfold VParam.isRequired VParam.specRequired isRequiredRule
  cases p.dflt <;> cases p.requiredArg <;> rfl

/-- **C12 (naming, the generated rule).** `ParameterException.from_validator_exception` as `Parameter.validate` calls it: for a
    non-empty `self.name` the exception names `self.name` — **whatever** `parameter_name` the `ValidatorException` already
    carries (the empty default, a nested field name set by `Validator.validate_param`, the name of another Parameter).
    Proved about the generated `chainHandlerName` / `fromValidatorExceptionName` / `parameterExceptionStoresName`. -/
theorem chainHandlerName_self (name carried : Name) (h : (name != emptyName) = true) : chainHandlerName name carried = name := by
  have h' : (name != PedVerif.Gen.Validate.emptyName) = true := h
  simp [chainHandlerName, fromValidatorExceptionName, parameterExceptionStoresName, strOr, strTruthy, h']

theorem runValidators_eq_fold (p : VParam) (off : Nat) (hoff : ∀ j, p.whyAt (j + off) = .validator j) :
    ∀ (fs : List Step) (j : Nat) (v : PV),
      runValidators p.name fs j v = (fs.zipIdx (j + off)).foldlM (specStep p) v := by
  intro fs
  induction fs with
  | nil => intro j v; simp [runValidators, pure, Except.pure]
  | cons f fs ih =>
    intro j v
    simp only [runValidators, List.zipIdx_cons, List.foldlM_cons, specStep, hoff]
    cases hf : f v with
    | ok w =>
      simp only [bind, Except.bind]
      rw [ih (j + 1) w]
      have : j + 1 + off = j + off + 1 := by omega
      rw [this]
    | error r => cases r <;> simp [bind, Except.bind, chainHandlerName_self _ _ p.nameNonEmpty]

/-- **C12 (chain).** `Parameter.validate` is: the None rule, then the *full* chain — conversion (if a `value_type` is
    given) followed by every validator — as a left fold in order, each step receiving its predecessor's output; the first
    failing step decides and is reported with the parameter's name. -/
theorem validate_is_chain_fold (p : VParam) (v : PV) : p.validate v = specValidate p v := by
  rw [validate_unfold]
  unfold VParam.validateRef specValidate
  cases v with
  | none => simp [isRequired_eq]
  | obj i =>
    simp only [reduceCtorEq, ↓reduceIte]
    cases hc : p.conv with
    | none =>
      have h := runValidators_eq_fold p 0 (by intro j; simp [VParam.whyAt, hc]) p.validators 0 (.obj i)
      simpa [VParam.chain, hc] using h
    | some c =>
      have h := runValidators_eq_fold p 1 (by intro j; simp [VParam.whyAt, hc])
      simp only [VParam.chain, hc, Option.toList_some, List.singleton_append, List.zipIdx_cons, List.foldlM_cons, specStep,
        VParam.whyAt, ↓reduceIte]
      cases hcv : c (.obj i) with
      | ok w => simp only [bind, Except.bind]; simpa using h p.validators 0 w
      | error r => cases r <;> simp [bind, Except.bind]

example : (⟨2, true, none, none, none, [fun v => .ok v, fun _ => .error (.rejected emptyName), fun v => .ok v], false, by decide⟩ : VParam).validate (.obj 9)
    = .error (.parameter 2 (.validator 1)) := by rfl

/-! ## The loops in source order -/

/-- the body of `_wrapper_content` with the loops in the order the source has them -/
def wrapperSeq (c : Cfg) (args : List PV) (kw : List (Name × PV)) : Except VExc Assoc :=
  if c.ignoreInput then
    (loopUnused c.sig (c.ps.filter (fun p => !([] : List Name).contains p.name)) []).bind (flaskCheck c.ps c.strict c.req)
  else
    (loopKw c.ps c.strict kw [] []).bind fun st1 =>
    (bindPartial c.sig args).bind fun b =>
    (loopPos c.ps c.strict c.sig.receiver b.named st1.1 st1.2 []).bind fun st2 =>
    (if b.extras.isEmpty then .ok (st2.1, st2.2.1)
     else if zipRefuses c.ps c.strict args b.extras st2.2.1 st2.2.2 then .error .tooMany
     else loopZip (zipPairs c.ps args b.extras st2.2.1 st2.2.2) st2.1 st2.2.1).bind fun st3 =>
    (loopUnused c.sig (c.ps.filter (fun p => !st3.2.contains p.name)) st3.1).bind (flaskCheck c.ps c.strict c.req)

theorem wrapperContent_eq_seq (c : Cfg) (args : List PV) (kw : List (Name × PV)) :
    wrapperContent c args kw = wrapperSeq c args kw := by
  unfold wrapperContent wrapperSeq
  simp only [loopOrder, List.foldlM_cons, List.foldlM_nil, underIgnoreInput, runLoop, bind, pure, Except.pure,
    loopKwG_eq, loopPosG_eq, loopZipG_eq, loopUnusedG_eq]
  cases c.ignoreInput
  · simp only [Bool.and_false, Bool.false_eq_true, ↓reduceIte, Bool.and_true]
    cases loopKw c.ps c.strict kw [] [] with
    | error e => rfl
    | ok st1 =>
      simp only [Except.bind]
      cases bindPartial c.sig args with
      | error e => rfl
      | ok b =>
        simp only [Except.bind]
        cases loopPos c.ps c.strict c.sig.receiver b.named st1.1 st1.2 [] with
        | error e => rfl
        | ok st2 =>
          obtain ⟨r2, u2, ua⟩ := st2
          simp only [Except.bind]
          cases b.extras.isEmpty
          · simp only [Bool.false_eq_true, ↓reduceIte]
            cases zipRefuses c.ps c.strict args b.extras u2 ua
            · simp only [Bool.false_eq_true, ↓reduceIte]
              cases loopZip (zipPairs c.ps args b.extras u2 ua) r2 u2 with
              | error e => rfl
              | ok st3 =>
                simp only [Except.bind]
                cases loopUnused c.sig (c.ps.filter (fun p => !st3.2.contains p.name)) st3.1 <;> rfl
            · rfl
          · simp only [↓reduceIte, Except.bind]
            cases loopUnused c.sig (c.ps.filter (fun p => !u2.contains p.name)) r2 <;> rfl
  · simp only [Bool.and_true, ↓reduceIte, Except.bind, Bool.and_false, Bool.false_eq_true]
    cases loopUnused c.sig (c.ps.filter (fun p => !([] : List Name).contains p.name)) [] <;> rfl

/-! ## The gate specification: items in processing order -/

theorem gateOut_kw (c : Cfg) : ∀ (kw : List (Name × PV)) (rest : List Item) (res : Assoc) (used : List Name),
    gateOut c (kw.map (fun kv => Item.kw kv.1 kv.2) ++ rest) res
      = (loopKw c.ps c.strict kw res used).bind (fun st => gateOut c rest st.1) := by
  intro kw
  induction kw with
  | nil => intro rest res used; simp [loopKw, Except.bind, kwStrictTest_eq]
  | cons kv tl ih =>
    intro rest res used
    obtain ⟨k, v⟩ := kv
    simp only [List.map_cons, List.cons_append, gateOut, specFlask_eq, itemOut, specFindP_eq, specDefault_eq, loopKw, kwStrictTest_eq]
    cases hf : findP c.ps k with
    | none =>
      simp only
      by_cases hs : c.strict = true
      · simp [hs, Except.bind]
      · simpa [hs] using ih rest (res.set k v) used
    | some p =>
      simp only [← validate_is_chain_fold]
      cases hv : p.validate v with
      | error e => simp [Except.map, bind, Except.bind]
      | ok w => simp only [Except.map, bind, Except.bind]; exact ih rest _ _

theorem gateOut_pos (c : Cfg) : ∀ (bd : List (Name × PV)) (rest : List Item) (res : Assoc) (used : List Name) (ua : List PV),
    gateOut c (bd.map (fun kv => Item.pos kv.1 kv.2) ++ rest) res
      = (loopPos c.ps c.strict c.sig.receiver bd res used ua).bind (fun st => gateOut c rest st.1) := by
  intro bd
  induction bd with
  | nil => intro rest res used ua; simp [loopPos, Except.bind, posStrictTest_eq]
  | cons kv tl ih =>
    intro rest res used ua
    obtain ⟨k, v⟩ := kv
    simp only [List.map_cons, List.cons_append, gateOut, specFlask_eq, itemOut, specFindP_eq, specDefault_eq, loopPos, posStrictTest_eq, receiver_eq_spec]
    simp only [← receiver_eq_spec]
    cases hf : findP c.ps k with
    | none =>
      simp only
      by_cases hs : (c.strict && some k != c.sig.receiver) = true
      · simp [hs, Except.bind]
      · simpa [hs] using ih rest (res.set k v) used _
    | some p =>
      simp only [← validate_is_chain_fold]
      cases hv : p.validate v with
      | error e => simp [Except.map, bind, Except.bind]
      | ok w => simp only [Except.map, bind, Except.bind]; exact ih rest _ _ _

theorem gateOut_absent (c : Cfg) : ∀ (l : List VParam) (res : Assoc),
    gateOut c (l.map Item.absent) res = (loopUnused c.sig l res).bind (flaskCheck c.ps c.strict c.req) := by
  intro l
  induction l with
  | nil => intro res; simp [loopUnused, gateOut, specFlask_eq, Except.bind]
  | cons p tl ih =>
    intro res
    simp only [List.map_cons, gateOut, specFlask_eq, itemOut, specFindP_eq, specDefault_eq, loopUnused, ← isRequired_eq]
    cases he : p.ext with
    | some v =>
      simp only [← validate_is_chain_fold]
      cases hv : p.validate v with
      | error e => simp [Except.map, bind, Except.bind]
      | ok w => simp only [Except.map, bind, Except.bind]; exact ih _
    | none =>
      simp only
      by_cases hr : p.isRequired = true
      · simp [hr, Except.bind]
      · simp only [hr, Bool.false_eq_true, ↓reduceIte]
        cases p.dflt with
        | some d => simp only; exact ih _
        | none =>
          simp only
          cases c.sig.default? p.name with
          | some d => simp only; exact ih _
          | none => simp [Except.bind]

theorem loopKw_used (ps : List VParam) (strict : Bool) :
    ∀ (kw : List (Name × PV)) (res res' : Assoc) (used used' : List Name),
      loopKw ps strict kw res used = .ok (res', used') →
      ∀ n, n ∈ used' ↔ n ∈ used ∨ (kw.any (fun kv => kv.1 == n) = true ∧ (findP ps n).isSome = true) := by
  intro kw
  induction kw with
  | nil =>
    intro res res' used used' h n
    simp only [loopKw, Except.ok.injEq, Prod.mk.injEq, kwStrictTest_eq] at h
    obtain ⟨_, rfl⟩ := h
    simp
  | cons kv tl ih =>
    intro res res' used used' h n
    obtain ⟨k, v⟩ := kv
    simp only [loopKw, kwStrictTest_eq] at h
    cases hf : findP ps k with
    | none =>
      simp only [hf] at h
      by_cases hs : strict = true
      · simp [hs] at h
      · have hs' : strict = false := by simpa using hs
        subst hs'
        simp only [Bool.false_eq_true, ↓reduceIte] at h
        rw [ih _ _ _ _ h n]
        simp only [List.any_cons, Bool.or_eq_true]
        constructor
        · rintro (h1 | ⟨h1, h2⟩)
          · exact Or.inl h1
          · exact Or.inr ⟨Or.inr h1, h2⟩
        · rintro (h1 | ⟨h1 | h1, h2⟩)
          · exact Or.inl h1
          · have : k = n := by simpa using h1
            subst this; simp [hf] at h2
          · exact Or.inr ⟨h1, h2⟩
    | some p =>
      simp only [hf] at h
      cases hv : p.validate v with
      | error e => simp [hv, bind, Except.bind] at h
      | ok w =>
        simp only [hv, bind, Except.bind] at h
        rw [ih _ _ _ _ h n]
        have hpn : p.name = k := findP_name ps k p hf
        simp only [List.mem_append, List.mem_singleton, List.any_cons, Bool.or_eq_true, hpn]
        constructor
        · rintro ((h1 | h1) | ⟨h1, h2⟩)
          · exact Or.inl h1
          · subst h1; exact Or.inr ⟨Or.inl (by simp), by simp [hf]⟩
          · exact Or.inr ⟨Or.inr h1, h2⟩
        · rintro (h1 | ⟨h1 | h1, h2⟩)
          · exact Or.inl (Or.inl h1)
          · have : k = n := by simpa using h1
            exact Or.inl (Or.inr this.symm)
          · exact Or.inr ⟨h1, h2⟩

theorem loopPos_used (ps : List VParam) (strict : Bool) (recv : Option Name) :
    ∀ (bd : List (Name × PV)) (res res' : Assoc) (used used' : List Name) (ua ua' : List PV),
      loopPos ps strict recv bd res used ua = .ok (res', used', ua') →
      ∀ n, n ∈ used' ↔ n ∈ used ∨ (bd.any (fun kv => kv.1 == n) = true ∧ (findP ps n).isSome = true) := by
  intro bd
  induction bd with
  | nil =>
    intro res res' used used' ua ua' h n
    simp only [loopPos, Except.ok.injEq, Prod.mk.injEq, posStrictTest_eq] at h
    obtain ⟨_, rfl, _⟩ := h
    simp
  | cons kv tl ih =>
    intro res res' used used' ua ua' h n
    obtain ⟨k, v⟩ := kv
    simp only [loopPos, posStrictTest_eq] at h
    cases hf : findP ps k with
    | none =>
      simp only [hf] at h
      by_cases hs : (strict && some k != recv) = true
      · simp [hs] at h
      · simp only [hs, Bool.false_eq_true, ↓reduceIte] at h
        rw [ih _ _ _ _ _ _ h n]
        simp only [List.any_cons, Bool.or_eq_true]
        constructor
        · rintro (h1 | ⟨h1, h2⟩)
          · exact Or.inl h1
          · exact Or.inr ⟨Or.inr h1, h2⟩
        · rintro (h1 | ⟨h1 | h1, h2⟩)
          · exact Or.inl h1
          · have : k = n := by simpa using h1
            subst this; simp [hf] at h2
          · exact Or.inr ⟨h1, h2⟩
    | some p =>
      simp only [hf] at h
      cases hv : p.validate v with
      | error e => simp [hv, bind, Except.bind] at h
      | ok w =>
        simp only [hv, bind, Except.bind] at h
        rw [ih _ _ _ _ _ _ h n]
        have hpn : p.name = k := findP_name ps k p hf
        simp only [List.mem_append, List.mem_singleton, List.any_cons, Bool.or_eq_true, hpn]
        constructor
        · rintro ((h1 | h1) | ⟨h1, h2⟩)
          · exact Or.inl h1
          · subst h1; exact Or.inr ⟨Or.inl (by simp), by simp [hf]⟩
          · exact Or.inr ⟨Or.inr h1, h2⟩
        · rintro (h1 | ⟨h1 | h1, h2⟩)
          · exact Or.inl (Or.inl h1)
          · have : k = n := by simpa using h1
            exact Or.inl (Or.inr this.symm)
          · exact Or.inr ⟨h1, h2⟩

theorem zip_any_key : ∀ (l : List Name) (args : List PV) (n : Name),
    (l.zip args).any (fun kv => kv.1 == n) = (l.take args.length).contains n := by
  intro l
  induction l with
  | nil => intro args n; simp
  | cons a l ih =>
    intro args n
    cases args with
    | nil => simp
    | cons x xs =>
      simp only [List.zip_cons_cons, List.any_cons, List.length_cons, List.take_succ_cons, List.contains_cons, ih xs n]
      congr 1
      exact Bool.beq_comm

theorem gateOut_zip (c : Cfg) : ∀ (pairs : List (PV × VParam)) (rest : List Item) (res : Assoc) (used : List Name),
    gateOut c (pairs.map (fun ap => Item.zip ap.2 ap.1) ++ rest) res
      = (loopZip pairs res used).bind (fun st => gateOut c rest st.1) := by
  intro pairs
  induction pairs with
  | nil => intro rest res used; simp [loopZip, Except.bind]
  | cons ap tl ih =>
    intro rest res used
    obtain ⟨a, p⟩ := ap
    simp only [List.map_cons, List.cons_append, gateOut, specFlask_eq, itemOut, specFindP_eq, specDefault_eq, loopZip,
      ← validate_is_chain_fold]
    cases hv : p.validate a with
    | error e => simp [Except.map, bind, Except.bind]
    | ok w => simp only [Except.map, bind, Except.bind]; exact ih rest _ _

theorem loopZip_used : ∀ (pairs : List (PV × VParam)) (res res' : Assoc) (used used' : List Name),
    loopZip pairs res used = .ok (res', used') → used' = used ++ pairs.map (·.2.name) := by
  intro pairs
  induction pairs with
  | nil => intro res res' used used' h; simp only [loopZip, Except.ok.injEq, Prod.mk.injEq] at h; simp [h.2]
  | cons ap tl ih =>
    intro res res' used used' h
    obtain ⟨a, p⟩ := ap
    simp only [loopZip] at h
    cases hv : p.validate a with
    | error e => simp [hv, bind, Except.bind] at h
    | ok w =>
      simp only [hv, bind, Except.bind] at h
      rw [ih _ _ _ _ h]; simp

theorem writeRecord_append (w : Write) (ua : List PV) (v : PV) : writeRecord w ua v = ua ++ writeRecord w [] v := by
  unfold writeRecord; split <;> simp

/-- `used_args` after the positional loop, in terms of the call -/
theorem loopPos_ua (ps : List VParam) (strict : Bool) (recv : Option Name) :
    ∀ (bd : List (Name × PV)) (res res' : Assoc) (used used' : List Name) (ua ua' : List PV),
      loopPos ps strict recv bd res used ua = .ok (res', used', ua') → ua' = ua ++ recorded ps bd := by
  intro bd
  induction bd with
  | nil =>
    intro res res' used used' ua ua' h
    simp only [loopPos, Except.ok.injEq, Prod.mk.injEq] at h
    simp [recorded, h.2.2]
  | cons kv tl ih =>
    intro res res' used used' ua ua' h
    obtain ⟨k, v⟩ := kv
    simp only [loopPos] at h
    cases hf : findP ps k with
    | none =>
      simp only [hf] at h
      split at h
      · cases h
      · rw [ih _ _ _ _ _ _ h, writeRecord_append]
        simp [recorded, hf, List.append_assoc]
    | some p =>
      simp only [hf] at h
      cases hv : p.validate v with
      | error e => simp [hv, bind, Except.bind] at h
      | ok w =>
        simp only [hv, bind, Except.bind] at h
        rw [ih _ _ _ _ _ _ h, writeRecord_append]
        simp [recorded, hf, List.append_assoc]

theorem surplusGuard_of_noVarArgs (c : Cfg) (args : List PV) (kw : List (Name × PV)) (hva : c.sig.varArgs = false) :
    surplusGuard c args kw = true := by
  simp [surplusGuard, hva]

/-- **C12 (processing order).** The dict that `_wrapper_content` hands over — or the exception it raises — is what the items
    of the call give when processed in order: keywords in the caller's order, positionals in signature order, for a function
    with a VAR_POSITIONAL parameter the surplus positionals paired in order with the declared parameters the caller did not
    supply (`strict`: a surplus positional that no such parameter is left to take raises TooManyArguments), then the remaining
    declared parameters in declaration order; the first failing item decides.  Any signature; the decidable guard `surplusGuard`
    (true for every function without `*args`, for every call without surplus positionals, and for every call at all once the
    zip branch takes the surplus positionals from `bound_args[k]` and has the strict test) names the region of the finding
    `varPositionalSurplusDropped`. -/
theorem gate_spec_guarded (c : Cfg) (args : List PV) (kw : List (Name × PV)) (hg : surplusGuard c args kw = true) :
    wrapperContent c args kw = (gate c args kw).out := by
  rw [wrapperContent_eq_seq]
  unfold wrapperSeq gate gateItems
  simp only
  by_cases hi : c.ignoreInput = true
  · simp only [hi, ↓reduceIte, List.contains_nil, Bool.not_false]
    rw [gateOut_absent, List.filter_eq_self.mpr (by simp)]
  · simp only [hi, Bool.false_eq_true, ↓reduceIte, List.append_assoc]
    rw [gateOut_kw c kw _ [] []]
    cases h1 : loopKw c.ps c.strict kw [] [] with
    | error e => simp [Except.bind]
    | ok st1 =>
      obtain ⟨r1, u1⟩ := st1
      simp only [Except.bind]
      -- the parameters not used after the first two loops are the ones the caller did not supply
      have hunused : ∀ (r2 : Assoc) (u2 : List Name) (ua : List PV),
          loopPos c.ps c.strict c.sig.receiver (c.sig.posNames.zip args) r1 u1 [] = .ok (r2, u2, ua) →
          c.ps.filter (fun p => !u2.contains p.name) = unsupplied c args kw := by
        intro r2 u2 ua h2
        unfold unsupplied
        apply List.filter_congr
        intro p hp
        have hsome := findP_isSome_of_mem c.ps p hp
        have hu1 := loopKw_used c.ps c.strict kw [] r1 [] u1 h1 p.name
        have hu2 := loopPos_used c.ps c.strict _ _ r1 r2 u1 u2 [] ua h2 p.name
        have : u2.contains p.name = supplied c.sig args kw p.name := by
          rw [Bool.eq_iff_iff]
          simp only [List.contains_iff_mem, hu2, hu1, supplied, zip_any_key, hsome, and_true, List.not_mem_nil, false_or,
            Bool.or_eq_true]
        rw [this]
      unfold bindPartial
      by_cases hlen : args.length ≤ c.sig.pos.length
      · -- no surplus positional
        have hlen' : ¬ args.length > c.sig.pos.length := by omega
        have hsur : surplusArgs c.sig args = [] := by
          unfold surplusArgs; split
          · exact List.drop_eq_nil_of_le hlen
          · rfl
        have hz : zipped c args kw = [] := by simp [zipped, hsur]
        have hft : ∀ (l : List VParam), l.filter (fun _ => true) = l := fun l => List.filter_eq_self.mpr (by simp)
        simp only [hlen, hlen', ↓reduceIte, List.nil_append, List.isEmpty_nil, decide_false, Bool.false_and, Bool.false_eq_true,
          hsur, List.length_nil, hz, List.map_nil, List.contains_nil, Bool.not_false, hft, Nat.not_lt_zero,
          Bool.and_false, gt_iff_lt]
        rw [gateOut_pos c _ _ r1 u1 []]
        cases h2 : loopPos c.ps c.strict c.sig.receiver (c.sig.posNames.zip args) r1 u1 [] with
        | error e => simp [Except.bind]
        | ok st2 =>
          obtain ⟨r2, u2, ua⟩ := st2
          simp only [Except.bind]
          rw [gateOut_absent, ← hunused r2 u2 ua h2]
          rfl
      · have hlen' : args.length > c.sig.pos.length := by omega
        cases hva : c.sig.varArgs with
        | false => simp [hlen, hlen', hva, gateOut, specFlask_eq, itemOut, specFindP_eq, specDefault_eq, Except.bind]
        | true =>
          -- the zip branch
          have hg' := hg
          simp only [surplusGuard, hva, Bool.not_true, Bool.false_or, hlen, decide_false, Bool.and_eq_true, beq_iff_eq] at hg'
          obtain ⟨hsrc, hstrict⟩ := hg'
          have hzb : zipBranchTest (c.sig.varName == argsName) c.sig.wantsArgs true = true := by simp [zipBranchTest]
          have hsur : surplusArgs c.sig args = args.drop c.sig.pos.length := by simp [surplusArgs, hva]
          have hne : (args.drop c.sig.pos.length).isEmpty = false := by
            cases hd : args.drop c.sig.pos.length with
            | nil => have := List.drop_eq_nil_iff.mp hd; omega
            | cons x xs => rfl
          simp only [hlen, hlen', ↓reduceIte, hva, hzb, decide_true, Bool.not_true, Bool.and_false, Bool.false_eq_true,
            List.nil_append, hne]
          rw [gateOut_pos c _ _ r1 u1 []]
          cases h2 : loopPos c.ps c.strict c.sig.receiver (c.sig.posNames.zip args) r1 u1 [] with
          | error e => simp [Except.bind]
          | ok st2 =>
            obtain ⟨r2, u2, ua⟩ := st2
            simp only [Except.bind]
            have hua : ua = recorded c.ps (c.sig.posNames.zip args) := by
              have := loopPos_ua c.ps c.strict _ _ r1 r2 u1 u2 [] ua h2
              simpa using this
            have hun := hunused r2 u2 ua h2
            have hpairs : zipPairs c.ps args (args.drop c.sig.pos.length) u2 ua = zipped c args kw := by
              unfold zipPairs zipped unusedParams
              rw [hun, hua, hsrc, hsur]
            have hrefuse : zipRefuses c.ps c.strict args (args.drop c.sig.pos.length) u2 ua
                = (c.strict && decide ((surplusArgs c.sig args).length > (unsupplied c args kw).length)) := by
              unfold zipRefuses unusedParams
              rw [hun, hua, hsrc, hsur, hstrict]
            rw [hrefuse, hpairs]
            by_cases hleft : (c.strict && decide ((surplusArgs c.sig args).length > (unsupplied c args kw).length)) = true
            · simp [hleft, gateOut, specFlask_eq, itemOut]
            · simp only [hleft, Bool.false_eq_true, ↓reduceIte, List.nil_append]
              rw [gateOut_zip c _ _ r2 u2]
              cases h3 : loopZip (zipped c args kw) r2 u2 with
              | error e => simp [Except.bind]
              | ok st3 =>
                obtain ⟨r3, u3⟩ := st3
                simp only [Except.bind]
                rw [gateOut_absent]
                have hu3 := loopZip_used _ _ _ _ _ h3
                have hf : c.ps.filter (fun p => !u3.contains p.name)
                    = (unsupplied c args kw).filter (fun p => !((zipped c args kw).map (·.2.name)).contains p.name) := by
                  rw [← hun, List.filter_filter, hu3]
                  apply List.filter_congr
                  intro p _
                  simp only [List.contains_append, Bool.not_or, Bool.and_comm]
                rw [hf]; rfl

/-- **C12 (processing order), functions without `*args`.** -/
theorem gate_spec (c : Cfg) (args : List PV) (kw : List (Name × PV)) (hva : c.sig.varArgs = false) :
    wrapperContent c args kw = (gate c args kw).out :=
  gate_spec_guarded c args kw (surplusGuard_of_noVarArgs c args kw hva)


/-! ## Per-name characterisation of the three loops -/

theorem get?_set (d : Assoc) (k n : Name) (v : PV) :
    (d.set k v).get? n = if k == n then some v else d.get? n := by
  induction d with
  | nil => simp [Assoc.set, Assoc.get?]
  | cons kv rest ih =>
    obtain ⟨k', x⟩ := kv
    simp only [Assoc.set]
    by_cases h : (k' == k) = true
    · have hk : k' = k := by simpa using h
      subst hk
      simp only [h, ↓reduceIte, Assoc.get?]
      split <;> rfl
    · have h' : (k' == k) = false := by simpa using h
      simp only [h', Bool.false_eq_true, ↓reduceIte, Assoc.get?, ih]
      by_cases h2 : (k' == n) = true
      · have : k' = n := by simpa using h2
        subst this
        have : (k == k') = false := by
          cases hx : (k == k') <;> simp_all
        simp [this]
      · have h2' : (k' == n) = false := by simpa using h2
        simp [h2']

def lookupKV (l : List (Name × PV)) (n : Name) : Option PV :=
  match l with
  | [] => none
  | (k, v) :: r => if k == n then some v else lookupKV r n

/-- the keys of a keyword list / dict are pairwise different -/
def keysNodup : List (Name × PV) → Prop
  | [] => True
  | (k, _) :: r => lookupKV r k = none ∧ keysNodup r

/-- what the first two loops write for key `n` holding caller value `v` -/
def written (ps : List VParam) (n : Name) (v : PV) : Option PV :=
  match findP ps n with
  | some p => (match p.validate v with | .ok w => some w | .error _ => none)
  | none => some v

theorem loopKw_get (ps : List VParam) (strict : Bool) :
    ∀ (kw : List (Name × PV)) (res res' : Assoc) (used used' : List Name), keysNodup kw →
      loopKw ps strict kw res used = .ok (res', used') →
      (∀ n, res'.get? n = match lookupKV kw n with | some v => written ps n v | none => res.get? n) ∧
      (∀ n, n ∈ used' ↔ n ∈ used ∨ ((lookupKV kw n).isSome ∧ (findP ps n).isSome)) ∧
      (∀ n v p, lookupKV kw n = some v → findP ps n = some p → ∃ w, p.validate v = .ok w) ∧
      (∀ n v, lookupKV kw n = some v → findP ps n = none → strict = false) := by
  intro kw
  induction kw with
  | nil =>
    intro res res' used used' _ h
    simp only [loopKw, Except.ok.injEq, Prod.mk.injEq, kwStrictTest_eq] at h
    obtain ⟨rfl, rfl⟩ := h
    simp [lookupKV]
  | cons hd tl ih =>
    intro res res' used used' hnd h
    obtain ⟨k, v⟩ := hd
    obtain ⟨hk, hnd'⟩ := hnd
    simp only [loopKw, kwStrictTest_eq] at h
    cases hf : findP ps k with
    | none =>
      simp only [hf] at h
      cases strict
      · simp only [Bool.false_eq_true, ↓reduceIte] at h
        obtain ⟨h1, h2, h3, h4⟩ := ih _ _ _ _ hnd' h
        refine ⟨?_, ?_, ?_, ?_⟩
        · intro n
          rw [h1 n]
          simp only [lookupKV]
          by_cases hkn : (k == n) = true
          · have : k = n := by simpa using hkn
            subst this
            simp [hk, get?_set, written, hf]
          · have hkn' : (k == n) = false := by simpa using hkn
            simp only [hkn', Bool.false_eq_true, ↓reduceIte]
            cases lookupKV tl n <;> simp [get?_set, hkn']
        · intro n
          rw [h2 n]
          simp only [lookupKV]
          by_cases hkn : (k == n) = true
          · have : k = n := by simpa using hkn
            subst this
            simp [hk, hf]
          · have hkn' : (k == n) = false := by simpa using hkn
            simp [hkn']
        · intro n v1 q hl hq
          simp only [lookupKV] at hl
          by_cases hkn : (k == n) = true
          · have : k = n := by simpa using hkn
            subst this
            rw [hf] at hq; cases hq
          · have hkn' : (k == n) = false := by simpa using hkn
            simp only [hkn', Bool.false_eq_true, ↓reduceIte] at hl
            exact h3 n v1 q hl hq
        · intro n v1 hl hq
          rfl
      · simp at h
    | some p =>
      simp only [hf] at h
      have hpn : p.name = k := findP_name ps k p hf
      rw [hpn] at h
      cases hv : p.validate v with
      | error e => simp [hv, bind, Except.bind] at h
      | ok w =>
        simp only [hv, bind, Except.bind] at h
        obtain ⟨h1, h2, h3, h4⟩ := ih _ _ _ _ hnd' h
        refine ⟨?_, ?_, ?_, ?_⟩
        · intro n
          rw [h1 n]
          simp only [lookupKV]
          by_cases hkn : (k == n) = true
          · have : k = n := by simpa using hkn
            subst this
            simp [hk, get?_set, written, hf, hv]
          · have hkn' : (k == n) = false := by simpa using hkn
            simp only [hkn', Bool.false_eq_true, ↓reduceIte]
            cases lookupKV tl n <;> simp [get?_set, hkn']
        · intro n
          rw [h2 n]
          simp only [lookupKV, List.mem_append, List.mem_singleton]
          by_cases hkn : (k == n) = true
          · have : k = n := by simpa using hkn
            subst this
            simp [hk, hf]
          · have hkn' : (k == n) = false := by simpa using hkn
            have : ¬ n = k := by intro hh; subst hh; simp at hkn'
            simp [hkn', this]
        · intro n v1 q hl hq
          simp only [lookupKV] at hl
          by_cases hkn : (k == n) = true
          · have : k = n := by simpa using hkn
            subst this
            simp only [hkn, ↓reduceIte, Option.some.injEq] at hl
            subst hl
            rw [hf] at hq; cases hq
            exact ⟨w, hv⟩
          · have hkn' : (k == n) = false := by simpa using hkn
            simp only [hkn', Bool.false_eq_true, ↓reduceIte] at hl
            exact h3 n v1 q hl hq
        · intro n v1 hl hq
          simp only [lookupKV] at hl
          by_cases hkn : (k == n) = true
          · have : k = n := by simpa using hkn
            subst this
            rw [hf] at hq; cases hq
          · have hkn' : (k == n) = false := by simpa using hkn
            simp only [hkn', Bool.false_eq_true, ↓reduceIte] at hl
            exact h4 n v1 hl hq

theorem loopPos_get (ps : List VParam) (strict : Bool) (recv : Option Name) :
    ∀ (bd : List (Name × PV)) (res res' : Assoc) (used used' : List Name) (ua ua' : List PV), keysNodup bd →
      loopPos ps strict recv bd res used ua = .ok (res', used', ua') →
      (∀ n, res'.get? n = match lookupKV bd n with | some v => written ps n v | none => res.get? n) ∧
      (∀ n, n ∈ used' ↔ n ∈ used ∨ ((lookupKV bd n).isSome ∧ (findP ps n).isSome)) ∧
      (∀ n v p, lookupKV bd n = some v → findP ps n = some p → ∃ w, p.validate v = .ok w) ∧
      (∀ n v, lookupKV bd n = some v → findP ps n = none → (strict && some n != recv) = false) := by
  intro bd
  induction bd with
  | nil =>
    intro res res' used used' ua ua' _ h
    simp only [loopPos, Except.ok.injEq, Prod.mk.injEq, posStrictTest_eq] at h
    obtain ⟨rfl, rfl, _⟩ := h
    simp [lookupKV]
  | cons hd tl ih =>
    intro res res' used used' ua ua' hnd h
    obtain ⟨k, v⟩ := hd
    obtain ⟨hk, hnd'⟩ := hnd
    simp only [loopPos, posStrictTest_eq] at h
    cases hf : findP ps k with
    | none =>
      simp only [hf] at h
      by_cases hs : (strict && some k != recv) = true
      · simp [hs] at h
      · simp only [hs, Bool.false_eq_true, ↓reduceIte] at h
        obtain ⟨h1, h2, h3, h4⟩ := ih _ _ _ _ _ _ hnd' h
        refine ⟨?_, ?_, ?_, ?_⟩
        · intro n
          rw [h1 n]
          simp only [lookupKV]
          by_cases hkn : (k == n) = true
          · have : k = n := by simpa using hkn
            subst this
            simp [hk, get?_set, written, hf]
          · have hkn' : (k == n) = false := by simpa using hkn
            simp only [hkn', Bool.false_eq_true, ↓reduceIte]
            cases lookupKV tl n <;> simp [get?_set, hkn']
        · intro n
          rw [h2 n]
          simp only [lookupKV]
          by_cases hkn : (k == n) = true
          · have : k = n := by simpa using hkn
            subst this
            simp [hk, hf]
          · have hkn' : (k == n) = false := by simpa using hkn
            simp [hkn']
        · intro n v1 q hl hq
          simp only [lookupKV] at hl
          by_cases hkn : (k == n) = true
          · have : k = n := by simpa using hkn
            subst this
            rw [hf] at hq; cases hq
          · have hkn' : (k == n) = false := by simpa using hkn
            simp only [hkn', Bool.false_eq_true, ↓reduceIte] at hl
            exact h3 n v1 q hl hq
        · intro n v1 hl hq
          simp only [lookupKV] at hl
          by_cases hkn : (k == n) = true
          · have : k = n := by simpa using hkn
            subst this
            simpa using hs
          · have hkn' : (k == n) = false := by simpa using hkn
            simp only [hkn', Bool.false_eq_true, ↓reduceIte] at hl
            exact h4 n v1 hl hq
    | some p =>
      simp only [hf] at h
      have hpn : p.name = k := findP_name ps k p hf
      rw [hpn] at h
      cases hv : p.validate v with
      | error e => simp [hv, bind, Except.bind] at h
      | ok w =>
        simp only [hv, bind, Except.bind] at h
        obtain ⟨h1, h2, h3, h4⟩ := ih _ _ _ _ _ _ hnd' h
        refine ⟨?_, ?_, ?_, ?_⟩
        · intro n
          rw [h1 n]
          simp only [lookupKV]
          by_cases hkn : (k == n) = true
          · have : k = n := by simpa using hkn
            subst this
            simp [hk, get?_set, written, hf, hv]
          · have hkn' : (k == n) = false := by simpa using hkn
            simp only [hkn', Bool.false_eq_true, ↓reduceIte]
            cases lookupKV tl n <;> simp [get?_set, hkn']
        · intro n
          rw [h2 n]
          simp only [lookupKV, List.mem_append, List.mem_singleton]
          by_cases hkn : (k == n) = true
          · have : k = n := by simpa using hkn
            subst this
            simp [hk, hf]
          · have hkn' : (k == n) = false := by simpa using hkn
            have : ¬ n = k := by intro hh; subst hh; simp at hkn'
            simp [hkn', this]
        · intro n v1 q hl hq
          simp only [lookupKV] at hl
          by_cases hkn : (k == n) = true
          · have : k = n := by simpa using hkn
            subst this
            simp only [hkn, ↓reduceIte, Option.some.injEq] at hl
            subst hl
            rw [hf] at hq; cases hq
            exact ⟨w, hv⟩
          · have hkn' : (k == n) = false := by simpa using hkn
            simp only [hkn', Bool.false_eq_true, ↓reduceIte] at hl
            exact h3 n v1 q hl hq
        · intro n v1 hl hq
          simp only [lookupKV] at hl
          by_cases hkn : (k == n) = true
          · have : k = n := by simpa using hkn
            subst this
            rw [hf] at hq; cases hq
          · have hkn' : (k == n) = false := by simpa using hkn
            simp only [hkn', Bool.false_eq_true, ↓reduceIte] at hl
            exact h4 n v1 hl hq

/-- the value the third loop writes for an unused declared parameter -/
def fallback (sig : Sig) (p : VParam) : Option PV :=
  match p.ext with
  | some v => (match p.validate v with | .ok w => some w | .error _ => none)
  | none =>
    if p.isRequired then none else
    match p.dflt with
    | some d => some d
    | none => sig.default? p.name

/-- every Parameter name is declared once -/
def namesNodup : List VParam → Prop
  | [] => True
  | p :: r => findP r p.name = none ∧ namesNodup r

theorem findP_cons_nodup (p : VParam) (r : List VParam) (n : Name) (h : findP r p.name = none) :
    findP (p :: r) n = if p.name == n then some p else findP r n := by
  simp only [findP]
  cases hr : findP r n with
  | some q =>
    by_cases hpn : (p.name == n) = true
    · have : p.name = n := by simpa using hpn
      subst this; rw [h] at hr; cases hr
    · simp [hpn]
  | none => rfl

theorem findP_filter (f : Name → Bool) : ∀ (ps : List VParam) (n : Name),
    findP (ps.filter (fun p => f p.name)) n = if f n then findP ps n else none := by
  intro ps
  induction ps with
  | nil => intro n; simp [findP]
  | cons q r ih =>
    intro n
    simp only [List.filter_cons]
    by_cases hq : f q.name = true
    · simp only [hq, ↓reduceIte, findP, ih n]
      by_cases hn : f n = true
      · simp [hn]
      · simp only [hn, Bool.false_eq_true, ↓reduceIte]
        by_cases hqn : (q.name == n) = true
        · have : q.name = n := by simpa using hqn
          subst this; exact absurd hq hn
        · simp [hqn]
    · simp only [hq, Bool.false_eq_true, ↓reduceIte, ih n, findP]
      by_cases hn : f n = true
      · simp only [hn, ↓reduceIte]
        cases findP r n with
        | some x => rfl
        | none =>
          by_cases hqn : (q.name == n) = true
          · have : q.name = n := by simpa using hqn
            subst this; exact absurd hn hq
          · simp [hqn]
      · simp [hn]

theorem namesNodup_filter (f : Name → Bool) : ∀ (ps : List VParam), namesNodup ps → namesNodup (ps.filter (fun p => f p.name)) := by
  intro ps
  induction ps with
  | nil => intro _; trivial
  | cons q r ih =>
    intro ⟨hq, hr⟩
    simp only [List.filter_cons]
    by_cases hfq : f q.name = true
    · simp only [hfq, ↓reduceIte]
      exact ⟨by rw [findP_filter, hq]; simp, ih hr⟩
    · simp only [hfq, Bool.false_eq_true, ↓reduceIte]; exact ih hr

theorem loopUnused_get (sig : Sig) :
    ∀ (l : List VParam) (res res' : Assoc), namesNodup l → loopUnused sig l res = .ok res' →
      (∀ n, res'.get? n = match findP l n with
        | some p => fallback sig p
        | none => res.get? n) ∧
      (∀ n p, findP l n = some p → ∃ val, fallback sig p = some val) := by
  intro l
  induction l with
  | nil =>
    intro res res' _ h
    simp only [loopUnused, Except.ok.injEq] at h; subst h
    simp [findP]
  | cons p rest ih =>
    intro res res' hnd h
    obtain ⟨hp, hnd'⟩ := hnd
    simp only [loopUnused] at h
    -- the value written for p
    have key : ∀ (val : PV), loopUnused sig rest (res.set p.name val) = .ok res' → fallback sig p = some val →
        (∀ n, res'.get? n = match findP (p :: rest) n with
          | some q => fallback sig q
          | none => res.get? n) ∧
        (∀ n q, findP (p :: rest) n = some q → ∃ val, fallback sig q = some val) := by
      intro val hloop hfb
      obtain ⟨i1, i2⟩ := ih _ _ hnd' hloop
      refine ⟨?_, ?_⟩
      · intro n
        rw [i1 n, findP_cons_nodup p rest n hp]
        by_cases hpn : (p.name == n) = true
        · have : p.name = n := by simpa using hpn
          subst this
          simp [hp, get?_set, hfb]
        · have hpn' : (p.name == n) = false := by simpa using hpn
          simp only [hpn', Bool.false_eq_true, ↓reduceIte]
          cases findP rest n <;> simp [get?_set, hpn']
      · intro n q hq
        rw [findP_cons_nodup p rest n hp] at hq
        by_cases hpn : (p.name == n) = true
        · simp only [hpn, ↓reduceIte, Option.some.injEq] at hq
          subst hq; exact ⟨val, hfb⟩
        · simp only [hpn, Bool.false_eq_true, ↓reduceIte] at hq
          exact i2 n q hq
    cases hext : p.ext with
    | some v =>
      simp only [hext] at h
      cases hv : p.validate v with
      | error e => simp [hv, bind, Except.bind] at h
      | ok w =>
        simp only [hv, bind, Except.bind] at h
        exact key w h (by simp [fallback, hext, hv])
    | none =>
      simp only [hext] at h
      by_cases hr : p.isRequired = true
      · simp [hr] at h
      · have hr' : p.isRequired = false := by simpa using hr
        simp only [hr', Bool.false_eq_true, ↓reduceIte] at h
        cases hd : p.dflt with
        | some d =>
          simp only [hd] at h
          exact key d h (by simp [fallback, hext, hr', hd])
        | none =>
          simp only [hd] at h
          cases hsd : sig.default? p.name with
          | none => simp [hsd] at h
          | some d =>
            simp only [hsd] at h
            exact key d h (by simp [fallback, hext, hr', hd, hsd])

theorem lookup_find (l : List (Name × PV)) (n : Name) : (l.find? (·.1 == n)).map (·.2) = lookupKV l n := by
  induction l with
  | nil => rfl
  | cons kv r ih =>
    obtain ⟨k, v⟩ := kv
    simp only [List.find?_cons, lookupKV]
    by_cases h : (k == n) = true
    · simp [h]
    · have h' : (k == n) = false := by simpa using h
      simp [h', ih]

theorem passedPositionally_eq (sig : Sig) (args : List PV) (n : Name) :
    passedPositionally sig args n = (lookupKV (sig.posNames.zip args) n).isSome := by
  unfold passedPositionally
  rw [← lookup_find (sig.posNames.zip args) n]
  cases List.find? (fun x => x.1 == n) (sig.posNames.zip args) <;> rfl

/-- the caller's input for a name, in terms of the two lookup tables -/
theorem callerInput_eq (sig : Sig) (args : List PV) (kw : List (Name × PV)) (n : Name) :
    callerInput sig args kw n =
      match lookupKV (sig.posNames.zip args) n with
      | some v => some v
      | none => lookupKV kw n := by
  unfold callerInput
  rw [← lookup_find (sig.posNames.zip args) n, ← lookup_find kw n]
  cases List.find? (fun x => x.1 == n) (sig.posNames.zip args) <;> simp

/-- what a declared parameter yields when the caller supplied nothing for it: external value, else the default cascade -/
def absentRule (sig : Sig) (p : VParam) : Except VExc (Option PV) :=
  match p.ext with
  | some v => (p.validate v).map some
  | none =>
    if p.isRequired then .error (.parameter p.name .required) else
    match p.dflt with
    | some d => .ok (some d)
    | none =>
      match sig.default? p.name with
      | some d => .ok (some d)
      | none => .error .validate

theorem absentRule_of_fallback (sig : Sig) (p : VParam) (val : PV) (h : fallback sig p = some val) :
    absentRule sig p = .ok (some val) := by
  unfold fallback at h
  unfold absentRule
  cases hext : p.ext with
  | some v =>
    simp only [hext] at h ⊢
    cases hv : p.validate v with
    | error e => simp [hv] at h
    | ok w => simp only [hv, Option.some.injEq] at h; simp [Except.map, h]
  | none =>
    simp only [hext] at h ⊢
    by_cases hr : p.isRequired = true
    · simp [hr] at h
    · have hr' : p.isRequired = false := by simpa using hr
      simp only [hr', Bool.false_eq_true, ↓reduceIte] at h ⊢
      cases hd : p.dflt with
      | some d => simp only [hd, Option.some.injEq] at h; simp [h]
      | none => simp only [hd] at h; simp [h]

/-- the by-name rule for an arbitrary name -/
def byNameAt (c : Cfg) (args : List PV) (kw : List (Name × PV)) (n : Name) : Except VExc (Option PV) :=
  let inp := if c.ignoreInput then none else callerInput c.sig args kw n
  match findP c.ps n with
  | some p =>
    match inp with
    | some v => (p.validate v).map some
    | none => absentRule c.sig p
  | none =>
    match inp with
    | some v => if strictRefuses c args n then .error .tooMany else .ok (some v)
    | none => .ok none

theorem flaskCheck_ok (ps : List VParam) (strict : Bool) (req : Req) (res res' : Assoc)
    (h : flaskCheck ps strict req res = .ok res') : res' = res := by
  unfold flaskCheck at h
  split at h
  · cases req with
    | noContext => simp at h
    | notJson => simpa using h.symm
    | json keys => simp only at h; split at h <;> simp_all
  · simpa using h.symm

/-- **per-name agreement**: after a successful run of `_wrapper_content` on a function without `*args`, the entry of
    the dict for *every* name is exactly what the by-name rule computes for it -/
theorem res_get (c : Cfg) (args : List PV) (kw : List (Name × PV)) (res : Assoc)
    (hva : c.sig.varArgs = false) (hkw : keysNodup kw) (hbd : keysNodup (c.sig.posNames.zip args)) (hps : namesNodup c.ps)
    (h : wrapperContent c args kw = .ok res) :
    ∀ n, byNameAt c args kw n = .ok (res.get? n) := by
  rw [wrapperContent_eq_seq] at h
  unfold wrapperSeq at h
  by_cases hi : c.ignoreInput = true
  · simp only [hi, ↓reduceIte, List.contains_nil, Bool.not_false] at h
    rw [List.filter_eq_self.mpr (by simp)] at h
    cases h3 : loopUnused c.sig c.ps [] with
    | error e => simp [h3, Except.bind] at h
    | ok r =>
      simp only [h3, Except.bind] at h
      have := flaskCheck_ok _ _ _ _ _ h; subst this
      obtain ⟨g1, g2⟩ := loopUnused_get c.sig c.ps [] res hps h3
      intro n
      simp only [byNameAt, hi, ↓reduceIte]
      rw [g1 n]
      cases hf : findP c.ps n with
      | none => simp [Assoc.get?]
      | some p =>
        obtain ⟨val, hval⟩ := g2 n p hf
        simp [hval, absentRule_of_fallback c.sig p val hval]
  · have hi' : c.ignoreInput = false := by simpa using hi
    simp only [hi', Bool.false_eq_true, ↓reduceIte] at h
    cases h1 : loopKw c.ps c.strict kw [] [] with
    | error e => simp [h1, Except.bind] at h
    | ok st1 =>
      obtain ⟨r1, u1⟩ := st1
      simp only [h1, Except.bind] at h
      cases hb : bindPartial c.sig args with
      | error e => simp [hb] at h
      | ok b =>
        simp only [hb] at h
        have hbound : b.named = c.sig.posNames.zip args ∧ b.extras = [] := by
          simp only [bindPartial, hva, Bool.false_eq_true, ↓reduceIte] at hb
          split at hb
          · simp only [Except.ok.injEq] at hb; subst hb; exact ⟨rfl, rfl⟩
          · cases hb
        obtain ⟨hbn, hbe⟩ := hbound
        rw [hbn, hbe] at h
        cases h2 : loopPos c.ps c.strict c.sig.receiver (c.sig.posNames.zip args) r1 u1 [] with
        | error e => simp [h2] at h
        | ok st2 =>
          obtain ⟨r2, u2, ua⟩ := st2
          simp only [h2, List.isEmpty_nil, ↓reduceIte] at h
          cases h3 : loopUnused c.sig (c.ps.filter (fun p => !u2.contains p.name)) r2 with
          | error e => rw [h3] at h; cases h
          | ok r3 =>
            simp only [h3] at h
            have := flaskCheck_ok _ _ _ _ _ h; subst this
            obtain ⟨k1, ku1, kv1, ks1⟩ := loopKw_get c.ps c.strict kw [] r1 [] u1 hkw h1
            obtain ⟨p1, pu1, pv1, pss1⟩ := loopPos_get c.ps c.strict _ _ r1 r2 u1 u2 [] ua hbd h2
            obtain ⟨g1, g2⟩ := loopUnused_get c.sig _ r2 res (namesNodup_filter (fun n => !u2.contains n) c.ps hps) h3
            intro n
            have hrs := g1 n
            rw [findP_filter (fun n => !u2.contains n)] at hrs
            simp only [byNameAt, hi', Bool.false_eq_true, ↓reduceIte, callerInput_eq]
            cases hfp : findP c.ps n with
            | some p =>
              simp only [hfp] at hrs ⊢
              cases hlb : lookupKV (c.sig.posNames.zip args) n with
              | some v =>
                simp only
                obtain ⟨w, hw⟩ := pv1 n v p hlb hfp
                have hmem : n ∈ u2 := (pu1 n).mpr (Or.inr ⟨by simp [hlb], by simp [hfp]⟩)
                have hc : u2.contains n = true := by simpa using hmem
                simp only [hc, Bool.not_true, Bool.false_eq_true, ↓reduceIte] at hrs
                rw [hrs, p1 n, hlb]
                simp [written, hfp, hw, Except.map]
              | none =>
                simp only
                cases hlk : lookupKV kw n with
                | some v =>
                  simp only
                  obtain ⟨w, hw⟩ := kv1 n v p hlk hfp
                  have hmem1 : n ∈ u1 := (ku1 n).mpr (Or.inr ⟨by simp [hlk], by simp [hfp]⟩)
                  have hmem : n ∈ u2 := (pu1 n).mpr (Or.inl hmem1)
                  have hc : u2.contains n = true := by simpa using hmem
                  simp only [hc, Bool.not_true, Bool.false_eq_true, ↓reduceIte] at hrs
                  rw [hrs, p1 n, hlb]; simp only
                  rw [k1 n, hlk]
                  simp [written, hfp, hw, Except.map]
                | none =>
                  simp only
                  have hnot1 : ¬ n ∈ u1 := by
                    intro hh; have := (ku1 n).mp hh; simp [hlk] at this
                  have hnot : ¬ n ∈ u2 := by
                    intro hh; rcases (pu1 n).mp hh with h' | h'
                    · exact hnot1 h'
                    · simp [hlb] at h'
                  have hc : u2.contains n = false := by simpa using hnot
                  simp only [hc, Bool.not_false, ↓reduceIte] at hrs
                  have hfp' : findP (c.ps.filter (fun p => !u2.contains p.name)) n = some p := by
                    rw [findP_filter (fun n => !u2.contains n)]; simp [hnot, hfp]
                  obtain ⟨val, hval⟩ := g2 n p hfp'
                  rw [hrs, hval, absentRule_of_fallback c.sig p val hval]
            | none =>
              simp only [hfp, ite_self] at hrs ⊢
              rw [hrs, p1 n]
              cases hlb : lookupKV (c.sig.posNames.zip args) n with
              | some v =>
                simp only
                have := pss1 n v hlb hfp
                simp only [receiver_eq_spec] at this
                have hr : strictRefuses c args n = false := by
                  simp only [strictRefuses, passedPositionally_eq, hlb, Option.isSome_some, Bool.and_true]
                  cases hst : c.strict with
                  | false => rfl
                  | true =>
                    rw [hst] at this
                    simp only [Bool.true_and, bne_eq_false_iff_eq] at this
                    simp [this]
                simp [hr, written, hfp]
              | none =>
                simp only
                rw [k1 n]
                cases hlk : lookupKV kw n with
                | some v =>
                  simp only
                  have := ks1 n v hlk hfp
                  simp [strictRefuses, this, written, hfp]
                | none => simp [Assoc.get?]


/-! ## C12: a rejecting step blocks the body -/

theorem run_error_of_content_error (c : Cfg) (a : Bool) (m : Mode) (args : List PV) (kw : List (Name × PV)) (e : VExc)
    (h : wrapperContent c args kw = .error e) : runValidate c a m args kw = .error e := by
  simp [runValidate, h, bind, Except.bind]

theorem runValidators_error_names (name : Name) (hne : (name != emptyName) = true) : ∀ (fs : List Step) (j : Nat) (v : PV) (e : VExc),
    runValidators name fs j v = .error e → (∃ w, e = .parameter name w) ∨ (∃ i, e = .foreign i) := by
  intro fs
  induction fs with
  | nil => intro j v e h; simp [runValidators] at h
  | cons f fs ih =>
    intro j v e h
    simp only [runValidators] at h
    cases hf : f v with
    | ok w => rw [hf] at h; exact ih _ _ _ h
    | error r =>
      rw [hf] at h
      cases r with
      | rejected carried =>
        simp only [Except.error.injEq, chainHandlerName_self _ _ hne] at h; exact Or.inl ⟨_, h.symm⟩
      | crash i => simp only [Except.error.injEq] at h; exact Or.inr ⟨_, h.symm⟩

/-- whatever `Parameter.validate` raises is a `ParameterException` carrying the parameter's name — or the foreign
    exception of a validator that did not raise `ValidatorException` -/
theorem validate_error_names (p : VParam) (v : PV) (e : VExc) (h : p.validate v = .error e) :
    (∃ w, e = .parameter p.name w) ∨ (∃ i, e = .foreign i) := by
  rw [validate_unfold] at h
  unfold VParam.validateRef at h
  cases v with
  | none =>
    simp only at h
    split at h
    · simp only [Except.error.injEq] at h; exact Or.inl ⟨_, h.symm⟩
    · cases h
  | obj i =>
    simp only at h
    cases hc : p.conv with
    | none => rw [hc] at h; exact runValidators_error_names _ p.nameNonEmpty _ _ _ _ h
    | some cv =>
      rw [hc] at h
      simp only at h
      cases hcv : cv (.obj i) with
      | ok w => rw [hcv] at h; exact runValidators_error_names _ p.nameNonEmpty _ _ _ _ h
      | error r =>
        rw [hcv] at h
        cases r with
        | rejected carried => simp only [Except.error.injEq] at h; exact Or.inl ⟨_, h.symm⟩
        | crash i => simp only [Except.error.injEq] at h; exact Or.inr ⟨_, h.symm⟩

/-- a keyword item that stops the first loop: its Parameter rejects the value, or (strict) there is no Parameter -/
def kwFails (ps : List VParam) (strict : Bool) (kv : Name × PV) : Prop :=
  match findP ps kv.1 with
  | some p => ∃ e, p.validate kv.2 = .error e
  | none => strict = true

/-- a positional item that stops the second loop -/
def posFails (ps : List VParam) (strict : Bool) (recv : Option Name) (kv : Name × PV) : Prop :=
  match findP ps kv.1 with
  | some p => ∃ e, p.validate kv.2 = .error e
  | none => (strict && some kv.1 != recv) = true

theorem loopKw_blocks (ps : List VParam) (strict : Bool) :
    ∀ (kw : List (Name × PV)) (res : Assoc) (used : List Name),
      (∃ kv ∈ kw, kwFails ps strict kv) → ∃ e, loopKw ps strict kw res used = .error e := by
  intro kw
  induction kw with
  | nil => intro res used ⟨kv, hkv, _⟩; simp at hkv
  | cons hd tl ih =>
    intro res used ⟨kv, hkv, hfail⟩
    obtain ⟨k, v⟩ := hd
    simp only [loopKw, kwStrictTest_eq]
    simp only [List.mem_cons] at hkv
    cases hf : findP ps k with
    | none =>
      simp only
      by_cases hs : strict = true
      · simp [hs]
      · rw [if_neg hs]
        rcases hkv with rfl | hkv
        · simp only [kwFails, hf] at hfail; exact absurd hfail hs
        · exact ih _ _ ⟨kv, hkv, hfail⟩
    | some q =>
      simp only
      cases hv : q.validate v with
      | error e' => exact ⟨e', by simp [bind, Except.bind]⟩
      | ok v' =>
        simp only [bind, Except.bind]
        rcases hkv with rfl | hkv
        · simp only [kwFails, hf, hv] at hfail; obtain ⟨e, he⟩ := hfail; cases he
        · exact ih _ _ ⟨kv, hkv, hfail⟩

theorem loopPos_blocks (ps : List VParam) (strict : Bool) (recv : Option Name) :
    ∀ (bd : List (Name × PV)) (res : Assoc) (used : List Name) (ua : List PV),
      (∃ kv ∈ bd, posFails ps strict recv kv) → ∃ e, loopPos ps strict recv bd res used ua = .error e := by
  intro bd
  induction bd with
  | nil => intro res used ua ⟨kv, hkv, _⟩; simp at hkv
  | cons hd tl ih =>
    intro res used ua ⟨kv, hkv, hfail⟩
    obtain ⟨k, v⟩ := hd
    simp only [loopPos, posStrictTest_eq]
    simp only [List.mem_cons] at hkv
    cases hf : findP ps k with
    | none =>
      simp only
      by_cases hs : (strict && some k != recv) = true
      · simp [hs]
      · rw [if_neg hs]
        rcases hkv with rfl | hkv
        · simp only [posFails, hf] at hfail; exact absurd hfail hs
        · exact ih _ _ _ ⟨kv, hkv, hfail⟩
    | some q =>
      simp only
      cases hv : q.validate v with
      | error e' => exact ⟨e', by simp [bind, Except.bind]⟩
      | ok v' =>
        simp only [bind, Except.bind]
        rcases hkv with rfl | hkv
        · simp only [posFails, hf, hv] at hfail; obtain ⟨e, he⟩ := hfail; cases he
        · exact ih _ _ _ ⟨kv, hkv, hfail⟩

theorem loopZip_blocks : ∀ (pairs : List (PV × VParam)) (res : Assoc) (used : List Name),
    (∃ ap ∈ pairs, ∃ e, ap.2.validate ap.1 = .error e) → ∃ e, loopZip pairs res used = .error e := by
  intro pairs
  induction pairs with
  | nil => intro res used ⟨ap, hap, _⟩; simp at hap
  | cons hd tl ih =>
    intro res used ⟨ap, hap, e, he⟩
    obtain ⟨a, p⟩ := hd
    simp only [loopZip]
    simp only [List.mem_cons] at hap
    cases hv : p.validate a with
    | error e' => exact ⟨e', by simp [bind, Except.bind]⟩
    | ok v' =>
      simp only [bind, Except.bind]
      rcases hap with rfl | hap
      · simp only at he; rw [hv] at he; cases he
      · exact ih _ _ ⟨ap, hap, e, he⟩

/-- an unused declared parameter that stops the third loop: its external value is rejected, or it has no value and is
    required, or it has no value and there is no default anywhere -/
def absentFails (sig : Sig) (p : VParam) : Prop :=
  match p.ext with
  | some v => ∃ e, p.validate v = .error e
  | none => p.isRequired = true ∨ (p.dflt = none ∧ sig.default? p.name = none)

theorem loopUnused_blocks (sig : Sig) : ∀ (l : List VParam) (res : Assoc),
    (∃ p ∈ l, absentFails sig p) → ∃ e, loopUnused sig l res = .error e := by
  intro l
  induction l with
  | nil => intro res ⟨p, hp, _⟩; simp at hp
  | cons q tl ih =>
    intro res ⟨p, hp, hfail⟩
    simp only [loopUnused]
    simp only [List.mem_cons] at hp
    cases hext : q.ext with
    | some v =>
      simp only
      cases hv : q.validate v with
      | error e' => exact ⟨e', by simp [bind, Except.bind]⟩
      | ok w =>
        simp only [bind, Except.bind]
        rcases hp with rfl | hp
        · simp only [absentFails, hext, hv] at hfail; obtain ⟨e, he⟩ := hfail; cases he
        · exact ih _ ⟨p, hp, hfail⟩
    | none =>
      simp only
      by_cases hr : q.isRequired = true
      · simp [hr]
      · simp only [hr, Bool.false_eq_true, ↓reduceIte]
        cases hd : q.dflt with
        | some d =>
          simp only
          rcases hp with rfl | hp
          · simp only [absentFails, hext, hd] at hfail; simp [hr] at hfail
          · exact ih _ ⟨p, hp, hfail⟩
        | none =>
          simp only
          cases hsd : sig.default? q.name with
          | some d =>
            simp only
            rcases hp with rfl | hp
            · simp only [absentFails, hext, hd, hsd] at hfail; simp [hr] at hfail
            · exact ih _ ⟨p, hp, hfail⟩
          | none => exact ⟨_, rfl⟩

/-- **C12 (gate, keyword loop).** Any signature (also `*args`), any mode, sync or async: if some keyword argument is
    rejected at *any* step of the chain of its Parameter (or, with strict, has no Parameter), the body does not run. -/
theorem reject_blocks_body_kw (c : Cfg) (a : Bool) (m : Mode) (args : List PV) (kw : List (Name × PV))
    (hi : c.ignoreInput = false) (h : ∃ kv ∈ kw, kwFails c.ps c.strict kv) :
    ∃ e, runValidate c a m args kw = .error e := by
  obtain ⟨e, he⟩ := loopKw_blocks c.ps c.strict kw [] [] h
  refine ⟨e, run_error_of_content_error c a m args kw e ?_⟩
  rw [wrapperContent_eq_seq]
  simp [wrapperSeq, hi, he, Except.bind]

/-- **C12 (gate, positional loop).** The same for a positional argument bound to a named parameter. -/
theorem reject_blocks_body_pos (c : Cfg) (a : Bool) (m : Mode) (args : List PV) (kw : List (Name × PV))
    (hi : c.ignoreInput = false) (h : ∃ kv ∈ c.sig.posNames.zip args, posFails c.ps c.strict c.sig.receiver kv) :
    ∃ e, runValidate c a m args kw = .error e := by
  suffices hs : ∃ e, wrapperSeq c args kw = .error e by
    obtain ⟨e, he⟩ := hs
    exact ⟨e, run_error_of_content_error c a m args kw e (by rw [wrapperContent_eq_seq]; exact he)⟩
  simp only [wrapperSeq, hi, Bool.false_eq_true, ↓reduceIte]
  cases h1 : loopKw c.ps c.strict kw [] [] with
  | error e => exact ⟨e, rfl⟩
  | ok st1 =>
    simp only [Except.bind]
    cases hb : bindPartial c.sig args with
    | error e => exact ⟨e, rfl⟩
    | ok b =>
      have hbn : ∀ kv ∈ c.sig.posNames.zip args, kv ∈ b.named := by
        unfold bindPartial at hb
        split at hb
        · simp only [Except.ok.injEq] at hb; subst hb; exact fun kv h => h
        · split at hb
          · split at hb
            · simp only [Except.ok.injEq] at hb; subst hb; exact fun kv h => h
            · simp only [Except.ok.injEq] at hb; subst hb; exact fun kv h => List.mem_append_left _ h
          · cases hb
      obtain ⟨e, he⟩ := loopPos_blocks c.ps c.strict c.sig.receiver b.named st1.1 st1.2 []
        (by obtain ⟨kv, hkv, hf⟩ := h; exact ⟨kv, hbn kv hkv, hf⟩)
      exact ⟨e, by simp [he]⟩

/-- **C12 (gate, `*args` branch).** If the positional loop reaches the `zip` of the surplus positionals with the
    parameters not used so far and one of these pairs is rejected, the body does not run. -/
theorem reject_blocks_body_zip_of_loops (c : Cfg) (a : Bool) (m : Mode) (args : List PV) (kw : List (Name × PV))
    (hi : c.ignoreInput = false) (r1 : Assoc) (u1 : List Name) (b : Bound) (r2 : Assoc) (u2 : List Name) (ua : List PV)
    (h1 : loopKw c.ps c.strict kw [] [] = .ok (r1, u1)) (hb : bindPartial c.sig args = .ok b)
    (h2 : loopPos c.ps c.strict c.sig.receiver b.named r1 u1 [] = .ok (r2, u2, ua)) (hex : b.extras.isEmpty = false)
    (h : ∃ ap ∈ zipPairs c.ps args b.extras u2 ua, ∃ e, ap.2.validate ap.1 = .error e) :
    ∃ e, runValidate c a m args kw = .error e := by
  obtain ⟨e, he⟩ := loopZip_blocks (zipPairs c.ps args b.extras u2 ua) r2 u2 h
  by_cases hz : zipRefuses c.ps c.strict args b.extras u2 ua = true
  · refine ⟨.tooMany, run_error_of_content_error c a m args kw _ ?_⟩
    rw [wrapperContent_eq_seq]
    simp [wrapperSeq, hi, h1, hb, h2, hex, hz, Except.bind]
  · refine ⟨e, run_error_of_content_error c a m args kw e ?_⟩
    rw [wrapperContent_eq_seq]
    simp [wrapperSeq, hi, h1, hb, h2, hex, hz, he, Except.bind]

theorem gateOut_first_error (c : Cfg) : ∀ (pre : List Item) (it : Item) (post : List Item) (res : Assoc) (e : VExc),
    (∀ i ∈ pre, ∃ r, itemOut c i = .ok r) → itemOut c it = .error e → gateOut c (pre ++ it :: post) res = .error e := by
  intro pre
  induction pre with
  | nil => intro it post res e _ h; simp [gateOut, specFlask_eq, h]
  | cons i pre ih =>
    intro it post res e hpre h
    obtain ⟨r, hr⟩ := hpre i (by simp)
    have hpre' : ∀ j ∈ pre, ∃ r, itemOut c j = .ok r := fun j hj => hpre j (by simp [hj])
    simp only [List.cons_append, gateOut, specFlask_eq, hr]
    cases r with
    | none => exact ih it post res e hpre' h
    | some nv => obtain ⟨n, v⟩ := nv; exact ih it post _ e hpre' h

theorem gateOut_error_of_mem (c : Cfg) : ∀ (items : List Item) (res : Assoc) (it : Item) (e : VExc),
    it ∈ items → itemOut c it = .error e → ∃ e', gateOut c items res = .error e' := by
  intro items
  induction items with
  | nil => intro res it e h; simp at h
  | cons i tl ih =>
    intro res it e hmem h
    simp only [gateOut, specFlask_eq]
    cases hi : itemOut c i with
    | error e' => exact ⟨e', rfl⟩
    | ok r =>
      simp only [List.mem_cons] at hmem
      rcases hmem with rfl | hmem
      · rw [h] at hi; cases hi
      · cases r with
        | none => exact ih res it e hmem h
        | some nv => obtain ⟨n, v⟩ := nv; exact ih _ it e hmem h

/-- **C12 (gate), any signature under the guard `surplusGuard`.** Any mode, sync or async: if *any* item of the call fails — a
    keyword or positional value rejected at any step of its chain, a surplus positional (`*args`) rejected by the chain of the
    declared parameter it is handed to, a surplus argument in strict mode, a rejected external value, a required parameter
    without value, a parameter without any default — the body does not run. -/
theorem reject_blocks_body_guarded (c : Cfg) (a : Bool) (m : Mode) (args : List PV) (kw : List (Name × PV))
    (hg : surplusGuard c args kw = true) (it : Item) (e : VExc) (hit : it ∈ gateItems c args kw) (hrej : itemOut c it = .error e) :
    ∃ e', runValidate c a m args kw = .error e' := by
  obtain ⟨e', he'⟩ := gateOut_error_of_mem c (gateItems c args kw) [] it e hit hrej
  exact ⟨e', run_error_of_content_error c a m args kw e' (by rw [gate_spec_guarded c args kw hg]; exact he')⟩

/-- **C12 (gate).** Function without `*args`, any mode, sync or async: if *any* item of the call fails — a keyword or
    positional value rejected at any step of its chain, a surplus argument in strict mode, a rejected external value, a
    required parameter without value, a parameter without any default — the body does not run. -/
theorem reject_blocks_body (c : Cfg) (a : Bool) (m : Mode) (args : List PV) (kw : List (Name × PV))
    (hva : c.sig.varArgs = false) (it : Item) (e : VExc) (hit : it ∈ gateItems c args kw) (hrej : itemOut c it = .error e) :
    ∃ e', runValidate c a m args kw = .error e' :=
  reject_blocks_body_guarded c a m args kw (surplusGuard_of_noVarArgs c args kw hva) it e hit hrej

/-- **C12 (which exception).** The exception the caller sees is the one of the *first* failing item in processing order
    (keywords in the caller's order, then positionals in signature order, then the unused parameters in declaration
    order); by `itemOut_error_names` it is a `ParameterException` naming that item's parameter, `TooManyArguments` for a
    surplus argument in strict mode, or `ValidateException`. -/
theorem first_rejecting_decides_guarded (c : Cfg) (a : Bool) (m : Mode) (args : List PV) (kw : List (Name × PV))
    (hg : surplusGuard c args kw = true) (pre post : List Item) (it : Item) (e : VExc)
    (hsplit : gateItems c args kw = pre ++ it :: post) (hpre : ∀ i ∈ pre, ∃ r, itemOut c i = .ok r)
    (hrej : itemOut c it = .error e) :
    runValidate c a m args kw = .error e := by
  apply run_error_of_content_error
  rw [gate_spec_guarded c args kw hg]
  simp only [gate, hsplit]
  exact gateOut_first_error c pre it post [] e hpre hrej

theorem first_rejecting_decides (c : Cfg) (a : Bool) (m : Mode) (args : List PV) (kw : List (Name × PV))
    (hva : c.sig.varArgs = false) (pre post : List Item) (it : Item) (e : VExc)
    (hsplit : gateItems c args kw = pre ++ it :: post) (hpre : ∀ i ∈ pre, ∃ r, itemOut c i = .ok r)
    (hrej : itemOut c it = .error e) :
    runValidate c a m args kw = .error e :=
  first_rejecting_decides_guarded c a m args kw (surplusGuard_of_noVarArgs c args kw hva) pre post it e hsplit hpre hrej

/-- **C12 (gate, the surplus positionals of `*args`), stated over the call.** The i-th surplus positional is handed to the i-th
    declared parameter the caller did not supply (declaration order): if that parameter's chain rejects it, the body does not
    run.  Under the guard `surplusGuard` (region of the finding `varPositionalSurplusDropped`). -/
theorem reject_blocks_body_zip (c : Cfg) (a : Bool) (m : Mode) (args : List PV) (kw : List (Name × PV))
    (hg : surplusGuard c args kw = true) (hi : c.ignoreInput = false) (v : PV) (p : VParam)
    (hmem : (v, p) ∈ zipped c args kw) (hrej : ∃ e, p.validate v = .error e) :
    ∃ e, runValidate c a m args kw = .error e := by
  obtain ⟨e, he⟩ := hrej
  refine reject_blocks_body_guarded c a m args kw hg (.zip p v) e ?_ ?_
  · unfold gateItems
    simp only [hi, Bool.false_eq_true, ↓reduceIte, List.mem_append, List.mem_map]
    exact Or.inl (Or.inr ⟨(v, p), hmem, rfl⟩)
  · simp [itemOut, ← validate_is_chain_fold, he, Except.map]

/-- the full statement of the strict clause for surplus positionals: with `strict=True` a surplus positional that no declared
    parameter is left to take — an argument without declared Parameter — stops the call, whatever the signature -/
def strict_surplus_positional_full : Prop :=
  ∀ (c : Cfg) (a : Bool) (m : Mode) (args : List PV) (kw : List (Name × PV)),
    c.ignoreInput = false → c.strict = true → (surplusArgs c.sig args).length > (unsupplied c args kw).length →
    ∃ e, runValidate c a m args kw = .error e

/-- **C12 (strict, surplus positionals), under the guard `surplusGuard`**; the exception is `TooManyArguments` when nothing
    earlier in processing order failed (`first_rejecting_decides_guarded` with the item `.surplusLeft`). -/
theorem strict_surplus_positional_partial (c : Cfg) (a : Bool) (m : Mode) (args : List PV) (kw : List (Name × PV))
    (hg : surplusGuard c args kw = true) (hi : c.ignoreInput = false) (hs : c.strict = true)
    (hmore : (surplusArgs c.sig args).length > (unsupplied c args kw).length) :
    ∃ e, runValidate c a m args kw = .error e := by
  refine reject_blocks_body_guarded c a m args kw hg .surplusLeft .tooMany ?_ rfl
  unfold gateItems
  simp [hi, hs, hmore]

/-- the parameter an item is about -/
def Item.paramName : Item → Option Name
  | .kw k _ => some k
  | .pos k _ => some k
  | .absent p => some p.name
  | .zip p _ => some p.name
  | .surplusPos => none
  | .surplusLeft => none

/-- what a failing item raises: a `ParameterException` carrying *its* parameter's name (a step of the chain rejected, or
    the value is None / missing and the parameter is required), `TooManyArguments` (strict, no Parameter declared),
    `ValidateException` (no default anywhere / surplus positional), or a validator's foreign exception -/
theorem itemOut_error_names (c : Cfg) (it : Item) (e : VExc) (h : itemOut c it = .error e) :
    (∃ n w, it.paramName = some n ∧ e = .parameter n w) ∨ e = .tooMany ∨ e = .validate ∨ (∃ i, e = .foreign i) := by
  have hval : ∀ (p : VParam) (v : PV) (k : Name), p.name = k →
      (specValidate p v).map (fun w => some (k, w)) = .error e →
      (∃ w, e = .parameter k w) ∨ (∃ i, e = .foreign i) := by
    intro p v k hk hm
    rw [← validate_is_chain_fold] at hm
    cases hv : p.validate v with
    | ok w => simp [hv, Except.map] at hm
    | error e' =>
      simp only [hv, Except.map, Except.error.injEq] at hm
      subst hm
      rcases validate_error_names p v e' hv with ⟨w, hw⟩ | hf
      · exact Or.inl ⟨w, by rw [hw, hk]⟩
      · exact Or.inr hf
  cases it with
  | kw k v =>
    simp only [itemOut, specFindP_eq, specDefault_eq] at h
    cases hf : findP c.ps k with
    | some p =>
      rw [hf] at h
      rcases hval p v k (findP_name _ _ _ hf) h with ⟨w, hw⟩ | hfo
      · exact Or.inl ⟨k, w, rfl, hw⟩
      · exact Or.inr (Or.inr (Or.inr hfo))
    | none =>
      rw [hf] at h
      simp only at h
      split at h
      · simp only [Except.error.injEq] at h; exact Or.inr (Or.inl h.symm)
      · cases h
  | surplusPos => simp only [itemOut, specFindP_eq, specDefault_eq, Except.error.injEq] at h; exact Or.inr (Or.inr (Or.inl h.symm))
  | surplusLeft => simp only [itemOut, Except.error.injEq] at h; exact Or.inr (Or.inl h.symm)
  | zip p v =>
    simp only [itemOut] at h
    rcases hval p v p.name rfl h with ⟨w, hw⟩ | hfo
    · exact Or.inl ⟨p.name, w, rfl, hw⟩
    · exact Or.inr (Or.inr (Or.inr hfo))
  | pos k v =>
    simp only [itemOut, specFindP_eq, specDefault_eq] at h
    cases hf : findP c.ps k with
    | some p =>
      rw [hf] at h
      rcases hval p v k (findP_name _ _ _ hf) h with ⟨w, hw⟩ | hfo
      · exact Or.inl ⟨k, w, rfl, hw⟩
      · exact Or.inr (Or.inr (Or.inr hfo))
    | none =>
      rw [hf] at h
      simp only at h
      split at h
      · simp only [Except.error.injEq] at h; exact Or.inr (Or.inl h.symm)
      · cases h
  | absent p =>
    simp only [itemOut, specFindP_eq, specDefault_eq] at h
    cases he : p.ext with
    | some v =>
      rw [he] at h
      rcases hval p v p.name rfl h with ⟨w, hw⟩ | hfo
      · exact Or.inl ⟨p.name, w, rfl, hw⟩
      · exact Or.inr (Or.inr (Or.inr hfo))
    | none =>
      rw [he] at h
      simp only at h
      split at h
      · simp only [Except.error.injEq] at h; exact Or.inl ⟨p.name, _, rfl, h.symm⟩
      · cases hd : p.dflt with
        | some d => rw [hd] at h; cases h
        | none =>
          rw [hd] at h
          simp only at h
          cases hsd : c.sig.default? p.name with
          | some d => rw [hsd] at h; cases h
          | none => rw [hsd] at h; simp only [Except.error.injEq] at h; exact Or.inr (Or.inr (Or.inl h.symm))

/-- **C12 (strict).** With `strict=True` a keyword argument without declared Parameter stops the call — any signature. -/
theorem strict_surplus_kw (c : Cfg) (a : Bool) (m : Mode) (args : List PV) (kw : List (Name × PV)) (k : Name) (v : PV)
    (hi : c.ignoreInput = false) (hs : c.strict = true) (hmem : (k, v) ∈ kw) (hnone : findP c.ps k = none) :
    ∃ e, runValidate c a m args kw = .error e :=
  reject_blocks_body_kw c a m args kw hi ⟨(k, v), hmem, by simp [kwFails, hnone, hs]⟩

/-- who is *not* the receiver: every name other than `self`, and every name at all when the first parameter of the signature is
    not called `self` (a plain function; `self` in a later position is an ordinary parameter) -/
theorem not_receiver (sig : Sig) (k : Name) (h : k ≠ selfName ∨ firstParameter sig ≠ some selfName) :
    some k ≠ specReceiver sig := by
  unfold specReceiver
  rcases h with h | h
  · split
    · intro hh; exact h (Option.some.inj hh)
    · intro hh; cases hh
  · rw [if_neg h]; intro hh; cases hh

/-- … and so does a positional argument bound to a named parameter without declared Parameter — unless it is the receiver
    (the first parameter of the signature, called `self`). -/
theorem strict_surplus_pos (c : Cfg) (a : Bool) (m : Mode) (args : List PV) (kw : List (Name × PV)) (k : Name) (v : PV)
    (hi : c.ignoreInput = false) (hs : c.strict = true) (hmem : (k, v) ∈ c.sig.posNames.zip args) (hnone : findP c.ps k = none)
    (hrecv : some k ≠ specReceiver c.sig) :
    ∃ e, runValidate c a m args kw = .error e :=
  reject_blocks_body_pos c a m args kw hi ⟨(k, v), hmem, by simp [posFails, hnone, hs, receiver_eq_spec, hrecv]⟩

/-- **C12 (strict, which exception).** It is `TooManyArguments` when nothing earlier in processing order failed. -/
theorem strict_surplus (c : Cfg) (a : Bool) (m : Mode) (args : List PV) (kw : List (Name × PV))
    (hva : c.sig.varArgs = false) (hs : c.strict = true) (pre post : List Item) (k : Name) (v : PV)
    (hnone : findP c.ps k = none)
    (hsplit : gateItems c args kw = pre ++ Item.kw k v :: post ∨
      (some k ≠ specReceiver c.sig ∧ gateItems c args kw = pre ++ Item.pos k v :: post))
    (hpre : ∀ i ∈ pre, ∃ r, itemOut c i = .ok r) :
    runValidate c a m args kw = .error .tooMany := by
  rcases hsplit with h | ⟨hk, h⟩
  · exact first_rejecting_decides c a m args kw hva pre post _ _ h hpre (by simp [itemOut, specFindP_eq, specDefault_eq, hnone, hs])
  · exact first_rejecting_decides c a m args kw hva pre post _ _ h hpre (by simp [itemOut, specFindP_eq, specDefault_eq, hnone, hs, hk])

/-- `Parameter.validate(None)`: raises for a required parameter, returns None *without touching conversion or
    validators* otherwise -/
theorem validate_none (p : VParam) :
    p.validate .none = (if p.requiredArg = true ∧ p.dflt = none then .error (.parameter p.name .required) else .ok .none)
    ∧ specJournal p .none = [] := by
  refine ⟨?_, by simp [specJournal]⟩
  simp only [validate_unfold, VParam.validateRef, isRequired_eq, VParam.specRequired]
  cases p.requiredArg <;> cases p.dflt <;> simp

/-- **C12 (required).** A required parameter (`required=True` and no default given) that receives None by keyword or
    positionally stops the call — any signature. -/
theorem required_none_blocks (c : Cfg) (a : Bool) (m : Mode) (args : List PV) (kw : List (Name × PV)) (k : Name) (p : VParam)
    (hi : c.ignoreInput = false) (hp : findP c.ps k = some p) (hreq : p.requiredArg = true) (hd : p.dflt = none)
    (hmem : (k, PV.none) ∈ kw ∨ (k, PV.none) ∈ c.sig.posNames.zip args) :
    ∃ e, runValidate c a m args kw = .error e := by
  have hv : ∃ e, p.validate .none = .error e :=
    ⟨.parameter p.name .required, by rw [(validate_none p).1]; simp [hreq, hd]⟩
  rcases hmem with h | h
  · exact reject_blocks_body_kw c a m args kw hi ⟨_, h, by simpa [kwFails, hp] using hv⟩
  · exact reject_blocks_body_pos c a m args kw hi ⟨_, h, by simpa [posFails, hp] using hv⟩

/-- **C12 (required).** A required parameter that the caller does not supply and that has no external value stops the
    call; the exception is the `ParameterException` naming it when nothing earlier failed. -/
theorem required_missing_blocks (c : Cfg) (a : Bool) (m : Mode) (args : List PV) (kw : List (Name × PV)) (p : VParam)
    (hva : c.sig.varArgs = false) (hp : p ∈ c.ps) (hsup : c.ignoreInput = true ∨ supplied c.sig args kw p.name = false)
    (hext : p.ext = none) (hreq : p.requiredArg = true) (hd : p.dflt = none) :
    (∃ e, runValidate c a m args kw = .error e) ∧
    (∀ pre post, gateItems c args kw = pre ++ Item.absent p :: post → (∀ i ∈ pre, ∃ r, itemOut c i = .ok r) →
      runValidate c a m args kw = .error (.parameter p.name .required)) := by
  have hout : itemOut c (.absent p) = .error (.parameter p.name .required) := by
    simp [itemOut, specFindP_eq, specDefault_eq, hext, VParam.specRequired, hreq, hd]
  refine ⟨?_, fun pre post hs hpre => first_rejecting_decides c a m args kw hva pre post _ _ hs hpre hout⟩
  apply reject_blocks_body c a m args kw hva (.absent p) _ _ hout
  unfold gateItems
  rcases hsup with h | h
  · simp only [h, ↓reduceIte, List.mem_map]; exact ⟨p, hp, rfl⟩
  · by_cases hi : c.ignoreInput = true
    · simp only [hi, ↓reduceIte, List.mem_map]; exact ⟨p, hp, rfl⟩
    · have hz : zipped c args kw = [] := by simp [zipped, surplusArgs, hva]
      simp only [hi, Bool.false_eq_true, ↓reduceIte, List.mem_append, List.mem_map, List.mem_filter, unsupplied, hz, List.map_nil,
        List.contains_nil, Bool.not_false, and_true]
      exact Or.inr ⟨p, ⟨hp, by simp [h]⟩, rfl⟩

/-- **C12 (default cascade, failure end).** A non-required parameter that is not supplied, has no external value, no
    Parameter default and no signature default stops the call with `ValidateException` (when nothing earlier failed). -/
theorem missing_without_default_blocks (c : Cfg) (a : Bool) (m : Mode) (args : List PV) (kw : List (Name × PV)) (p : VParam)
    (hva : c.sig.varArgs = false) (hp : p ∈ c.ps) (hsup : c.ignoreInput = true ∨ supplied c.sig args kw p.name = false)
    (hext : p.ext = none) (hreq : p.requiredArg = false) (hd : p.dflt = none) (hsd : c.sig.default? p.name = none) :
    (∃ e, runValidate c a m args kw = .error e) ∧
    (∀ pre post, gateItems c args kw = pre ++ Item.absent p :: post → (∀ i ∈ pre, ∃ r, itemOut c i = .ok r) →
      runValidate c a m args kw = .error .validate) := by
  have hout : itemOut c (.absent p) = .error .validate := by
    simp [itemOut, specFindP_eq, specDefault_eq, hext, VParam.specRequired, hreq, hd, hsd]
  refine ⟨?_, fun pre post hs hpre => first_rejecting_decides c a m args kw hva pre post _ _ hs hpre hout⟩
  apply reject_blocks_body c a m args kw hva (.absent p) _ _ hout
  unfold gateItems
  rcases hsup with h | h
  · simp only [h, ↓reduceIte, List.mem_map]; exact ⟨p, hp, rfl⟩
  · by_cases hi : c.ignoreInput = true
    · simp only [hi, ↓reduceIte, List.mem_map]; exact ⟨p, hp, rfl⟩
    · have hz : zipped c args kw = [] := by simp [zipped, surplusArgs, hva]
      simp only [hi, Bool.false_eq_true, ↓reduceIte, List.mem_append, List.mem_map, List.mem_filter, unsupplied, hz, List.map_nil,
        List.contains_nil, Bool.not_false, and_true]
      exact Or.inr ⟨p, ⟨hp, by simp [h]⟩, rfl⟩

/-! ### hypotheses in terms of `List.Nodup` -/

theorem lookupKV_none_of_not_mem : ∀ (l : List (Name × PV)) (k : Name), k ∉ l.map (·.1) → lookupKV l k = none := by
  intro l
  induction l with
  | nil => intro k _; rfl
  | cons kv tl ih =>
    intro k h
    obtain ⟨k', v⟩ := kv
    simp only [List.map_cons, List.mem_cons, not_or] at h
    have : (k' == k) = false := by simpa using fun hh => h.1 hh.symm
    simp [lookupKV, this, ih k h.2]

theorem keysNodup_of_nodup : ∀ (l : List (Name × PV)), (l.map (·.1)).Nodup → keysNodup l := by
  intro l
  induction l with
  | nil => intro _; trivial
  | cons kv tl ih =>
    intro h
    obtain ⟨k, v⟩ := kv
    simp only [List.map_cons, List.nodup_cons] at h
    exact ⟨lookupKV_none_of_not_mem tl k h.1, ih h.2⟩

theorem keysNodup_zip : ∀ (l : List Name) (args : List PV), l.Nodup → keysNodup (l.zip args) := by
  intro l
  induction l with
  | nil => intro args _; simp [keysNodup]
  | cons a l ih =>
    intro args h
    cases args with
    | nil => simp [keysNodup]
    | cons x xs =>
      simp only [List.nodup_cons] at h
      refine ⟨lookupKV_none_of_not_mem _ a ?_, ih xs h.2⟩
      intro hm
      simp only [List.mem_map] at hm
      obtain ⟨kv, hkv, hk⟩ := hm
      have := (List.of_mem_zip hkv).1
      rw [hk] at this
      exact h.1 this

theorem findP_none_of_not_mem : ∀ (ps : List VParam) (k : Name), k ∉ ps.map (·.name) → findP ps k = none := by
  intro ps
  induction ps with
  | nil => intro k _; rfl
  | cons q r ih =>
    intro k h
    simp only [List.map_cons, List.mem_cons, not_or] at h
    have : (q.name == k) = false := by simpa using fun hh => h.1 hh.symm
    simp [findP, ih k h.2, this]

theorem namesNodup_of_nodup : ∀ (ps : List VParam), (ps.map (·.name)).Nodup → namesNodup ps := by
  intro ps
  induction ps with
  | nil => intro _; trivial
  | cons q r ih =>
    intro h
    simp only [List.map_cons, List.nodup_cons] at h
    exact ⟨findP_none_of_not_mem r q.name h.1, ih h.2⟩

/-- `res_get` with the hypotheses in their everyday form: no `*args`; keyword names, positional parameter names and
    Parameter names are pairwise different -/
theorem res_get' (c : Cfg) (args : List PV) (kw : List (Name × PV)) (res : Assoc)
    (hva : c.sig.varArgs = false) (hkw : (kw.map (·.1)).Nodup) (hpos : c.sig.posNames.Nodup) (hps : (c.ps.map (·.name)).Nodup)
    (h : wrapperContent c args kw = .ok res) :
    ∀ n, byNameAt c args kw n = .ok (res.get? n) :=
  res_get c args kw res hva (keysNodup_of_nodup kw hkw) (keysNodup_zip _ args hpos) (namesNodup_of_nodup c.ps hps) h

/-- **C12 (None).** A non-required parameter that receives None gets None — no conversion, no validator runs
    (`validate_none`) — and None is what is filed for it. -/
theorem nonrequired_none_passes_unvalidated (c : Cfg) (args : List PV) (kw : List (Name × PV)) (res : Assoc) (n : Name) (p : VParam)
    (hva : c.sig.varArgs = false) (hkw : (kw.map (·.1)).Nodup) (hpos : c.sig.posNames.Nodup) (hps : (c.ps.map (·.name)).Nodup)
    (hi : c.ignoreInput = false) (hp : findP c.ps n = some p) (hnr : ¬(p.requiredArg = true ∧ p.dflt = none))
    (hin : callerInput c.sig args kw n = some .none)
    (h : wrapperContent c args kw = .ok res) : res.get? n = some .none := by
  have := res_get' c args kw res hva hkw hpos hps h n
  simp only [byNameAt, hi, Bool.false_eq_true, ↓reduceIte, hp, hin, (validate_none p).1, hnr, Except.map,
    Except.ok.injEq] at this
  exact this.symm

/-- **C12 (default cascade).** A declared parameter that the caller does not supply (or `ignore_input`) and that has no
    external value: if the call gets through, the parameter is not required and the value filed for it is the Parameter
    default if one was given, else the signature default (which then exists). -/
theorem default_cascade (c : Cfg) (args : List PV) (kw : List (Name × PV)) (res : Assoc) (n : Name) (p : VParam)
    (hva : c.sig.varArgs = false) (hkw : (kw.map (·.1)).Nodup) (hpos : c.sig.posNames.Nodup) (hps : (c.ps.map (·.name)).Nodup)
    (hp : findP c.ps n = some p) (hin : c.ignoreInput = true ∨ callerInput c.sig args kw n = none) (hext : p.ext = none)
    (h : wrapperContent c args kw = .ok res) :
    ¬(p.requiredArg = true ∧ p.dflt = none) ∧
    ∃ d, res.get? n = some d ∧ (p.dflt = some d ∨ (p.dflt = none ∧ c.sig.default? n = some d)) := by
  have hg := res_get' c args kw res hva hkw hpos hps h n
  have hpn := findP_name _ _ _ hp
  have hinp : (if c.ignoreInput = true then none else callerInput c.sig args kw n) = none := by
    rcases hin with h | h
    · simp [h]
    · simp [h]
  simp only [byNameAt, hp, hinp, absentRule, hext, isRequired_eq, VParam.specRequired, hpn] at hg
  by_cases hr : p.requiredArg = true ∧ p.dflt = none
  · simp [hr.1, hr.2] at hg
  · refine ⟨hr, ?_⟩
    have hr' : (p.requiredArg && p.dflt.isNone) = false := by
      cases hra : p.requiredArg
      · rfl
      · cases hd : p.dflt with
        | none => exact absurd ⟨hra, hd⟩ hr
        | some d => rfl
    simp only [hr', Bool.false_eq_true, ↓reduceIte] at hg
    cases hd : p.dflt with
    | some d =>
      simp only [hd, Except.ok.injEq] at hg
      exact ⟨d, hg.symm, Or.inl rfl⟩
    | none =>
      simp only [hd] at hg
      cases hsd : c.sig.default? n with
      | some d => simp only [hsd, Except.ok.injEq] at hg; exact ⟨d, hg.symm, Or.inr ⟨rfl, rfl⟩⟩
      | none => simp [hsd] at hg

/-! ## C12: the body sees only chain outputs -/

/-- the values the caller handed in -/
def rawInputs (args : List PV) (kw : List (Name × PV)) : List PV := args ++ kw.map (·.2)

/-- `v` is something Parameter `p` lets through: the output of its full chain on a value the caller (or its external
    source) supplied — None for a non-required parameter included, see `validate_none` — or, for a non-required
    parameter, its default, else the signature default -/
def FromParam (c : Cfg) (args : List PV) (kw : List (Name × PV)) (p : VParam) (v : PV) : Prop :=
  (∃ a, (a ∈ rawInputs args kw ∨ p.ext = some a) ∧ p.validate a = .ok v) ∨
  (p.isRequired = false ∧ (p.dflt = some v ∨ (p.dflt = none ∧ c.sig.default? p.name = some v)))

/-- an entry of the dict handed over is legitimate: under a declared name only what a Parameter of that name lets
    through; under an undeclared name (non-strict mode, `self`) exactly what the caller supplied under that name -/
def EntryOk (c : Cfg) (args : List PV) (kw : List (Name × PV)) (e : Name × PV) : Prop :=
  (∃ p ∈ c.ps, p.name = e.1 ∧ FromParam c args kw p e.2) ∨
  (findP c.ps e.1 = none ∧ (e ∈ kw ∨ e ∈ c.sig.posNames.zip args))

theorem mem_set : ∀ (d : Assoc) (k : Name) (v : PV) (e : Name × PV), e ∈ Assoc.set d k v → e = (k, v) ∨ e ∈ d := by
  intro d
  induction d with
  | nil => intro k v e h; simp only [Assoc.set, List.mem_singleton] at h; exact Or.inl h
  | cons kv r ih =>
    intro k v e h
    obtain ⟨k', x⟩ := kv
    simp only [Assoc.set] at h
    split at h
    · simp only [List.mem_cons] at h
      rcases h with h | h
      · exact Or.inl h
      · exact Or.inr (by simp [h])
    · simp only [List.mem_cons] at h
      rcases h with h | h
      · exact Or.inr (by simp [h])
      · rcases ih k v e h with h' | h'
        · exact Or.inl h'
        · exact Or.inr (by simp [h'])

theorem findP_mem : ∀ (ps : List VParam) (k : Name) (p : VParam), findP ps k = some p → p ∈ ps := by
  intro ps
  induction ps with
  | nil => intro k p h; simp [findP] at h
  | cons q r ih =>
    intro k p h
    simp only [findP] at h
    cases hr : findP r k with
    | some q' => rw [hr] at h; simp only [Option.some.injEq] at h; subst h; exact List.mem_cons_of_mem _ (ih k _ hr)
    | none =>
      rw [hr] at h
      by_cases hq : (q.name == k) = true
      · simp only [hq, ↓reduceIte, Option.some.injEq] at h; subst h; simp
      · simp [hq] at h

theorem loopKw_inv (c : Cfg) (args : List PV) (kw : List (Name × PV)) :
    ∀ (kwl : List (Name × PV)) (res res' : Assoc) (used used' : List Name),
      (∀ kv ∈ kwl, kv ∈ kw) → (∀ e ∈ res, EntryOk c args kw e) →
      loopKw c.ps c.strict kwl res used = .ok (res', used') → ∀ e ∈ res', EntryOk c args kw e := by
  intro kwl
  induction kwl with
  | nil =>
    intro res res' used used' _ hinv h
    simp only [loopKw, Except.ok.injEq, Prod.mk.injEq, kwStrictTest_eq] at h
    obtain ⟨rfl, _⟩ := h; exact hinv
  | cons hd tl ih =>
    intro res res' used used' hraw hinv h
    obtain ⟨k, v⟩ := hd
    have hmem : (k, v) ∈ kw := hraw (k, v) (by simp)
    have hv : v ∈ rawInputs args kw := by
      simp only [rawInputs, List.mem_append, List.mem_map]; exact Or.inr ⟨(k, v), hmem, rfl⟩
    have hraw' : ∀ kv ∈ tl, kv ∈ kw := fun kv hkv => hraw kv (by simp [hkv])
    simp only [loopKw, kwStrictTest_eq] at h
    cases hf : findP c.ps k with
    | none =>
      simp only [hf] at h
      split at h
      · cases h
      · refine ih _ _ _ _ hraw' ?_ h
        intro e he
        rcases mem_set _ _ _ _ he with rfl | he'
        · exact Or.inr ⟨hf, Or.inl hmem⟩
        · exact hinv e he'
    | some p =>
      simp only [hf] at h
      cases hval : p.validate v with
      | error e => simp [hval, bind, Except.bind] at h
      | ok w =>
        simp only [hval, bind, Except.bind] at h
        refine ih _ _ _ _ hraw' ?_ h
        intro e he
        rcases mem_set _ _ _ _ he with rfl | he'
        · exact Or.inl ⟨p, findP_mem _ _ _ hf, findP_name _ _ _ hf, Or.inl ⟨v, Or.inl hv, hval⟩⟩
        · exact hinv e he'

theorem loopPos_inv (c : Cfg) (args : List PV) (kw : List (Name × PV)) :
    ∀ (bd : List (Name × PV)) (res res' : Assoc) (used used' : List Name) (ua ua' : List PV),
      (∀ kv ∈ bd, kv ∈ c.sig.posNames.zip args) → (∀ e ∈ res, EntryOk c args kw e) →
      loopPos c.ps c.strict c.sig.receiver bd res used ua = .ok (res', used', ua') → ∀ e ∈ res', EntryOk c args kw e := by
  intro bd
  induction bd with
  | nil =>
    intro res res' used used' ua ua' _ hinv h
    simp only [loopPos, Except.ok.injEq, Prod.mk.injEq, posStrictTest_eq] at h
    obtain ⟨rfl, _⟩ := h; exact hinv
  | cons hd tl ih =>
    intro res res' used used' ua ua' hraw hinv h
    obtain ⟨k, v⟩ := hd
    have hmem : (k, v) ∈ c.sig.posNames.zip args := hraw (k, v) (by simp)
    have hv : v ∈ rawInputs args kw := by
      simp only [rawInputs, List.mem_append]; exact Or.inl (List.of_mem_zip hmem).2
    have hraw' : ∀ kv ∈ tl, kv ∈ c.sig.posNames.zip args := fun kv hkv => hraw kv (by simp [hkv])
    simp only [loopPos, posStrictTest_eq] at h
    cases hf : findP c.ps k with
    | none =>
      simp only [hf] at h
      split at h
      · cases h
      · refine ih _ _ _ _ _ _ hraw' ?_ h
        intro e he
        rcases mem_set _ _ _ _ he with rfl | he'
        · exact Or.inr ⟨hf, Or.inr hmem⟩
        · exact hinv e he'
    | some p =>
      simp only [hf] at h
      cases hval : p.validate v with
      | error e => simp [hval, bind, Except.bind] at h
      | ok w =>
        simp only [hval, bind, Except.bind] at h
        refine ih _ _ _ _ _ _ hraw' ?_ h
        intro e he
        rcases mem_set _ _ _ _ he with rfl | he'
        · exact Or.inl ⟨p, findP_mem _ _ _ hf, findP_name _ _ _ hf, Or.inl ⟨v, Or.inl hv, hval⟩⟩
        · exact hinv e he'

theorem loopZip_inv (c : Cfg) (args : List PV) (kw : List (Name × PV)) :
    ∀ (pairs : List (PV × VParam)) (res res' : Assoc) (used used' : List Name),
      (∀ ap ∈ pairs, ap.1 ∈ rawInputs args kw ∧ ap.2 ∈ c.ps) → (∀ e ∈ res, EntryOk c args kw e) →
      loopZip pairs res used = .ok (res', used') → ∀ e ∈ res', EntryOk c args kw e := by
  intro pairs
  induction pairs with
  | nil =>
    intro res res' used used' _ hinv h
    simp only [loopZip, Except.ok.injEq, Prod.mk.injEq] at h
    obtain ⟨rfl, _⟩ := h; exact hinv
  | cons hd tl ih =>
    intro res res' used used' hraw hinv h
    obtain ⟨a, p⟩ := hd
    obtain ⟨ha, hp⟩ := hraw (a, p) (by simp)
    have hraw' : ∀ ap ∈ tl, ap.1 ∈ rawInputs args kw ∧ ap.2 ∈ c.ps := fun ap hap => hraw ap (by simp [hap])
    simp only [loopZip] at h
    cases hval : p.validate a with
    | error e => simp [hval, bind, Except.bind] at h
    | ok w =>
      simp only [hval, bind, Except.bind] at h
      refine ih _ _ _ _ hraw' ?_ h
      intro e he
      rcases mem_set _ _ _ _ he with rfl | he'
      · exact Or.inl ⟨p, hp, rfl, Or.inl ⟨a, Or.inl ha, hval⟩⟩
      · exact hinv e he'

theorem loopUnused_inv (c : Cfg) (args : List PV) (kw : List (Name × PV)) :
    ∀ (l : List VParam) (res res' : Assoc), (∀ p ∈ l, p ∈ c.ps) → (∀ e ∈ res, EntryOk c args kw e) →
      loopUnused c.sig l res = .ok res' → ∀ e ∈ res', EntryOk c args kw e := by
  intro l
  induction l with
  | nil =>
    intro res res' _ hinv h
    simp only [loopUnused, Except.ok.injEq] at h
    subst h; exact hinv
  | cons p tl ih =>
    intro res res' hl hinv h
    have hp : p ∈ c.ps := hl p (by simp)
    have hl' : ∀ q ∈ tl, q ∈ c.ps := fun q hq => hl q (by simp [hq])
    simp only [loopUnused] at h
    cases hext : p.ext with
    | some v =>
      simp only [hext] at h
      cases hval : p.validate v with
      | error e => simp [hval, bind, Except.bind] at h
      | ok w =>
        simp only [hval, bind, Except.bind] at h
        refine ih _ _ hl' ?_ h
        intro e he
        rcases mem_set _ _ _ _ he with rfl | he'
        · exact Or.inl ⟨p, hp, rfl, Or.inl ⟨v, Or.inr hext, hval⟩⟩
        · exact hinv e he'
    | none =>
      simp only [hext] at h
      by_cases hr : p.isRequired = true
      · simp [hr] at h
      · have hr' : p.isRequired = false := by simpa using hr
        simp only [hr', Bool.false_eq_true, ↓reduceIte] at h
        cases hd : p.dflt with
        | some d =>
          simp only [hd] at h
          refine ih _ _ hl' ?_ h
          intro e he
          rcases mem_set _ _ _ _ he with rfl | he'
          · exact Or.inl ⟨p, hp, rfl, Or.inr ⟨hr', Or.inl hd⟩⟩
          · exact hinv e he'
        | none =>
          simp only [hd] at h
          cases hsd : c.sig.default? p.name with
          | none => simp [hsd] at h
          | some d =>
            simp only [hsd] at h
            refine ih _ _ hl' ?_ h
            intro e he
            rcases mem_set _ _ _ _ he with rfl | he'
            · exact Or.inl ⟨p, hp, rfl, Or.inr ⟨hr', Or.inr ⟨hd, hsd⟩⟩⟩
            · exact hinv e he'

/-- the generated test of the `zip` branch (`k == var_positional`): the surplus positionals of a VAR_POSITIONAL parameter go
    through the `zip` branch whatever the parameter is called — the tuple is never handled as an ordinary argument -/
theorem bindPartial_extras_sub (sig : Sig) (args : List PV) (b : Bound)
    (hb : bindPartial sig args = .ok b) : ∀ x ∈ b.extras, x ∈ args := by
  unfold bindPartial at hb
  split at hb
  · simp only [Except.ok.injEq] at hb; subst hb; intro x hx; cases hx
  · split at hb
    · split at hb
      · simp only [Except.ok.injEq] at hb; subst hb; intro x hx; exact List.mem_of_mem_drop hx
      · simp only [Except.ok.injEq] at hb; subst hb; intro x hx; cases hx
    · cases hb

/-- whatever the zip branch takes for the surplus positionals (either shape of the source) are positionals of the call -/
theorem surplusOf_sub (args extras ua : List PV) (h : ∀ x ∈ extras, x ∈ args) : ∀ x ∈ surplusOf args extras ua, x ∈ args := by
  intro x hx
  unfold surplusOf at hx
  split at hx
  · exact (List.mem_filter.mp hx).1
  · exact h x hx

theorem bindPartial_named (sig : Sig) (args : List PV) (b : Bound)
    (hb : bindPartial sig args = .ok b) : b.named = sig.posNames.zip args := by
  unfold bindPartial at hb
  split at hb
  · simp only [Except.ok.injEq] at hb; subst hb; rfl
  · split at hb
    · split at hb
      · simp only [Except.ok.injEq] at hb; subst hb; rfl
      · rename_i hz
        exact absurd (by simp [zipBranchTest]) hz
    · cases hb

/-- **C12 (the dict handed over).** Any signature (`*args` included), any call: every entry of the dict that
    `_wrapper_content` returns is legitimate — under a declared name it is the output of the *full* chain of a Parameter
    of that name on a supplied value, or that Parameter's default / the signature default (non-required only); under an
    undeclared name it is exactly what the caller supplied under that name. No path lets an unvalidated value through
    under a declared name. -/
theorem res_only_chain_outputs (c : Cfg) (args : List PV) (kw : List (Name × PV)) (res : Assoc)
    (h : wrapperContent c args kw = .ok res) : ∀ e ∈ res, EntryOk c args kw e := by
  rw [wrapperContent_eq_seq] at h
  unfold wrapperSeq at h
  have hnil : ∀ e ∈ ([] : Assoc), EntryOk c args kw e := by intro e he; cases he
  have hfilter : ∀ (u : List Name), ∀ p ∈ c.ps.filter (fun p => !u.contains p.name), p ∈ c.ps :=
    fun u p hp => (List.mem_filter.mp hp).1
  by_cases hi : c.ignoreInput = true
  · simp only [hi, ↓reduceIte] at h
    cases h3 : loopUnused c.sig (c.ps.filter (fun p => !([] : List Name).contains p.name)) [] with
    | error e => rw [h3] at h; cases h
    | ok r =>
      rw [h3] at h
      have := flaskCheck_ok _ _ _ _ _ h; subst this
      exact loopUnused_inv c args kw _ _ _ (hfilter []) hnil h3
  · simp only [hi, Bool.false_eq_true, ↓reduceIte] at h
    cases h1 : loopKw c.ps c.strict kw [] [] with
    | error e => rw [h1] at h; cases h
    | ok st1 =>
      obtain ⟨r1, u1⟩ := st1
      rw [h1] at h
      simp only [Except.bind] at h
      have inv1 := loopKw_inv c args kw kw [] r1 [] u1 (fun kv hkv => hkv) hnil h1
      cases hb : bindPartial c.sig args with
      | error e => rw [hb] at h; cases h
      | ok b =>
        rw [hb] at h
        simp only at h
        have hbn : b.named = c.sig.posNames.zip args := bindPartial_named c.sig args b hb
        cases h2 : loopPos c.ps c.strict c.sig.receiver b.named r1 u1 [] with
        | error e => rw [h2] at h; cases h
        | ok st2 =>
          obtain ⟨r2, u2, ua⟩ := st2
          rw [h2] at h
          simp only at h
          have inv2 := loopPos_inv c args kw b.named r1 r2 u1 u2 [] ua
            (fun kv hkv => by rw [hbn] at hkv; exact hkv) inv1 h2
          cases hz : (if b.extras.isEmpty = true then Except.ok (r2, u2)
              else if zipRefuses c.ps c.strict args b.extras u2 ua = true then Except.error VExc.tooMany
              else loopZip (zipPairs c.ps args b.extras u2 ua) r2 u2) with
          | error e => rw [hz] at h; cases h
          | ok st3 =>
            obtain ⟨r3, u3⟩ := st3
            rw [hz] at h
            simp only at h
            have inv3 : ∀ e ∈ r3, EntryOk c args kw e := by
              split at hz
              · simp only [Except.ok.injEq, Prod.mk.injEq] at hz; obtain ⟨rfl, _⟩ := hz; exact inv2
              · split at hz
                · cases hz
                · refine loopZip_inv c args kw _ r2 r3 u2 u3 ?_ inv2 hz
                  intro ap hap
                  have := List.of_mem_zip hap
                  exact ⟨by simp only [rawInputs, List.mem_append]
                            exact Or.inl (surplusOf_sub args b.extras ua (bindPartial_extras_sub c.sig args b hb) _ this.1),
                         (List.mem_filter.mp this.2).1⟩
            cases h3 : loopUnused c.sig (c.ps.filter (fun p => !u3.contains p.name)) r3 with
            | error e => rw [h3] at h; cases h
            | ok r =>
              rw [h3] at h
              have := flaskCheck_ok _ _ _ _ _ h; subst this
              exact loopUnused_inv c args kw _ _ _ (hfilter u3) inv3 h3


theorem exec_sub (keep : Bool → Bool → Bool) (rk : Option Name) : ∀ (prog : List GStmt) (m : Mode) (res : Assoc) (f : CallForm) (r : Assoc),
    exec keep rk prog m res = some (f, r) → ∀ e ∈ r, e ∈ res := by
  intro prog
  induction prog with
  | nil => intro m res f r h; simp [exec] at h
  | cons s rest ih =>
    intro m res f r h
    simp only [exec] at h
    by_cases hg : guardHolds s m rk res = true
    · rw [if_pos hg] at h
      cases hact : s.act with
      | filter =>
        rw [hact] at h
        intro e he
        exact (List.mem_filter.mp (ih _ _ _ _ h e he)).1
      | ret g =>
        rw [hact] at h
        simp only [Option.some.injEq, Prod.mk.injEq] at h
        obtain ⟨_, rfl⟩ := h
        intro e he; exact he
    · rw [if_neg hg] at h; exact ih _ _ _ _ h

theorem get?_mem : ∀ (d : Assoc) (n : Name) (v : PV), d.get? n = some v → (n, v) ∈ d := by
  intro d
  induction d with
  | nil => intro n v h; simp [Assoc.get?] at h
  | cons kv r ih =>
    intro n v h
    obtain ⟨k, x⟩ := kv
    simp only [Assoc.get?] at h
    by_cases hk : (k == n) = true
    · simp only [hk, ↓reduceIte, Option.some.injEq] at h
      have : k = n := by simpa using hk
      subst this; subst h; simp
    · simp only [hk, Bool.false_eq_true, ↓reduceIte] at h
      exact List.mem_cons_of_mem _ (ih n v h)

theorem mapM_ok_mem {α β ε : Type} (f : α → Except ε β) : ∀ (l : List α) (b : List β), l.mapM f = .ok b →
    ∀ y ∈ b, ∃ s ∈ l, f s = .ok y := by
  intro l
  induction l with
  | nil => intro b h y hy; simp only [List.mapM_nil, pure, Except.pure, Except.ok.injEq] at h; subst h; cases hy
  | cons a l ih =>
    intro b h y hy
    simp only [List.mapM_cons, bind, Except.bind] at h
    cases hfa : f a with
    | error e => rw [hfa] at h; cases h
    | ok x =>
      rw [hfa] at h
      simp only at h
      cases hl : l.mapM f with
      | error e => rw [hl] at h; cases h
      | ok xs =>
        rw [hl] at h
        simp only [pure, Except.pure, Except.ok.injEq] at h
        subst h
        simp only [List.mem_cons] at hy
        rcases hy with rfl | hy
        · exact ⟨a, by simp, hfa⟩
        · obtain ⟨s, hs, hfs⟩ := ih xs hl y hy
          exact ⟨s, by simp [hs], hfs⟩

/-- every value Python binds comes from the positional values, the keyword dict, or a default of the signature -/
theorem bindCall_values (sig : Sig) (pos : List PV) (kw : Assoc) (b : Binding) (h : bindCall sig pos kw = .ok b) :
    ∀ v, (v ∈ b.named.map (·.2) ∨ v ∈ b.extras) → v ∈ pos ∨ (∃ n, (n, v) ∈ kw) ∨ (∃ s ∈ sig.named, s.dflt = some v) := by
  unfold bindCall at h
  split at h
  · cases h
  · split at h
    · cases h
    · simp only [bind, Except.bind] at h
      cases hm : sig.named.mapM (bindOne ((sig.posNames.take pos.length).zip pos ++ kw)) with
      | error e => rw [hm] at h; cases h
      | ok named =>
        rw [hm] at h
        simp only [pure, Except.pure, Except.ok.injEq] at h
        subst h
        intro v hv
        rcases hv with hv | hv
        · simp only [List.mem_map] at hv
          obtain ⟨nv, hnv, rfl⟩ := hv
          obtain ⟨s, hs, hfs⟩ := mapM_ok_mem _ _ _ hm nv hnv
          unfold bindOne at hfs
          cases hg : Assoc.get? ((sig.posNames.take pos.length).zip pos ++ kw) s.name with
          | some w =>
            rw [hg] at hfs
            simp only [Except.ok.injEq] at hfs
            subst hfs
            have := get?_mem _ _ _ hg
            simp only [List.mem_append] at this
            rcases this with hz | hk
            · exact Or.inl (List.of_mem_zip hz).2
            · exact Or.inr (Or.inl ⟨_, hk⟩)
          | none =>
            rw [hg] at hfs
            cases hd : s.dflt with
            | some d =>
              rw [hd] at hfs
              simp only [Except.ok.injEq] at hfs
              subst hfs
              exact Or.inr (Or.inr ⟨s, hs, hd⟩)
            | none => rw [hd] at hfs; cases hfs
        · exact Or.inl (List.mem_of_mem_drop hv)

theorem lookupAll_mem (res : Assoc) : ∀ (ns : List Name) (vs : List PV), lookupAll res ns = .ok vs →
    ∀ v ∈ vs, ∃ n, (n, v) ∈ res := by
  intro ns
  induction ns with
  | nil => intro vs h v hv; simp only [lookupAll, Except.ok.injEq] at h; subst h; cases hv
  | cons n r ih =>
    intro vs h v hv
    simp only [lookupAll] at h
    cases hg : res.get? n with
    | none => rw [hg] at h; cases h
    | some w =>
      rw [hg] at h
      simp only [bind, Except.bind] at h
      cases hl : lookupAll res r with
      | error e => rw [hl] at h; cases h
      | ok ws =>
        rw [hl] at h
        simp only [pure, Except.pure, Except.ok.injEq] at h
        subst h
        simp only [List.mem_cons] at hv
        rcases hv with rfl | hv
        · exact ⟨n, get?_mem _ _ _ hg⟩
        · exact ih ws hl v hv

theorem callWith_values (sig : Sig) (rk : Option Name) (f : CallForm) (r : Assoc) (b : Binding) (h : callWith sig rk f r = .ok b) :
    ∀ v, (v ∈ b.named.map (·.2) ∨ v ∈ b.extras) → (∃ n, (n, v) ∈ r) ∨ (∃ s ∈ sig.named, s.dflt = some v) := by
  intro v hv
  cases f with
  | selfKw =>
    simp only [callWith] at h
    cases rk with
    | none => cases h
    | some key =>
      simp only at h
      cases hg : r.get? key with
      | none => rw [hg] at h; cases h
      | some sv =>
        rw [hg] at h
        rcases bindCall_values _ _ _ _ h v hv with h1 | ⟨n, h2⟩ | h3
        · simp only [List.mem_singleton] at h1; subst h1; exact Or.inl ⟨_, get?_mem _ _ _ hg⟩
        · exact Or.inl ⟨n, (List.mem_filter.mp h2).1⟩
        · exact Or.inr h3
  | split =>
    simp only [callWith, bind, Except.bind] at h
    cases hs : splitBySig sig r with
    | error e => rw [hs] at h; cases h
    | ok pk =>
      obtain ⟨p, k⟩ := pk
      rw [hs] at h
      simp only at h
      have hp : (∀ w ∈ p, ∃ n, (n, w) ∈ r) ∧ (∀ e ∈ k, e ∈ r) := by
        unfold splitBySig at hs
        split at hs
        · simp only [Except.ok.injEq, Prod.mk.injEq] at hs
          obtain ⟨rfl, rfl⟩ := hs
          refine ⟨?_, by intro e he; cases he⟩
          intro w hw
          simp only [List.mem_map] at hw
          obtain ⟨e, he, rfl⟩ := hw
          exact ⟨e.1, he⟩
        · split at hs
          · simp only [bind, Except.bind] at hs
            cases hl : lookupAll r (prefixNames sig r) with
            | error e => rw [hl] at hs; cases hs
            | ok vs =>
              rw [hl] at hs
              simp only [pure, Except.pure, Except.ok.injEq, Prod.mk.injEq] at hs
              obtain ⟨rfl, rfl⟩ := hs
              exact ⟨lookupAll_mem r _ _ hl, fun e he => (List.mem_filter.mp he).1⟩
          · simp only [Except.ok.injEq, Prod.mk.injEq] at hs
            obtain ⟨rfl, rfl⟩ := hs
            refine ⟨?_, by intro e he; cases he⟩
            intro w hw
            simp only [List.mem_map] at hw
            obtain ⟨e, he, rfl⟩ := hw
            exact ⟨e.1, he⟩
      rcases bindCall_values _ _ _ _ h v hv with h1 | ⟨n, h2⟩ | h3
      · exact Or.inl (hp.1 v h1)
      · exact Or.inl ⟨n, hp.2 _ h2⟩
      · exact Or.inr h3
  | kw =>
    simp only [callWith] at h
    rcases bindCall_values _ _ _ _ h v hv with h1 | ⟨n, h2⟩ | h3
    · cases h1
    · exact Or.inl ⟨n, h2⟩
    · exact Or.inr h3
  | values =>
    simp only [callWith] at h
    rcases bindCall_values _ _ _ _ h v hv with h1 | ⟨n, h2⟩ | h3
    · simp only [List.mem_map] at h1
      obtain ⟨e, he, rfl⟩ := h1
      exact Or.inl ⟨e.1, he⟩
    · cases h2
    · exact Or.inr h3

/-- what the body sees, for one call: every value the body receives — named parameters and the VAR_POSITIONAL tuple alike —
    is legitimate in the sense of `EntryOk` (full chain output / default under a declared name, or what the caller supplied
    under an undeclared name), or a default of the function's own signature -/
def BodySeesOnlyChainOutputs (c : Cfg) (a : Bool) (m : Mode) (args : List PV) (kw : List (Name × PV)) : Prop :=
  ∀ b, runValidate c a m args kw = .ok b → ∀ v, (v ∈ b.named.map (·.2) ∨ v ∈ b.extras) →
    (∃ n, EntryOk c args kw (n, v)) ∨ (∃ s ∈ c.sig.named, s.dflt = some v)

/-- the full statement: every signature, whatever the VAR_POSITIONAL parameter is called -/
def body_sees_only_chain_outputs_full : Prop :=
  ∀ (c : Cfg) (a : Bool) (m : Mode) (args : List PV) (kw : List (Name × PV)), BodySeesOnlyChainOutputs c a m args kw

/-- **C12 (what the body sees).** Any signature — VAR_POSITIONAL parameter under any name included —, any mode, sync or
    async: every value the body receives — named parameters and `*args` alike — is an entry of the dict handed over and
    therefore legitimate in the sense of `EntryOk` (full chain output / default under a declared name), or a default of the
    function's own signature. -/
theorem body_sees_only_chain_outputs (c : Cfg) (a : Bool) (m : Mode) (args : List PV) (kw : List (Name × PV)) :
    BodySeesOnlyChainOutputs c a m args kw := by
  intro b h
  simp only [runValidate, bind, Except.bind] at h
  cases hw : wrapperContent c args kw with
  | error e => rw [hw] at h; cases h
  | ok res =>
    rw [hw] at h
    simp only [dispatch] at h
    have hinv := res_only_chain_outputs c args kw res hw
    intro v hv
    cases hex : (if a = true then exec asyncWrapperKeep (receiverKey c.sig a) asyncWrapperProg m res
                 else exec wrapperKeep (receiverKey c.sig a) wrapperProg m res) with
    | none => rw [hex] at h; cases h
    | some fr =>
      obtain ⟨f, r⟩ := fr
      rw [hex] at h
      simp only at h
      have hsub : ∀ e ∈ r, e ∈ res := by
        split at hex
        · exact exec_sub _ _ _ _ _ _ _ hex
        · exact exec_sub _ _ _ _ _ _ _ hex
      rcases callWith_values c.sig _ f r b h v hv with ⟨n, hn⟩ | hd
      · exact Or.inl ⟨n, hinv _ (hsub _ hn)⟩
      · exact Or.inr hd


/-! ## Dict lemmas -/

theorem lookupKV_eq_get : ∀ (l : List (Name × PV)) (n : Name), lookupKV l n = Assoc.get? l n := by
  intro l
  induction l with
  | nil => intro n; rfl
  | cons kv r ih => intro n; obtain ⟨k, v⟩ := kv; simp [lookupKV, Assoc.get?, ih]

theorem keysNodup_set : ∀ (d : Assoc) (k : Name) (v : PV), keysNodup d → keysNodup (d.set k v) := by
  intro d
  induction d with
  | nil => intro k v _; exact ⟨rfl, trivial⟩
  | cons kv r ih =>
    intro k v h
    obtain ⟨k', x⟩ := kv
    obtain ⟨h1, h2⟩ := h
    simp only [Assoc.set]
    by_cases hk : (k' == k) = true
    · have : k' = k := by simpa using hk
      subst this
      simp only [hk, ↓reduceIte]
      exact ⟨h1, h2⟩
    · simp only [hk, Bool.false_eq_true, ↓reduceIte]
      refine ⟨?_, ih k v h2⟩
      rw [lookupKV_eq_get, get?_set]
      have : (k == k') = false := by
        cases hx : (k == k') with
        | false => rfl
        | true => exfalso; apply hk; have : k = k' := by simpa using hx
                  subst this; simp
      simp only [this, Bool.false_eq_true, ↓reduceIte, ← lookupKV_eq_get, h1]

theorem filterKey_get (f : Name → Bool) : ∀ (d : Assoc) (n : Name),
    Assoc.get? (d.filter (fun kv => f kv.1)) n = if f n then d.get? n else none := by
  intro d
  induction d with
  | nil => intro n; simp [Assoc.get?]
  | cons kv r ih =>
    intro n
    obtain ⟨k, x⟩ := kv
    simp only [List.filter_cons]
    by_cases hk : (k == n) = true
    · have : k = n := by simpa using hk
      subst this
      by_cases hf : f k = true
      · simp [hf, Assoc.get?]
      · simp [hf, Assoc.get?, ih k]
    · by_cases hf : f k = true
      · simp [hf, Assoc.get?, hk, ih n]
      · simp [hf, Assoc.get?, hk, ih n]

theorem filterVal_get (g : PV → Bool) : ∀ (d : Assoc) (n : Name), keysNodup d →
    Assoc.get? (d.filter (fun kv => g kv.2)) n = match d.get? n with
      | some v => if g v then some v else none
      | none => none := by
  intro d
  induction d with
  | nil => intro n _; simp [Assoc.get?]
  | cons kv r ih =>
    intro n h
    obtain ⟨k, x⟩ := kv
    obtain ⟨h1, h2⟩ := h
    simp only [List.filter_cons]
    by_cases hk : (k == n) = true
    · have : k = n := by simpa using hk
      subst this
      by_cases hg : g x = true
      · simp [hg, Assoc.get?]
      · have := ih k h2
        rw [← lookupKV_eq_get r k, h1] at this
        simp [hg, Assoc.get?, this]
    · by_cases hg : g x = true
      · simp [hg, Assoc.get?, hk, ih n h2]
      · simp [hg, Assoc.get?, hk, ih n h2]

theorem get?_append (l1 l2 : Assoc) (n : Name) :
    Assoc.get? (l1 ++ l2) n = match Assoc.get? l1 n with | some v => some v | none => Assoc.get? l2 n := by
  induction l1 with
  | nil => simp [Assoc.get?]
  | cons kv r ih =>
    obtain ⟨k, x⟩ := kv
    simp only [List.cons_append, Assoc.get?]
    by_cases hk : (k == n) = true
    · simp [hk]
    · simp [hk, ih]

/-! ## What the loops preserve -/

section pres
variable (P : Assoc → Prop) (hP : ∀ d k v, P d → P (Assoc.set d k v))
include hP

theorem loopKw_pres (ps : List VParam) (strict : Bool) : ∀ (kw : List (Name × PV)) (res res' : Assoc) (used used' : List Name),
    P res → loopKw ps strict kw res used = .ok (res', used') → P res' := by
  intro kw
  induction kw with
  | nil => intro res res' used used' h0 h; simp only [loopKw, Except.ok.injEq, Prod.mk.injEq, kwStrictTest_eq] at h; obtain ⟨rfl, _⟩ := h; exact h0
  | cons kv tl ih =>
    intro res res' used used' h0 h
    obtain ⟨k, v⟩ := kv
    simp only [loopKw, kwStrictTest_eq] at h
    cases hf : findP ps k with
    | none =>
      simp only [hf] at h
      split at h
      · cases h
      · exact ih _ _ _ _ (hP _ _ _ h0) h
    | some p =>
      simp only [hf] at h
      cases hv : p.validate v with
      | error e => simp [hv, bind, Except.bind] at h
      | ok w => simp only [hv, bind, Except.bind] at h; exact ih _ _ _ _ (hP _ _ _ h0) h

theorem loopPos_pres (ps : List VParam) (strict : Bool) (recv : Option Name) :
    ∀ (bd : List (Name × PV)) (res res' : Assoc) (used used' : List Name) (ua ua' : List PV),
    P res → loopPos ps strict recv bd res used ua = .ok (res', used', ua') → P res' := by
  intro bd
  induction bd with
  | nil =>
    intro res res' used used' ua ua' h0 h
    simp only [loopPos, Except.ok.injEq, Prod.mk.injEq, posStrictTest_eq] at h; obtain ⟨rfl, _⟩ := h; exact h0
  | cons kv tl ih =>
    intro res res' used used' ua ua' h0 h
    obtain ⟨k, v⟩ := kv
    simp only [loopPos, posStrictTest_eq] at h
    cases hf : findP ps k with
    | none =>
      simp only [hf] at h
      split at h
      · cases h
      · exact ih _ _ _ _ _ _ (hP _ _ _ h0) h
    | some p =>
      simp only [hf] at h
      cases hv : p.validate v with
      | error e => simp [hv, bind, Except.bind] at h
      | ok w => simp only [hv, bind, Except.bind] at h; exact ih _ _ _ _ _ _ (hP _ _ _ h0) h

theorem loopZip_pres : ∀ (pairs : List (PV × VParam)) (res res' : Assoc) (used used' : List Name),
    P res → loopZip pairs res used = .ok (res', used') → P res' := by
  intro pairs
  induction pairs with
  | nil => intro res res' used used' h0 h; simp only [loopZip, Except.ok.injEq, Prod.mk.injEq] at h; obtain ⟨rfl, _⟩ := h; exact h0
  | cons ap tl ih =>
    intro res res' used used' h0 h
    obtain ⟨a, p⟩ := ap
    simp only [loopZip] at h
    cases hv : p.validate a with
    | error e => simp [hv, bind, Except.bind] at h
    | ok w => simp only [hv, bind, Except.bind] at h; exact ih _ _ _ _ (hP _ _ _ h0) h

theorem loopUnused_pres (sig : Sig) : ∀ (l : List VParam) (res res' : Assoc),
    P res → loopUnused sig l res = .ok res' → P res' := by
  intro l
  induction l with
  | nil => intro res res' h0 h; simp only [loopUnused, Except.ok.injEq] at h; subst h; exact h0
  | cons p tl ih =>
    intro res res' h0 h
    simp only [loopUnused] at h
    cases hext : p.ext with
    | some v =>
      simp only [hext] at h
      cases hv : p.validate v with
      | error e => simp [hv, bind, Except.bind] at h
      | ok w => simp only [hv, bind, Except.bind] at h; exact ih _ _ (hP _ _ _ h0) h
    | none =>
      simp only [hext] at h
      split at h
      · cases h
      · cases hd : p.dflt with
        | some d => simp only [hd] at h; exact ih _ _ (hP _ _ _ h0) h
        | none =>
          simp only [hd] at h
          cases hsd : sig.default? p.name with
          | none => simp [hsd] at h
          | some d => simp only [hsd] at h; exact ih _ _ (hP _ _ _ h0) h

theorem wrapperContent_pres (c : Cfg) (args : List PV) (kw : List (Name × PV)) (res : Assoc) (h0 : P [])
    (h : wrapperContent c args kw = .ok res) : P res := by
  rw [wrapperContent_eq_seq] at h
  unfold wrapperSeq at h
  by_cases hi : c.ignoreInput = true
  · simp only [hi, ↓reduceIte] at h
    cases h3 : loopUnused c.sig (c.ps.filter (fun p => !([] : List Name).contains p.name)) [] with
    | error e => rw [h3] at h; cases h
    | ok r =>
      rw [h3] at h
      have := flaskCheck_ok _ _ _ _ _ h; subst this
      exact loopUnused_pres P hP _ _ _ _ h0 h3
  · simp only [hi, Bool.false_eq_true, ↓reduceIte] at h
    cases h1 : loopKw c.ps c.strict kw [] [] with
    | error e => rw [h1] at h; cases h
    | ok st1 =>
      obtain ⟨r1, u1⟩ := st1
      rw [h1] at h
      simp only [Except.bind] at h
      cases hb : bindPartial c.sig args with
      | error e => rw [hb] at h; cases h
      | ok b =>
        rw [hb] at h
        simp only at h
        cases h2 : loopPos c.ps c.strict c.sig.receiver b.named r1 u1 [] with
        | error e => rw [h2] at h; cases h
        | ok st2 =>
          obtain ⟨r2, u2, ua⟩ := st2
          rw [h2] at h
          simp only at h
          cases hz : (if b.extras.isEmpty = true then Except.ok (r2, u2)
              else if zipRefuses c.ps c.strict args b.extras u2 ua = true then Except.error VExc.tooMany
              else loopZip (zipPairs c.ps args b.extras u2 ua) r2 u2) with
          | error e => rw [hz] at h; cases h
          | ok st3 =>
            obtain ⟨r3, u3⟩ := st3
            rw [hz] at h
            simp only at h
            have p2 := loopPos_pres P hP _ _ _ _ _ _ _ _ _ _ (loopKw_pres P hP _ _ _ _ _ _ _ h0 h1) h2
            have p3 : P r3 := by
              split at hz
              · simp only [Except.ok.injEq, Prod.mk.injEq] at hz; obtain ⟨rfl, _⟩ := hz; exact p2
              · split at hz
                · cases hz
                · exact loopZip_pres P hP _ _ _ _ _ p2 hz
            cases h3 : loopUnused c.sig (c.ps.filter (fun p => !u3.contains p.name)) r3 with
            | error e => rw [h3] at h; cases h
            | ok r =>
              rw [h3] at h
              have := flaskCheck_ok _ _ _ _ _ h; subst this
              exact loopUnused_pres P hP _ _ _ _ p3 h3
end pres

/-- the dict that `_wrapper_content` returns has pairwise different keys (any signature) -/
theorem wrapperContent_keysNodup (c : Cfg) (args : List PV) (kw : List (Name × PV)) (res : Assoc)
    (h : wrapperContent c args kw = .ok res) : keysNodup res :=
  wrapperContent_pres keysNodup (fun d k v hd => keysNodup_set d k v hd) c args kw res trivial h

/-! ## Python's call binding, by name -/

theorem mapM_congr {α β ε : Type} (f g : α → Except ε β) : ∀ (l : List α), (∀ a ∈ l, f a = g a) → l.mapM f = l.mapM g := by
  intro l
  induction l with
  | nil => intro _; rfl
  | cons a l ih =>
    intro h
    simp only [List.mapM_cons, h a (by simp), ih (fun x hx => h x (by simp [hx]))]

/-- the name is not a parameter of the function: Python refuses such a keyword -/
def notParam (sig : Sig) (kv : Name × PV) : Bool := !(sig.named.any (·.name == kv.1))

/-- binding a dict by name: `func(**d)` -/
def bindDict (sig : Sig) (d : Assoc) : Except VExc Binding :=
  if d.any (notParam sig) then .error .bodyTypeError else do
  let named ← sig.named.mapM (bindOne d)
  pure ⟨named, []⟩

theorem bindOne_congr (d1 d2 : Assoc) (s : SParam) (h : Assoc.get? d1 s.name = Assoc.get? d2 s.name) :
    bindOne d1 s = bindOne d2 s := by
  simp only [bindOne, h]

/-- a call `func(*pos, **kw)` whose positional part does not overflow binds like the dict `d`, provided both reject the
    same keywords and agree on every parameter name -/
theorem bindCall_eq_dict (sig : Sig) (pos : List PV) (kw d : Assoc)
    (hlen : pos.length ≤ sig.pos.length)
    (hbad : kw.any (badKey sig (sig.posNames.take pos.length)) = d.any (notParam sig))
    (hget : ∀ s ∈ sig.named, Assoc.get? ((sig.posNames.take pos.length).zip pos ++ kw) s.name = Assoc.get? d s.name) :
    bindCall sig pos kw = bindDict sig d := by
  unfold bindCall bindDict
  have h1 : ¬ (pos.length > sig.pos.length) := by omega
  simp only [h1, decide_false, Bool.false_and, Bool.false_eq_true, ↓reduceIte, hbad]
  have hdrop : pos.drop sig.pos.length = [] := List.drop_eq_nil_of_le hlen
  rw [hdrop, mapM_congr _ (bindOne d) sig.named (fun s hs => bindOne_congr _ _ s (hget s hs))]

theorem callWith_kw_eq (sig : Sig) (rk : Option Name) (d : Assoc) : callWith sig rk .kw d = bindDict sig d := by
  simp only [callWith]
  apply bindCall_eq_dict
  · simp
  · have : badKey sig (sig.posNames.take ([] : List PV).length) = notParam sig := by
      funext kv; simp [badKey, notParam]
    rw [this]
  · intro s _; simp

theorem any_filter_of_irrelevant {α : Type} (f g : α → Bool) : ∀ (l : List α), (∀ x ∈ l, f x = false → g x = false) →
    (l.filter f).any g = l.any g := by
  intro l
  induction l with
  | nil => intro _; rfl
  | cons a l ih =>
    intro h
    have ih' := ih (fun x hx => h x (by simp [hx]))
    simp only [List.filter_cons]
    by_cases hf : f a = true
    · simp [hf, ih']
    · have hf' : f a = false := by simpa using hf
      simp [hf', ih', h a (by simp) hf']

theorem any_congr_mem {α : Type} (f g : α → Bool) : ∀ (l : List α), (∀ x ∈ l, f x = g x) → l.any f = l.any g := by
  intro l
  induction l with
  | nil => intro _; rfl
  | cons a l ih => intro h; simp [h a (by simp), ih (fun x hx => h x (by simp [hx]))]

theorem posName_is_param (sig : Sig) (n : Name) (h : n ∈ sig.posNames) : sig.named.any (·.name == n) = true := by
  simp only [Sig.posNames, List.mem_map] at h
  obtain ⟨s, hs, rfl⟩ := h
  simp only [Sig.named, List.any_append, Bool.or_eq_true, List.any_eq_true]
  exact Or.inl ⟨s, hs, by simp⟩

/-- `func(result.pop('self'), **result)` binds like `func(**result)` when `self` is the first positional parameter -/
theorem callWith_selfKw_eq (sig : Sig) (d : Assoc) (sv : PV) (rest : List Name)
    (hpos : sig.posNames = selfName :: rest) (hs : d.get? selfName = some sv) :
    callWith sig (some selfName) .selfKw d = bindDict sig d := by
  simp only [callWith, hs]
  have hlen : 1 ≤ sig.pos.length := by
    have : sig.posNames.length = sig.pos.length := by simp [Sig.posNames]
    rw [← this, hpos]; simp
  apply bindCall_eq_dict
  · simpa using hlen
  · simp only [List.length_singleton, hpos, List.take_succ_cons, List.take_zero]
    rw [any_congr_mem (badKey sig [selfName]) (notParam sig)]
    · apply any_filter_of_irrelevant
      intro kv _ hk
      have : kv.1 = selfName := by simpa using hk
      simp only [notParam, this, Bool.not_eq_false']
      exact posName_is_param sig selfName (by rw [hpos]; simp)
    · intro kv hkv
      have := (List.mem_filter.mp hkv).2
      have hne : (kv.1 == selfName) = false := by simpa using this
      have hc : [selfName].contains kv.1 = false := by
        simp only [List.contains_cons, hne, List.contains_nil, Bool.or_false]
      simp only [badKey, notParam, hc, Bool.false_or]
  · intro s _
    simp only [List.length_singleton, hpos, List.take_succ_cons, List.take_zero, List.zip_cons_cons, List.zip_nil_left,
      List.cons_append, List.nil_append, Assoc.get?]
    by_cases hn : (selfName == s.name) = true
    · have : selfName = s.name := by simpa using hn
      simp [hn, ← this, hs]
    · simp only [hn, Bool.false_eq_true, ↓reduceIte]
      rw [filterKey_get (fun k => k != selfName) d s.name]
      have : (s.name != selfName) = true := by
        simp only [bne_iff_ne, ne_eq]; intro hh; apply hn; simp [hh]
      simp [this]

theorem takeWhile_append_of_all_false {α : Type} (p : α → Bool) : ∀ (l1 l2 : List α), (∀ x ∈ l2, p x = false) →
    (l1 ++ l2).takeWhile p = l1.takeWhile p := by
  intro l1
  induction l1 with
  | nil =>
    intro l2 h
    cases l2 with
    | nil => rfl
    | cons x xs => simp [List.takeWhile_cons, h x (by simp)]
  | cons a l ih =>
    intro l2 h
    simp only [List.cons_append, List.takeWhile_cons]
    split
    · rw [ih l2 h]
    · rfl

/-- the prefix loop of `_split_by_signature` (generated `break` test): the leading positional parameters that are keys
    of the dict -/
theorem prefixNames_eq (sig : Sig) (res : Assoc) (hva : sig.varArgs = false) :
    prefixNames sig res = sig.posNames.takeWhile (fun n => res.has n) := by
  unfold prefixNames sigItems
  simp only [hva, Bool.false_eq_true, ↓reduceIte, List.append_nil]
  rw [takeWhile_append_of_all_false]
  · unfold Sig.posNames
    induction sig.pos with
    | nil => rfl
    | cons s r ih =>
      have hcond : (!prefixStops (res.has s.name) true) = res.has s.name := by simp [prefixStops]
      simp only [List.map_cons, List.takeWhile_cons, hcond]
      split
      · simp only [List.map_cons, ih]
      · rfl
  · intro x hx
    simp only [List.mem_map] at hx
    obtain ⟨s, _, rfl⟩ := hx
    simp [prefixStops]

theorem mem_takeWhile_holds {α : Type} (p : α → Bool) : ∀ (l : List α) (x : α), x ∈ l.takeWhile p → p x = true := by
  intro l
  induction l with
  | nil => intro x h; simp at h
  | cons a l ih =>
    intro x h
    simp only [List.takeWhile_cons] at h
    split at h
    · simp only [List.mem_cons] at h
      rcases h with rfl | h
      · assumption
      · exact ih x h
    · simp at h

theorem lookupAll_ok (res : Assoc) : ∀ (ns : List Name), (∀ n ∈ ns, res.has n = true) →
    ∃ vs, lookupAll res ns = .ok vs ∧ vs.length = ns.length ∧
      ∀ n, Assoc.get? (ns.zip vs) n = if ns.contains n then res.get? n else none := by
  intro ns
  induction ns with
  | nil => intro _; exact ⟨[], rfl, rfl, by intro n; simp [Assoc.get?]⟩
  | cons a r ih =>
    intro h
    obtain ⟨vs, h1, h2, h3⟩ := ih (fun n hn => h n (by simp [hn]))
    have ha := h a (by simp)
    simp only [Assoc.has, Option.isSome_iff_exists] at ha
    obtain ⟨w, hw⟩ := ha
    refine ⟨w :: vs, by simp [lookupAll, hw, h1, bind, Except.bind, pure, Except.pure], by simp [h2], ?_⟩
    intro n
    simp only [List.zip_cons_cons, Assoc.get?, List.contains_cons, h3 n]
    by_cases han : (a == n) = true
    · have : a = n := by simpa using han
      subst this; simp [hw]
    · have han' : (n == a) = false := by
        cases hx : (n == a) with
        | false => rfl
        | true => exfalso; apply han; have : n = a := by simpa using hx
                  subst this; simp
      simp [han, han']

/-- `positional, by_name = _split_by_signature(result); func(*positional, **by_name)` binds like `func(**result)` for a
    function without `*args` (generated prefix rule and return shape) -/
theorem callWith_split_eq (sig : Sig) (rk : Option Name) (d : Assoc) (hva : sig.varArgs = false) :
    callWith sig rk .split d = bindDict sig d := by
  simp only [callWith, splitBySig, hva, Bool.and_false, Bool.false_eq_true, ↓reduceIte, splitReturn]
  rw [prefixNames_eq sig d hva]
  have hmem : ∀ n ∈ sig.posNames.takeWhile (fun n => d.has n), d.has n = true :=
    fun n hn => mem_takeWhile_holds _ _ n hn
  obtain ⟨vs, h1, h2, h3⟩ := lookupAll_ok d _ hmem
  simp only [h1, bind, Except.bind, pure, Except.pure]
  have hpre : sig.posNames.takeWhile (fun n => d.has n) <+: sig.posNames := List.takeWhile_prefix _
  have htake : sig.posNames.take vs.length = sig.posNames.takeWhile (fun n => d.has n) := by
    rw [h2]; exact (List.prefix_iff_eq_take.mp hpre).symm
  have hplen : sig.posNames.length = sig.pos.length := by simp [Sig.posNames]
  apply bindCall_eq_dict
  · rw [h2, ← hplen]; exact hpre.length_le
  · rw [htake]
    rw [any_congr_mem (badKey sig (sig.posNames.takeWhile (fun n => d.has n))) (notParam sig)]
    · apply any_filter_of_irrelevant
      intro kv _ hk
      have hin : kv.1 ∈ sig.posNames.takeWhile (fun n => d.has n) := by simpa using hk
      simp only [notParam, Bool.not_eq_false']
      exact posName_is_param sig kv.1 (hpre.subset hin)
    · intro kv hkv
      have := (List.mem_filter.mp hkv).2
      have hc : (sig.posNames.takeWhile (fun n => d.has n)).contains kv.1 = false := by simpa using this
      simp only [badKey, notParam, hc, Bool.false_or]
  · intro s _
    rw [htake, get?_append, h3 s.name]
    by_cases hc : (sig.posNames.takeWhile (fun n => d.has n)).contains s.name = true
    · have hh := hmem s.name (by simpa using hc)
      simp only [Assoc.has, Option.isSome_iff_exists] at hh
      obtain ⟨w, hw⟩ := hh
      rw [if_pos hc, hw]
    · rw [if_neg hc]
      simp only
      rw [filterKey_get (fun k => !(sig.posNames.takeWhile (fun n => d.has n)).contains k) d s.name]
      have : (!(sig.posNames.takeWhile (fun n => d.has n)).contains s.name) = true := by
        cases hx : (sig.posNames.takeWhile (fun n => d.has n)).contains s.name with
        | false => rfl
        | true => exact absurd hx hc
      rw [if_pos this]


/-! ## The dispatch of `wrapper` / `async_wrapper` (generated programs) -/

/-- the dict without the entries whose value `is None` -/
def withoutNone (res : Assoc) : Assoc := res.filter (fun kv => !kv.2.isNone)

/-- what the generated programs do, sync and async alike — `rk` is the receiver's name (`receiver_name`: `self` when the first
    parameter of the signature is called `self`, else `None`, which is never a key): ARGS → the receiver first if the dict has
    it, else split by signature; KWARGS_WITH_NONE → the receiver first if present, else by keyword; KWARGS_WITHOUT_NONE → the
    same after dropping the entries whose value `is None` -/
theorem dispatch_unfold (sig : Sig) (a : Bool) (m : Mode) (res : Assoc) :
    dispatch sig a m res =
      match m with
      | .args => if res.hasKey (specReceiver sig) then callWith sig (specReceiver sig) .selfKw res
                 else callWith sig (specReceiver sig) .split res
      | .kwWithNone => if res.hasKey (specReceiver sig) then callWith sig (specReceiver sig) .selfKw res
                       else callWith sig (specReceiver sig) .kw res
      | .kwWithoutNone =>
        if (withoutNone res).hasKey (specReceiver sig) then callWith sig (specReceiver sig) .selfKw (withoutNone res)
        else callWith sig (specReceiver sig) .kw (withoutNone res) := by
  cases a <;> cases m
  all_goals
    simp only [dispatch, receiverKey_eq, withoutNone, exec, wrapperProg, asyncWrapperProg, guardHolds, wrapperKeep, asyncWrapperKeep,
      Bool.false_eq_true, ↓reduceIte, beq_self_eq_true, Bool.true_and, Bool.not_true, Bool.false_or, Bool.not_false, Bool.true_or,
      Bool.and_true, Bool.and_self]
  all_goals first
    | (by_cases h : res.hasKey (specReceiver sig) = true <;> simp [h] <;> rfl)
    | (by_cases h : (withoutNone res).hasKey (specReceiver sig) = true <;> simp [withoutNone] at h ⊢ <;> simp [h] <;> rfl)

theorem has_withoutNone (res : Assoc) (n : Name) (hnd : keysNodup res) (h : (withoutNone res).has n = true) :
    ∃ v, res.get? n = some v := by
  simp only [Assoc.has, withoutNone] at h
  rw [filterVal_get (fun v => !v.isNone) res n hnd] at h
  cases hg : res.get? n with
  | none => rw [hg] at h; simp at h
  | some v => exact ⟨v, rfl⟩

/-- a dict has the receiver's key only if the function has a receiver — the first parameter of its signature is called `self` -/
theorem hasKey_receiver (sig : Sig) (d : Assoc) (h : d.hasKey (specReceiver sig) = true) :
    specReceiver sig = some selfName ∧ firstParameter sig = some selfName ∧ ∃ sv, d.get? selfName = some sv := by
  unfold specReceiver at h ⊢
  by_cases hf : firstParameter sig = some selfName
  · rw [if_pos hf] at h ⊢
    simp only [Assoc.hasKey, Assoc.has, Option.isSome_iff_exists] at h
    exact ⟨rfl, hf, h⟩
  · rw [if_neg hf] at h; simp [Assoc.hasKey] at h

/-- **the hand-over is by name.**  One step of the dispatch — "the receiver first if the dict has it, else `func(*positional,
    **by_name)` / `func(**result)`" — on a function without `*args`: whenever Python accepts the call, it binds exactly like
    `func(**d)`.  No hypothesis about `self`: the receiver is popped only when the *first parameter of the signature* is called
    `self`; if that parameter is positional, popping it and passing it first is binding it by name; if it is keyword-only
    (`def f(*, self)`), Python refuses the positional value and the body does not run. -/
theorem handOver_ok_bindDict (sig : Sig) (f : CallForm) (d : Assoc) (b : Binding) (hva : sig.varArgs = false)
    (hf : f = .split ∨ f = .kw)
    (h : (if d.hasKey (specReceiver sig) then callWith sig (specReceiver sig) .selfKw d else callWith sig (specReceiver sig) f d)
          = .ok b) :
    bindDict sig d = .ok b := by
  by_cases hk : d.hasKey (specReceiver sig) = true
  · rw [if_pos hk] at h
    obtain ⟨hr, hfirst, sv, hsv⟩ := hasKey_receiver sig d hk
    rw [hr] at h
    cases hp : sig.pos with
    | cons s0 r =>
      have hs0 : s0.name = selfName := by
        simp only [firstParameter, hp, Option.some.injEq] at hfirst; exact hfirst
      have hpos : sig.posNames = selfName :: r.map (·.name) := by simp [Sig.posNames, hp, hs0]
      rw [callWith_selfKw_eq sig d sv _ hpos hsv] at h
      exact h
    | nil =>
      exfalso
      simp only [callWith, hsv, bindCall, hp, hva, List.length_singleton, List.length_nil, gt_iff_lt, Nat.lt_add_one, decide_true,
        Bool.not_false, Bool.and_self, ↓reduceIte] at h
      cases h
  · rw [if_neg hk] at h
    rcases hf with rfl | rfl
    · rw [callWith_split_eq sig _ d hva] at h; exact h
    · rw [callWith_kw_eq] at h; exact h

/-- whenever the body runs, the dispatch of either wrapper, in every mode, bound the dict *by name*: `func(**d)` with `d` the
    dict (without its None entries in KWARGS_WITHOUT_NONE) — every function without `*args`, no hypothesis about `self` -/
theorem dispatch_ok_bindDict (sig : Sig) (a : Bool) (m : Mode) (res : Assoc) (b : Binding) (hva : sig.varArgs = false)
    (h : dispatch sig a m res = .ok b) :
    bindDict sig (if m = .kwWithoutNone then withoutNone res else res) = .ok b := by
  rw [dispatch_unfold] at h
  cases m with
  | args => simpa using handOver_ok_bindDict sig .split res b hva (Or.inl rfl) h
  | kwWithNone => simpa using handOver_ok_bindDict sig .kw res b hva (Or.inr rfl) h
  | kwWithoutNone => simpa using handOver_ok_bindDict sig .kw (withoutNone res) b hva (Or.inr rfl) h


/-! ## The receiver -/

/-- decidable side condition of the *equation* `dispatch_eq_bindDict` (not of the gate / by-name theorems, which only speak
    about calls whose body runs): a first parameter called `self` is a positional one — the function is not `def f(*, self, …)` -/
def receiverIsPositional (sig : Sig) : Bool :=
  !(sig.pos.isEmpty && sig.kwOnly.head?.map (·.name) == some selfName)

theorem receiver_positional (sig : Sig) (hva : sig.varArgs = false) (h : receiverIsPositional sig = true)
    (hf : firstParameter sig = some selfName) : ∃ rest, sig.posNames = selfName :: rest := by
  cases hp : sig.pos with
  | cons s0 r =>
    have hs0 : s0.name = selfName := by
      simp only [firstParameter, hp, Option.some.injEq] at hf; exact hf
    exact ⟨r.map (·.name), by simp [Sig.posNames, hp, hs0]⟩
  | nil =>
    exfalso
    cases hk : sig.kwOnly with
    | nil => simp [firstParameter, hp, hva, hk] at hf
    | cons k0 r =>
      simp only [firstParameter, hp, hva, hk, Option.some.injEq] at hf
      simp [receiverIsPositional, hp, hk, hf] at h

/-- for a function without `*args` (whose first parameter, if called `self`, is positional) every mode hands the dict over
    *by name*: the hand-over is `func(**d)` with `d` the dict (without its None entries in KWARGS_WITHOUT_NONE) — same result,
    same refusal -/
theorem dispatch_eq_bindDict (sig : Sig) (a : Bool) (m : Mode) (res : Assoc) (hva : sig.varArgs = false)
    (hrecv : receiverIsPositional sig = true) :
    dispatch sig a m res = bindDict sig (if m = .kwWithoutNone then withoutNone res else res) := by
  have key : ∀ (f : CallForm) (d : Assoc), f = .split ∨ f = .kw →
      (if d.hasKey (specReceiver sig) then callWith sig (specReceiver sig) .selfKw d else callWith sig (specReceiver sig) f d)
        = bindDict sig d := by
    intro f d hf
    by_cases hk : d.hasKey (specReceiver sig) = true
    · rw [if_pos hk]
      obtain ⟨hr, hfirst, sv, hsv⟩ := hasKey_receiver sig d hk
      obtain ⟨rest, hrest⟩ := receiver_positional sig hva hrecv hfirst
      rw [hr]
      exact callWith_selfKw_eq sig d sv rest hrest hsv
    · rw [if_neg hk]
      rcases hf with rfl | rfl
      · exact callWith_split_eq sig _ d hva
      · exact callWith_kw_eq sig _ d
  rw [dispatch_unfold]
  cases m with
  | args => simpa using key .split res (Or.inl rfl)
  | kwWithNone => simpa using key .kw res (Or.inr rfl)
  | kwWithoutNone => simpa using key .kw (withoutNone res) (Or.inr rfl)

theorem posNames_nodup (sig : Sig) (h : (sig.named.map (·.name)).Nodup) : sig.posNames.Nodup := by
  simp only [Sig.named, List.map_append] at h
  exact (List.nodup_append.mp h).1


/-! ## C12: the gate, parameter by parameter -/

/-- the gate statement *by name* for one call: whatever the body receives for a parameter that has a declared Parameter
    went through a Parameter of that name (full chain on a supplied value, or the default cascade), or is the function's
    own default for that parameter -/
def GateByName (c : Cfg) (a : Bool) (m : Mode) (args : List PV) (kw : List (Name × PV)) : Prop :=
  ∀ b, runValidate c a m args kw = .ok b → ∀ nv ∈ b.named, ∀ p, findP c.ps nv.1 = some p →
    (∃ q ∈ c.ps, q.name = nv.1 ∧ FromParam c args kw q nv.2) ∨ (∃ s ∈ c.sig.named, s.name = nv.1 ∧ s.dflt = some nv.2)

/-- the full statement: every function without `*args`, every call with distinct keyword / parameter / Parameter names -/
def gate_by_name_full : Prop :=
  ∀ (c : Cfg) (a : Bool) (m : Mode) (args : List PV) (kw : List (Name × PV)),
    c.sig.varArgs = false → (kw.map (·.1)).Nodup → (c.sig.named.map (·.name)).Nodup → (c.ps.map (·.name)).Nodup →
    GateByName c a m args kw

/-- **C12 (gate by name).** Every function without `*args` — plain function or method, whatever its parameters and the
    keywords of the call are named (`self` included) —, every Parameter configuration, every mode, sync or async, every call:
    whatever the body receives for a parameter with a declared Parameter went through a Parameter of that name, or is the
    function's own default for it.  (Before the repair of `selfKeywordBypassesGate` this needed the guard `selfIsReceiver`:
    a keyword `self` on a plain function was handed over positionally.) -/
theorem gate_by_name (c : Cfg) (a : Bool) (m : Mode) (args : List PV) (kw : List (Name × PV))
    (hva : c.sig.varArgs = false) :
    GateByName c a m args kw := by
  intro b hrun nv hnv p hp
  simp only [runValidate, bind, Except.bind] at hrun
  cases hw : wrapperContent c args kw with
  | error e => rw [hw] at hrun; cases hrun
  | ok res =>
    rw [hw] at hrun
    simp only at hrun
    have hinv := res_only_chain_outputs c args kw res hw
    have hrun := dispatch_ok_bindDict c.sig a m res b hva hrun
    generalize hd : (if m = .kwWithoutNone then withoutNone res else res) = d at hrun
    have hsub : ∀ e ∈ d, e ∈ res := by
      intro e he
      rw [← hd] at he
      split at he
      · exact (List.mem_filter.mp he).1
      · exact he
    unfold bindDict at hrun
    by_cases hbad : d.any (notParam c.sig) = true
    · rw [if_pos hbad] at hrun; cases hrun
    · rw [if_neg hbad] at hrun
      simp only [bind, Except.bind] at hrun
      cases hm : c.sig.named.mapM (bindOne d) with
      | error e => rw [hm] at hrun; cases hrun
      | ok named =>
        rw [hm] at hrun
        simp only [pure, Except.pure, Except.ok.injEq] at hrun
        subst hrun
        obtain ⟨s, hs, hfs⟩ := mapM_ok_mem _ _ _ hm nv hnv
        unfold bindOne at hfs
        cases hg : Assoc.get? d s.name with
        | some v =>
          rw [hg] at hfs
          simp only [Except.ok.injEq] at hfs
          subst hfs
          rcases hinv _ (hsub _ (get?_mem _ _ _ hg)) with h1 | ⟨h2, _⟩
          · exact Or.inl h1
          · simp only at hp h2; rw [h2] at hp; cases hp
        | none =>
          rw [hg] at hfs
          cases hdf : s.dflt with
          | some dv =>
            rw [hdf] at hfs
            simp only [Except.ok.injEq] at hfs
            subst hfs
            exact Or.inr ⟨s, hs, rfl, hdf⟩
          | none => rw [hdf] at hfs; cases hfs

/-- the full statement, proved (its hypotheses about distinct names are not even needed) -/
theorem gate_by_name_full_proved : gate_by_name_full :=
  fun c a m args kw hva _ _ _ => gate_by_name c a m args kw hva

/-! ### the gate by name, any signature (`*args` included) -/

/-- every named parameter the body receives is an entry of the dict `d` *under its own name*, or the function's own default -/
def NamedFrom (sig : Sig) (d : Assoc) (b : Binding) : Prop :=
  ∀ nv ∈ b.named, nv ∈ d ∨ ∃ s ∈ sig.named, s.name = nv.1 ∧ s.dflt = some nv.2

/-- Python's binding of `func(*pos, **kw)`: a named parameter gets the positional value at its own position, the keyword of its
    own name, or its default -/
theorem bindCall_namedFrom (sig : Sig) (pos : List PV) (kw : Assoc) (b : Binding) (h : bindCall sig pos kw = .ok b) :
    ∀ nv ∈ b.named, nv ∈ (sig.posNames.take pos.length).zip pos ∨ nv ∈ kw ∨ ∃ s ∈ sig.named, s.name = nv.1 ∧ s.dflt = some nv.2 := by
  unfold bindCall at h
  split at h
  · cases h
  · split at h
    · cases h
    · simp only [bind, Except.bind] at h
      cases hm : sig.named.mapM (bindOne ((sig.posNames.take pos.length).zip pos ++ kw)) with
      | error e => rw [hm] at h; cases h
      | ok named =>
        rw [hm] at h
        simp only [pure, Except.pure, Except.ok.injEq] at h
        subst h
        intro nv hnv
        obtain ⟨s, hs, hfs⟩ := mapM_ok_mem _ _ _ hm nv hnv
        unfold bindOne at hfs
        cases hg : Assoc.get? ((sig.posNames.take pos.length).zip pos ++ kw) s.name with
        | some w =>
          rw [hg] at hfs
          simp only [Except.ok.injEq] at hfs
          subst hfs
          have := get?_mem _ _ _ hg
          simp only [List.mem_append] at this
          rcases this with hz | hk
          · exact Or.inl hz
          · exact Or.inr (Or.inl hk)
        | none =>
          rw [hg] at hfs
          cases hd : s.dflt with
          | some d =>
            rw [hd] at hfs
            simp only [Except.ok.injEq] at hfs
            subst hfs
            exact Or.inr (Or.inr ⟨s, hs, rfl, hd⟩)
          | none => rw [hd] at hfs; cases hfs

theorem bindDict_namedFrom (sig : Sig) (d : Assoc) (b : Binding) (h : bindDict sig d = .ok b) : NamedFrom sig d b := by
  unfold bindDict at h
  split at h
  · cases h
  · simp only [bind, Except.bind] at h
    cases hm : sig.named.mapM (bindOne d) with
    | error e => rw [hm] at h; cases h
    | ok named =>
      rw [hm] at h
      simp only [pure, Except.pure, Except.ok.injEq] at h
      subst h
      intro nv hnv
      obtain ⟨s, hs, hfs⟩ := mapM_ok_mem _ _ _ hm nv hnv
      unfold bindOne at hfs
      cases hg : Assoc.get? d s.name with
      | some v =>
        rw [hg] at hfs
        simp only [Except.ok.injEq] at hfs
        subst hfs
        exact Or.inl (get?_mem _ _ _ hg)
      | none =>
        rw [hg] at hfs
        cases hdf : s.dflt with
        | some dv =>
          rw [hdf] at hfs
          simp only [Except.ok.injEq] at hfs
          subst hfs
          exact Or.inr ⟨s, hs, rfl, hdf⟩
        | none => rw [hdf] at hfs; cases hfs

/-- values handed over positionally in dict order land under their own names when the keys follow the signature -/
theorem zip_keys_mem : ∀ (res : Assoc) (names : List Name),
    (∀ i, i < names.length → i < res.length → (res.map (·.1))[i]? = names[i]?) →
    ∀ e ∈ names.zip (res.map (·.2)), e ∈ res := by
  intro res
  induction res with
  | nil => intro names _ e he; simp at he
  | cons kv tl ih =>
    intro names hk e he
    cases names with
    | nil => simp at he
    | cons n ns =>
      simp only [List.map_cons, List.zip_cons_cons, List.mem_cons] at he
      have h0 := hk 0 (by simp) (by simp)
      simp only [List.map_cons, List.getElem?_cons_zero, Option.some.injEq] at h0
      rcases he with rfl | he
      · rw [← h0]; simp
      · refine List.mem_cons_of_mem _ (ih ns ?_ e he)
        intro i hi1 hi2
        have := hk (i + 1) (by simp; omega) (by simp; omega)
        simpa using this

theorem keysFollowSignature_spec (sig : Sig) (res : Assoc) (h : keysFollowSignature sig res = true) :
    ∀ i, i < (sig.posNames.take res.length).length → i < res.length →
      (res.map (·.1))[i]? = (sig.posNames.take res.length)[i]? := by
  intro i hi1 hi2
  unfold keysFollowSignature at h
  have h' : (res.map (·.1)).take sig.pos.length = sig.posNames.take res.length := by simpa using h
  rw [← h']
  have hlt : i < sig.pos.length := by
    have : (sig.posNames.take res.length).length ≤ sig.pos.length := by simp [Sig.posNames]; omega
    omega
  rw [List.getElem?_take_of_lt hlt]

/-- **the hand-over, any signature**: under the guard `handOverByName` (no VAR_POSITIONAL parameter, or a KWARGS mode, or the
    receiver of a method first, or dict keys in signature order) every named parameter the body receives is an entry of the
    dict handed over *under that very name*, or the function's own default -/
theorem dispatch_namedFrom (c : Cfg) (a : Bool) (m : Mode) (res : Assoc) (b : Binding)
    (hg : handOverByName c m res = true) (h : dispatch c.sig a m res = .ok b) :
    ∀ nv ∈ b.named, nv ∈ res ∨ ∃ s ∈ c.sig.named, s.name = nv.1 ∧ s.dflt = some nv.2 := by
  cases hva : c.sig.varArgs with
  | false =>
    have hb := dispatch_ok_bindDict c.sig a m res b hva h
    intro nv hnv
    rcases bindDict_namedFrom _ _ _ hb nv hnv with h1 | h2
    · left
      split at h1
      · exact (List.mem_filter.mp h1).1
      · exact h1
    · exact Or.inr h2
  | true =>
    -- one hand-over step on a dict `d` whose entries are entries of `res`
    have selfKw : ∀ (d : Assoc), (∀ e ∈ d, e ∈ res) → d.hasKey (specReceiver c.sig) = true →
        callWith c.sig (specReceiver c.sig) .selfKw d = .ok b →
        ∀ nv ∈ b.named, nv ∈ res ∨ ∃ s ∈ c.sig.named, s.name = nv.1 ∧ s.dflt = some nv.2 := by
      intro d hsub hk hc nv hnv
      obtain ⟨hr, hfirst, sv, hsv⟩ := hasKey_receiver c.sig d hk
      rw [hr] at hc
      simp only [callWith, hsv] at hc
      rcases bindCall_namedFrom _ _ _ _ hc nv hnv with h1 | h2 | h3
      · left
        cases hp : c.sig.pos with
        | nil => simp [Sig.posNames, hp] at h1
        | cons s0 r =>
          have hs0 : s0.name = selfName := by
            simp only [firstParameter, hp, Option.some.injEq] at hfirst; exact hfirst
          simp only [Sig.posNames, hp, List.map_cons, List.length_singleton, List.take_succ_cons, List.take_zero, hs0,
            List.zip_cons_cons, List.zip_nil_right, List.mem_singleton] at h1
          subst h1
          exact hsub _ (get?_mem _ _ _ hsv)
      · exact Or.inl (hsub _ (List.mem_filter.mp h2).1)
      · exact Or.inr h3
    have kwForm : ∀ (d : Assoc), (∀ e ∈ d, e ∈ res) → callWith c.sig (specReceiver c.sig) .kw d = .ok b →
        ∀ nv ∈ b.named, nv ∈ res ∨ ∃ s ∈ c.sig.named, s.name = nv.1 ∧ s.dflt = some nv.2 := by
      intro d hsub hc nv hnv
      rw [callWith_kw_eq] at hc
      rcases bindDict_namedFrom _ _ _ hc nv hnv with h1 | h2
      · exact Or.inl (hsub _ h1)
      · exact Or.inr h2
    have hwn : ∀ e ∈ withoutNone res, e ∈ res := fun e he => (List.mem_filter.mp he).1
    rw [dispatch_unfold] at h
    cases m with
    | kwWithNone =>
      simp only at h
      split at h
      · rename_i hk; exact selfKw res (fun e he => he) hk h
      · exact kwForm res (fun e he => he) h
    | kwWithoutNone =>
      simp only at h
      split at h
      · rename_i hk; exact selfKw _ hwn hk h
      · exact kwForm _ hwn h
    | args =>
      simp only at h
      split at h
      · rename_i hk; exact selfKw res (fun e he => he) hk h
      · rename_i hk
        have hkeys : keysFollowSignature c.sig res = true := by
          have := hg
          simp only [handOverByName, hva, hk, Bool.not_true, bne_self_eq_false, Bool.false_or, Bool.and_eq_true] at this
          exact this.1
        simp only [callWith, splitBySig, hva, varPosShortcut, Bool.and_self, ↓reduceIte, bind, Except.bind] at h
        intro nv hnv
        rcases bindCall_namedFrom _ _ _ _ h nv hnv with h1 | h2 | h3
        · left
          simp only [List.length_map] at h1
          exact zip_keys_mem res _ (keysFollowSignature_spec c.sig res hkeys) nv h1
        · cases h2
        · exact Or.inr h3

/-- the full statement of the by-name gate: every signature — a VAR_POSITIONAL parameter included —, every call -/
def gate_by_name_any_signature_full : Prop :=
  ∀ (c : Cfg) (a : Bool) (m : Mode) (args : List PV) (kw : List (Name × PV)), GateByName c a m args kw

/-- **C12 (gate by name, any signature), under the decidable guard `handOverGuard`** (`Spec/ValidateRegions.lean`: the function
    has no VAR_POSITIONAL parameter — then this is `gate_by_name` —, or `return_as` is a KWARGS mode, or the function is a method
    whose receiver is in the dict, or the keys of the dict stand in signature order): whatever the body receives for a parameter
    with a declared Parameter went through a Parameter **of that name**, or is the function's own default for it. -/
theorem gate_by_name_any_signature_partial (c : Cfg) (a : Bool) (m : Mode) (args : List PV) (kw : List (Name × PV))
    (hg : handOverGuard c m args kw = true) :
    GateByName c a m args kw := by
  intro b hrun nv hnv p hp
  simp only [runValidate, bind, Except.bind] at hrun
  cases hw : wrapperContent c args kw with
  | error e => rw [hw] at hrun; cases hrun
  | ok res =>
    rw [hw] at hrun
    simp only at hrun
    have hinv := res_only_chain_outputs c args kw res hw
    have hg' : handOverByName c m res = true := by simpa [handOverGuard, hw] using hg
    rcases dispatch_namedFrom c a m res b hg' hrun nv hnv with hmem | hdef
    · rcases hinv _ hmem with h1 | ⟨h2, _⟩
      · exact Or.inl h1
      · rw [h2] at hp; cases hp
    · exact Or.inr hdef

/-- `@validate(Parameter('a', validators=[<rejects obj 50>]), Parameter('b', validators=[<rejects obj 150>]))
    def g(a, b, *rest)` — default mode ARGS (names: a = 2, b = 3; think of `Min(0)` / `Max(-5)` with obj 50 = -10, obj 150 = 7) -/
def exArrival : Cfg :=
  { ps := [⟨2, true, none, none, none, [fun v => if v = .obj 50 then .error (.rejected emptyName) else .ok v], false, by decide⟩,
           ⟨3, true, none, none, none, [fun v => if v = .obj 150 then .error (.rejected emptyName) else .ok v], false, by decide⟩],
    sig := { pos := [⟨2, none⟩, ⟨3, none⟩], varArgs := true, kwOnly := [] }, strict := true, ignoreInput := false, req := .notJson }

/-- a call's outcome as data (the steps of a Parameter are functions, so `Cfg` itself has no decidable equality; outcomes do) -/
abbrev Outcome := Except VExc Binding
instance instDecEqExcept {α : Type} [DecidableEq α] : DecidableEq (Except VExc α) := fun x y =>
  match x, y with
  | .ok a, .ok b => if h : a = b then isTrue (by rw [h]) else isFalse (by intro hh; cases hh; exact h rfl)
  | .error a, .error b => if h : a = b then isTrue (by rw [h]) else isFalse (by intro hh; cases hh; exact h rfl)
  | .ok _, .error _ => isFalse (by intro hh; cases hh)
  | .error _, .ok _ => isFalse (by intro hh; cases hh)

/-- the call `g(150, b=50)` (Python: `g(7, b=-10)`): both values pass the chain of the parameter they are meant for; the dict is
    `{b: 50, a: 150}` (keywords first), handed over as `g(50, 150)` — the body runs with `a = obj 50`, which the chain of `a`
    rejects.  `g(b=50, a=150)` does the same; `g(50, 150)` is refused; under a KWARGS mode the binding is by name. -/
theorem arrival_order_witness :
    (runValidate exArrival false .args [.obj 150] [(3, .obj 50)] : Outcome) = .ok ⟨[(2, .obj 50), (3, .obj 150)], []⟩ ∧
    (runValidate exArrival true .args [] [(3, .obj 50), (2, .obj 150)] : Outcome) = .ok ⟨[(2, .obj 50), (3, .obj 150)], []⟩ ∧
    (runValidate exArrival false .args [.obj 50, .obj 150] [] : Outcome) = .error (.parameter 2 (.validator 0)) ∧
    (runValidate exArrival false .kwWithNone [.obj 150] [(3, .obj 50)] : Outcome) = .ok ⟨[(2, .obj 150), (3, .obj 50)], []⟩ ∧
    handOverGuard exArrival .args [.obj 150] [(3, .obj 50)] = false := by decide

/-- **negation witness**: without the guard the by-name gate is false on the current code for a plain function with a
    VAR_POSITIONAL parameter in ARGS mode (finding `varArgsHandOverInArrivalOrder`; the hand-over `list(result.values())` of
    `_split_by_signature` is pinned by the maintainers' test `test_return_as_args_advanced_different_order`) -/
theorem gate_by_name_any_signature_fails : ¬ gate_by_name_any_signature_full := by
  intro h
  have := h exArrival false .args [.obj 150] [(3, .obj 50)] ⟨[(2, .obj 50), (3, .obj 150)], []⟩ arrival_order_witness.1
    (2, .obj 50) (by simp) _ rfl
  rcases this with ⟨q, hq, hqn, hfrom⟩ | ⟨s, hs, _, hd⟩
  · have hq2 : q = (exArrival.ps)[0] := by
      simp only [exArrival, List.mem_cons, List.not_mem_nil, or_false] at hq
      rcases hq with rfl | rfl
      · rfl
      · simp at hqn
    subst hq2
    rcases hfrom with ⟨x, hx, hv⟩ | ⟨hreq, _⟩
    · simp only [rawInputs, List.map_cons, List.map_nil, List.cons_append, List.nil_append, List.mem_cons, List.not_mem_nil,
        or_false] at hx
      rcases hx with (rfl | rfl) | hx
      · have e : (exArrival.ps)[0].validate (.obj 150) = .ok (.obj 150) := by rfl
        rw [e] at hv; simp at hv
      · have e : (exArrival.ps)[0].validate (.obj 50) = .error (.parameter 2 (.validator 0)) := by rfl
        rw [e] at hv; cases hv
      · simp [exArrival] at hx
    · revert hreq; decide
  · simp only [exArrival, Sig.named, List.append_nil, List.mem_cons, List.not_mem_nil, or_false] at hs
    rcases hs with rfl | rfl <;> simp at hd

/-- `@validate(Parameter('a', required=False, validators=[<rejects everything>]), strict=False,
    return_as=ReturnAs.KWARGS_WITHOUT_NONE)  def f(a=<obj 100>)` — a *plain function* -/
def exSelfEdge : Cfg :=
  { ps := [⟨2, false, none, none, none, [fun _ => .error (.rejected emptyName)], false, by decide⟩],
    sig := { pos := [⟨2, some (.obj 100)⟩], varArgs := false, kwOnly := [] }, strict := false, ignoreInput := false, req := .noContext }


/-- **the former failing input of `selfKeywordBypassesGate`, repaired.**  The call `f(None, self=<obj 101>)`: None passes for
    the non-required `a` and is dropped by KWARGS_WITHOUT_NONE; the surplus keyword `self` — the function has no receiver — now
    travels like every other undeclared keyword: it is passed *by name*, Python refuses it (`TypeError`: unexpected keyword) and
    the body does not run.  Sync and async, all three modes; under `strict` it is `TooManyArguments`.  (Before the repair the
    keyword was popped and handed over positionally: the body ran with `a = <obj 101>` although the chain of `a` rejects
    every value.) -/
theorem fixed_self_keyword :
    (∀ a ∈ [false, true], ∀ m ∈ [Mode.args, Mode.kwWithNone, Mode.kwWithoutNone],
      (runValidate exSelfEdge a m [.none] [(selfName, .obj 101)] : Outcome) = .error .bodyTypeError ∧
      (runValidate { exSelfEdge with strict := true } a m [.none] [(selfName, .obj 101)] : Outcome) = .error .tooMany) ∧
    exSelfEdge.sig.receiver = none := by decide

/-- a *method* keeps its receiver, passed positionally (`obj.f(v)`) or by keyword (`K.f(self=obj, a=v)`, non-strict):
    `def f(self, a=<obj 100>)` with `Parameter('a', validators=[v ↦ 8·v + 1])` -/
def exMethod : Cfg :=
  { ps := [⟨2, false, none, none, none, [fun v => match v with | .obj i => .ok (.obj (i * 8 + 1)) | .none => .ok .none], false, by decide⟩],
    sig := { pos := [⟨selfName, none⟩, ⟨2, some (.obj 100)⟩], varArgs := false, kwOnly := [] }, strict := false, ignoreInput := false,
    req := .noContext }
example : exMethod.sig.receiver = some selfName := by decide
example : (runValidate exMethod false .args [.obj 90, .obj 50] [] : Outcome) = .ok ⟨[(selfName, .obj 90), (2, .obj 401)], []⟩ := by decide
example : (runValidate exMethod true .kwWithoutNone [] [(2, .obj 50), (selfName, .obj 90)] : Outcome)
    = .ok ⟨[(selfName, .obj 90), (2, .obj 401)], []⟩ := by decide
-- strict: the receiver bound positionally needs no Parameter; passed by keyword it is an argument without Parameter
example : (runValidate { exMethod with strict := true } false .args [.obj 90, .obj 50] [] : Outcome)
    = .ok ⟨[(selfName, .obj 90), (2, .obj 401)], []⟩ := by decide
example : (runValidate { exMethod with strict := true } false .args [] [(selfName, .obj 90), (2, .obj 50)] : Outcome)
    = .error .tooMany := by decide
-- an ordinary parameter called `self` in a non-first position is no receiver: bound by name, and under `strict` it needs a Parameter
example : (runValidate { exMethod with sig := { pos := [⟨2, none⟩, ⟨selfName, none⟩], varArgs := false, kwOnly := [] } } false .args
    [.obj 50, .obj 90] [] : Outcome) = .ok ⟨[(2, .obj 401), (selfName, .obj 90)], []⟩ := by decide
example : (runValidate { exMethod with sig := { pos := [⟨2, none⟩, ⟨selfName, none⟩], varArgs := false, kwOnly := [] }, strict := true }
    false .args [.obj 50, .obj 90] [] : Outcome) = .error .tooMany := by decide
-- the hypotheses of `gate_by_name` are satisfiable, and its conclusion speaks about a body that runs
example : GateByName exMethod false .args [.obj 90, .obj 50] [] := gate_by_name exMethod false .args [.obj 90, .obj 50] [] rfl

/-- the facts the translator reads about `Parameter.validate` and the loop order of `_wrapper_content` -/
theorem validate_source_shape :
    noneRuleFirst = true ∧ chainOverAllValidators = true ∧ chainFeedsPredecessorOutput = true ∧
    chainHandlerIsValidatorException = true ∧ loopOrder = [.kw, .pos, .unused] ∧
    underIgnoreInput .kw = true ∧ underIgnoreInput .pos = true ∧ underIgnoreInput .unused = false := by decide

/-! ## Non-vacuity: concrete instances -/

/-- a validator `v ↦ 8·v + k` that rejects the values in `rej` -/
def exV (k : Nat) (rej : List Nat) : Step := fun v =>
  match v with
  | .obj i => if rej.contains i then .error (.rejected emptyName) else .ok (.obj (i * 8 + k))
  | .none => .ok .none

/-! ## Which parameter a rejection names

The statement: "if any step rejects, a ParameterException **carrying the parameter name** is raised" — the name of the
Parameter whose chain rejected, also when the rejecting validator raises a `ValidatorException` that already carries a
`parameter_name` (set by itself, or by `Validator.validate_param(value, parameter_name=…)` of a composite validator that
delegates to other validators — a nested field name, possibly the name of *another* Parameter of the same function). -/

/-- **C12 (naming).** Whatever a Parameter's `validate` raises as `ParameterException` names **that** Parameter — for
    arbitrary conversion and validator steps, whatever names their own exceptions carry. -/
theorem rejection_names_the_rejecting_parameter (p : VParam) (v : PV) (n : Name) (w : Why)
    (h : p.validate v = .error (.parameter n w)) : n = p.name := by
  rcases validate_error_names p v _ h with ⟨w', hw⟩ | ⟨i, hi⟩
  · cases hw; rfl
  · cases hi

/-- a step whose `ValidatorException`s carry other names: `g` applied to the carried name -/
def relabel (g : Name → Name) (f : Step) : Step := fun v =>
  match f v with
  | .error (.rejected c) => .error (.rejected (g c))
  | r => r

/-- `Validator.validate_param(value, parameter_name)` is such a relabelling — whatever its (generated) labelling rule
    `validateParamName` is; accepted values and foreign exceptions pass unchanged -/
theorem validateParam_eq_relabel (f : Step) (pn : Name) : validateParam f pn = relabel (validateParamName pn) f := rfl

theorem runValidators_relabel (g : Name → Name) (name : Name) (hne : (name != emptyName) = true) :
    ∀ (fs : List Step) (j : Nat) (v : PV), runValidators name (fs.map (relabel g)) j v = runValidators name fs j v := by
  intro fs
  induction fs with
  | nil => intro j v; rfl
  | cons f fs ih =>
    intro j v
    simp only [List.map_cons, runValidators, relabel]
    cases hf : f v with
    | ok w => simp only; exact ih _ _
    | error r => cases r <;> simp [chainHandlerName_self _ _ hne]

/-- **C12 (naming, strong form).** The outcome of `Parameter.validate` — value, exception class, *name* and failing step —
    does not depend on the names the validators' own exceptions carry: relabel them in any way (wrap any validator in
    `validate_param` with any name, nest such delegations to any depth) and nothing changes. -/
theorem validate_independent_of_carried_names (g : Name → Name) (p : VParam) (v : PV) :
    ({ p with validators := p.validators.map (relabel g) } : VParam).validate v = p.validate v := by
  rw [validate_unfold, validate_unfold]
  unfold VParam.validateRef
  cases v with
  | none => rfl
  | obj i =>
    simp only
    cases hc : p.conv with
    | none => simp only; exact runValidators_relabel g _ p.nameNonEmpty _ _ _
    | some cv =>
      simp only
      cases cv (.obj i) with
      | ok w => simp only; exact runValidators_relabel g _ p.nameNonEmpty _ _ _
      | error r => cases r <;> rfl

/-- what a `ParameterException(n, w)` raised by a call says: `n` is a declared Parameter that rejected a value itself
    (`p.validate v` raises exactly this exception) or that is required and has no value -/
def NamedBy (ps : List VParam) (e : VExc) : Prop :=
  ∀ n w, e = .parameter n w → ∃ p ∈ ps, p.name = n ∧ ((∃ v, p.validate v = .error e) ∨ (w = .required ∧ p.isRequired = true ∧ p.ext = none))

theorem namedBy_of_validate (ps : List VParam) (p : VParam) (hp : p ∈ ps) (v : PV) (e : VExc) (h : p.validate v = .error e) :
    NamedBy ps e := by
  intro n w he
  subst he
  exact ⟨p, hp, (rejection_names_the_rejecting_parameter p v n w h).symm, Or.inl ⟨v, h⟩⟩

theorem loopKw_error_named (ps : List VParam) (strict : Bool) :
    ∀ (kw : List (Name × PV)) (res : Assoc) (used : List Name) (e : VExc), loopKw ps strict kw res used = .error e → NamedBy ps e := by
  intro kw
  induction kw with
  | nil => intro res used e h; simp [loopKw, kwStrictTest_eq] at h
  | cons hd tl ih =>
    intro res used e h
    obtain ⟨k, v⟩ := hd
    simp only [loopKw, kwStrictTest_eq] at h
    cases hf : findP ps k with
    | none =>
      rw [hf] at h
      simp only at h
      split at h
      · cases h; intro n w he; cases he
      · exact ih _ _ _ h
    | some q =>
      rw [hf] at h
      simp only at h
      cases hv : q.validate v with
      | error e' =>
        simp only [hv, bind, Except.bind, Except.error.injEq] at h; subst h
        exact namedBy_of_validate ps q (findP_mem _ _ _ hf) v _ hv
      | ok v' => simp only [hv, bind, Except.bind] at h; exact ih _ _ _ h

theorem loopPos_error_named (ps : List VParam) (strict : Bool) (recv : Option Name) :
    ∀ (bd : List (Name × PV)) (res : Assoc) (used : List Name) (ua : List PV) (e : VExc),
      loopPos ps strict recv bd res used ua = .error e → NamedBy ps e := by
  intro bd
  induction bd with
  | nil => intro res used ua e h; simp [loopPos, posStrictTest_eq] at h
  | cons hd tl ih =>
    intro res used ua e h
    obtain ⟨k, v⟩ := hd
    simp only [loopPos, posStrictTest_eq] at h
    cases hf : findP ps k with
    | none =>
      rw [hf] at h
      simp only at h
      split at h
      · cases h; intro n w he; cases he
      · exact ih _ _ _ _ h
    | some q =>
      rw [hf] at h
      simp only at h
      cases hv : q.validate v with
      | error e' =>
        simp only [hv, bind, Except.bind, Except.error.injEq] at h; subst h
        exact namedBy_of_validate ps q (findP_mem _ _ _ hf) v _ hv
      | ok v' => simp only [hv, bind, Except.bind] at h; exact ih _ _ _ _ h

theorem loopZip_error_named (ps : List VParam) :
    ∀ (pairs : List (PV × VParam)) (res : Assoc) (used : List Name) (e : VExc), (∀ ap ∈ pairs, ap.2 ∈ ps) →
      loopZip pairs res used = .error e → NamedBy ps e := by
  intro pairs
  induction pairs with
  | nil => intro res used e _ h; simp [loopZip] at h
  | cons hd tl ih =>
    intro res used e hps h
    obtain ⟨a, p⟩ := hd
    simp only [loopZip] at h
    cases hv : p.validate a with
    | error e' =>
      simp only [hv, bind, Except.bind, Except.error.injEq] at h; subst h
      exact namedBy_of_validate ps p (hps (a, p) (by simp)) a _ hv
    | ok v' =>
      simp only [hv, bind, Except.bind] at h
      exact ih _ _ _ (fun ap hap => hps ap (List.mem_cons_of_mem _ hap)) h

theorem loopUnused_error_named (ps : List VParam) (sig : Sig) :
    ∀ (l : List VParam) (res : Assoc) (e : VExc), (∀ p ∈ l, p ∈ ps) → loopUnused sig l res = .error e → NamedBy ps e := by
  intro l
  induction l with
  | nil => intro res e _ h; simp [loopUnused] at h
  | cons p tl ih =>
    intro res e hps h
    have htl : ∀ q ∈ tl, q ∈ ps := fun q hq => hps q (List.mem_cons_of_mem _ hq)
    simp only [loopUnused] at h
    cases he : p.ext with
    | some v =>
      rw [he] at h
      simp only at h
      cases hv : p.validate v with
      | error e' =>
        simp only [hv, bind, Except.bind, Except.error.injEq] at h; subst h
        exact namedBy_of_validate ps p (hps p (by simp)) v _ hv
      | ok v' => simp only [hv, bind, Except.bind] at h; exact ih _ _ htl h
    | none =>
      rw [he] at h
      simp only at h
      by_cases hr : p.isRequired = true
      · simp only [hr, ↓reduceIte, Except.error.injEq] at h; subst h
        intro n w hnw
        simp only [VExc.parameter.injEq] at hnw
        obtain ⟨rfl, rfl⟩ := hnw
        exact ⟨p, hps p (by simp), rfl, Or.inr ⟨rfl, hr, he⟩⟩
      · simp only [hr, Bool.false_eq_true, ↓reduceIte] at h
        cases hd : p.dflt with
        | some d => rw [hd] at h; exact ih _ _ htl h
        | none =>
          rw [hd] at h
          simp only at h
          cases hsd : sig.default? p.name with
          | some d => rw [hsd] at h; exact ih _ _ htl h
          | none => rw [hsd] at h; cases h; intro n w he'; cases he'

theorem zipPairs_mem (ps : List VParam) (args extras : List PV) (used : List Name) (ua : List PV) :
    ∀ ap ∈ zipPairs ps args extras used ua, ap.2 ∈ ps := by
  intro ap hap
  obtain ⟨a, p⟩ := ap
  have := (List.of_mem_zip hap).2
  exact (List.mem_filter.mp this).1

/-- **C12 (naming, whole call, any signature — `*args` included).** When a call of the decorated function ends in a
    `ParameterException`, the name it carries is the name of a *declared* Parameter which itself rejected a value it was given
    (its own `validate` raises exactly this exception), or which is required and has no value — never a name that a validator's
    exception brought along. -/
theorem call_rejection_names_the_rejecting_parameter (c : Cfg) (a : Bool) (m : Mode) (args : List PV) (kw : List (Name × PV))
    (n : Name) (w : Why) (h : wrapperContent c args kw = .error (.parameter n w)) :
    runValidate c a m args kw = .error (.parameter n w) ∧
    ∃ p ∈ c.ps, p.name = n ∧ ((∃ v, p.validate v = .error (.parameter n w)) ∨ (w = .required ∧ p.isRequired = true ∧ p.ext = none)) := by
  refine ⟨run_error_of_content_error c a m args kw _ h, ?_⟩
  suffices hs : NamedBy c.ps (.parameter n w) from hs n w rfl
  rw [wrapperContent_eq_seq] at h
  unfold wrapperSeq at h
  have hflask : ∀ (res : Assoc) (e : VExc), flaskCheck c.ps c.strict c.req res = .error e → NamedBy c.ps e := by
    intro res e hf n' w' he
    subst he
    unfold flaskCheck at hf
    split at hf
    · cases hr : c.req with
      | noContext => rw [hr] at hf; cases hf
      | notJson => rw [hr] at hf; cases hf
      | json keys => rw [hr] at hf; simp only at hf; split at hf <;> cases hf
    · cases hf
  have hfilter : ∀ (f : VParam → Bool), ∀ p ∈ c.ps.filter f, p ∈ c.ps := fun f p hp => (List.mem_filter.mp hp).1
  split at h
  · cases hu : loopUnused c.sig (c.ps.filter (fun p => !([] : List Name).contains p.name)) [] with
    | error e => rw [hu] at h; simp only [Except.bind, Except.error.injEq] at h; subst h; exact loopUnused_error_named _ _ _ _ _ (hfilter _) hu
    | ok r => rw [hu] at h; exact hflask _ _ h
  · cases h1 : loopKw c.ps c.strict kw [] [] with
    | error e => rw [h1] at h; simp only [Except.bind, Except.error.injEq] at h; subst h; exact loopKw_error_named _ _ _ _ _ _ h1
    | ok st1 =>
      rw [h1] at h
      simp only [Except.bind] at h
      cases hb : bindPartial c.sig args with
      | error e =>
        rw [hb] at h; simp only [Except.error.injEq] at h
        unfold bindPartial at hb
        split at hb
        · cases hb
        · split at hb
          · split at hb <;> cases hb
          · cases hb; cases h
      | ok b =>
        rw [hb] at h
        simp only at h
        cases h2 : loopPos c.ps c.strict c.sig.receiver b.named st1.1 st1.2 [] with
        | error e => rw [h2] at h; simp only [Except.error.injEq] at h; subst h; exact loopPos_error_named _ _ _ _ _ _ _ _ h2
        | ok st2 =>
          rw [h2] at h
          simp only at h
          cases h3 : (if b.extras.isEmpty then (.ok (st2.1, st2.2.1) : Except VExc (Assoc × List Name))
              else if zipRefuses c.ps c.strict args b.extras st2.2.1 st2.2.2 then .error .tooMany
              else loopZip (zipPairs c.ps args b.extras st2.2.1 st2.2.2) st2.1 st2.2.1) with
          | error e =>
            rw [h3] at h; simp only [Except.error.injEq] at h; subst h
            split at h3
            · cases h3
            · split at h3
              · simp only [Except.error.injEq] at h3; rw [← h3]; intro n w hh; cases hh
              · exact loopZip_error_named _ _ _ _ _ (zipPairs_mem _ _ _ _ _) h3
          | ok st3 =>
            rw [h3] at h
            simp only at h
            cases hu : loopUnused c.sig (c.ps.filter (fun p => !st3.2.contains p.name)) st3.1 with
            | error e => rw [hu] at h; simp only [Except.error.injEq] at h; subst h; exact loopUnused_error_named _ _ _ _ _ (hfilter _) hu
            | ok r => rw [hu] at h; exact hflask _ _ h

/-- the full statement of the naming rule, without the invariant "a Parameter's name is a non-empty string" … -/
def rejection_naming_full : Prop := ∀ selfName carried : Name, chainHandlerName selfName carried = selfName
/-- … proved under that guard (`chainHandlerName_self`) … -/
theorem rejection_naming_partial (selfName carried : Name) (h : (selfName != emptyName) = true) :
    chainHandlerName selfName carried = selfName := chainHandlerName_self selfName carried h
/-- … and false without it: `parameter_name or exception.parameter_name` — a Parameter declared with the *empty* name
    (`Parameter(name='')`, which names no parameter of any function) adopts the name the validator's exception carries -/
theorem rejection_naming_full_fails : ¬ rejection_naming_full := by
  intro h; exact absurd (h emptyName 2) (by decide)

/-- the facts the translator reads about the naming of a rejection that the hand-written part of the model relies on:
    `ParameterException.__init__` stores the `parameter_name` it is given, and the required / conversion path
    (`Parameter.raise_exception`) names `self.name`.  (What `ValidatorException` stores and how `validate_param` labels is
    generated too, and used by the correspondence check, but no theorem depends on it: the naming theorems hold for *every*
    name a validator's exception may carry.) -/
theorem rejection_naming_source_shape :
    (∀ n, parameterExceptionStoresName n = n) ∧ (∀ n, raiseExceptionName n = n) := ⟨fun _ => rfl, fun _ => rfl⟩

/-- `@validate(Parameter('a'), strict=True)  def f(a, s)` (names a = 2, s = 12 — a substring of `self`), called `f(100, 101)`:
    no Parameter is declared for `s`, so the call raises TooManyArguments and the body does not run; a method's receiver
    (`self`, name 0) is the only exempt name -/
def exStrictNames (second : Name) : Cfg :=
  { ps := [⟨2, true, none, none, none, [], false, by decide⟩],
    sig := { pos := [⟨2, none⟩, ⟨second, none⟩], varArgs := false, kwOnly := [] }, strict := true, ignoreInput := false, req := .noContext }
example : nameTable[12]? = some "s" ∧ nameTable[13]? = some "e" ∧ nameTable[20]? = some "elf" ∧ nameTable[0]? = some "self" := by decide
example : ∀ n ∈ [12, 13, 14, 15, 16, 17, 18, 19, 20, 21, 9, 1, 8],
    runValidate (exStrictNames n) false .args [.obj 100, .obj 101] [] = .error .tooMany := by
  intro n hn
  simp only [List.mem_cons, List.not_mem_nil, or_false] at hn
  rcases hn with rfl | rfl | rfl | rfl | rfl | rfl | rfl | rfl | rfl | rfl | rfl | rfl | rfl <;> rfl
example : ∃ e, runValidate (exStrictNames 12) false .args [.obj 100, .obj 101] [] = .error e :=
  strict_surplus_pos _ _ _ _ _ 12 (.obj 101) rfl rfl (by decide) rfl (by decide)

/-- `@validate(Parameter('a', [NotEmpty]), Parameter('b', [AddressValidator]), Parameter('c'))  def f(a, b, c)` where the validator
    of `b` delegates through `validate_param(value, parameter_name='a')` to a validator that rejects 101 (names a = 2, b = 3,
    c = 4): the nested field is called like the *other, valid* Parameter `a` -/
def exDelegating : Cfg :=
  { ps := [⟨2, true, none, none, none, [exV 1 []], false, by decide⟩,
           ⟨3, true, none, none, none, [validateParam (validateParam (exV 2 [101]) 4) 2], false, by decide⟩,
           ⟨4, true, none, none, none, [], false, by decide⟩],
    sig := { pos := [⟨2, none⟩, ⟨3, none⟩, ⟨4, none⟩], varArgs := false, kwOnly := [] }, strict := true, ignoreInput := false, req := .noContext }
-- the validator's own exception carries a foreign name (with the current `validate_param`: `a`, the outermost label) …
example : ∃ c, validateParam (validateParam (exV 2 [101]) 4) 2 (.obj 101) = .error (.rejected c) := ⟨_, rfl⟩
-- … and the ParameterException names `b` (3), the Parameter whose chain rejected; the body does not run
example : runValidate exDelegating false .kwWithNone [.obj 100, .obj 101, .obj 102] [] = .error (.parameter 3 (.validator 0)) := by rfl
example : ∃ p ∈ exDelegating.ps, p.name = 3 ∧ ∃ v, p.validate v = .error (.parameter 3 (.validator 0)) :=
  ⟨_, List.mem_cons_of_mem _ (List.mem_cons_self ..), rfl, .obj 101, by rfl⟩

/-- `@validate(Parameter('a', validators=[V1, V2, V3]), Parameter('b', required=False, default=<obj 70>))
    def f(a, b=<obj 50>)`; V2 rejects the output of V1 on 100 (names: a = 2, b = 3) -/
def exGate (rej2 : List Nat) : Cfg :=
  { ps := [⟨2, true, none, none, none, [exV 1 [], exV 2 rej2, exV 3 []], false, by decide⟩, ⟨3, false, some (.obj 70), none, none, [], false, by decide⟩],
    sig := { pos := [⟨2, none⟩, ⟨3, some (.obj 50)⟩], varArgs := false, kwOnly := [] }, strict := true, ignoreInput := false, req := .noContext }

-- the full chain in order: ((100·8+1)·8+2)·8+3; the Parameter default beats the signature default
example : runValidate (exGate []) false .args [.obj 100] [] = .ok ⟨[(2, .obj 51283), (3, .obj 70)], []⟩ := by rfl
-- the second validator rejects what the first one produced: ParameterException(a), validator index 1, no body
example : runValidate (exGate [801]) false .args [.obj 100] [] = .error (.parameter 2 (.validator 1)) := by rfl
example : runValidate (exGate [801]) true .kwWithNone [] [(3, .obj 9), (2, .obj 100)] = .error (.parameter 2 (.validator 1)) := by rfl
-- the hypotheses of `reject_blocks_body` / `first_rejecting_decides` are satisfiable
example : ∃ e, runValidate (exGate [801]) false .args [.obj 100] [] = .error e :=
  reject_blocks_body (exGate [801]) false .args [.obj 100] [] rfl (.pos 2 (.obj 100)) (.parameter 2 (.validator 1))
    (by simp [gateItems, exGate, Sig.posNames]) (by rfl)
-- strict: surplus keyword → TooManyArguments; required: None → ParameterException(required); missing → the same
example : runValidate (exGate []) false .args [.obj 100] [(6, .obj 1)] = .error .tooMany := by rfl
example : runValidate (exGate []) false .args [.none] [] = .error (.parameter 2 .required) := by rfl
example : runValidate (exGate []) false .args [] [] = .error (.parameter 2 .required) := by rfl
-- a non-required None passes unvalidated
example : runValidate (exGate []) false .kwWithNone [.obj 100] [(3, .none)] = .ok ⟨[(2, .obj 51283), (3, .none)], []⟩ := by rfl

/-! ## The VAR_POSITIONAL parameter under any name (former finding `varPositionalNotNamedArgs`, repaired) -/

/-- the full statement holds: it is proved -/
theorem body_sees_only_chain_outputs_full_proved : body_sees_only_chain_outputs_full :=
  fun c a m args kw => body_sees_only_chain_outputs c a m args kw

/-- `@validate(Parameter('a', validators=[V1]), Parameter('b', validators=[V2], required=False, default=<obj 70>), strict=…)
    def f(a, *<var>)` (names: a = 2, b = 3, rest = 10); `tupleOf` (the tuple object bind_partial builds) is never consulted -/
def exRest (strict : Bool) (var : Name) : Cfg :=
  { ps := [⟨2, true, none, none, none, [exV 1 []], false, by decide⟩, ⟨3, false, some (.obj 70), none, none, [exV 2 []], false, by decide⟩],
    sig := { pos := [⟨2, none⟩], varArgs := true, kwOnly := [], varName := var, tupleOf := fun _ => .obj 55 },
    strict := strict, ignoreInput := false, req := .noContext }

-- `f(100, 101, 102)`: the surplus positional 101 goes through the chain of the unused Parameter `b`; 102 finds no Parameter:
-- non-strict it is dropped, `strict` raises TooManyArguments — with `*args` and with `*rest` alike
example : runValidate (exRest false argsName) false .args [.obj 100, .obj 101, .obj 102] []
    = .ok ⟨[(2, .obj 801)], [.obj 810]⟩ := by rfl
example : runValidate (exRest false 10) false .args [.obj 100, .obj 101, .obj 102] []
    = .ok ⟨[(2, .obj 801)], [.obj 810]⟩ := by rfl
example : runValidate (exRest true 10) false .args [.obj 100, .obj 101, .obj 102] [] = .error .tooMany := by rfl
example : runValidate (exRest true 10) false .args [.obj 100, .obj 101] [] = .ok ⟨[(2, .obj 801)], [.obj 810]⟩ := by rfl
-- a rejected surplus positional blocks the body
example : runValidate { exRest false 10 with ps := [⟨2, true, none, none, none, [exV 1 []], false, by decide⟩,
      ⟨3, false, some (.obj 70), none, none, [exV 2 [101]], false, by decide⟩] } false .args [.obj 100, .obj 101] []
    = .error (.parameter 3 (.validator 0)) := by rfl

/-! ### the surplus positionals (former finding `varPositionalSurplusDropped`, repaired)

The zip branch takes the surplus positionals from `bound_args[k]` — the tuple `bind_partial` bound to the VAR_POSITIONAL parameter:
all of them, equal values and all, and not the receiver of a method — and under `strict` refuses a surplus positional that no
declared parameter is left to take. -/

/-- **the generated facts about the zip branch**: the surplus positionals are the bound tuple; the strict test in front of the
    inner loop is "`strict` and more surplus positionals than Parameters left"; `used_args` is recorded nowhere (nothing reads it) -/
theorem zip_branch_source_shape :
    zipSurplusSource = .boundTuple ∧ (∀ strict n u, zipStrictTest strict n u = (strict && decide (n > u))) ∧
    posDeclaredWrite.recordsArg = false ∧ posUndeclaredWrite.recordsArg = false := by
  refine ⟨by decide, ?_, by decide, by decide⟩
  intro strict n u
  cases strict <;> simp [zipStrictTest]

/-- the guard of the `_guarded` theorems holds for **every** call: the region of the former finding is empty -/
theorem surplusGuard_holds (c : Cfg) (args : List PV) (kw : List (Name × PV)) : surplusGuard c args kw = true := by
  unfold surplusGuard
  have h1 : ∀ ua, surplusOf args (args.drop c.sig.pos.length) ua = args.drop c.sig.pos.length := by
    intro ua; unfold surplusOf; rw [zip_branch_source_shape.1]
  simp [h1, zip_branch_source_shape.2.1]

/-- the full statement of the processing-order specification: every signature, every call -/
def gate_spec_full : Prop := ∀ (c : Cfg) (args : List PV) (kw : List (Name × PV)), wrapperContent c args kw = (gate c args kw).out

/-- **C12 (processing order), every signature, every call** — `*args` included: the surplus positionals are handed, in order and
    all of them, to the declared parameters the caller did not supply, in declaration order; `strict` refuses what is left -/
theorem gate_spec_full_proved : gate_spec_full := fun c args kw => gate_spec_guarded c args kw (surplusGuard_holds c args kw)

/-- **C12 (strict, surplus positionals), every signature**: with `strict=True` a surplus positional that no declared parameter is
    left to take stops the call -/
theorem strict_surplus_positional_full_proved : strict_surplus_positional_full :=
  fun c a m args kw hi hs hmore => strict_surplus_positional_partial c a m args kw (surplusGuard_holds c args kw) hi hs hmore

/-- **C12 (gate), every signature**: if any item of the call fails, the body does not run -/
theorem reject_blocks_body_any_signature (c : Cfg) (a : Bool) (m : Mode) (args : List PV) (kw : List (Name × PV))
    (it : Item) (e : VExc) (hit : it ∈ gateItems c args kw) (hrej : itemOut c it = .error e) :
    ∃ e', runValidate c a m args kw = .error e' :=
  reject_blocks_body_guarded c a m args kw (surplusGuard_holds c args kw) it e hit hrej

/-- **C12 (which exception), every signature** -/
theorem first_rejecting_decides_any_signature (c : Cfg) (a : Bool) (m : Mode) (args : List PV) (kw : List (Name × PV))
    (pre post : List Item) (it : Item) (e : VExc)
    (hsplit : gateItems c args kw = pre ++ it :: post) (hpre : ∀ i ∈ pre, ∃ r, itemOut c i = .ok r)
    (hrej : itemOut c it = .error e) :
    runValidate c a m args kw = .error e :=
  first_rejecting_decides_guarded c a m args kw (surplusGuard_holds c args kw) pre post it e hsplit hpre hrej

/-- `def f(a, *rest)` with Parameters `a`, `b` (no validators), `strict=False` -/
def exEqualSurplus : Cfg :=
  { ps := [⟨2, true, none, none, none, [], false, by decide⟩, ⟨3, false, some (.obj 70), none, none, [], false, by decide⟩],
    sig := { pos := [⟨2, none⟩], varArgs := true, kwOnly := [] }, strict := false, ignoreInput := false, req := .noContext }

/-- **the former failing inputs, repaired**: `f(105, 105, 106)` — the surplus positional EQUAL to the value of `a` is no longer
    dropped: `b` receives it; for the method `def f(self, a, *rest)` the receiver is no surplus positional; `strict` with a surplus
    positional that finds no Parameter raises TooManyArguments -/
theorem fixed_surplus_positionals :
    wrapperContent exEqualSurplus [.obj 105, .obj 105, .obj 106] [] = .ok [(2, .obj 105), (3, .obj 105)] ∧
    wrapperContent { exEqualSurplus with sig := { pos := [⟨selfName, none⟩, ⟨2, none⟩], varArgs := true, kwOnly := [] } }
      [.obj 90, .obj 105, .obj 106] [] = .ok [(selfName, .obj 90), (2, .obj 105), (3, .obj 106)] ∧
    (runValidate (exRest true 10) false .args [.obj 100, .obj 101, .obj 102] [] : Outcome) = .error .tooMany ∧
    (runValidate { exEqualSurplus with strict := true } true .kwWithNone [.obj 105, .obj 105, .obj 106] [] : Outcome) = .error .tooMany := by
  decide

/-- the generated test of the `zip` branch is exactly "k is the VAR_POSITIONAL parameter of the signature".  (This and
    `ordinary_key_never_zips`, `var_positional_spelling_irrelevant` are *regression guards* for the repaired finding
    `varPositionalNotNamedArgs`: near-tautologies about the current generated test, which break under the former text test.) -/
theorem zip_branch_iff_var_positional (keyIsArgs wantsArgs keyIsVarPositional : Bool) :
    zipBranchTest keyIsArgs wantsArgs keyIsVarPositional = keyIsVarPositional := by
  simp [zipBranchTest]

/-- an ordinary parameter never reaches the `zip` branch, whatever it is called (`args`, `kwargs`, `cls`, …) and whatever
    the text of the signature contains -/
theorem ordinary_key_never_zips (keyIsArgs wantsArgs : Bool) : zipBranchTest keyIsArgs wantsArgs false = false := by
  simp [zipBranchTest]

/-- the signature with its VAR_POSITIONAL parameter renamed -/
def Sig.renameVar (s : Sig) (n : Name) : Sig := { s with varName := n }

theorem bindPartial_renameVar (s : Sig) (n : Name) (args : List PV) : bindPartial (s.renameVar n) args = bindPartial s args := by
  simp [bindPartial, Sig.renameVar, zipBranchTest, Sig.posNames]

theorem loopUnused_renameVar (s : Sig) (n : Name) : ∀ (l : List VParam) (res : Assoc),
    loopUnused (s.renameVar n) l res = loopUnused s l res := by
  intro l
  induction l with
  | nil => intro res; rfl
  | cons p rest ih =>
    intro res
    have hd : (s.renameVar n).default? p.name = s.default? p.name := rfl
    simp only [loopUnused, hd, ih]

/-- renaming the VAR_POSITIONAL parameter leaves the receiver alone — unless that parameter is the *first* one of the signature
    and `self` is one of the two names (`def f(*self)`: the rule "first parameter called self" does not look at the kind) -/
theorem receiver_renameVar (s : Sig) (n : Name) (h : s.pos ≠ [] ∨ (n ≠ selfName ∧ s.varName ≠ selfName)) :
    (s.renameVar n).receiver = s.receiver := by
  rw [receiver_eq_spec, receiver_eq_spec]
  unfold specReceiver firstParameter
  cases hp : s.pos with
  | cons x r => simp [Sig.renameVar, hp]
  | nil =>
    cases hv : s.varArgs with
    | false => cases hk : s.kwOnly <;> simp [Sig.renameVar, hp, hv, hk]
    | true =>
      rcases h with h | ⟨h1, h2⟩
      · exact absurd hp h
      · simp [Sig.renameVar, hp, hv, h1, h2]

theorem dispatch_renameVar (s : Sig) (n : Name) (a : Bool) (m : Mode) (res : Assoc)
    (h : s.pos ≠ [] ∨ (n ≠ selfName ∧ s.varName ≠ selfName)) :
    dispatch (s.renameVar n) a m res = dispatch s a m res := by
  have hb : ∀ pos kw, bindCall (s.renameVar n) pos kw = bindCall s pos kw := fun _ _ => rfl
  have hsplit : ∀ r, splitBySig (s.renameVar n) r = splitBySig s r := by
    intro r
    cases hva : s.varArgs with
    | true => simp [splitBySig, Sig.renameVar, hva, varPosShortcut]
    | false => simp [splitBySig, Sig.renameVar, hva, prefixNames, sigItems]
  have hc : ∀ rk f r, callWith (s.renameVar n) rk f r = callWith s rk f r := by
    intro rk f r
    cases f <;> simp only [callWith, hb, hsplit]
  have hk : receiverKey (s.renameVar n) a = receiverKey s a := by
    simp only [receiverKey, receiver_renameVar s n h]
  simp only [dispatch, hc, hk]

/-- **C12/C13 (spelling).** How the VAR_POSITIONAL parameter is called makes no difference: `def f(a, *rest)` is validated
    and called exactly like `def f(a, *args)` — same outcome, same binding, for every call.  (Side condition: the function
    has a named positional parameter in front of it, or neither spelling is `self` — `def f(*self)` would make the tuple
    parameter the receiver.) -/
theorem var_positional_spelling_irrelevant (c : Cfg) (n : Name) (a : Bool) (m : Mode) (args : List PV) (kw : List (Name × PV))
    (h : c.sig.pos ≠ [] ∨ (n ≠ selfName ∧ c.sig.varName ≠ selfName)) :
    runValidate { c with sig := c.sig.renameVar n } a m args kw = runValidate c a m args kw := by
  have hw : wrapperContent { c with sig := c.sig.renameVar n } args kw = wrapperContent c args kw := by
    simp only [wrapperContent, loopOrder, List.foldlM_cons, List.foldlM_nil, runLoop, bindPartial_renameVar, loopUnusedG_eq,
      loopUnused_renameVar, receiver_renameVar c.sig n h]
  simp only [runValidate, hw, dispatch_renameVar _ _ _ _ _ h]

/-- a function without VAR_POSITIONAL parameter never reaches the `zip` branch, whatever its parameters are called -/
theorem no_zip_without_var_positional (sig : Sig) (args : List PV) (b : Bound) (hva : sig.varArgs = false)
    (hb : bindPartial sig args = .ok b) : b.named = sig.posNames.zip args ∧ b.extras = [] := by
  simp only [bindPartial, hva, Bool.false_eq_true, ↓reduceIte] at hb
  split at hb
  · simp only [Except.ok.injEq] at hb; subst hb; exact ⟨rfl, rfl⟩
  · cases hb

-- `def f(args, x)` (names: args = 1, x = 2), Parameters declared in the order x, args: positional, keyword and mixed
-- calls bind alike
def exArgsName : Cfg :=
  { ps := [⟨2, true, none, none, none, [exV 1 []], false, by decide⟩, ⟨1, true, none, none, none, [exV 2 []], false, by decide⟩],
    sig := { pos := [⟨1, none⟩, ⟨2, none⟩], varArgs := false, kwOnly := [] }, strict := true, ignoreInput := false, req := .noContext }
example : runValidate exArgsName false .args [.obj 100, .obj 101] [] = .ok ⟨[(1, .obj 802), (2, .obj 809)], []⟩ := by rfl
example : runValidate exArgsName false .args [] [(2, .obj 101), (1, .obj 100)] = .ok ⟨[(1, .obj 802), (2, .obj 809)], []⟩ := by rfl
example : runValidate exArgsName false .args [.obj 100] [(2, .obj 101)] = .ok ⟨[(1, .obj 802), (2, .obj 809)], []⟩ := by rfl

/-! ## Re-entrant and overlapping calls: the outcome of a call is a function of its own arguments only

Steps of a chain are user code with effects on an arbitrary world (`Model/ValidateWorld.lean`): they may call decorated
functions — the same one included — while the outer call is still running.  Because the bookkeeping of a call lives in locals
of `_wrapper_content` (`reentrancy_source_shape`), the outcome of the outer call is that of the pure model. -/

section World
variable {σ : Type}

/-- what the step returns (or raises) does not depend on the world — it may still *change* the world in any way -/
def StepW.WorldIndependent (s : StepW σ) : Prop := ∀ v w w', (s v w).1 = (s v w').1
/-- the step as a pure function: what it returns in world `w0` -/
def StepW.erase (w0 : σ) (s : StepW σ) : Step := fun v => (s v w0).1

def VParamW.WorldIndependent (p : VParamW σ) : Prop :=
  (∀ s, p.conv = some s → StepW.WorldIndependent s) ∧ ∀ s ∈ p.validators, StepW.WorldIndependent s
def VParamW.erase (w0 : σ) (p : VParamW σ) : VParam :=
  ⟨p.name, p.requiredArg, p.dflt, p.ext, p.conv.map (StepW.erase w0), p.validators.map (StepW.erase w0), p.flaskJson, p.nameNonEmpty⟩

def CfgW.WorldIndependent (c : CfgW σ) : Prop := ∀ p ∈ c.ps, p.WorldIndependent
/-- the decorated function with the effects of its steps forgotten -/
def CfgW.erase (w0 : σ) (c : CfgW σ) : Cfg := ⟨c.ps.map (VParamW.erase w0), c.sig, c.strict, c.ignoreInput, c.req⟩

theorem runValidatorsW_fst (w0 : σ) (name : Name) : ∀ (fs : List (StepW σ)), (∀ s ∈ fs, StepW.WorldIndependent s) →
    ∀ (j : Nat) (v : PV) (w : σ), (runValidatorsW name fs j v w).1 = runValidators name (fs.map (StepW.erase w0)) j v := by
  intro fs
  induction fs with
  | nil => intro _ j v w; rfl
  | cons f fs ih =>
    intro hwi j v w
    have hf : (f v w).1 = (f v w0).1 := hwi f (by simp) v w w0
    have ih' := ih (fun s hs => hwi s (by simp [hs]))
    simp only [runValidatorsW, List.map_cons, runValidators, StepW.erase]
    rcases hfw : f v w with ⟨r, w'⟩
    rw [hfw] at hf
    simp only at hf
    rw [← hf]
    cases r with
    | ok x => exact ih' (j + 1) x w'
    | error e => cases e <;> rfl

theorem validateW_fst (w0 : σ) (p : VParamW σ) (hp : p.WorldIndependent) (v : PV) (w : σ) :
    (p.validate v w).1 = (p.erase w0).validate v := by
  rw [validate_unfold]
  unfold VParamW.validate VParam.validateRef
  cases v with
  | none =>
    simp only [VParamW.isRequired, VParam.isRequired, VParamW.erase]
    by_cases h : isRequiredRule p.dflt.isSome p.requiredArg = true <;> simp [h]
  | obj i =>
    simp only
    cases hc : p.conv with
    | none =>
      simp only [VParamW.erase, hc, Option.map_none]
      exact runValidatorsW_fst w0 p.name p.validators hp.2 0 (.obj i) w
    | some c =>
      have hcw : (c (.obj i) w).1 = (c (.obj i) w0).1 := hp.1 c hc (.obj i) w w0
      simp only [VParamW.erase, hc, Option.map_some, StepW.erase]
      rcases hfw : c (.obj i) w with ⟨r, w'⟩
      rw [hfw] at hcw
      simp only at hcw
      rw [← hcw]
      cases r with
      | ok x => exact runValidatorsW_fst w0 p.name p.validators hp.2 0 x w'
      | error e => cases e <;> rfl

theorem findPW_erase (w0 : σ) : ∀ (ps : List (VParamW σ)) (k : Name),
    findP (ps.map (VParamW.erase w0)) k = (findPW ps k).map (VParamW.erase w0) := by
  intro ps
  induction ps with
  | nil => intro k; rfl
  | cons p r ih =>
    intro k
    simp only [List.map_cons, findP, findPW, ih k]
    cases findPW r k with
    | some q => rfl
    | none =>
      by_cases h : (p.name == k) = true <;> simp [h, VParamW.erase]

theorem findPW_mem : ∀ (ps : List (VParamW σ)) (k : Name) (p : VParamW σ), findPW ps k = some p → p ∈ ps := by
  intro ps
  induction ps with
  | nil => intro k p h; simp [findPW] at h
  | cons q r ih =>
    intro k p h
    simp only [findPW] at h
    cases hr : findPW r k with
    | some q' => rw [hr] at h; simp only [Option.some.injEq] at h; subst h; exact List.mem_cons_of_mem _ (ih k _ hr)
    | none =>
      rw [hr] at h
      by_cases hq : (q.name == k) = true
      · simp only [hq, ↓reduceIte, Option.some.injEq] at h; subst h; simp
      · simp [hq] at h

theorem loopKwW_fst (w0 : σ) (ps : List (VParamW σ)) (hps : ∀ p ∈ ps, p.WorldIndependent) (strict : Bool) :
    ∀ (kw : List (Name × PV)) (res : Assoc) (used : List Name) (w : σ),
      (loopKwW ps strict kw res used w).1 = loopKw (ps.map (VParamW.erase w0)) strict kw res used := by
  intro kw
  induction kw with
  | nil => intro res used w; rfl
  | cons kv rest ih =>
    intro res used w
    obtain ⟨k, v⟩ := kv
    simp only [loopKwW, loopKw, findPW_erase, kwStrictTest_eq]
    cases hf : findPW ps k with
    | none =>
      simp only [Option.map_none]
      split
      · rfl
      · exact ih _ _ w
    | some p =>
      simp only [Option.map_some]
      have hv := validateW_fst w0 p (hps p (findPW_mem ps k p hf)) v w
      rcases hpv : p.validate v w with ⟨r, w'⟩
      rw [hpv] at hv
      simp only at hv
      rw [← hv]
      cases r with
      | ok x => simp only [bind, Except.bind]; exact ih _ _ w'
      | error e => rfl

theorem loopPosW_fst (w0 : σ) (ps : List (VParamW σ)) (hps : ∀ p ∈ ps, p.WorldIndependent) (strict : Bool) (recv : Option Name) :
    ∀ (bd : List (Name × PV)) (res : Assoc) (used : List Name) (ua : List PV) (w : σ),
      (loopPosW ps strict recv bd res used ua w).1 = loopPos (ps.map (VParamW.erase w0)) strict recv bd res used ua := by
  intro bd
  induction bd with
  | nil => intro res used ua w; rfl
  | cons kv rest ih =>
    intro res used ua w
    obtain ⟨k, v⟩ := kv
    simp only [loopPosW, loopPos, findPW_erase, posStrictTest_eq]
    cases hf : findPW ps k with
    | none =>
      simp only [Option.map_none]
      split
      · rfl
      · exact ih _ _ _ w
    | some p =>
      simp only [Option.map_some]
      have hv := validateW_fst w0 p (hps p (findPW_mem ps k p hf)) v w
      rcases hpv : p.validate v w with ⟨r, w'⟩
      rw [hpv] at hv
      simp only at hv
      rw [← hv]
      cases r with
      | ok x => simp only [bind, Except.bind]; exact ih _ _ _ w'
      | error e => rfl

/-- the world after the loop is irrelevant for what follows in the pure model; only the locals are handed on -/
theorem loopZipW_fst (w0 : σ) : ∀ (pairs : List (PV × VParamW σ)), (∀ ap ∈ pairs, ap.2.WorldIndependent) →
    ∀ (res : Assoc) (used : List Name) (w : σ),
      (loopZipW pairs res used w).1 = loopZip (pairs.map (fun ap => (ap.1, ap.2.erase w0))) res used := by
  intro pairs
  induction pairs with
  | nil => intro _ res used w; rfl
  | cons ap rest ih =>
    intro hwi res used w
    obtain ⟨a, p⟩ := ap
    simp only [loopZipW, List.map_cons, loopZip]
    have hv := validateW_fst w0 p (hwi (a, p) (by simp)) a w
    rcases hpv : p.validate a w with ⟨r, w'⟩
    rw [hpv] at hv
    simp only at hv
    rw [← hv]
    cases r with
    | ok x => simp only [bind, Except.bind]; exact ih (fun ap h => hwi ap (by simp [h])) _ _ w'
    | error e => rfl

theorem zipPairs_erase (w0 : σ) (ps : List (VParamW σ)) (args extras : List PV) (used : List Name) (ua : List PV) :
    zipPairs (ps.map (VParamW.erase w0)) args extras used ua
      = (zipPairsW ps args extras used ua).map (fun ap => (ap.1, ap.2.erase w0)) := by
  unfold zipPairs zipPairsW unusedParams
  rw [List.filter_map, List.zip_map_right]
  rfl

theorem zipRefuses_erase (w0 : σ) (ps : List (VParamW σ)) (strict : Bool) (args extras : List PV) (used : List Name) (ua : List PV) :
    zipRefuses (ps.map (VParamW.erase w0)) strict args extras used ua = zipRefusesW ps strict args extras used ua := by
  unfold zipRefuses zipRefusesW unusedParams
  rw [List.filter_map, List.length_map]
  rfl

theorem loopUnusedW_fst (w0 : σ) (sig : Sig) : ∀ (l : List (VParamW σ)), (∀ p ∈ l, p.WorldIndependent) →
    ∀ (res : Assoc) (w : σ), (loopUnusedW sig l res w).1 = loopUnused sig (l.map (VParamW.erase w0)) res := by
  intro l
  induction l with
  | nil => intro _ res w; rfl
  | cons p rest ih =>
    intro hwi res w
    have ih' := ih (fun q h => hwi q (by simp [h]))
    simp only [loopUnusedW, List.map_cons, loopUnused]
    have hext : (p.erase w0).ext = p.ext := rfl
    have hreq : (p.erase w0).isRequired = p.isRequired := rfl
    have hd : (p.erase w0).dflt = p.dflt := rfl
    have hn : (p.erase w0).name = p.name := rfl
    rw [hext, hreq, hd, hn]
    cases hx : p.ext with
    | some v =>
      simp only
      have hv := validateW_fst w0 p (hwi p (by simp)) v w
      rcases hpv : p.validate v w with ⟨r, w'⟩
      rw [hpv] at hv
      simp only at hv
      rw [← hv]
      cases r with
      | ok x => simp only [bind, Except.bind]; exact ih' _ w'
      | error e => rfl
    | none =>
      simp only
      split
      · rfl
      · cases p.dflt with
        | some d => exact ih' _ w
        | none =>
          simp only
          cases sig.default? p.name with
          | some d => exact ih' _ w
          | none => rfl

theorem flaskCheckW_eq (w0 : σ) (ps : List (VParamW σ)) (strict : Bool) (req : Req) (res : Assoc) :
    flaskCheckW ps strict req res = flaskCheck (ps.map (VParamW.erase w0)) strict req res := by
  unfold flaskCheckW flaskCheck
  simp only [List.all_map, Function.comp_def, findPW_erase]
  have hn : ∀ p : VParamW σ, (p.erase w0).name = p.name := fun _ => rfl
  have h2 : ∀ k, (Option.map (VParamW.erase w0) (findPW ps k)).isNone = (findPW ps k).isNone := by
    intro k; cases findPW ps k <;> rfl
  simp only [hn, h2]
  congr 4
  funext p
  cases findPW ps p.name <;> rfl

theorem runLoopW_fst (w0 : σ) (c : CfgW σ) (hc : c.WorldIndependent) (args : List PV) (kw : List (Name × PV)) (l : Loop)
    (st : Assoc × List Name) (w : σ) : (runLoopW c args kw l st w).1 = runLoop (c.erase w0) args kw l st := by
  cases l with
  | kw => simp only [runLoop, loopKwG_eq]; exact loopKwW_fst w0 c.ps hc c.strict kw st.1 st.2 w
  | pos =>
    simp only [runLoopW, runLoop, CfgW.erase, bind, Except.bind, loopPosG_eq, loopZipG_eq]
    cases hb : bindPartial c.sig args with
    | error e => rfl
    | ok b =>
      simp only
      have h2 := loopPosW_fst w0 c.ps hc c.strict c.sig.receiver b.named st.1 st.2 [] w
      rcases hp : loopPosW c.ps c.strict c.sig.receiver b.named st.1 st.2 [] w with ⟨r, w'⟩
      rw [hp] at h2
      simp only at h2
      rw [← h2]
      cases r with
      | error e => rfl
      | ok rua =>
        obtain ⟨r2, u2, ua⟩ := rua
        simp only
        split
        · rfl
        · rw [zipRefuses_erase]
          split
          · rfl
          · rw [zipPairs_erase]
            exact loopZipW_fst w0 _ (fun ap hap => hc _ (List.mem_filter.mp (List.of_mem_zip hap).2).1) r2 u2 w'
  | unused =>
    simp only [runLoopW, runLoop, CfgW.erase, bind, Except.bind, loopUnusedG_eq]
    have h3 := loopUnusedW_fst w0 c.sig (c.ps.filter (fun p => !st.2.contains p.name))
      (fun p hp => hc p (List.mem_filter.mp hp).1) st.1 w
    rw [List.filter_map]
    rcases hu : loopUnusedW c.sig (c.ps.filter (fun p => !st.2.contains p.name)) st.1 w with ⟨r, w'⟩
    rw [hu] at h3
    simp only at h3
    have hcomp : ((fun p : VParam => !st.2.contains p.name) ∘ VParamW.erase w0) = (fun p : VParamW σ => !st.2.contains p.name) := rfl
    rw [hcomp, ← h3]
    cases r <;> rfl

theorem runLoopsW_fst (w0 : σ) (c : CfgW σ) (hc : c.WorldIndependent) (args : List PV) (kw : List (Name × PV)) :
    ∀ (ls : List Loop) (st : Assoc × List Name) (w : σ),
      (runLoopsW c args kw ls st w).1 = ls.foldlM
        (fun st l => if underIgnoreInput l && (c.erase w0).ignoreInput then pure st else runLoop (c.erase w0) args kw l st) st := by
  intro ls
  induction ls with
  | nil => intro st w; rfl
  | cons l ls ih =>
    intro st w
    simp only [runLoopsW, List.foldlM_cons]
    have hi : (c.erase w0).ignoreInput = c.ignoreInput := rfl
    rw [hi]
    split
    · simp only [pure, Except.pure, bind, Except.bind]
      rw [← hi]; exact ih st w
    · have h1 := runLoopW_fst w0 c hc args kw l st w
      rcases hr : runLoopW c args kw l st w with ⟨r, w'⟩
      rw [hr] at h1
      simp only at h1
      rw [← h1]
      cases r with
      | error e => rfl
      | ok st' => simp only [bind, Except.bind]; rw [← hi]; exact ih st' w'

/-- `_wrapper_content` with effectful steps hands over exactly the dict of the pure model — from any world -/
theorem wrapperContentW_fst (w0 : σ) (c : CfgW σ) (hc : c.WorldIndependent) (args : List PV) (kw : List (Name × PV)) (w : σ) :
    (wrapperContentW c args kw w).1 = wrapperContent (c.erase w0) args kw := by
  unfold wrapperContentW wrapperContent
  have h := runLoopsW_fst w0 c hc args kw loopOrder ([], []) w
  rcases hr : runLoopsW c args kw loopOrder ([], []) w with ⟨r, w'⟩
  rw [hr] at h
  simp only at h
  rw [← h]
  cases r with
  | error e => rfl
  | ok st => simp only [bind, Except.bind]; exact flaskCheckW_eq w0 c.ps c.strict c.req st.1

theorem runValidateW_fst (w0 : σ) (c : CfgW σ) (hc : c.WorldIndependent) (body : Binding → σ → σ) (a : Bool) (m : Mode)
    (args : List PV) (kw : List (Name × PV)) (w : σ) :
    (runValidateW c body a m args kw w).1 = runValidate (c.erase w0) a m args kw := by
  unfold runValidateW runValidate
  have h := wrapperContentW_fst w0 c hc args kw w
  rcases hr : wrapperContentW c args kw w with ⟨r, w'⟩
  rw [hr] at h
  simp only at h
  rw [← h]
  cases r with
  | error e => rfl
  | ok res =>
    simp only [bind, Except.bind]
    have hs : (c.erase w0).sig = c.sig := rfl
    rw [hs]
    cases dispatch c.sig a m res <;> rfl

/-- **C12 (per-call state).** Whether the body runs, with which binding, or which exception is raised is a function of the
    call's own arguments only: it is the same in every world — after every history of earlier calls (of this or any other
    decorated function, sharing Parameter objects or not), and whatever the validators of this call do while it runs,
    calling the same decorated function again included (`w`, `w'` arbitrary; the effects of the steps and of the body
    arbitrary).  Hypothesis: what a step *returns* does not depend on the world.
    Status: a *model-structure lemma* — `Model/ValidateWorld.lean` passes the bookkeeping of a call as arguments of the loop
    functions and never reads the world, so the statement follows by construction; what ties that structure to the code are the
    source-shape facts `bookkeepingIsPerCall` / `parameterValidateIsStateless` (`reentrancy_source_shape`) and the re-entrant
    scenarios of the correspondence check. -/
theorem call_outcome_independent_of_other_calls (c : CfgW σ) (hc : c.WorldIndependent) (body body' : Binding → σ → σ)
    (a : Bool) (m : Mode) (args : List PV) (kw : List (Name × PV)) (w w' : σ) :
    (runValidateW c body a m args kw w).1 = (runValidateW c body' a m args kw w').1 := by
  rw [runValidateW_fst w c hc body, runValidateW_fst w c hc body']

/-- the same for two decorated functions that differ only in the *effects* of their steps (e.g. one whose validators
    re-enter the function and one whose validators do not): same returns, same outcome -/
theorem call_outcome_independent_of_step_effects (c c' : CfgW σ) (hc : c.WorldIndependent) (hc' : c'.WorldIndependent)
    (w0 : σ) (h : c.erase w0 = c'.erase w0) (body body' : Binding → σ → σ) (a : Bool) (m : Mode) (args : List PV)
    (kw : List (Name × PV)) (w w' : σ) :
    (runValidateW c body a m args kw w).1 = (runValidateW c' body' a m args kw w').1 := by
  rw [runValidateW_fst w0 c hc body, runValidateW_fst w0 c' hc' body', h]

/-- **C12 (gate, re-entrant).** The gate holds for the outer call whatever the inner calls do: for a function without
    VAR_POSITIONAL parameter the dict handed over (or the exception raised) is `gate` of the call's own arguments. -/
theorem gate_holds_for_outer_call (w0 : σ) (c : CfgW σ) (hc : c.WorldIndependent) (args : List PV) (kw : List (Name × PV))
    (hg : surplusGuard (c.erase w0) args kw = true) (w : σ) :
    (wrapperContentW c args kw w).1 = (gate (c.erase w0) args kw).out := by
  rw [wrapperContentW_fst w0 c hc]
  exact gate_spec_guarded (c.erase w0) args kw hg

/-- a call that raises leaves the world exactly as `_wrapper_content` left it: the effect of the body is absent (model-structure
    lemma: `body` is applied only on the `.ok` path of `runValidateW`) -/
theorem runValidateW_error_world (c : CfgW σ) (body : Binding → σ → σ) (a : Bool) (m : Mode) (args : List PV) (kw : List (Name × PV))
    (w : σ) (e : VExc) (h : (runValidateW c body a m args kw w).1 = .error e) :
    (runValidateW c body a m args kw w).2 = (wrapperContentW c args kw w).2 := by
  unfold runValidateW at h ⊢
  rcases hw : wrapperContentW c args kw w with ⟨r, w'⟩
  rw [hw] at h
  cases r with
  | error e' => rfl
  | ok res =>
    simp only at h ⊢
    cases hd : dispatch c.sig a m res with
    | error e' => rfl
    | ok b => rw [hd] at h; cases h

/-- and if any item of the outer call fails, the outer body does not run — in no world: the call raises **and the world after
    it is the world `_wrapper_content` left** (validators may have acted — inner calls included —, the body has not) -/
theorem reject_blocks_outer_body (w0 : σ) (c : CfgW σ) (hc : c.WorldIndependent) (body : Binding → σ → σ) (a : Bool) (m : Mode)
    (args : List PV) (kw : List (Name × PV)) (hg : surplusGuard (c.erase w0) args kw = true) (it : Item) (e : VExc)
    (hit : it ∈ gateItems (c.erase w0) args kw) (hrej : itemOut (c.erase w0) it = .error e) (w : σ) :
    (∃ e', (runValidateW c body a m args kw w).1 = .error e') ∧
    (runValidateW c body a m args kw w).2 = (wrapperContentW c args kw w).2 := by
  have h1 : ∃ e', (runValidateW c body a m args kw w).1 = .error e' := by
    rw [runValidateW_fst w0 c hc]
    exact reject_blocks_body_guarded (c.erase w0) a m args kw hg it e hit hrej
  obtain ⟨e', he'⟩ := h1
  exact ⟨⟨e', he'⟩, runValidateW_error_world c body a m args kw w e' he'⟩

end World

/-! ## The journal: which validators run, with what, in which order

The world is the journal of validator invocations: every validator, before it answers, appends (parameter name, its index, the
value it receives).  `journal_spec` below: after `_wrapper_content` the journal is `gateJournal` of the specification — validators
run in processing order of the items, each receives its predecessor's output, and **no validator of a later item runs after the
first failing item**. -/

/-- a validator that journals its invocation before it answers -/
def journalStep (name : Name) (j : Nat) (f : Step) : StepW (List JEntry) := fun v w => (f v, w ++ [(name, j, v)])

/-- a Parameter whose validators journal (its conversion is silent, as in the harness) -/
def VParam.journalW (p : VParam) : VParamW (List JEntry) :=
  { name := p.name, requiredArg := p.requiredArg, dflt := p.dflt, ext := p.ext,
    conv := p.conv.map (fun c v w => (c v, w)),
    validators := p.validators.zipIdx.map (fun fj => journalStep p.name fj.2 fj.1),
    flaskJson := p.flaskJson, nameNonEmpty := p.nameNonEmpty }

def Cfg.journalW (c : Cfg) : CfgW (List JEntry) := ⟨c.ps.map VParam.journalW, c.sig, c.strict, c.ignoreInput, c.req⟩

theorem runValidatorsW_journal (name : Name) : ∀ (fs : List Step) (j : Nat) (v : PV) (w : List JEntry),
    runValidatorsW name ((fs.zipIdx j).map (fun fj => journalStep name fj.2 fj.1)) j v w
      = (runValidators name fs j v, w ++ validatorTrace name fs j v) := by
  intro fs
  induction fs with
  | nil => intro j v w; simp [runValidatorsW, runValidators, validatorTrace]
  | cons f fs ih =>
    intro j v w
    simp only [List.zipIdx_cons, List.map_cons, runValidatorsW, journalStep, runValidators, validatorTrace]
    cases hf : f v with
    | ok x => simp only; rw [ih (j + 1) x]; simp [List.append_assoc]
    | error r => cases r <;> simp

/-- a journalling Parameter returns what the Parameter returns and appends exactly `specJournal` -/
theorem validateW_journal (p : VParam) (v : PV) (w : List JEntry) :
    p.journalW.validate v w = (p.validate v, w ++ specJournal p v) := by
  rw [validate_unfold]
  unfold VParamW.validate VParam.validateRef specJournal
  cases v with
  | none =>
    simp only [VParamW.isRequired, VParam.isRequired, VParam.journalW, ↓reduceIte, List.append_nil]
    by_cases h : isRequiredRule p.dflt.isSome p.requiredArg = true <;> simp [h]
  | obj i =>
    simp only [reduceCtorEq, ↓reduceIte, VParam.journalW]
    cases hc : p.conv with
    | none =>
      simp only [Option.map_none]
      have := runValidatorsW_journal p.name p.validators 0 (.obj i) w
      simpa using this
    | some c =>
      simp only [Option.map_some]
      cases hcv : c (.obj i) with
      | ok x =>
        simp only
        have := runValidatorsW_journal p.name p.validators 0 x w
        simpa using this
      | error r => cases r <;> simp

theorem findPW_journal : ∀ (ps : List VParam) (k : Name), findPW (ps.map VParam.journalW) k = (findP ps k).map VParam.journalW := by
  intro ps
  induction ps with
  | nil => intro k; rfl
  | cons p r ih =>
    intro k
    simp only [List.map_cons, findP, findPW, ih k]
    cases findP r k with
    | some q => rfl
    | none =>
      by_cases h : (p.name == k) = true
      · have : (p.journalW.name == k) = true := h
        simp [h, this]
      · have h' : (p.name == k) = false := by simpa using h
        have : (p.journalW.name == k) = false := h'
        simp [h', this]

/-- what remains to be journalled after a loop: the journal of the later items if the loop succeeded, nothing if it raised -/
def journalAfter {α : Type} (c : Cfg) (r : Except VExc α) (rest : List Item) : List JEntry :=
  match r with
  | .ok _ => gateJournal c rest
  | .error _ => []

theorem loopKwW_journal (c : Cfg) : ∀ (kw : List (Name × PV)) (rest : List Item) (res : Assoc) (used : List Name) (w : List JEntry),
    (loopKwW (c.ps.map VParam.journalW) c.strict kw res used w).1 = loopKw c.ps c.strict kw res used ∧
    (loopKwW (c.ps.map VParam.journalW) c.strict kw res used w).2 ++ journalAfter c (loopKw c.ps c.strict kw res used) rest
      = w ++ gateJournal c (kw.map (fun kv => Item.kw kv.1 kv.2) ++ rest) := by
  intro kw
  induction kw with
  | nil => intro rest res used w; simp [loopKwW, loopKw, journalAfter]
  | cons kv tl ih =>
    intro rest res used w
    obtain ⟨k, v⟩ := kv
    simp only [loopKwW, loopKw, findPW_journal, List.map_cons, List.cons_append, gateJournal, itemOut, itemJournal, specFindP_eq,
      kwStrictTest_eq, ← validate_is_chain_fold]
    cases hf : findP c.ps k with
    | none =>
      simp only [Option.map_none]
      by_cases hs : c.strict = true
      · simp [hs, journalAfter]
      · have hs' : c.strict = false := by simpa using hs
        simp only [hs', Bool.false_eq_true, ↓reduceIte, List.nil_append]
        have := ih rest (res.set k v) used w
        simpa only [hs'] using this
    | some p =>
      simp only [Option.map_some, validateW_journal]
      have hpn : p.journalW.name = p.name := rfl
      cases hv : p.validate v with
      | error e => simp [Except.map, bind, Except.bind, journalAfter]
      | ok x =>
        simp only [Except.map, bind, Except.bind, hpn]
        obtain ⟨h1, h2⟩ := ih rest (res.set k x) (used ++ [p.name]) (w ++ specJournal p v)
        exact ⟨h1, by rw [h2, List.append_assoc]⟩

theorem loopPosW_journal (c : Cfg) (recv : Option Name) (hrecv : recv = c.sig.receiver) :
    ∀ (bd : List (Name × PV)) (rest : List Item) (res : Assoc) (used : List Name) (ua : List PV) (w : List JEntry),
    (loopPosW (c.ps.map VParam.journalW) c.strict recv bd res used ua w).1 = loopPos c.ps c.strict recv bd res used ua ∧
    (loopPosW (c.ps.map VParam.journalW) c.strict recv bd res used ua w).2 ++ journalAfter c (loopPos c.ps c.strict recv bd res used ua) rest
      = w ++ gateJournal c (bd.map (fun kv => Item.pos kv.1 kv.2) ++ rest) := by
  intro bd
  induction bd with
  | nil => intro rest res used ua w; simp [loopPosW, loopPos, journalAfter]
  | cons kv tl ih =>
    intro rest res used ua w
    obtain ⟨k, v⟩ := kv
    simp only [loopPosW, loopPos, findPW_journal, List.map_cons, List.cons_append, gateJournal, itemOut, itemJournal, specFindP_eq,
      posStrictTest_eq, ← validate_is_chain_fold, hrecv, receiver_eq_spec]
    cases hf : findP c.ps k with
    | none =>
      simp only [Option.map_none]
      by_cases hs : (c.strict && some k != specReceiver c.sig) = true
      · simp [hs, journalAfter]
      · simp only [hs, Bool.false_eq_true, ↓reduceIte, List.nil_append]
        have := ih rest (res.set k v) used (writeRecord posUndeclaredWrite ua v) w
        simpa only [hrecv, receiver_eq_spec] using this
    | some p =>
      simp only [Option.map_some, validateW_journal]
      have hpn : p.journalW.name = p.name := rfl
      cases hv : p.validate v with
      | error e => simp [Except.map, bind, Except.bind, journalAfter]
      | ok x =>
        simp only [Except.map, bind, Except.bind, hpn]
        obtain ⟨h1, h2⟩ := ih rest (res.set k x) (used ++ [p.name]) (writeRecord posDeclaredWrite ua v) (w ++ specJournal p v)
        simp only [hrecv, receiver_eq_spec] at h1 h2
        exact ⟨h1, by rw [h2, List.append_assoc]⟩

theorem loopZipW_journal (c : Cfg) : ∀ (pairs : List (PV × VParam)) (rest : List Item) (res : Assoc) (used : List Name) (w : List JEntry),
    (loopZipW (pairs.map (fun ap => (ap.1, ap.2.journalW))) res used w).1 = loopZip pairs res used ∧
    (loopZipW (pairs.map (fun ap => (ap.1, ap.2.journalW))) res used w).2 ++ journalAfter c (loopZip pairs res used) rest
      = w ++ gateJournal c (pairs.map (fun ap => Item.zip ap.2 ap.1) ++ rest) := by
  intro pairs
  induction pairs with
  | nil => intro rest res used w; simp [loopZipW, loopZip, journalAfter]
  | cons ap tl ih =>
    intro rest res used w
    obtain ⟨a, p⟩ := ap
    simp only [loopZipW, loopZip, List.map_cons, List.cons_append, gateJournal, itemOut, itemJournal, ← validate_is_chain_fold,
      validateW_journal]
    have hpn : p.journalW.name = p.name := rfl
    cases hv : p.validate a with
    | error e => simp [Except.map, bind, Except.bind, journalAfter]
    | ok x =>
      simp only [Except.map, bind, Except.bind, hpn]
      obtain ⟨h1, h2⟩ := ih rest (res.set p.name x) (used ++ [p.name]) (w ++ specJournal p a)
      exact ⟨h1, by rw [h2, List.append_assoc]⟩

theorem loopUnusedW_journal (c : Cfg) : ∀ (l : List VParam) (res : Assoc) (w : List JEntry),
    (loopUnusedW c.sig (l.map VParam.journalW) res w).1 = loopUnused c.sig l res ∧
    (loopUnusedW c.sig (l.map VParam.journalW) res w).2 = w ++ gateJournal c (l.map Item.absent) := by
  intro l
  induction l with
  | nil => intro res w; simp [loopUnusedW, loopUnused, gateJournal]
  | cons p tl ih =>
    intro res w
    have hpn : p.journalW.name = p.name := rfl
    have hreq : p.journalW.isRequired = p.isRequired := rfl
    have hext : p.journalW.ext = p.ext := rfl
    have hd : p.journalW.dflt = p.dflt := rfl
    simp only [loopUnusedW, loopUnused, List.map_cons, gateJournal, itemOut, itemJournal, specDefault_eq, ← validate_is_chain_fold,
      ← isRequired_eq, hpn, hreq, hext, hd]
    cases he : p.ext with
    | some v =>
      simp only [validateW_journal]
      cases hv : p.validate v with
      | error e => simp [Except.map, bind, Except.bind]
      | ok x =>
        simp only [Except.map, bind, Except.bind]
        obtain ⟨h1, h2⟩ := ih (res.set p.name x) (w ++ specJournal p v)
        exact ⟨h1, by rw [h2, List.append_assoc]⟩
    | none =>
      simp only
      by_cases hr : p.isRequired = true
      · simp [hr]
      · simp only [hr, Bool.false_eq_true, ↓reduceIte]
        cases hdd : p.dflt with
        | some d => simp only [List.nil_append]; exact ih _ w
        | none =>
          simp only
          cases hsd : c.sig.default? p.name with
          | some d => simp only [List.nil_append]; exact ih _ w
          | none => simp

/-- the world after `_wrapper_content`, loop by loop (the loops in the generated source order) -/
theorem wrapperContentW_snd {σ : Type} (c : CfgW σ) (args : List PV) (kw : List (Name × PV)) (w : σ) :
    (wrapperContentW c args kw w).2 =
      if c.ignoreInput then (loopUnusedW c.sig (c.ps.filter (fun p => !([] : List Name).contains p.name)) [] w).2
      else
        match loopKwW c.ps c.strict kw [] [] w with
        | (.error _, w1) => w1
        | (.ok st1, w1) =>
          match bindPartial c.sig args with
          | .error _ => w1
          | .ok b =>
            match loopPosW c.ps c.strict c.sig.receiver b.named st1.1 st1.2 [] w1 with
            | (.error _, w2) => w2
            | (.ok (r2, u2, ua), w2) =>
              if b.extras.isEmpty then (loopUnusedW c.sig (c.ps.filter (fun p => !u2.contains p.name)) r2 w2).2
              else if zipRefusesW c.ps c.strict args b.extras u2 ua then w2
              else
                match loopZipW (zipPairsW c.ps args b.extras u2 ua) r2 u2 w2 with
                | (.error _, w3) => w3
                | (.ok st3, w3) => (loopUnusedW c.sig (c.ps.filter (fun p => !st3.2.contains p.name)) st3.1 w3).2 := by
  unfold wrapperContentW
  simp only [loopOrder, runLoopsW, underIgnoreInput, runLoopW]
  cases hi : c.ignoreInput
  · simp only [Bool.and_false, Bool.false_eq_true, ↓reduceIte, Bool.and_true]
    rcases h1 : loopKwW c.ps c.strict kw [] [] w with ⟨r1, w1⟩
    cases r1 with
    | error e => rfl
    | ok st1 =>
      simp only
      cases hb : bindPartial c.sig args with
      | error e => rfl
      | ok b =>
        simp only
        rcases h2 : loopPosW c.ps c.strict c.sig.receiver b.named st1.1 st1.2 [] w1 with ⟨r2, w2⟩
        cases r2 with
        | error e => rfl
        | ok st2 =>
          obtain ⟨r2, u2, ua⟩ := st2
          simp only
          cases hex : b.extras.isEmpty
          · simp only [Bool.false_eq_true, ↓reduceIte]
            cases hz : zipRefusesW c.ps c.strict args b.extras u2 ua
            · simp only [Bool.false_eq_true, ↓reduceIte]
              rcases h3 : loopZipW (zipPairsW c.ps args b.extras u2 ua) r2 u2 w2 with ⟨r3, w3⟩
              cases r3 with
              | error e => rfl
              | ok st3 =>
                simp only
                rcases loopUnusedW c.sig (c.ps.filter (fun p => !st3.2.contains p.name)) st3.1 w3 with ⟨r4, w4⟩
                cases r4 <;> rfl
            · rfl
          · simp only [↓reduceIte]
            rcases loopUnusedW c.sig (c.ps.filter (fun p => !u2.contains p.name)) r2 w2 with ⟨r4, w4⟩
            cases r4 <;> rfl
  · simp only [Bool.and_true, ↓reduceIte, Bool.and_false, Bool.false_eq_true]
    rcases loopUnusedW c.sig (c.ps.filter (fun p => !([] : List Name).contains p.name)) [] w with ⟨r4, w4⟩
    cases r4 <;> rfl

theorem filter_journalW (ps : List VParam) (f : Name → Bool) :
    (ps.map VParam.journalW).filter (fun p => f p.name) = (ps.filter (fun p => f p.name)).map VParam.journalW := by
  rw [List.filter_map]; rfl

theorem zipPairsW_journal (ps : List VParam) (args extras : List PV) (used : List Name) (ua : List PV) :
    zipPairsW (ps.map VParam.journalW) args extras used ua
      = (zipPairs ps args extras used ua).map (fun ap => (ap.1, ap.2.journalW)) := by
  unfold zipPairsW zipPairs unusedParams
  rw [filter_journalW ps (fun n => !used.contains n), List.zip_map_right]
  rfl

theorem zipRefusesW_journal (ps : List VParam) (strict : Bool) (args extras : List PV) (used : List Name) (ua : List PV) :
    zipRefusesW (ps.map VParam.journalW) strict args extras used ua = zipRefuses ps strict args extras used ua := by
  unfold zipRefusesW zipRefuses unusedParams
  rw [filter_journalW ps (fun n => !used.contains n), List.length_map]

/-- **C12 (journal: which validators run, in which order, and none after the first failing item).** With journalling validators
    — every validator appends (parameter, its index, the value it receives) before it answers — the journal after
    `_wrapper_content` is the journal the specification prescribes (`gateJournal`): the validators of the items in processing order,
    each chain in order with every validator fed its predecessor's output, up to and including the first failing item and **no
    validator of a later item**.  Any signature, under the guard `surplusGuard`. -/
theorem journal_spec (c : Cfg) (args : List PV) (kw : List (Name × PV)) (hg : surplusGuard c args kw = true) (w : List JEntry) :
    (wrapperContentW c.journalW args kw w).2 = w ++ (gate c args kw).journal := by
  rw [wrapperContentW_snd]
  simp only [Cfg.journalW]
  unfold gate gateItems
  simp only
  by_cases hi : c.ignoreInput = true
  · simp only [hi, ↓reduceIte]
    rw [filter_journalW c.ps (fun n => !([] : List Name).contains n), (loopUnusedW_journal c _ [] w).2,
      List.filter_eq_self.mpr (by simp)]
  · simp only [hi, Bool.false_eq_true, ↓reduceIte, List.append_assoc]
    obtain ⟨k1, k2⟩ := loopKwW_journal c kw
      ((if (decide (args.length > c.sig.pos.length) && !c.sig.varArgs) = true then [Item.surplusPos] else []) ++
        ((c.sig.posNames.zip args).map (fun kv => Item.pos kv.1 kv.2) ++
          ((if (c.strict && decide ((surplusArgs c.sig args).length > (unsupplied c args kw).length)) = true then [Item.surplusLeft] else []) ++
            ((zipped c args kw).map (fun ap => Item.zip ap.2 ap.1) ++
              ((unsupplied c args kw).filter (fun p => !((zipped c args kw).map (·.2.name)).contains p.name)).map Item.absent)))) [] [] w
    rw [← k2]
    rcases h1w : loopKwW (c.ps.map VParam.journalW) c.strict kw [] [] w with ⟨rK, wK⟩
    rw [h1w] at k1
    simp only at k1 ⊢
    cases h1 : loopKw c.ps c.strict kw [] [] with
    | error e => rw [h1] at k1; subst k1; simp [journalAfter]
    | ok st1 =>
      obtain ⟨r1, u1⟩ := st1
      rw [h1] at k1; subst k1
      simp only [journalAfter]
      have hunused : ∀ (r2 : Assoc) (u2 : List Name) (ua : List PV),
          loopPos c.ps c.strict c.sig.receiver (c.sig.posNames.zip args) r1 u1 [] = .ok (r2, u2, ua) →
          c.ps.filter (fun p => !u2.contains p.name) = unsupplied c args kw := by
        intro r2 u2 ua h2
        unfold unsupplied
        apply List.filter_congr
        intro p hp
        have hsome := findP_isSome_of_mem c.ps p hp
        have hu1 := loopKw_used c.ps c.strict kw [] r1 [] u1 h1 p.name
        have hu2 := loopPos_used c.ps c.strict _ _ r1 r2 u1 u2 [] ua h2 p.name
        have : u2.contains p.name = supplied c.sig args kw p.name := by
          rw [Bool.eq_iff_iff]
          simp only [List.contains_iff_mem, hu2, hu1, supplied, zip_any_key, hsome, and_true, List.not_mem_nil, false_or,
            Bool.or_eq_true]
        rw [this]
      unfold bindPartial
      by_cases hlen : args.length ≤ c.sig.pos.length
      · have hlen' : ¬ args.length > c.sig.pos.length := by omega
        have hsur : surplusArgs c.sig args = [] := by
          unfold surplusArgs; split
          · exact List.drop_eq_nil_of_le hlen
          · rfl
        have hz : zipped c args kw = [] := by simp [zipped, hsur]
        have hft : ∀ (l : List VParam), l.filter (fun _ => true) = l := fun l => List.filter_eq_self.mpr (by simp)
        simp only [hlen, hlen', ↓reduceIte, List.nil_append, List.isEmpty_nil, decide_false, Bool.false_and, Bool.false_eq_true,
          hsur, List.length_nil, hz, List.map_nil, List.contains_nil, Bool.not_false, hft, Nat.not_lt_zero,
          Bool.and_false, gt_iff_lt]
        obtain ⟨p1, p2⟩ := loopPosW_journal c c.sig.receiver rfl (c.sig.posNames.zip args)
          ((unsupplied c args kw).map Item.absent) r1 u1 [] wK
        rw [← p2]
        rcases h2w : loopPosW (c.ps.map VParam.journalW) c.strict c.sig.receiver (c.sig.posNames.zip args) r1 u1 [] wK with ⟨rP, wP⟩
        rw [h2w] at p1
        simp only at p1 ⊢
        cases h2 : loopPos c.ps c.strict c.sig.receiver (c.sig.posNames.zip args) r1 u1 [] with
        | error e => rw [h2] at p1; subst p1; simp [journalAfter]
        | ok st2 =>
          obtain ⟨r2, u2, ua⟩ := st2
          rw [h2] at p1; subst p1
          simp only [journalAfter]
          rw [filter_journalW c.ps (fun n => !u2.contains n), (loopUnusedW_journal c _ r2 wP).2, hunused r2 u2 ua h2]
      · have hlen' : args.length > c.sig.pos.length := by omega
        cases hva : c.sig.varArgs with
        | false => simp [hlen, hlen', hva, gateJournal, itemOut, itemJournal]
        | true =>
          have hg' := hg
          simp only [surplusGuard, hva, Bool.not_true, Bool.false_or, hlen, decide_false, Bool.and_eq_true, beq_iff_eq] at hg'
          obtain ⟨hsrc, hstrict⟩ := hg'
          have hzb : zipBranchTest (c.sig.varName == argsName) c.sig.wantsArgs true = true := by simp [zipBranchTest]
          have hsur : surplusArgs c.sig args = args.drop c.sig.pos.length := by simp [surplusArgs, hva]
          have hne : (args.drop c.sig.pos.length).isEmpty = false := by
            cases hd : args.drop c.sig.pos.length with
            | nil => have := List.drop_eq_nil_iff.mp hd; omega
            | cons x xs => rfl
          simp only [hlen, hlen', ↓reduceIte, hva, hzb, decide_true, Bool.not_true, Bool.and_false, Bool.false_eq_true,
            List.nil_append, hne]
          obtain ⟨p1, p2⟩ := loopPosW_journal c c.sig.receiver rfl (c.sig.posNames.zip args)
            ((if (c.strict && decide ((surplusArgs c.sig args).length > (unsupplied c args kw).length)) = true then [Item.surplusLeft] else []) ++
              ((zipped c args kw).map (fun ap => Item.zip ap.2 ap.1) ++
                ((unsupplied c args kw).filter (fun p => !((zipped c args kw).map (·.2.name)).contains p.name)).map Item.absent)) r1 u1 [] wK
          rw [← p2]
          rcases h2w : loopPosW (c.ps.map VParam.journalW) c.strict c.sig.receiver (c.sig.posNames.zip args) r1 u1 [] wK with ⟨rP, wP⟩
          rw [h2w] at p1
          simp only at p1 ⊢
          cases h2 : loopPos c.ps c.strict c.sig.receiver (c.sig.posNames.zip args) r1 u1 [] with
          | error e => rw [h2] at p1; subst p1; simp [journalAfter]
          | ok st2 =>
            obtain ⟨r2, u2, ua⟩ := st2
            rw [h2] at p1; subst p1
            simp only [journalAfter]
            have hua : ua = recorded c.ps (c.sig.posNames.zip args) := by
              have := loopPos_ua c.ps c.strict _ _ r1 r2 u1 u2 [] ua h2
              simpa using this
            have hun := hunused r2 u2 ua h2
            have hpairs : zipPairs c.ps args (args.drop c.sig.pos.length) u2 ua = zipped c args kw := by
              unfold zipPairs zipped unusedParams
              rw [hun, hua, hsrc, hsur]
            have hrefuse : zipRefuses c.ps c.strict args (args.drop c.sig.pos.length) u2 ua
                = (c.strict && decide ((surplusArgs c.sig args).length > (unsupplied c args kw).length)) := by
              unfold zipRefuses unusedParams
              rw [hun, hua, hsrc, hsur, hstrict]
            simp only [zipRefusesW_journal, zipPairsW_journal, hrefuse, hpairs]
            by_cases hleft : (c.strict && decide ((surplusArgs c.sig args).length > (unsupplied c args kw).length)) = true
            · simp [hleft, gateJournal, itemOut, itemJournal]
            · simp only [hleft, Bool.false_eq_true, ↓reduceIte, List.nil_append]
              obtain ⟨z1, z2⟩ := loopZipW_journal c (zipped c args kw)
                (((unsupplied c args kw).filter (fun p => !((zipped c args kw).map (·.2.name)).contains p.name)).map Item.absent) r2 u2 wP
              rw [← z2]
              rcases h3w : loopZipW ((zipped c args kw).map (fun ap => (ap.1, ap.2.journalW))) r2 u2 wP with ⟨rZ, wZ⟩
              rw [h3w] at z1
              simp only [h3w] at z1 ⊢
              cases h3 : loopZip (zipped c args kw) r2 u2 with
              | error e => rw [h3] at z1; subst z1; simp [journalAfter]
              | ok st3 =>
                obtain ⟨r3, u3⟩ := st3
                rw [h3] at z1; subst z1
                simp only [journalAfter]
                have hu3 := loopZip_used _ _ _ _ _ h3
                have hf : c.ps.filter (fun p => !u3.contains p.name)
                    = (unsupplied c args kw).filter (fun p => !((zipped c args kw).map (·.2.name)).contains p.name) := by
                  rw [← hun, List.filter_filter, hu3]
                  apply List.filter_congr
                  intro p _
                  simp only [List.contains_append, Bool.not_or, Bool.and_comm]
                rw [filter_journalW c.ps (fun n => !u3.contains n), (loopUnusedW_journal c _ r3 wZ).2, hf]

/-- **C12 (journal), every signature, every call** -/
theorem journal_spec_any_signature (c : Cfg) (args : List PV) (kw : List (Name × PV)) (w : List JEntry) :
    (wrapperContentW c.journalW args kw w).2 = w ++ (gate c args kw).journal :=
  journal_spec c args kw (surplusGuard_holds c args kw) w

-- `f(100, 101)` on `exGate [801]` (the second validator of `a` rejects): the journal lists the two invocations for `a` and none for `b`
example : (wrapperContentW (exGate [801]).journalW [.obj 100, .obj 101] [] []).2 = [(2, 0, .obj 100), (2, 1, .obj 801)] := by
  rw [journal_spec _ _ _ (by decide)]; rfl

/-! ### a concrete re-entrant call -/

/-- a world: the log of the outcomes of the calls completed so far -/
abbrev Log := List (Except VExc Binding)

/-- `@validate(Parameter('x', validators=[V1]), Parameter('y', validators=[V2]), return_as=KWARGS_WITH_NONE)
    def f(x, y=<obj 50>)` (names: x = 2, y = 3; `y` is required) — steps without effects -/
def exPlainW : CfgW Log :=
  { ps := [⟨2, true, none, none, none, [fun v w => (exV 1 [] v, w)], false, by decide⟩,
           ⟨3, true, none, none, none, [fun v w => (exV 2 [] v, w)], false, by decide⟩],
    sig := { pos := [⟨2, none⟩, ⟨3, some (.obj 50)⟩], varArgs := false, kwOnly := [] },
    strict := true, ignoreInput := false, req := .noContext }

/-- the same decorated function, but the validator of `x` is re-entrant: before it returns it calls `f(x=200, y=300)` —
    a complete, valid call of the *same* function — and logs its outcome -/
def exReentrantW : CfgW Log :=
  { exPlainW with
    ps := [⟨2, true, none, none, none,
             [fun v w => (exV 1 [] v,
                let r := runValidateW exPlainW (fun _ w => w) false .kwWithNone [] [(2, .obj 200), (3, .obj 300)] w
                r.1 :: r.2)], false, by decide⟩,
           ⟨3, true, none, none, none, [fun v w => (exV 2 [] v, w)], false, by decide⟩] }

-- the outer call `f(x=100)` omits the required `y`: ParameterException(y), the body does not run — although the inner call,
-- which ran to completion in between (see the log), supplied a `y`
example : runValidateW exReentrantW (fun _ w => w) false .kwWithNone [] [(2, .obj 100)] []
    = (.error (.parameter 3 .required), [.ok ⟨[(2, .obj 1601), (3, .obj 2402)], []⟩]) := by rfl
-- the hypotheses of `call_outcome_independent_of_other_calls` / `…_of_step_effects` are met by the re-entrant function
example : exReentrantW.WorldIndependent := by
  intro p hp
  simp only [exReentrantW, exPlainW, List.mem_cons, List.not_mem_nil, or_false] at hp
  rcases hp with rfl | rfl
  · refine ⟨fun s h => (by cases h), fun s hs => ?_⟩
    simp only [List.mem_singleton] at hs
    subst hs
    intro v w w'
    rfl
  · refine ⟨fun s h => (by cases h), fun s hs => ?_⟩
    simp only [List.mem_singleton] at hs
    subst hs
    intro v w w'
    rfl
example : exReentrantW.erase [] = exPlainW.erase [] := by rfl

/-- the facts the translator reads about scopes: the bookkeeping of a call is bound inside `_wrapper_content` / `wrapper` /
    `async_wrapper` / `_split_by_signature` themselves (not in the enclosing `validator` / `validate` scope, where all
    calls of a decorated function would share it), and `Parameter.validate` keeps no state on the Parameter object -/
theorem reentrancy_source_shape : bookkeepingIsPerCall = true ∧ parameterValidateIsStateless = true := by decide

end PedVerif.Validate
