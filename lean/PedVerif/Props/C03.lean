import PedVerif.Lemmas.CallLayer3
import PedVerif.Lemmas.CheckerEnvs
import PedVerif.Props.GenWrap
/-!
# C03 — @pedantic guards the body: bad arguments never reach it, bad results never leave

`runCall` is the model of `pedantic.wrapper` / `async_wrapper` (the order "assert_uses_kwargs, argument checks, body,
return check" is re-read from the source on every run: `cfg_argsBeforeBody`, `cfg_wrappers`, `cfg_argumentChecks`).
`anyNonConforming` / `badProduced` are the spec side: some supplied value (explicit keyword, omitted-but-defaulted, *args
element, **kwargs value) / the produced value does not `conform`.  The proofs go through C01: what one check accepts
conforms (`sound_checkType`), hence inherit C01's guards (class table with unique names for string annotations, values
without one-shot iterators).  The generator protocol (yield / send / return checks of
GeneratorWrapper) is the theorem `generator_guard_full_proved` of the GenWrap model (every step, `throw` included).
-/
namespace PedVerif.Call
open PedVerif.Checker PedVerif.Gen.CallTables

/-- **C03 (arguments).** If any supplied value does not conform - at whichever parameter position, explicit or defaulted,
    positional-star or keyword-star - the body does not run and the caller gets PedanticTypeCheckException. -/
theorem args_guard (env : Env) (orc : Nat → Val → Raw) (horc : ∀ k v, orc k v ≠ .raisedTV) (f : Fn) (args : List Val)
    (kw : List (NameId × Val)) (body : BodyOut) (ctx : SoundCtx env f args kw)
    (hmode : f.mode = .pedantic)
    (hinit : f.initFails args = false)                              -- Python itself supplies self
    (hkw : (f.shouldHaveKwargs && !(f.argsWithoutSelf args).isEmpty) = false)       -- the call is not rejected as positional first
    (hc : f.clazzFails args = false)
    (hbad : anyNonConforming env f args kw = true) :
    runCall env orc f args kw body = ⟨.pedTypeCheck, false, [], []⟩ := by
  rw [runCall_pedantic' env orc f args kw body hmode hinit hkw, checkArguments_bad horc ctx hc hbad]

/-- … and in every case (also when the call is rejected for another reason first) the body does not run -/
theorem args_guard_body_never_runs (env : Env) (orc : Nat → Val → Raw) (horc : ∀ k v, orc k v ≠ .raisedTV) (f : Fn) (args : List Val)
    (kw : List (NameId × Val)) (body : BodyOut) (ctx : SoundCtx env f args kw) (hmode : f.mode = .pedantic)
    (hc : f.clazzFails args = false) (hbad : anyNonConforming env f args kw = true) :
    (runCall env orc f args kw body).bodyRan = false := by
  by_cases hinit : f.initFails args = true
  · unfold runCall; simp [hinit]
  · by_cases hkw : (f.shouldHaveKwargs && !(f.argsWithoutSelf args).isEmpty) = true
    · unfold runCall; simp [hinit, hkw]
    · rw [args_guard env orc horc f args kw body ctx hmode (by simpa using hinit) (by simpa using hkw) hc hbad]

/-- **C03 (property setters).** `obj.x = v` reaches the setter positionally by Python's own protocol (the setter is exempt
    from the keyword discipline, `should_have_kwargs = False`): a value that does not conform to the annotation of the
    setter's parameter never reaches the body. -/
theorem setter_value_guard (env : Env) (orc : Nat → Val → Raw) (horc : ∀ k v, orc k v ≠ .raisedTV) (f : Fn) (slf v : Val)
    (body : BodyOut) (ctx : SoundCtx env f [slf, v] []) (hmode : f.mode = .pedantic)
    (hshk : f.shouldHaveKwargs = false) (hself : f.firstIsSelf = true)
    (p : Param) (hplain : f.plain = [p]) (hd : p.dflt = none) (a : Ann) (ha : p.ann = some a)
    (hc : f.clazzFails [slf, v] = false) (hbad : conforms env a v = false) :
    runCall env orc f [slf, v] [] body = ⟨.pedTypeCheck, false, [], []⟩ := by
  have hp : p ∈ f.params := plain_sub f p (by simp [hplain])
  have hne : checkArguments env orc f [slf, v] [] ≠ none := by
    rw [checkArguments_eq]
    intro h
    rw [orElse_none] at h
    have h1 := h.1
    simp only [hplain, hself, ↓reduceIte, checkParams, ha, hd, hshk, lookup, cfg_fallback] at h1
    simp only [List.getElem?_cons_succ, List.getElem?_cons_zero, Bool.false_eq_true, ↓reduceIte] at h1
    rw [orElse_none] at h1
    exact checkVal_bad ctx hp ha (ctx.args v (by simp)) hbad h1.1
  have hca : checkArguments env orc f [slf, v] [] = some .pedTypeCheck := by
    cases h : checkArguments env orc f [slf, v] [] with
    | none => exact absurd h hne
    | some c => rw [checkArguments_some_tc env orc horc f _ _ hc c h]
  rw [runCall_pedantic' env orc f [slf, v] [] body hmode (by simp [Fn.initFails]) (by simp [hshk]), hca]

/-- the fold over the declared parameters, positional part: while the parameters have neither default nor keyword, the i-th one
    is checked against the i-th positional value (after the implicit self) - a bad one at ANY such position stops the fold -/
theorem checkParams_positional_bad {env : Env} {orc} {f : Fn} {args : List Val} {kw : List (NameId × Val)}
    (ctx : SoundCtx env f args kw) (hshk : f.shouldHaveKwargs = false) :
    ∀ (ps : List Param) (idx k : Nat), (∀ p ∈ ps, p ∈ f.params) →
      (∀ p ∈ ps.take k, p.dflt = none ∧ lookup kw p.name = none) →
      (∃ i, i < k ∧ ∃ p v a, ps[i]? = some p ∧ args[idx + i]? = some v ∧ p.ann = some a ∧ conforms env a v = false) →
      checkParams env orc f args kw ps idx ≠ none := by
  intro ps
  induction ps with
  | nil => intro idx k _ _ ⟨i, _, p, v, a, hp, _⟩; simp at hp
  | cons q ps ih =>
    intro idx k hsub hpre ⟨i, hik, p, v, a, hp, hv, ha, hbad⟩
    have hk : 0 < k := by omega
    have hq := hpre q (by cases k with | zero => omega | succ k => simp)
    unfold checkParams
    cases hqa : q.ann with
    | none => simp
    | some a0 =>
      simp only [hq.1, hshk, Bool.false_eq_true, ↓reduceIte, hq.2]
      cases hw : args[idx]? with
      | none => simp only; split <;> simp
      | some w =>
        simp only
        intro hnone
        rw [orElse_none] at hnone
        cases i with
        | zero =>
          simp only [List.getElem?_cons_zero, Option.some.injEq] at hp
          subst hp
          simp only [Nat.add_zero] at hv
          have hwv : w = v := by rw [hw] at hv; exact Option.some.inj hv
          have haa : a0 = a := by rw [hqa] at ha; exact Option.some.inj ha
          subst hwv; subst haa
          exact checkVal_bad ctx (hsub q (by simp)) hqa (ctx.args w (List.mem_of_getElem? hw)) hbad hnone.1
        | succ i' =>
          refine ih (idx + 1) (k - 1) (fun p hp' => hsub p (by simp [hp'])) ?_ ⟨i', by omega, p, v, a, ?_, ?_, ha, hbad⟩ hnone.2
          · intro p' hp'
            apply hpre p'
            cases k with
            | zero => omega
            | succ k => simp only [List.take_succ_cons, List.mem_cons]; right; simpa using hp'
          · simpa using hp
          · rw [← hv]; congr 1; omega

/-- **C03 (positional calls).** Where a positional call is possible at all (`should_have_kwargs = False`: dunder methods like
    `__call__` / `__getitem__`, property setters, functions taking `*args`; positional-only parameters can be filled in no other
    way) a positional value that does not conform to the annotation of the declared parameter it binds to - at ANY position of
    the positional prefix - never reaches the body. -/
theorem positional_prefix_guard (env : Env) (orc : Nat → Val → Raw) (horc : ∀ k v, orc k v ≠ .raisedTV) (f : Fn) (args : List Val)
    (kw : List (NameId × Val)) (body : BodyOut) (ctx : SoundCtx env f args kw) (hmode : f.mode = .pedantic)
    (hshk : f.shouldHaveKwargs = false) (hinit : f.initFails args = false) (hc : f.clazzFails args = false)
    (k : Nat) (hpre : ∀ p ∈ f.plain.take k, p.dflt = none ∧ lookup kw p.name = none)
    (i : Nat) (hi : i < k) (p : Param) (v : Val) (a : Ann) (hp : f.plain[i]? = some p)
    (hv : args[(if f.firstIsSelf then 1 else 0) + i]? = some v) (ha : p.ann = some a) (hbad : conforms env a v = false) :
    runCall env orc f args kw body = ⟨.pedTypeCheck, false, [], []⟩ := by
  have hne : checkArguments env orc f args kw ≠ none := by
    rw [checkArguments_eq]
    intro h
    rw [orElse_none] at h
    exact checkParams_positional_bad ctx hshk f.plain _ k (plain_sub f) hpre ⟨i, hi, p, v, a, hp, hv, ha, hbad⟩ h.1
  have hca : checkArguments env orc f args kw = some .pedTypeCheck := by
    cases h : checkArguments env orc f args kw with
    | none => exact absurd h hne
    | some c => rw [checkArguments_some_tc env orc horc f _ _ hc c h]
  rw [runCall_pedantic' env orc f args kw body hmode hinit (by simp [hshk]), hca]

/-- the value a parameter at position i receives is checked: special case "one bad keyword among conforming ones" -/
theorem one_bad_keyword (env : Env) (orc : Nat → Val → Raw) (horc : ∀ k v, orc k v ≠ .raisedTV) (f : Fn) (args : List Val)
    (kw : List (NameId × Val)) (body : BodyOut) (ctx : SoundCtx env f args kw) (hmode : f.mode = .pedantic)
    (hinit : f.initFails args = false) (hkw : (f.shouldHaveKwargs && !(f.argsWithoutSelf args).isEmpty) = false)
    (hc : f.clazzFails args = false) (p : Param) (hp : p ∈ f.plain) (a : Ann) (v : Val) (ha : p.ann = some a)
    (hl : lookup kw p.name = some v) (hbad : conforms env a v = false) :
    runCall env orc f args kw body = ⟨.pedTypeCheck, false, [], []⟩ := by
  apply args_guard env orc horc f args kw body ctx hmode hinit hkw hc
  simp only [anyNonConforming, Bool.or_eq_true, List.any_eq_true]
  exact Or.inl (Or.inl ⟨p, hp, by simp [badParam, ha, usedValue, hl, hbad]⟩)

/-- **C03 (result).** What the caller receives as the return value (the awaited result of a coroutine) conforms to the
    return annotation: a non-conforming result is replaced by PedanticTypeCheckException. -/
theorem result_guard (env : Env) (orc : Nat → Val → Raw) (f : Fn) (args : List Val) (kw : List (NameId × Val)) (r : Val)
    (hw : WfEnv env) (hmode : f.mode = .pedantic) (hfl : f.flavour ≠ .generator)
    (a : Ann) (ha : f.retAnn = some a) (hs : a.strAnnOk env r = true) (hns : a.noSpecial = true) (hr : r.wf env = true ∧ r.iterFree = true)
    (hret : (runCall env orc f args kw (.ret r)).caller = .ret) : conforms env a r = true := by
  by_cases hinit : f.initFails args = true
  · unfold runCall at hret; simp [hinit] at hret
  · by_cases hkw : (f.shouldHaveKwargs && !(f.argsWithoutSelf args).isEmpty) = true
    · unfold runCall at hret; simp [hinit, hkw] at hret
    · rw [runCall_pedantic' env orc f args kw _ hmode (by simpa using hinit) (by simpa using hkw)] at hret
      split at hret
      · rename_i c hc
        simp only at hret; subst hret
        exact absurd hc (checkArguments_ne_ret env orc f args kw).1
      · unfold invoke at hret
        simp only [hmode] at hret
        split at hret
        · simp at hret
        · unfold retCheck at hret
          simp only [ha] at hret
          have hfl' : (f.flavour == .generator) = false := by cases h : f.flavour <;> simp_all
          simp only [hfl', Bool.false_eq_true, ↓reduceIte] at hret
          split at hret
          · rename_i c hc; simp only at hret; subst hret
            exact absurd hc (checkVal_ne_ret env orc f args a r)
          · rename_i hnone
            exact sound_checkType env orc hw a r hs hns hr.1 hr.2 (checkVal_none env orc f args a r hnone)

/-- `for_all_methods` (pedantic_class) wraps functions, bound methods and all three accessors of a property: every member
    kind named in the property gets the wrapper this model describes -/
theorem class_decorator_covers :
    classDecoratorWrapsFunctions = true ∧ classDecoratorWrapsProperties = true ∧
    classDecoratorPropertyParts = ["fget", "fset", "fdel"] := cfg_classDecorator

/-- the coroutine wrapper does the same as the synchronous one, around an awaited invocation -/
theorem coroutine_wrapper_same : asyncWrapperAssertsKwargsFirst = true ∧ asyncWrapperIsAsync = true ∧ asyncInvocationSame = true ∧
    asyncArgsCheckedBeforeBody = true ∧ asyncReturnCheckedAfterBody = true := by decide

/-! ### the full statement and the inherited regions -/
def ArgsGuard_full : Prop :=
  ∀ (env : Env) (orc : Nat → Val → Raw) (f : Fn) (args : List Val) (kw : List (NameId × Val)) (body : BodyOut),
    WfEnv env → f.mode = .pedantic → f.clazzFails args = false → anyNonConforming env f args kw = true →
    (runCall env orc f args kw body).bodyRan = false

def ntAnn : Ann := .clsF 9 [20, 21] [.cls 2, .cls 3]
def ntVal : Val := .ntup 10 [20, 21] [.lit (.int 1), .lit (.str [97])]
/-- `@pedantic def f(a: NT1) -> int` -/
def witnessNT : Fn :=
  { name := "f", flags := flagsOfSource "f" "@pedantic\ndef f(a: NT1) -> int:\n    return 1\n", qualDotted := false,
    params := [{ name := 1, kind := .posOrKw, ann := some ntAnn, dflt := none }], selfName := 0,
    firstIsSelf := false, isBound := false, retAnn := some (.cls 2), genRet := .notGenType, flavour := .sync, mode := .pedantic }
/-- (was the inherited C01 region `namedtupleStructural` / finding `namedtupleStructuralArgument`, repaired) `f(a=NT2(1, 'a'))` no
    longer reaches the body of `def f(a: NT1)`: PedanticTypeCheckException (`envN`: 9 = NT1, 10 = NT2 are NamedTuple classes) -/
theorem fixed_namedtupleStructuralArgument :
    anyNonConforming envN witnessNT [] [(1, ntVal)] = true ∧
    (runCall envN (fun _ _ => .raisedOther) witnessNT [] [(1, ntVal)] (.ret (.lit (.int 1)))).bodyRan = false ∧
    (runCall envN (fun _ _ => .raisedOther) witnessNT [] [(1, ntVal)] (.ret (.lit (.int 1)))).caller = .pedTypeCheck ∧
    (runCall envN (fun _ _ => .raisedOther) witnessNT [] [(1, .ntup 9 [20, 21] [.lit (.int 1), .lit (.str [97])])] (.ret (.lit (.int 1)))).bodyRan = true := by decide

/-- `@pedantic def g(xs: Iterable[int]) -> int` -/
def witnessIter : Fn :=
  { witnessNT with
    flags := flagsOfSource "g" "@pedantic\ndef g(xs: Iterable[int]) -> int:\n    return 1\n", name := "g",
    params := [{ name := 1, kind := .posOrKw, ann := some (.seq .typing .iterable (.cls 2)), dflt := none }] }
/-- inherited C01 region `iteratorItemsUnchecked` (the only one left): `g(xs=iter(['a', 'b']))` reaches the body although the pending
    items are strings - they are deliberately not looked at (that would consume the iterator, C04) -/
theorem args_guard_fails_iterator :
    anyNonConforming envI witnessIter [] [(1, .iterator 6 [.lit (.str [97]), .lit (.str [98])])] = true ∧
    (runCall envI (fun _ _ => .raisedOther) witnessIter [] [(1, .iterator 6 [.lit (.str [97]), .lit (.str [98])])] (.ret (.lit (.int 1)))).bodyRan = true := by decide
theorem ArgsGuard_full_is_false : ¬ ArgsGuard_full := by
  intro h
  have w := args_guard_fails_iterator
  have := h envI (fun _ _ => .raisedOther) witnessIter [] [(1, .iterator 6 [.lit (.str [97]), .lit (.str [98])])] (.ret (.lit (.int 1))) envI_wf rfl (by decide) w.1
  rw [w.2] at this; cases this

-- non-vacuity: a defaulted parameter with a bad declared default, omitted in the call: `def g(a: int, b: str = 5)`, `g(a=1)`
def witnessDefault : Fn :=
  { witnessNT with
    flags := flagsOfSource "g" "@pedantic\ndef g(a: int, b: str = 5) -> int:\n    return 1\n"
    name := "g"
    params := [{ name := 1, kind := .posOrKw, ann := some (.cls 2), dflt := none },
               { name := 2, kind := .posOrKw, ann := some (.cls 3), dflt := some (.lit (.int 5)) }] }
example : anyNonConforming envW witnessDefault [] [(1, .lit (.int 1))] = true ∧
    (runCall envW (fun _ _ => .raisedOther) witnessDefault [] [(1, .lit (.int 1))] (.ret (.lit (.int 1)))).caller = .pedTypeCheck ∧
    (runCall envW (fun _ _ => .raisedOther) witnessDefault [] [(1, .lit (.int 1))] (.ret (.lit (.int 1)))).bodyRan = false := by
  decide
example : (runCall envW (fun _ _ => .raisedOther) witnessDefault [] [(1, .lit (.int 1)), (2, .lit (.str [98]))] (.ret (.lit (.int 1)))).caller
    = .ret := by decide
example : (runCall envW (fun _ _ => .raisedOther) witnessDefault [] [(1, .lit (.int 1)), (2, .lit (.str [98]))] (.ret (.lit (.str [])))).caller
    = .pedTypeCheck := by decide

/-! ### region `positionalForDefaulted` (X2.2): a positional value for a declared parameter that has a default -/
/-- `class K: @pedantic def __call__(self, a: int = 0) -> int` - an operator method outside the documented list: positionally callable -/
def witnessCallDefault : Fn :=
  { name := "__call__", flags := flagsOfSource "__call__" "    @pedantic\n    def __call__(self, a: int = 0) -> int:\n        return 1\n", qualDotted := true,
    params := [{ name := 0, kind := .posOrKw, ann := none, dflt := none }, { name := 1, kind := .posOrKw, ann := some (.cls 2), dflt := some (.lit (.int 0)) }],
    selfName := 0, firstIsSelf := true, isBound := false, retAnn := some (.cls 2), genRet := .notGenType, flavour := .sync, mode := .pedantic }
/-- **region `positionalForDefaulted`**: `K()('x')` - the positional value `'x'` binds to `a: int = 0`, does not conform, and reaches the body:
    `_check_type_param` looks at the keyword or at the declared default of a defaulted parameter, never at a positional value.  The value is
    outside C03's enumeration (it is no explicit keyword, no omitted default, no `*args` element, no `**kwargs` value), hence outside
    `anyNonConforming` - the region predicate `positionalForDefaultedBad` names it -/
theorem positional_value_for_defaulted_unchecked :
    positionalForDefaultedBad envW witnessCallDefault ⟨false, false, true, 1⟩ [.inst 7, .lit (.str [120])] = true ∧
    anyNonConforming envW witnessCallDefault [.inst 7, .lit (.str [120])] [] = false ∧
    (runCall envW (fun _ _ => .raisedOther) witnessCallDefault [.inst 7, .lit (.str [120])] [] (.ret (.lit (.int 1)))).bodyRan = true ∧
    (runCall envW (fun _ _ => .raisedOther) witnessCallDefault [.inst 7, .lit (.str [120])] [] (.ret (.lit (.int 1)))).caller = .ret := by decide
/-- C03 read so that a positional value counts as supplied as well -/
def ArgsGuardPositional_full : Prop :=
  ∀ (env : Env) (orc : Nat → Val → Raw) (f : Fn) (t : Truth) (args : List Val) (kw : List (NameId × Val)) (body : BodyOut),
    WfEnv env → f.mode = .pedantic → f.clazzFails args = false →
    (anyNonConforming env f args kw = true ∨ positionalForDefaultedBad env f t args = true) →
    (runCall env orc f args kw body).bodyRan = false
theorem ArgsGuardPositional_full_is_false : ¬ ArgsGuardPositional_full := by
  intro h
  have w := positional_value_for_defaulted_unchecked
  have := h envW (fun _ _ => .raisedOther) witnessCallDefault ⟨false, false, true, 1⟩ [.inst 7, .lit (.str [120])] [] (.ret (.lit (.int 1))) envW_wf rfl
    (by decide) (.inr w.1)
  rw [w.2.2.1] at this; cases this
/-- the side conditions of `args_guard` are satisfiable on a realistic class table (`envR`: every class carries its own name and
    `object` in its MRO, names the context does not bind): the string-annotation guard inside `ValOk` is free for a signature
    without string annotations -/
example : SoundCtx envR witnessDefault [] [(1, .lit (.int 1))] := by
  have hno : ∀ p ∈ witnessDefault.params, ∀ a, p.ann = some a → ∀ n, a ≠ .strAnn n := by
    intro p hp a ha n
    simp only [witnessDefault, List.mem_cons, List.not_mem_nil, or_false] at hp
    rcases hp with rfl | rfl <;> (simp at ha; subst ha; simp)
  refine ⟨envR_wf, ?_, ?_, ?_, ?_⟩
  · intro p hp a ha
    simp only [witnessDefault, List.mem_cons, List.not_mem_nil, or_false] at hp
    rcases hp with rfl | rfl <;> (simp at ha; subst ha; rfl)
  · intro p hp d hd
    simp only [witnessDefault, List.mem_cons, List.not_mem_nil, or_false] at hp
    rcases hp with rfl | rfl
    · simp at hd
    · simp at hd; subst hd; exact ValOk.of_no_str hno (by decide)
  · intro v hv; simp at hv
  · intro kv hkv; simp at hkv; subst hkv; exact ValOk.of_no_str hno (by decide)

end PedVerif.Call
