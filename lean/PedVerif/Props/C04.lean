import PedVerif.Lemmas.CallLayer4
import PedVerif.Lemmas.CheckerEnvs
import PedVerif.Props.GenWrap
import PedVerif.Lemmas.CallLayer5
import PedVerif.Props.C07
/-!
# C04 — @pedantic is transparent for conforming keyword calls

`Result` records what the function received: `bodyRan` (the function is invoked exactly once, by construction of the
wrapper), `fwdPos` / `fwdKw` (which of the caller's argument *objects* were forwarded - the very same objects, the model
never copies a value) and `caller` (`ret` = the very object the body returned, `bodyExc e` = the very exception object).
Proofs go through C02 (`complete_checkType`): a conforming value passes every check.

* `transparent`: conforming keyword call ⇒ the body runs with all the caller's objects, its result object / exception
  object reaches the caller unchanged.
* `checking_never_iterates_an_iterator` (no consumption): the checker never looks at the pending items of a one-shot iterator.
* body text: `text_independent_up_to_args_needle` - two sources with the same decorator lines that agree on whether `*args`
  occurs somewhere behave identically on every call; `body_text_irrelevant_for_keyword_calls` - for keyword calls even that
  needle is irrelevant.  The full statement `TextIndependent_full` is refuted (`TextIndependent_full_is_false`) by exactly that
  needle: `wants_args` is still read from the whole source (finding `bodyTextFlipsHeuristics`).
* `transparent_forwards`: which of the caller's objects a conforming call hands to the body.
* about the TRANSLATED code (Props/C04IR.lean, Props/CallLayerIR.lean): `ir_transparent`, `ir_body_invoked_exactly_once` (a `Nat` counter of the
  executed invocation statements), `ir_body_exception_unchanged` (no `try` around the invocation), `ir_context_prefers_function_globals`, and the
  region of values that cannot be formatted (`ir_unprintable_conforming_result_escapes`, finding `unprintableValueEscapes`).
-/
namespace PedVerif.Call
open PedVerif.Checker PedVerif.Gen.CallTables PedVerif.Gen.TypeTables

/-- **C04.** A conforming keyword call of a @pedantic function behaves like the undecorated function. -/
theorem transparent (env : Env) (orc : Nat → Val → Raw) (f : Fn) (args : List Val) (kw : List (NameId × Val)) (body : BodyOut)
    (ctx : CompleteCtx env f args kw) (hmode : f.mode = .pedantic) (hfl : f.flavour ≠ .generator)
    (hinit : f.initFails args = false)
    (hkw : (f.shouldHaveKwargs && !(f.argsWithoutSelf args).isEmpty) = false)   -- no declared parameter is passed positionally
    (hc : f.clazzFails args = false)
    (hbinds : f.binds (fwdPosOf f args).length (kw.map (·.1)) = true)           -- Python accepts the call
    (hbody : ∀ r, body = .ret r → r.wf env = true ∧ r.plain = true)
    (hall : allConforming env f args kw body = true) :
    runCall env orc f args kw body =
      ⟨(match body with | .ret _ => .ret | .raises e => .bodyExc e), true, fwdPosOf f args, kw.map (·.1)⟩ := by
  simp only [allConforming, Bool.and_eq_true, Bool.not_eq_true'] at hall
  obtain ⟨⟨⟨⟨hgood, hsa⟩, hstar⟩, hdstar⟩, hret⟩ := hall
  rw [runCall_pedantic' env orc f args kw body hmode hinit hkw, checkArguments_good ctx hc hgood hsa hstar hdstar]
  simp only [invoke, hbinds, Bool.not_true, Bool.false_eq_true, ↓reduceIte, hmode]
  cases body with
  | raises e => simp [retCheck]
  | ret r =>
    cases ha : f.retAnn with
    | none => simp [ha] at hret
    | some a =>
      have hfl' : (f.flavour == .generator) = false := by cases h : f.flavour <;> simp_all
      simp only [ha, hfl', Bool.false_eq_true, Bool.false_or] at hret
      simp only [retCheck, ha, hfl', Bool.false_eq_true, ↓reduceIte,
        checkVal_good (orc := orc) ctx.hw hc (ctx.ret a ha) (hbody r rfl) hret]

/-- in particular, about the call itself (not about the definition of `fwdPosOf`): a conforming call of an ordinary function or method hands
    every positional object of the caller (the implicit self) and every keyword object to the body; for a static or class method - invoked with
    keyword arguments only - the implicit first argument the wrapper received through instance access is (correctly) not passed on -/
theorem transparent_forwards (env : Env) (orc : Nat → Val → Raw) (f : Fn) (args : List Val) (kw : List (NameId × Val)) (body : BodyOut)
    (ctx : CompleteCtx env f args kw) (hmode : f.mode = .pedantic) (hfl : f.flavour ≠ .generator) (hinit : f.initFails args = false)
    (hkw : (f.shouldHaveKwargs && !(f.argsWithoutSelf args).isEmpty) = false) (hc : f.clazzFails args = false)
    (hbinds : f.binds (fwdPosOf f args).length (kw.map (·.1)) = true) (hbody : ∀ r, body = .ret r → r.wf env = true ∧ r.plain = true)
    (hall : allConforming env f args kw body = true) :
    (runCall env orc f args kw body).fwdKw = kw.map (·.1) ∧
    (runCall env orc f args kw body).fwdPos = (if f.isStatic || f.isBound then [] else List.range args.length) := by
  rw [transparent env orc f args kw body ctx hmode hfl hinit hkw hc hbinds hbody hall]
  refine ⟨rfl, ?_⟩
  simp only [fwdPosOf, Fn.kwOnlyInvocation, hmode, cfg_kwOnly, beq_self_eq_true, Bool.true_and]

/-- a body exception reaches the caller unchanged whatever its kind (there is no try/except around the invocation) -/
theorem body_exception_unchanged (env : Env) (orc : Nat → Val → Raw) (f : Fn) (args : List Val) (kw : List (NameId × Val)) (e : Nat)
    (hran : (runCall env orc f args kw (.raises e)).bodyRan = true) :
    (runCall env orc f args kw (.raises e)).caller = .bodyExc e := by
  by_cases hinit : f.initFails args = true
  · unfold runCall at hran; simp [hinit] at hran
  · by_cases hkw : (f.shouldHaveKwargs && !(f.argsWithoutSelf args).isEmpty) = true
    · unfold runCall at hran; simp [hinit, hkw] at hran
    · have hinit' : f.initFails args = false := by simpa using hinit
      have hkw' : (f.shouldHaveKwargs && !(f.argsWithoutSelf args).isEmpty) = false := by simpa using hkw
      have hinv : (invoke env orc f args kw (.raises e)).bodyRan = true → (invoke env orc f args kw (.raises e)).caller = .bodyExc e := by
        unfold invoke
        simp only
        split
        · simp
        · cases f.mode <;> simp [retCheck]
      cases hm : f.mode with
      | requireKwargs =>
        rw [runCall_requireKwargs' _ _ _ _ _ _ hm hinit' hkw'] at hran ⊢
        exact hinv hran
      | pedantic =>
        rw [runCall_pedantic' _ _ _ _ _ _ hm hinit' hkw'] at hran ⊢
        cases hca : checkArguments env orc f args kw with
        | some c => simp [hca] at hran
        | none => simp only [hca] at hran ⊢; exact hinv hran

/-! ### no consumption: the checker never iterates a one-shot iterator -/
/-- `isInstance` gives the same answer whatever the pending items of a one-shot iterator are: it never reads them
    (generated fact `iteratorSkip` - the repaired region `iterableParamConsumesIterator`) -/
theorem checking_never_iterates_an_iterator (env : Env) (orc : Nat → Val → Raw)
    (horc : ∀ k c xs ys, orc k (.iterator c xs) = orc k (.iterator c ys)) :
    (∀ pc a v, ∀ c xs ys, v = .iterator c xs → env.sub c env.iteratorCls = true →
        isInstance env orc pc a v = isInstance env orc pc a (.iterator c ys)) ∧
    (∀ (_ : Bool) (_ : List Ann) (_ : List Val), True) ∧
    (∀ pc ms v, ∀ c xs ys, v = .iterator c xs → env.sub c env.iteratorCls = true →
        anyRaw env orc pc ms v = anyRaw env orc pc ms (.iterator c ys)) ∧
    (∀ (_ : Bool) (_ : List NameId) (_ : List Ann) (_ : List NameId) (_ : List Val), True) := by
  apply isInstance.mutual_induct
    (motive_1 := fun pc a v => ∀ c xs ys, v = .iterator c xs → env.sub c env.iteratorCls = true →
        isInstance env orc pc a v = isInstance env orc pc a (.iterator c ys))
    (motive_2 := fun _ _ _ => True)
    (motive_3 := fun pc ms v => ∀ c xs ys, v = .iterator c xs → env.sub c env.iteratorCls = true →
        anyRaw env orc pc ms v = anyRaw env orc pc ms (.iterator c ys))
    (motive_4 := fun _ _ _ _ _ => True)
  case case5 =>
    intro _ sp ms v ih c xs ys hv hc
    subst hv
    simp only [isInstance, ih c xs ys rfl hc]
  case case11 =>
    intro pc sp0 o a v _ c xs ys hv hc
    subst hv
    simp only [isInstance, seqNode, Val.hasAsdict, Val.typeOf, cfg_iteratorSkip, hc, Bool.and_self, ↓reduceIte, Bool.and_false,
      Bool.false_eq_true]
  case case16 => intro _ k v c xs ys hv _; subst hv; simp only [isInstance]; exact horc k c xs ys
  case case20 =>
    intro pc a as v ih1 ih3 c xs ys hv hc
    subst hv
    simp only [anyRaw, ih1 c xs ys rfl hc, ih3 c xs ys rfl hc]
  all_goals (intros; try trivial)
  all_goals (subst_vars; simp [isInstance, anyRaw, clsNode, clsFNode, ntNode, anyNode, literalNode, typeOfNode, fwdNode, bareNode, mapNode, tupleNode,
    tupleVarNode, Val.hasAsdict, Val.typeOf, Val.tupleItems, Val.items, Val.isNone])

/-- … hence no check of a call consumes an iterator argument: the verdict is independent of its pending items -/
theorem no_consumption (env : Env) (orc : Nat → Val → Raw) (horc : ∀ k c xs ys, orc k (.iterator c xs) = orc k (.iterator c ys))
    (a : Ann) (c : ClsId) (xs ys : List Val) (hc : env.sub c env.iteratorCls = true) (ha : ∀ n, a ≠ .strAnn n) :
    checkType env orc a (.iterator c xs) = checkType env orc a (.iterator c ys) := by
  cases a
  case none => simp [checkType, Val.isNone]
  case strAnn n => exact absurd rfl (ha n)
  all_goals (simp only [checkType]; rw [(checking_never_iterates_an_iterator env orc horc).1 false _ _ c xs ys rfl hc])

/-! ### independence from the body text -/

/-- what "truthful" pins down: three of the five flags are functions of the signature / kind -/
theorem truthful_flags (f f' : Fn) (t : Truth) (hp : f.params = f'.params) (ht : truthful f t = true) (ht' : truthful f' t = true) :
    f.flags.wantsArgs = f'.flags.wantsArgs ∧ f.flags.isStatic = f'.flags.isStatic ∧ f.flags.isSetter = f'.flags.isSetter := by
  simp only [truthful, Bool.and_eq_true, beq_iff_eq, Fn.wantsArgs, Fn.isStatic, Fn.isSetter, hasVarPos] at ht ht'
  rw [hp] at ht
  exact ⟨ht.1.1.1.trans ht'.1.1.1.symm, ht.1.1.2.trans ht'.1.1.2.symm, ht.1.2.trans ht'.1.2.symm⟩

def baseFn0 : Fn :=
  { name := "f", flags := flagsOfSource "f" "", qualDotted := false,
    params := [{ name := 1, kind := .posOrKw, ann := some (.cls 2), dflt := none }], selfName := 0,
    firstIsSelf := false, isBound := false, retAnn := some (.cls 2), genRet := .notGenType, flavour := .sync, mode := .pedantic }
def TextIndependent_full : Prop :=
  ∀ (env : Env) (orc : Nat → Val → Raw) (f : Fn) (src src' : String) (args : List Val) (kw : List (NameId × Val)) (body : BodyOut),
    (flagsOfSource f.name src).isPedantic = (flagsOfSource f.name src').isPedantic →
    (flagsOfSource f.name src).numDecorators = (flagsOfSource f.name src').numDecorators →
    runCall env orc { f with flags := flagsOfSource f.name src } args kw body =
    runCall env orc { f with flags := flagsOfSource f.name src' } args kw body

/-- **`TextIndependent_full` is false** (finding `bodyTextFlipsHeuristics`): `wants_args` is still read from the WHOLE source text, so a comment
    that mentions `*args` turns the rejected positional call `f(5)` into an accepted one - same decorator lines, same signature -/
theorem text_dependence_argsNeedle :
    (flagsOfSource "f" "@pedantic\ndef f(a: int) -> int:\n    return a\n").isPedantic = (flagsOfSource "f" "@pedantic\ndef f(a: int) -> int:\n    # *args\n    return a\n").isPedantic ∧
    (flagsOfSource "f" "@pedantic\ndef f(a: int) -> int:\n    return a\n").numDecorators = (flagsOfSource "f" "@pedantic\ndef f(a: int) -> int:\n    # *args\n    return a\n").numDecorators ∧
    (runCall envW (fun _ _ => .raisedOther) { baseFn0 with flags := flagsOfSource "f" "@pedantic\ndef f(a: int) -> int:\n    return a\n" }
        [.lit (.int 5)] [] (.ret (.lit (.int 1)))).caller = .pedCallWithArgs ∧
    (runCall envW (fun _ _ => .raisedOther) { baseFn0 with flags := flagsOfSource "f" "@pedantic\ndef f(a: int) -> int:\n    # *args\n    return a\n" }
        [.lit (.int 5)] [] (.ret (.lit (.int 1)))).caller = .ret := by decide
theorem TextIndependent_full_is_false : ¬ TextIndependent_full := by
  intro h
  have w := text_dependence_argsNeedle
  have := h envW (fun _ _ => .raisedOther) baseFn0 "@pedantic\ndef f(a: int) -> int:\n    return a\n" "@pedantic\ndef f(a: int) -> int:\n    # *args\n    return a\n"
    [.lit (.int 5)] [] (.ret (.lit (.int 1))) w.1 w.2.1
  have hc : (runCall envW (fun _ _ => .raisedOther) { baseFn0 with flags := flagsOfSource "f" "@pedantic\ndef f(a: int) -> int:\n    return a\n" }
        [.lit (.int 5)] [] (.ret (.lit (.int 1)))).caller =
      (runCall envW (fun _ _ => .raisedOther) { baseFn0 with flags := flagsOfSource "f" "@pedantic\ndef f(a: int) -> int:\n    # *args\n    return a\n" }
        [.lit (.int 5)] [] (.ret (.lit (.int 1)))).caller := congrArg Result.caller this
  rw [w.2.2.1, w.2.2.2] at hc
  cases hc

def baseFn : Fn :=
  { name := "f", flags := flagsOfSource "f" "", qualDotted := false,
    params := [{ name := 1, kind := .posOrKw, ann := some (.cls 2), dflt := none }], selfName := 0,
    firstIsSelf := false, isBound := false, retAnn := some (.cls 2), genRet := .notGenType, flavour := .sync, mode := .pedantic }
/-- (was region `bodyMentionsStaticmethod`, repaired) the predicates "static method", "property setter", "decorated with
    pedantic" and the decorator count read only the decorator lines - the source text in front of the first `def`: two
    sources with the same decorator lines (comments removed) give the same four flags, whatever the body, comments or docstring say -/
theorem header_flags_ignore_body (name s s' : String) (h : headerOf s = headerOf s') :
    (flagsOfSource name s).isStatic = (flagsOfSource name s').isStatic ∧
    (flagsOfSource name s).isSetter = (flagsOfSource name s').isSetter ∧
    (flagsOfSource name s).isPedantic = (flagsOfSource name s').isPedantic ∧
    (flagsOfSource name s).numDecorators = (flagsOfSource name s').numDecorators := by
  have hs : staticInHeader = true ∧ setterInHeader = true ∧ pedanticInHeader = true ∧ numDecoratorsCountedInHeaderLines = true := by decide
  simp only [flagsOfSource, scopeOf, hs.1, hs.2.1, hs.2.2.1, hs.2.2.2, ↓reduceIte, h, and_self]

/-- **the `*args` needle is the only way the body text enters**: two sources with the same decorator lines that agree on whether `*args`
    occurs somewhere behave identically on EVERY call (positional ones included) -/
theorem text_independent_up_to_args_needle (env : Env) (orc : Nat → Val → Raw) (f : Fn) (s s' : String) (args : List Val)
    (kw : List (NameId × Val)) (body : BodyOut) (hhead : headerOf s = headerOf s')
    (hw : (flagsOfSource f.name s).wantsArgs = (flagsOfSource f.name s').wantsArgs) :
    runCall env orc { f with flags := flagsOfSource f.name s } args kw body =
    runCall env orc { f with flags := flagsOfSource f.name s' } args kw body := by
  obtain ⟨h1, h2, h3, h4⟩ := header_flags_ignore_body f.name s s' hhead
  have : flagsOfSource f.name s = flagsOfSource f.name s' := by
    cases hs : flagsOfSource f.name s; cases hs' : flagsOfSource f.name s'
    simp only [hs, hs'] at h1 h2 h3 h4 hw
    simp only [SrcFlags.mk.injEq]
    exact ⟨hw, h1, h2, h3, h4⟩
  rw [this]

/-- (repaired by b8ad1a1) … and what a COMMENT on a decorator line mentions is no decorator either: the decorator lines are read
    without their comments -/
theorem cfg_header_comments : headerStripsComments = true ∧ numDecoratorsCountedInHeaderLines = true := by decide
example : (flagsOfSource "f" "@pedantic  # not a @staticmethod, see @x\ndef f(a: int) -> int:\n    return a\n").isStatic = false ∧
    (flagsOfSource "f" "@pedantic  # not a @staticmethod, see @x\ndef f(a: int) -> int:\n    return a\n").numDecorators = 1 := by decide
/-- **C04 (body text), keyword calls: full strength.**  Take two source texts with the same decorator lines (the text in
    front of the first `def`) - the body, comments and docstring may differ arbitrarily.  A call that passes nothing
    positionally (beyond the implicit self / cls) and every required declared parameter by keyword has exactly the same
    outcome for both: checking depends on the signature, the annotations and the decorator lines only. -/
theorem body_text_irrelevant_for_keyword_calls (env : Env) (orc : Nat → Val → Raw) (f : Fn) (s s' : String) (args : List Val)
    (kw : List (NameId × Val)) (body : BodyOut) (hhead : headerOf s = headerOf s')
    (hpos : (({ f with flags := flagsOfSource f.name s } : Fn).argsWithoutSelf args).isEmpty = true)
    (hreq : requiredByKeyword kw f.plain) :
    runCall env orc { f with flags := flagsOfSource f.name s } args kw body =
    runCall env orc { f with flags := flagsOfSource f.name s' } args kw body := by
  obtain ⟨h1, h2, h3, h4⟩ := header_flags_ignore_body f.name s s' hhead
  have hfl : flagsOfSource f.name s' = { flagsOfSource f.name s with wantsArgs := (flagsOfSource f.name s').wantsArgs } := by
    cases hs : flagsOfSource f.name s; cases hs' : flagsOfSource f.name s'
    simp only [hs, hs'] at h1 h2 h3 h4
    simp only [SrcFlags.mk.injEq, true_and]
    exact ⟨h1.symm, h2.symm, h3.symm, h4.symm⟩
  have : ({ f with flags := flagsOfSource f.name s' } : Fn) =
      ({ f with flags := flagsOfSource f.name s } : Fn).withWantsArgs (flagsOfSource f.name s').wantsArgs := by
    simp only [Fn.withWantsArgs]; rw [hfl]
  rw [this, runCall_withWantsArgs env orc _ _ args kw body hpos hreq]

/-- … e.g. a comment containing `@staticmethod` in a plain function no longer turns the conforming keyword call `f(a=1)`
    into an IndexError -/
theorem body_text_example :
    (runCall envW (fun _ _ => .raisedOther) { baseFn with flags := flagsOfSource "f" "@pedantic\ndef f(a: int) -> int:\n    return a\n" }
        [] [(1, .lit (.int 1))] (.ret (.lit (.int 1)))).caller = .ret ∧
    (runCall envW (fun _ _ => .raisedOther) { baseFn with flags := flagsOfSource "f" "@pedantic\ndef f(a: int) -> int:\n    # no @staticmethod here\n    return a\n" }
        [] [(1, .lit (.int 1))] (.ret (.lit (.int 1)))).caller = .ret ∧
    (runCall envW (fun _ _ => .raisedOther) { baseFn with flags := flagsOfSource "f" "@pedantic\ndef f(a: int) -> int:\n    \"\"\" @f.setter @pedantic *args \"\"\"\n    return a\n" }
        [] [(1, .lit (.int 1))] (.ret (.lit (.int 1)))).caller = .ret := by decide

-- non-vacuity of `transparent`
example : allConforming envW { baseFn with flags := flagsOfSource "f" "@pedantic\ndef f(a: int) -> int:\n    return a\n" }
    [] [(1, .lit (.int 1))] (.ret (.lit (.int 1))) = true := by decide

end PedVerif.Call


/-! ## which names forward references refer to

The class table of a case carries the context as `Env.ctx`; the harness builds it as *the names of the module that defines the
callable, complemented by the names of the calling frame* - what the source says since 173abdd (before, only the calling frame
counted: a coroutine stepped by the event loop, or a generator's value checks, saw no names at all and conforming values of
`List['Item']` were rejected).  The two facts below are re-read from the source on every run. -/
namespace PedVerif.Call
open PedVerif.Gen.CallTables
theorem cfg_context : callContextIncludesFunctionGlobals = true ∧ generatorWrapperReceivesContext = true := by decide
end PedVerif.Call

/-! ## conforming calls of functions with TypeVars stay transparent when calls overlap

Transparency must not depend on what else is going on: a call whose values are compatible is accepted whatever calls its body
makes (recursion, other methods of the same instance, other functions) and from whatever call it was made - the bindings of
one call are its own.  Corollary of the call-tree theorem of C07. -/
namespace PedVerif.TypeVars

theorem conforming_call_accepted_in_any_call_tree (env : Env) (wf : EnvWF env) (t : Tree)
    (hv : ∀ c ∈ t.calls, InVocab env c ∧ Guard env c) (s : Stores) (hacc : Spec.specCall env t.call = .accept) :
    (runTree env t s).out = .ok := by
  have h := ((C07_tree_partial env wf).1 t hv s).1
  rw [hacc] at h
  exact h

end PedVerif.TypeVars
