import PedVerif.Gen.StateAudit
import PedVerif.Spec.StateInventory
/-! State audit of `pedantic/mixins/with_decorated_methods.py`.  One file per module, so that a new state site breaks the proof obligations of exactly the properties
whose models cover this module (`harness/props/_stateaudit_modules.json`). -/
namespace PedVerif.StateAudit
open PedVerif.Gen.StateAudit PedVerif.Spec

/-- `pedantic/mixins/with_decorated_methods.py` keeps exactly the state sites that `Spec/StateInventory.lean` justifies one by one, and imports no
library module outside the known list -/
theorem only_expected_state_with_decorated_methods : s_with_decorated_methods = StateInventory.with_decorated_methods ∧ StateInventory.importsKnown i_with_decorated_methods = true := by decide +kernel

end PedVerif.StateAudit
