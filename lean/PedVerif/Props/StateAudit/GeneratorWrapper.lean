import PedVerif.Gen.StateAudit
import PedVerif.Spec.StateInventory
/-! State audit of `pedantic/models/generator_wrapper.py`.  One file per module, so that a new state site breaks the proof obligations of exactly the properties
whose models cover this module (`harness/props/_stateaudit_modules.json`). -/
namespace PedVerif.StateAudit
open PedVerif.Gen.StateAudit PedVerif.Spec

/-- `pedantic/models/generator_wrapper.py` keeps exactly the state sites that `Spec/StateInventory.lean` justifies one by one, and imports no
library module outside the known list -/
theorem only_expected_state_generator_wrapper : s_generator_wrapper = StateInventory.generator_wrapper ∧ StateInventory.importsKnown i_generator_wrapper = true := by decide +kernel

end PedVerif.StateAudit
