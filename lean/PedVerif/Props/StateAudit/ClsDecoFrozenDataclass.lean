import PedVerif.Gen.StateAudit
import PedVerif.Spec.StateInventory
/-! State audit of `pedantic/decorators/cls_deco_frozen_dataclass.py`.  One file per module, so that a new state site breaks the proof obligations of exactly the properties
whose models cover this module (`harness/props/_stateaudit_modules.json`). -/
namespace PedVerif.StateAudit
open PedVerif.Gen.StateAudit PedVerif.Spec

/-- `pedantic/decorators/cls_deco_frozen_dataclass.py` keeps exactly the state sites that `Spec/StateInventory.lean` justifies one by one, and imports no
library module outside the known list -/
theorem only_expected_state_cls_deco_frozen_dataclass : s_cls_deco_frozen_dataclass = StateInventory.cls_deco_frozen_dataclass ∧ StateInventory.importsKnown i_cls_deco_frozen_dataclass = true := by decide +kernel

end PedVerif.StateAudit
