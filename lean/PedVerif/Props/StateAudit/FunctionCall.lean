import PedVerif.Gen.StateAudit
import PedVerif.Spec.StateInventory
/-! State audit of `pedantic/models/function_call.py`.  One file per module, so that a new state site breaks the proof obligations of exactly the properties
whose models cover this module (`harness/props/_stateaudit_modules.json`). -/
namespace PedVerif.StateAudit
open PedVerif.Gen.StateAudit PedVerif.Spec

/-- `pedantic/models/function_call.py` keeps exactly the state sites that `Spec/StateInventory.lean` justifies one by one, and imports no
library module outside the known list -/
theorem only_expected_state_function_call : s_function_call = StateInventory.function_call ∧ StateInventory.importsKnown i_function_call = true := by decide +kernel

end PedVerif.StateAudit
