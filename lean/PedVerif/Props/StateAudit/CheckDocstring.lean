import PedVerif.Gen.StateAudit
import PedVerif.Spec.StateInventory
/-! State audit of `pedantic/type_checking_logic/check_docstring.py`.  One file per module, so that a new state site breaks the proof obligations of exactly the properties
whose models cover this module (`harness/props/_stateaudit_modules.json`). -/
namespace PedVerif.StateAudit
open PedVerif.Gen.StateAudit PedVerif.Spec

/-- `pedantic/type_checking_logic/check_docstring.py` keeps exactly the state sites that `Spec/StateInventory.lean` justifies one by one, and imports no
library module outside the known list -/
theorem only_expected_state_check_docstring : s_check_docstring = StateInventory.check_docstring ∧ StateInventory.importsKnown i_check_docstring = true := by decide +kernel

end PedVerif.StateAudit
