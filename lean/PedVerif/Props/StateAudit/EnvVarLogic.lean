import PedVerif.Gen.StateAudit
import PedVerif.Spec.StateInventory
/-! State audit of `pedantic/env_var_logic.py`.  One file per module, so that a new state site breaks the proof obligations of exactly the properties
whose models cover this module (`harness/props/_stateaudit_modules.json`). -/
namespace PedVerif.StateAudit
open PedVerif.Gen.StateAudit PedVerif.Spec

/-- `pedantic/env_var_logic.py` keeps exactly the state sites that `Spec/StateInventory.lean` justifies one by one, and imports no
library module outside the known list -/
theorem only_expected_state_env_var_logic : s_env_var_logic = StateInventory.env_var_logic ∧ StateInventory.importsKnown i_env_var_logic = true := by decide +kernel

end PedVerif.StateAudit
