import PedVerif.Gen.StateAudit
import PedVerif.Spec.StateInventory
/-! State audit of `pedantic/decorators/fn_deco_rename_kwargs.py`.  One file per module, so that a new state site breaks the proof obligations of exactly the properties
whose models cover this module (`harness/props/_stateaudit_modules.json`). -/
namespace PedVerif.StateAudit
open PedVerif.Gen.StateAudit PedVerif.Spec

/-- `pedantic/decorators/fn_deco_rename_kwargs.py` keeps exactly the state sites that `Spec/StateInventory.lean` justifies one by one, and imports no
library module outside the known list -/
theorem only_expected_state_fn_deco_rename_kwargs : s_fn_deco_rename_kwargs = StateInventory.fn_deco_rename_kwargs ∧ StateInventory.importsKnown i_fn_deco_rename_kwargs = true := by decide +kernel

end PedVerif.StateAudit
