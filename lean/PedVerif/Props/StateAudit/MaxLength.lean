import PedVerif.Gen.StateAudit
import PedVerif.Spec.StateInventory
/-! State audit of `pedantic/decorators/fn_deco_validate/validators/max_length.py`.  One file per module, so that a new state site breaks the proof obligations of exactly the properties
whose models cover this module (`harness/props/_stateaudit_modules.json`). -/
namespace PedVerif.StateAudit
open PedVerif.Gen.StateAudit PedVerif.Spec

/-- `pedantic/decorators/fn_deco_validate/validators/max_length.py` keeps nothing between calls: no mutable module / class value, no cache decorator, no `global` / `nonlocal`,
no mutable default, no store onto anything but fresh locals and `self` in `__init__`, no closure state, no identity-like key; and it
imports no library module outside the known list -/
theorem stateless_max_length : s_max_length = [] ∧ StateInventory.importsKnown i_max_length = true := by decide +kernel

end PedVerif.StateAudit
