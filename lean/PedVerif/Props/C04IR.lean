import PedVerif.Props.C04
import PedVerif.Props.CallLayerIR
/-! C04 restated about the translated code (see `Props/C03IR.lean`). -/
namespace PedVerif.CallIR
open PedVerif.Checker PedVerif.Call

/-- **C04 (transparency), about the translated code.** -/
theorem ir_transparent (env : Env) (orc : Nat → Val → Raw) (f : Fn) (args : List Val) (kw : List (NameId × Val)) (body : BodyOut) (w : World) (up : Val → Bool) (hP : (∀ v, up v = false) ∨ PedVerif.Gen.CallLayerIR.messagesUseSafeDescribe = true)
    (hrecv : PedVerif.Gen.CallTables.receiverMayBeKeyword = true → f.firstIsSelf = true → args.isEmpty = true → (lookup kw f.selfName).isSome = true)
    (hnd : (kw.map (·.1)).Nodup) (ctx : CompleteCtx env f args kw) (hmode : f.mode = .pedantic) (hfl : f.flavour ≠ .generator)
    (hinit : f.initFails args = false) (hkw : (f.shouldHaveKwargs && !(f.argsWithoutSelf args).isEmpty) = false)
    (hc : f.clazzFails args = false) (hbinds : f.binds (fwdPosOf f args).length (kw.map (·.1)) = true)
    (hbody : ∀ r, body = .ret r → r.wf env = true ∧ r.plain = true) (hall : allConforming env f args kw body = true) :
    runCallIR env orc f args kw body w up =
      ⟨(match body with | .ret _ => .ret | .raises e => .bodyExc e), true, fwdPosOf f args, kw.map (·.1)⟩ := by
  rw [ir_runCall_refines env orc f args kw body w up hP hrecv hnd]; exact transparent env orc f args kw body ctx hmode hfl hinit hkw hc hbinds hbody hall

example : (runCallIR envW (fun _ _ => .raisedOther) exFn [] [(1, .lit (.int 1)), (2, .lit (.str [98]))] (.ret (.lit (.int 1))) exW).caller = .ret ∧
    (runCallIR envW (fun _ _ => .raisedOther) exFn [] [(1, .lit (.int 1)), (2, .lit (.str [98]))] (.ret (.lit (.int 1))) exW).fwdKw = [1, 2] := by decide
end PedVerif.CallIR
