import PedVerif.Spec.Docstring
/-!
# C19 — docstring checking accepts exactly the docstrings consistent with the signature

Property theorems only (+ the lemmas they need).  `checkDocstring`, `decorator`, … are the model instantiated with the
comparison operators, the trigger, the completeness conditions, the `except` clauses and the exception classes that the
translator read from the source (`PedVerif.Gen.Docstring`); the proofs are therefore re-checked against what the code says
now: comparing only the counts, skipping the Returns check, `==` for `!=`, a trigger that needs `require_docstring`, another
exception class on one path make them fail.
-/
namespace PedVerif.Docstring
open PedVerif.Gen.Docstring

/-! ## typing-object equality -/

theorem subsetL_eq (as bs : List Val) : subsetL as bs = as.all (fun a => bs.any (fun b => annEq a b)) := by
  induction as with
  | nil => simp [subsetL]
  | cons a as ih => simp [subsetL, ih]

theorem anyL_eq (as : List Val) (b : Val) : anyL as b = as.any (fun a => annEq a b) := by
  induction as with
  | nil => simp [anyL]
  | cons a as ih => simp [anyL, ih]

theorem beq_comm' {α} [BEq α] [LawfulBEq α] (a b : α) : (a == b) = (b == a) := by
  cases h : a == b with
  | true => have := eq_of_beq h; subst this; simp
  | false =>
    cases h' : b == a with
    | false => rfl
    | true => have := eq_of_beq h'; subst this; simp at h

theorem all_any_congr (as bs : List Val) (p q : Val → Val → Bool) (h : ∀ a ∈ as, ∀ b, p a b = q a b) :
    as.all (fun a => bs.any (fun b => p a b)) = as.all (fun a => bs.any (fun b => q a b)) := by
  induction as with
  | nil => rfl
  | cons a as ih =>
    simp only [List.all_cons]
    rw [ih (fun x hx => h x (by simp [hx]))]
    congr 1
    apply List.any_congr rfl
    intro b
    exact h a (by simp) b

theorem all_any_congr' (as bs : List Val) (p q : Val → Val → Bool) (h : ∀ a ∈ as, ∀ b, p a b = q a b) :
    bs.all (fun b => as.any (fun a => p a b)) = bs.all (fun b => as.any (fun a => q a b)) := by
  apply List.all_congr rfl
  intro b
  induction as with
  | nil => rfl
  | cons a as ih =>
    simp only [List.any_cons]
    rw [ih (fun x hx => h x (by simp [hx])), h a (by simp) b]

theorem setEq_symm (as bs : List Val) (ih : ∀ a ∈ as, ∀ b, annEq a b = annEq b a) :
    (subsetL as bs && bs.all (fun b => anyL as b)) = (subsetL bs as && as.all (fun a => anyL bs a)) := by
  rw [subsetL_eq, subsetL_eq]
  simp only [anyL_eq]
  rw [Bool.and_comm]
  rw [all_any_congr' as bs (fun a b => annEq a b) (fun a b => annEq b a) ih]
  rw [all_any_congr as bs (fun a b => annEq a b) (fun a b => annEq b a) ih]

theorem eqL_symm (as : List Val) (ih : ∀ a ∈ as, ∀ b, annEq a b = annEq b a) : ∀ bs, eqL as bs = eqL bs as := by
  induction as with
  | nil => intro bs; cases bs <;> simp [eqL]
  | cons a as iha =>
    intro bs
    cases bs with
    | nil => simp [eqL]
    | cons b bs =>
      simp only [eqL]
      rw [ih a (by simp) b, iha (fun x hx => ih x (by simp [hx])) bs]

mutual
theorem annEq_symm : ∀ (a b : Val), annEq a b = annEq b a
  | .cls n, b => by cases b <;> simp [annEq, beq_comm']
  | .none, b => by cases b <;> simp [annEq]
  | .ellipsis, b => by cases b <;> simp [annEq]
  | .int i, b => by cases b <;> simp [annEq, beq_comm']
  | .bool i, b => by cases b <;> simp [annEq, beq_comm']
  | .str n, b => by cases b <;> simp [annEq, beq_comm']
  | .tvar n, b => by cases b <;> simp [annEq, beq_comm']
  | .special h, b => by cases b <;> simp [annEq, beq_comm']
  | .fref n, b => by cases b <;> simp [annEq, beq_comm']
  | .talias h as, b => by
    cases b <;> simp only [annEq]
    rename_i h' bs
    have ih := annEq_symm_list as
    by_cases hh : h = h'
    · subst hh
      simp only [beq_self_eq_true, Bool.true_and]
      split
      · exact setEq_symm as bs ih
      · exact eqL_symm as ih bs
    · have : (h == h') = false := by simpa using hh
      have : (h' == h) = false := by simpa using (fun e => hh e.symm)
      simp [*]
  | .balias o as, b => by
    cases b <;> simp only [annEq]
    rename_i o' bs
    rw [eqL_symm as (annEq_symm_list as) bs, beq_comm' o]
  | .union f as, b => by
    cases b <;> simp only [annEq]
    rename_i f' bs
    exact setEq_symm as bs (annEq_symm_list as)
  | .pylist as, b => by
    cases b <;> simp only [annEq]
    rename_i bs
    exact eqL_symm as (annEq_symm_list as) bs
theorem annEq_symm_list : ∀ (as : List Val), ∀ a ∈ as, ∀ b, annEq a b = annEq b a
  | [], a, h, b => by simp at h
  | x :: xs, a, h, b => by
    simp only [List.mem_cons] at h
    rcases h with rfl | h
    · exact annEq_symm a b
    · exact annEq_symm_list xs a h b
end

theorem eqL_refl (as : List Val) (ih : ∀ a ∈ as, annEq a a = true) : eqL as as = true := by
  induction as with
  | nil => rfl
  | cons a as iha => simp [eqL, ih a (by simp), iha (fun x hx => ih x (by simp [hx]))]

/-- two argument lists with the same members (in any order, with any multiplicity) are equal as sets -/
theorem setEq_of_mem (as bs : List Val) (ih : ∀ a ∈ as, annEq a a = true) (h1 : ∀ a ∈ as, a ∈ bs) (h2 : ∀ b ∈ bs, b ∈ as) :
    (subsetL as bs && bs.all (fun b => anyL as b)) = true := by
  rw [subsetL_eq]
  simp only [anyL_eq, Bool.and_eq_true, List.all_eq_true, List.any_eq_true]
  exact ⟨fun a ha => ⟨a, h1 a ha, ih a ha⟩, fun b hb => ⟨b, h2 b hb, ih b (h2 b hb)⟩⟩

mutual
/-- typing-object equality is reflexive -/
theorem annEq_refl : ∀ (a : Val), annEq a a = true
  | .cls n => by simp [annEq]
  | .none => by simp [annEq]
  | .ellipsis => by simp [annEq]
  | .int i => by simp [annEq]
  | .bool b => by simp [annEq]
  | .str n => by simp [annEq]
  | .tvar n => by simp [annEq]
  | .special h => by simp [annEq]
  | .fref n => by simp [annEq]
  | .talias h as => by
    have ih := annEq_refl_list as
    simp only [annEq, beq_self_eq_true, Bool.true_and]
    split
    · exact setEq_of_mem as as ih (fun _ h => h) (fun _ h => h)
    · exact eqL_refl as ih
  | .balias o as => by simp [annEq, eqL_refl as (annEq_refl_list as)]
  | .union f as => by
    simp only [annEq]
    exact setEq_of_mem as as (annEq_refl_list as) (fun _ h => h) (fun _ h => h)
  | .pylist as => by simp [annEq, eqL_refl as (annEq_refl_list as)]
theorem annEq_refl_list : ∀ (as : List Val), ∀ a ∈ as, annEq a a = true
  | [], a, h => by simp at h
  | x :: xs, a, h => by
    simp only [List.mem_cons] at h
    rcases h with rfl | h
    · exact annEq_refl a
    · exact annEq_refl_list xs a h
end

/-- **`Union` is order-insensitive** (and flavour-insensitive: `typing.Union[...]` vs `X | Y`): any permutation of the
    members gives an equal type -/
theorem annEq_union_perm (f g : Bool) (as bs : List Val) (h : as.Perm bs) : annEq (.union f as) (.union g bs) = true := by
  simp only [annEq]
  exact setEq_of_mem as bs (fun a _ => annEq_refl a) (fun a ha => h.mem_iff.mp ha) (fun b hb => h.mem_iff.mpr hb)

/-- `Literal` likewise -/
theorem annEq_literal_perm (as bs : List Val) (h : as.Perm bs) : annEq (.talias .Literal as) (.talias .Literal bs) = true := by
  simp only [annEq, beq_self_eq_true, Bool.true_and, ↓reduceIte]
  exact setEq_of_mem as bs (fun a _ => annEq_refl a) (fun a ha => h.mem_iff.mp ha) (fun b hb => h.mem_iff.mpr hb)

/-- a typing alias never equals a builtin alias: `typing.List[int] ≠ list[int]`, whatever the arguments -/
theorem annEq_talias_balias (h : Head) (o : Sym) (as bs : List Val) :
    annEq (.talias h as) (.balias o bs) = false ∧ annEq (.balias o bs) (.talias h as) = false := by
  simp [annEq]

theorem annEq_cls (a b : Sym) : annEq (.cls a) (.cls b) = (a == b) := by rw [annEq]

/-- `Optional[X]`, `Union[X, None]`, `Union[None, X]`, `X | None`, `None | X` are the same type, for every class or alias `X`
    (stated on the evaluator: the five spellings over any name bound to a class) -/
theorem optional_spellings (ctx : Ctx) (n : Sym) (c : Sym) (hn : ctx.get n = some (.cls c)) (hc : c ≠ sNoneType)
    (h25 : ctx.get 25 = Option.none) (h26 : ctx.get 26 = Option.none) :
    let x := DExpr.name n
    evalD ctx (.sub (.name 25) [x]) = .ok (.union true [.cls c, .cls sNoneType]) ∧
    evalD ctx (.sub (.name 26) [x, .none]) = .ok (.union true [.cls c, .cls sNoneType]) ∧
    evalD ctx (.sub (.name 26) [.none, x]) = .ok (.union true [.cls sNoneType, .cls c]) ∧
    evalD ctx (.bor x .none) = .ok (.union false [.cls c, .cls sNoneType]) ∧
    evalD ctx (.bor .none x) = .ok (.union false [.cls sNoneType, .cls c]) := by
  have hc1 : (c == sNoneType) = false := by simpa using hc
  have hc2 : (sNoneType == c) = false := by simpa using (fun e => hc e.symm)
  simp only [evalD, evalDs, hn, h25, h26, globalLookup, typingName, bind, Except.bind, pure, Except.pure]
  simp [subscript, typeCheck, typeCheckAll, typeConvert, mkUnion, flattenU, dedupe, annEq_cls, hc1, hc2, orOp, isTypingObj,
    isBuiltinOrable, isNone, bind, Except.bind, pure, Except.pure]


example : annEq (.union true [.cls sInt, .cls sStr]) (.union false [.cls sStr, .cls sInt]) = true := by decide
example : annEq (.talias .List [.cls sInt]) (.balias sList [.cls sInt]) = false := by decide
example : annEq (.talias .Literal [.int 1, .int 2]) (.talias .Literal [.int 2, .int 1]) = true := by decide
example : annEq (.talias .Tuple [.cls sInt, .cls sStr]) (.talias .Tuple [.cls sStr, .cls sInt]) = false := by decide
-- `optional_spellings` applies to `My` bound by the annotation `Optional[My]`
example : (match Ctx.get (updateContext [] (.union true [.cls 1000, .cls sNoneType])) 1000 with
    | some (.cls c) => c == 1000
    | _ => false) = true := by decide

/-! ## what the translated conditions say (re-proved about the generated definitions on every run) -/

@[simp] theorem truthy_b (x : Bool) : (PyV.b x).truthy = x := rfl
@[simp] theorem truthy_i (x : Int) : (PyV.i x).truthy = (x != 0) := rfl
@[simp] theorem toInt_b (x : Bool) : (PyV.b x).toInt = if x then 1 else 0 := rfl
@[simp] theorem toInt_i (x : Int) : (PyV.i x).toInt = x := rfl
@[simp] theorem truthy_or (a b : PyV) : (pyOr a b).truthy = (a.truthy || b.truthy) := by
  unfold pyOr; cases h : a.truthy <;> simp [h]
@[simp] theorem truthy_and (a b : PyV) : (pyAnd a b).truthy = (a.truthy && b.truthy) := by
  unfold pyAnd; cases h : a.truthy <;> simp [h]
@[simp] theorem toInt_or (a b : PyV) : (pyOr a b).toInt = if a.truthy then a.toInt else b.toInt := by
  unfold pyOr; cases h : a.truthy <;> simp
@[simp] theorem toInt_and (a b : PyV) : (pyAnd a b).toInt = if a.truthy then b.toInt else a.toInt := by
  unfold pyAnd; cases h : a.truthy <;> simp
@[simp] theorem truthy_not (a : PyV) : (pyNot a).truthy = !a.truthy := rfl
@[simp] theorem truthy_eq (a b : PyV) : (pyEq a b).truthy = (a.toInt == b.toInt) := rfl
@[simp] theorem truthy_ne (a b : PyV) : (pyNe a b).truthy = (a.toInt != b.toInt) := rfl
@[simp] theorem truthy_lt (a b : PyV) : (pyLt a b).truthy = decide (a.toInt < b.toInt) := rfl
@[simp] theorem truthy_le (a b : PyV) : (pyLe a b).truthy = decide (a.toInt ≤ b.toInt) := rfl
@[simp] theorem truthy_gt (a b : PyV) : (pyGt a b).truthy = decide (a.toInt > b.toInt) := rfl
@[simp] theorem truthy_ge (a b : PyV) : (pyGe a b).truthy = decide (a.toInt ≥ b.toInt) := rfl

/-- decides an equation between a translated condition and its intended Boolean meaning -/
macro "py_cond" : tactic =>
  `(tactic| (rw [Bool.eq_iff_iff]; simp; (try omega)))

theorem trigger_spec (h r : Bool) (n : Nat) : trigger h r n = (h && (r || decide (n > 0))) := by
  unfold trigger; cases h <;> cases r <;> py_cond
theorem completeTest2_spec (a1 a2 : Bool) (nd nt : Nat) (rn ri rz : Bool) :
    completeTest2 a1 a2 nd nt rn ri rz = decide (nd ≠ nt) := by
  unfold completeTest2; py_cond
theorem returnArgsBad_spec (n : Nat) : returnArgsBad n = decide (n ≠ 2) := by
  unfold returnArgsBad; py_cond
theorem matchBad_spec (n : Nat) (t : Bool) : matchBad n t = (decide (n ≠ 1) || t) := by
  unfold matchBad; cases t <;> py_cond
theorem completeTest3_spec (a1 a2 : Bool) (nd nt : Nat) (rn ri rz : Bool) :
    completeTest3 a1 a2 nd nt rn ri rz = (rn && (ri && !rz)) := by
  unfold completeTest3; py_cond
theorem completeTest4_spec (a1 a2 : Bool) (nd nt : Nat) (rn ri rz : Bool) :
    completeTest4 a1 a2 nd nt rn ri rz = (!rn && (!ri || rz)) := by
  unfold completeTest4; py_cond
theorem completeTest1_spec (a1 a2 : Bool) (nd nt : Nat) (rn ri rz : Bool) :
    completeTest1 a1 a2 nd nt rn ri rz = (a1 || a2) := by
  unfold completeTest1; py_cond
theorem returnBranch_spec (r z : Bool) : returnBranch r z = (r && !z) := by
  unfold returnBranch; py_cond
theorem paramBranch_spec (r z : Bool) : paramBranch r z = !r := by
  unfold paramBranch; py_cond
theorem returnTypeBad_spec (e : Bool) : returnTypeBad e = !e := by
  unfold returnTypeBad; py_cond
theorem paramTypeBad_spec (e : Bool) : paramTypeBad e = !e := by
  unfold paramTypeBad; py_cond
/-- the branch of `_update_context` that walks the type arguments is taken for typing aliases / `typing.Union`
    (`str()` starts with "typing", `__origin__`, `__args__`), builtin aliases (`__origin__`, `__args__`), `X | Y` (`__args__`)
    and unsubscripted typing names (`str()`), and not for classes and type variables (none of the three) -/
theorem descendTest_table :
    descendTest true true true = true ∧ descendTest false true true = true ∧ descendTest false false true = true ∧
    descendTest true false false = true ∧ descendTest false false false = false := by
  unfold descendTest; simp

abbrev docExc : Out := .raised "PedanticDocstringException"

theorem assertComplete_ok_iff (f : FnD) (d : Doc) :
    assertComplete f d = .ok ↔
      f.rawDoc = .text ∧ d.params.length = f.anns.length ∧ d.returns.isSome = (returnedType f).isSome := by
  unfold assertComplete
  simp only [completeTest1_spec, completeTest2_spec, completeTest3_spec, completeTest4_spec, retInAnnotations, retAnnIsNone,
    returnedType]
  cases hr : f.rawDoc <;> cases hd : d.returns <;> rcases hf : f.ret with _ | _ | _ <;>
    by_cases hl : d.params.length = f.anns.length <;> simp [hl, completeExc1, completeExc2, completeExc3, completeExc4]

theorem assertComplete_cases (f : FnD) (d : Doc) : assertComplete f d = .ok ∨ assertComplete f d = docExc := by
  unfold assertComplete
  simp only [completeExc1, completeExc2, completeExc3, completeExc4]
  repeat' split
  all_goals simp

/-! ## counting -/

theorem pigeon_mem : ∀ (ns ds : List Nat), ns.Nodup → (∀ n ∈ ns, ds.count n = 1) → ds.length = ns.length →
    ∀ x ∈ ds, x ∈ ns := by
  intro ns
  induction ns with
  | nil => intro ds _ _ hl x hx; have : ds = [] := List.eq_nil_of_length_eq_zero (by simpa using hl); simp [this] at hx
  | cons n ns ih =>
    intro ds hnd hc hl x hx
    rw [List.nodup_cons] at hnd
    have hn : n ∈ ds := by
      have := hc n (by simp); exact List.count_pos_iff.mp (by omega)
    have hl' : (ds.erase n).length = ns.length := by
      rw [List.length_erase_of_mem hn]; simp at hl; omega
    have hc' : ∀ m ∈ ns, (ds.erase n).count m = 1 := by
      intro m hm
      have hmn : m ≠ n := fun e => hnd.1 (e ▸ hm)
      rw [List.count_erase_of_ne hmn]; exact hc m (by simp [hm])
    by_cases hxn : x = n
    · simp [hxn]
    · have := ih (ds.erase n) hnd.2 hc' hl' x ((List.mem_erase_of_ne hxn).mpr hx)
      simp [this]

theorem pigeon_len : ∀ (ns ds : List Nat), ns.Nodup → (∀ n ∈ ns, ds.count n = 1) → (∀ x ∈ ds, x ∈ ns) →
    ds.length = ns.length := by
  intro ns
  induction ns with
  | nil => intro ds _ _ hm; cases ds with
    | nil => rfl
    | cons a as => have := hm a (by simp); simp at this
  | cons n ns ih =>
    intro ds hnd hc hm
    rw [List.nodup_cons] at hnd
    have hcn := hc n (by simp)
    have hn : n ∈ ds := List.count_pos_iff.mp (by omega)
    have hc' : ∀ m ∈ ns, (ds.erase n).count m = 1 := by
      intro m hm'
      have hmn : m ≠ n := fun e => hnd.1 (e ▸ hm')
      rw [List.count_erase_of_ne hmn]; exact hc m (by simp [hm'])
    have hm' : ∀ x ∈ ds.erase n, x ∈ ns := by
      intro x hx
      have hxd := List.mem_of_mem_erase hx
      have := hm x hxd
      simp only [List.mem_cons] at this
      rcases this with rfl | h
      · exfalso
        have h0 : (ds.erase x).count x = 0 := by rw [List.count_erase_self]; omega
        exact (List.count_eq_zero.mp h0) hx
      · exact h
    have := ih (ds.erase n) hnd.2 hc' hm'
    rw [List.length_erase_of_mem hn] at this
    have : 0 < ds.length := List.length_pos_of_mem hn
    simp; omega

/-! ## the check and the specification -/

/-- parameter names of a Python signature are distinct (a duplicate is a SyntaxError) -/
def SigOk (f : FnD) : Prop := (f.anns.map (fun na => na.1)).Nodup

/-! concrete docstrings used by the `example`s below -/

/-- `def f(a: List[int], b: Optional[int]) -> int` -/
def exFn : FnD :=
  ⟨[(1, .talias .List [.cls sInt]), (2, .union true [.cls sInt, .cls sNoneType])], some (some (.cls sInt)), .text⟩
/-- `Args: b (None | int) … a (List[int]) …  Returns: int: …` (documented in another order, Optional spelled with `|`) -/
def exDoc : Doc :=
  ⟨[⟨2, .parsed (.union false [.cls sNoneType, .cls sInt])⟩, ⟨1, .parsed (.talias .List [.cls sInt])⟩], some (2, .parsed (.cls sInt))⟩
/-- the same with `a` documented as `list[int]` -/
def exDocBuiltin : Doc :=
  ⟨[⟨2, .parsed (.union false [.cls sNoneType, .cls sInt])⟩, ⟨1, .parsed (.balias sList [.cls sInt])⟩], some (2, .parsed (.cls sInt))⟩
/-- the same with `a` renamed to `c` -/
def exDocRenamed : Doc :=
  ⟨[⟨2, .parsed (.union false [.cls sNoneType, .cls sInt])⟩, ⟨3, .parsed (.talias .List [.cls sInt])⟩], some (2, .parsed (.cls sInt))⟩
/-- the same with `b` documented twice instead of `a` -/
def exDocDup : Doc :=
  ⟨[⟨2, .parsed (.union false [.cls sNoneType, .cls sInt])⟩, ⟨2, .parsed (.union false [.cls sNoneType, .cls sInt])⟩], some (2, .parsed (.cls sInt))⟩
/-- the same without the Returns entry -/
def exDocNoReturns : Doc :=
  ⟨[⟨2, .parsed (.union false [.cls sNoneType, .cls sInt])⟩, ⟨1, .parsed (.talias .List [.cls sInt])⟩], Option.none⟩
/-- the same with an untyped entry for `a`, and with an unparsable one -/
def exDocUntyped : Doc :=
  ⟨[⟨2, .parsed (.union false [.cls sNoneType, .cls sInt])⟩, ⟨1, .untyped⟩], some (2, .parsed (.cls sInt))⟩
def exDocSyntax : Doc :=
  ⟨[⟨2, .parsed (.union false [.cls sNoneType, .cls sInt])⟩, ⟨1, .evalError .syntaxError⟩], some (2, .parsed (.cls sInt))⟩

example : SigOk exFn := by unfold SigOk; decide

theorem afterHandlers_ne_ok (k : Esc) : ∀ hs, afterHandlers k hs ≠ .ok := by
  intro hs
  induction hs with
  | nil => simp [afterHandlers]
  | cons h rest ih =>
    obtain ⟨c, r⟩ := h
    simp only [afterHandlers]
    split
    · simp
    · exact ih

theorem parseOut_error_ne_ok (ty : DT) (o : Out) (h : parseOut ty = .error o) : o ≠ .ok := by
  cases ty <;> simp only [parseOut] at h
  · cases h
  · cases h; simp
  · cases h; simp
  · cases h; exact afterHandlers_ne_ok _ _
  · cases h; exact afterHandlers_ne_ok _ _

theorem parseOut_ok_iff (ty : DT) (v : Val) : parseOut ty = .ok v ↔ ty = .parsed v := by
  cases ty <;> simp [parseOut]

theorem meaning_eq_some (ty : DT) (v : Val) : ty.meaning = some v ↔ ty = .parsed v := by
  cases ty <;> simp [DT.meaning]

/-- the Returns part of the loop agrees with the specification's `returnsOk` (once the completeness check passed) -/
theorem checkReturn_ok_iff (f : FnD) (d : Doc) (hc : d.returns.isSome = (returnedType f).isSome) :
    checkReturn f d = .ok ↔ returnsOk f (sdocOf f d) = true := by
  unfold checkReturn returnsOk sdocOf returnedType
  unfold returnedType at hc
  rcases hf : f.ret with _ | _ | r
  · cases hd : d.returns <;> simp [hf, hd] at hc ⊢
  · cases hd : d.returns <;> simp [hf, hd, returnBranch_spec, paramBranch_spec] at hc ⊢
  · cases hd : d.returns with
    | none => simp [hf, hd] at hc
    | some nt =>
      obtain ⟨n, ty⟩ := nt
      simp only [returnBranch_spec, Option.isNone_some, Bool.not_false, Bool.and_self, ↓reduceIte, returnArgsBad_spec,
        Option.join_some, Option.map_some]
      by_cases hn : n = 2
      · subst hn
        have hidx : ¬ (2 ≤ returnTypeIndex) := by decide
        simp only [ne_eq, not_true_eq_false, decide_false, Bool.false_eq_true, ↓reduceIte, hidx, beq_self_eq_true,
          returnTypeBad_spec]
        cases hp : parseOut ty with
        | error o =>
          have hne := parseOut_error_ne_ok ty o hp
          have hm : ty.meaning = Option.none := by
            cases ty <;> simp [parseOut] at hp <;> rfl
          simp [hm, typeMatches, hne]
        | ok v =>
          have := (parseOut_ok_iff ty v).mp hp
          subst this
          simp only [DT.meaning, typeMatches, annEq_symm r v, Bool.and_self]
          cases annEq v r <;> simp
      · have : (n == 2) = false := by simpa using hn
        simp [hn, this, typeMatches, excReturnArgs]

def ParamsOk (d : Doc) (anns : List (Sym × Val)) : Prop :=
  ∀ na ∈ anns, ∃ p, d.params.filter (fun p => p.name == na.1) = [p] ∧ ∃ v, p.ty = .parsed v ∧ annEq na.2 v = true

theorem checkParams_ok_iff (d : Doc) : ∀ anns, checkParams d anns = .ok ↔ ParamsOk d anns := by
  intro anns
  induction anns with
  | nil => simp [checkParams, ParamsOk]
  | cons na rest ih =>
    obtain ⟨n, a⟩ := na
    have hcons : ParamsOk d ((n, a) :: rest) ↔
        (∃ p, d.params.filter (fun p => p.name == n) = [p] ∧ ∃ v, p.ty = .parsed v ∧ annEq a v = true) ∧ ParamsOk d rest := by
      simp [ParamsOk]
    rw [hcons, ← ih]
    have hlk : paramLookupIsNameEquality = true := by decide
    simp only [checkParams, returnBranch_spec, paramBranch_spec, Bool.false_and, Bool.false_eq_true, ↓reduceIte,
      Bool.not_false, matchBad_spec, hlk, Bool.not_true]
    generalize hm : d.params.filter (fun p => p.name == n) = m
    rcases m with _ | ⟨p, _ | ⟨q, more⟩⟩
    · simp [excMatch]
    · simp only [List.length_cons, List.length_nil, Nat.zero_add, ne_eq, not_true_eq_false, decide_false, Bool.false_or,
        paramTypeBad_spec, List.cons.injEq, and_true, exists_eq_left']
      cases hu : p.ty.isUntyped
      · simp only [Bool.false_eq_true, ↓reduceIte]
        cases hp : parseOut p.ty with
        | error o =>
          have hne := parseOut_error_ne_ok p.ty o hp
          have : ∀ v, p.ty ≠ .parsed v := by
            intro v hv; rw [hv] at hp; simp [parseOut] at hp
          simp [hne, this]
        | ok v =>
          have hv := (parseOut_ok_iff p.ty v).mp hp
          simp only [hv, DT.parsed.injEq, exists_eq_left']
          cases annEq a v <;> simp [excParamType]
      · have : ∀ v, p.ty ≠ .parsed v := by
          intro v hv; rw [hv] at hu; simp [DT.isUntyped] at hu
        simp [this, excMatch]
    · simp [excMatch]


theorem filter_sdoc (f : FnD) (d : Doc) (n : Sym) :
    (sdocOf f d).params.filter (fun p => p.name == n) =
      (d.params.filter (fun p => p.name == n)).map (fun p => (⟨p.name, p.ty.meaning⟩ : SParam)) := by
  simp only [sdocOf]
  induction d.params with
  | nil => rfl
  | cons p ps ih =>
    simp only [List.map_cons, List.filter_cons]
    split <;> simp [ih]

theorem count_names (ps : List DocParam) (n : Sym) :
    (ps.map (fun p => p.name)).count n = (ps.filter (fun p => p.name == n)).length := by
  induction ps with
  | nil => rfl
  | cons p ps ih =>
    simp only [List.map_cons, List.count_cons, List.filter_cons, ih]
    split <;> simp_all

theorem key_unique (anns : List (Sym × Val)) (hnd : (anns.map (fun na => na.1)).Nodup) (x y : Sym × Val)
    (hx : x ∈ anns) (hy : y ∈ anns) (h : x.1 = y.1) : x = y := by
  induction anns with
  | nil => simp at hx
  | cons z zs ih =>
    simp only [List.map_cons, List.nodup_cons, List.mem_map, not_exists, not_and] at hnd
    simp only [List.mem_cons] at hx hy
    rcases hx with rfl | hx <;> rcases hy with rfl | hy
    · rfl
    · exact absurd h.symm (hnd.1 y hy)
    · exact absurd h (hnd.1 x hx)
    · exact ih hnd.2 hx hy

/-- the count comparison plus the per-parameter loop say exactly: every annotated parameter is documented once, nothing
    else is documented, and the types are equal -/
theorem params_iff (f : FnD) (d : Doc) (hs : SigOk f) :
    (d.params.length = f.anns.length ∧ ParamsOk d f.anns) ↔
      ((∀ na ∈ f.anns, ((sdocOf f d).params.filter (fun p => p.name == na.1)).length = 1) ∧
       (∀ p ∈ (sdocOf f d).params, ∃ na ∈ f.anns, na.1 = p.name ∧ typeMatches na.2 p.ty = true)) := by
  constructor
  · rintro ⟨hlen, hpo⟩
    have hcount : ∀ n ∈ f.anns.map (fun na => na.1), (d.params.map (fun p => p.name)).count n = 1 := by
      intro n hn
      obtain ⟨na, hna, rfl⟩ := List.mem_map.mp hn
      obtain ⟨p, hp, _⟩ := hpo na hna
      rw [count_names, hp]; rfl
    refine ⟨?_, ?_⟩
    · intro na hna
      obtain ⟨p, hp, _⟩ := hpo na hna
      rw [filter_sdoc, hp]; rfl
    · intro sp hsp
      simp only [sdocOf, List.mem_map] at hsp
      obtain ⟨p, hp, rfl⟩ := hsp
      have hmem := pigeon_mem _ _ hs hcount (by simpa using hlen)
        p.name (List.mem_map.mpr ⟨p, hp, rfl⟩)
      obtain ⟨na, hna, hname⟩ := List.mem_map.mp hmem
      obtain ⟨q, hq, v, hv, heq⟩ := hpo na hna
      have hpq : p ∈ d.params.filter (fun p => p.name == na.1) := by
        simp [List.mem_filter, hp, hname]
      rw [hq] at hpq
      have : p = q := by simpa using hpq
      subst this
      refine ⟨na, hna, hname, ?_⟩
      simp [hv, DT.meaning, typeMatches, heq, annEq_symm v na.2]
  · rintro ⟨ha, hb⟩
    have hcount : ∀ n ∈ f.anns.map (fun na => na.1), (d.params.map (fun p => p.name)).count n = 1 := by
      intro n hn
      obtain ⟨na, hna, rfl⟩ := List.mem_map.mp hn
      have := ha na hna
      rw [filter_sdoc, List.length_map] at this
      rw [count_names]; exact this
    have hmem : ∀ x ∈ d.params.map (fun p => p.name), x ∈ f.anns.map (fun na => na.1) := by
      intro x hx
      obtain ⟨p, hp, rfl⟩ := List.mem_map.mp hx
      obtain ⟨na, hna, hname, _⟩ := hb ⟨p.name, p.ty.meaning⟩ (by simp only [sdocOf, List.mem_map]; exact ⟨p, hp, rfl⟩)
      exact List.mem_map.mpr ⟨na, hna, hname⟩
    refine ⟨by simpa using pigeon_len _ _ hs hcount hmem, ?_⟩
    intro na hna
    have h1 := ha na hna
    rw [filter_sdoc, List.length_map] at h1
    obtain ⟨p, hp⟩ := List.length_eq_one_iff.mp h1
    refine ⟨p, hp, ?_⟩
    have hpm : p ∈ d.params.filter (fun p => p.name == na.1) := by rw [hp]; simp
    rw [List.mem_filter] at hpm
    obtain ⟨na', hna', hname', htm⟩ := hb ⟨p.name, p.ty.meaning⟩ (by simp only [sdocOf, List.mem_map]; exact ⟨p, hpm.1, rfl⟩)
    have hpn : p.name = na.1 := by simpa using hpm.2
    have : na' = na := key_unique f.anns hs na' na hna' hna (by simp only at hname'; rw [hname', hpn])
    subst this
    simp only [typeMatches] at htm
    cases hm : p.ty.meaning with
    | none => simp [hm] at htm
    | some v =>
      simp only [hm, Bool.and_eq_true] at htm
      exact ⟨v, (meaning_eq_some p.ty v).mp hm, htm.1⟩

/-- **the check accepts exactly the consistent docstrings** (model of `_check_docstring` vs the specification) -/
theorem check_ok_iff_consistent (f : FnD) (d : Doc) (hs : SigOk f) :
    checkDocstring f d = .ok ↔ Consistent f (sdocOf f d) := by
  have hflag : completeCalledBeforeLoop = true := by decide
  unfold checkDocstring Consistent
  simp only [hflag, ↓reduceIte]
  constructor
  · intro h
    cases hc : assertComplete f d with
    | ok =>
      obtain ⟨hraw, hlen, hret⟩ := (assertComplete_ok_iff f d).mp hc
      simp only [hc] at h
      cases hr : checkReturn f d with
      | ok =>
        simp only [hr] at h
        obtain ⟨ha, hb⟩ := (params_iff f d hs).mp ⟨hlen, (checkParams_ok_iff d f.anns).mp h⟩
        exact ⟨by simp [sdocOf, hraw], ha, hb, (checkReturn_ok_iff f d hret).mp hr⟩
      | raised c => simp [hr] at h
      | escaped k => simp [hr] at h
    | raised c => simp [hc] at h
    | escaped k => simp [hc] at h
  · rintro ⟨hp, ha, hb, hret⟩
    obtain ⟨hlen, hpo⟩ := (params_iff f d hs).mpr ⟨ha, hb⟩
    have hraw : f.rawDoc = .text := by simpa [sdocOf] using hp
    have hsome : d.returns.isSome = (returnedType f).isSome := by
      unfold returnsOk sdocOf at hret
      cases h1 : returnedType f <;> cases h2 : d.returns <;> simp [h1, h2] at hret ⊢
    have hc : assertComplete f d = .ok := (assertComplete_ok_iff f d).mpr ⟨hraw, hlen, hsome⟩
    have hr : checkReturn f d = .ok := (checkReturn_ok_iff f d hsome).mpr hret
    simp [hc, hr, (checkParams_ok_iff d f.anns).mpr hpo]

-- a consistent docstring (other documentation order, `None | int` for `Optional[int]`) and six single edits of it
example : checkDocstring exFn exDoc = .ok ∧ Consistent exFn (sdocOf exFn exDoc) := by decide
example : [exDocBuiltin, exDocRenamed, exDocDup, exDocNoReturns, exDocUntyped, exDocSyntax].all (fun d =>
    decide (checkDocstring exFn d ≠ .ok) && decide (¬ Consistent exFn (sdocOf exFn d))) = true := by decide

/-! ## the property, clause by clause (layer A: for every signature and every parsed docstring) -/

theorem applies_iff_trigger (req : Bool) (f : FnD) (d : Doc) :
    trigger true req d.params.length = true ↔ Applies req (sdocOf f d) := by
  rw [trigger_spec]
  unfold Applies sdocOf
  cases req <;> cases hd : d.params <;> simp

/-- **C19, "if"**: a docstring consistent with the signature is accepted: `pedantic.decorator` returns the wrapper -/
theorem consistent_accepted (env : Env) (req : Bool) (f : FnD) (d : Doc) (hen : env.enabled = true) (hs : SigOk f)
    (hc : Consistent f (sdocOf f d)) : decorator env req f d = .wrapper := by
  unfold decorator
  simp only [hen, Bool.not_true, Bool.and_false, Bool.false_eq_true, ↓reduceIte, (check_ok_iff_consistent f d hs).mpr hc]
  split <;> rfl

/-- **C19, "only if"**: when docstring checking applies, whatever is accepted is consistent with the signature -/
theorem accepted_consistent (env : Env) (req : Bool) (f : FnD) (d : Doc) (hen : env.enabled = true)
    (hp : env.parserInstalled = true) (hs : SigOk f) (happ : Applies req (sdocOf f d))
    (h : decorator env req f d = .wrapper) : Consistent f (sdocOf f d) := by
  have hrun : checkRunsBeforeWrapperIsBuilt = true := by decide
  have htr := (applies_iff_trigger req f d).mpr happ
  unfold decorator at h
  simp only [hen, hp, hrun, htr, Bool.not_true, Bool.and_false, Bool.false_eq_true, ↓reduceIte, Bool.and_self] at h
  apply (check_ok_iff_consistent f d hs).mp
  cases hck : checkDocstring f d <;> simp [hck] at h ⊢

/-- both directions at once -/
theorem accepts_iff_consistent (env : Env) (req : Bool) (f : FnD) (d : Doc) (hen : env.enabled = true)
    (hp : env.parserInstalled = true) (hs : SigOk f) (happ : Applies req (sdocOf f d)) :
    decorator env req f d = .wrapper ↔ Consistent f (sdocOf f d) :=
  ⟨accepted_consistent env req f d hen hp hs happ, consistent_accepted env req f d hen hs⟩

-- the hypotheses hold and the wrapper is returned
example : Consistent exFn (sdocOf exFn exDoc) ∧ Applies false (sdocOf exFn exDoc) ∧
    decorator ⟨true, true⟩ false exFn exDoc = .wrapper := by decide

/-- when checking does not apply (`@pedantic`, no documented parameter) nothing is checked -/
theorem not_applies_accepted (env : Env) (f : FnD) (d : Doc) (hn : ¬ Applies false (sdocOf f d)) :
    decorator env false f d = .wrapper ∨ decorator env false f d = .original := by
  have : trigger env.parserInstalled false d.params.length = false := by
    rw [trigger_spec]
    have : d.params = [] := by
      unfold Applies sdocOf at hn; simp at hn; exact hn
    simp [this]
  unfold decorator
  simp only [this, Bool.and_false, Bool.false_eq_true, ↓reduceIte]
  split <;> simp

-- `@pedantic def f(): pass` without docstring passes; with `require_docstring` it does not (below); disabled: `f` comes back
example : ¬ Applies false (sdocOf ⟨[], Option.none, .none⟩ ⟨[], Option.none⟩) ∧
    decorator ⟨true, true⟩ false ⟨[], Option.none, .none⟩ ⟨[], Option.none⟩ = .wrapper := by decide
example : decorator ⟨false, true⟩ true ⟨[], Option.none, .none⟩ ⟨[], Option.none⟩ = .original := by decide

/-- documented types whose evaluation ends in a value or in an `Exception`: everything except a `BaseException` such as
    the `SystemExit` of the "type" `exit()` (and the expressions outside the modelled fragment) -/
def DT.clean : DT → Bool
  | .evalError .systemExit => false
  | .evalError .unmodelled => false
  | _ => true

def Evaluable (d : Doc) : Prop :=
  (∀ p ∈ d.params, p.ty.clean = true) ∧ (∀ n ty, d.returns = some (n, ty) → ty.clean = true ∧ (n = 2 → ty.isUntyped = false))

theorem parseOut_clean (ty : DT) (hc : ty.clean = true) (hu : ty.isUntyped = false) (o : Out) (h : parseOut ty = .error o) :
    o = docExc := by
  cases ty with
  | parsed v => simp [parseOut] at h
  | untyped => simp [DT.isUntyped] at hu
  | typingPrefixed => simp only [parseOut, Except.error.injEq] at h; subst h; decide
  | nameError => simp only [parseOut, Except.error.injEq] at h; subst h; decide
  | evalError k =>
    cases k <;> simp only [parseOut, Except.error.injEq, DT.clean] at h hc <;> first | (subst h; decide) | (simp at hc)

theorem checkReturn_cases (f : FnD) (d : Doc) (he : Evaluable d) (hc : d.returns.isSome = (returnedType f).isSome) :
    checkReturn f d = .ok ∨ checkReturn f d = docExc := by
  unfold checkReturn
  unfold returnedType at hc
  rcases hf : f.ret with _ | _ | r
  · simp
  · simp [returnBranch_spec, paramBranch_spec]
  · cases hd : d.returns with
    | none => simp [hf, hd] at hc
    | some nt =>
      obtain ⟨n, ty⟩ := nt
      obtain ⟨hcl, hun⟩ := he.2 n ty hd
      simp only [returnBranch_spec, Option.isNone_some, Bool.not_false, Bool.and_self, ↓reduceIte, returnArgsBad_spec]
      by_cases hn : n = 2
      · subst hn
        have hun := hun rfl
        have hidx : ¬ (2 ≤ returnTypeIndex) := by decide
        simp only [ne_eq, not_true_eq_false, decide_false, Bool.false_eq_true, ↓reduceIte, hidx, returnTypeBad_spec]
        cases hp : parseOut ty with
        | error o => right; exact parseOut_clean ty hcl hun o hp
        | ok v => cases annEq v r <;> simp [excReturnType]
      · simp [hn, excReturnArgs]

theorem checkParams_cases (d : Doc) (he : ∀ p ∈ d.params, p.ty.clean = true) :
    ∀ anns, checkParams d anns = .ok ∨ checkParams d anns = docExc := by
  intro anns
  induction anns with
  | nil => simp [checkParams]
  | cons na rest ih =>
    obtain ⟨n, a⟩ := na
    have hlk : paramLookupIsNameEquality = true := by decide
    simp only [checkParams, returnBranch_spec, paramBranch_spec, Bool.false_and, Bool.false_eq_true, ↓reduceIte,
      Bool.not_false, matchBad_spec, hlk, Bool.not_true]
    generalize hm : d.params.filter (fun p => p.name == n) = m
    rcases m with _ | ⟨p, _ | ⟨q, more⟩⟩
    · simp [excMatch]
    · have hpm : p ∈ d.params := by
        have : p ∈ d.params.filter (fun p => p.name == n) := by rw [hm]; simp
        exact (List.mem_filter.mp this).1
      simp only [List.length_cons, List.length_nil, Nat.zero_add, ne_eq, not_true_eq_false, decide_false, Bool.false_or,
        paramTypeBad_spec]
      cases hu : p.ty.isUntyped
      · simp only [Bool.false_eq_true, ↓reduceIte]
        cases hp : parseOut p.ty with
        | error o => right; exact parseOut_clean p.ty (he p hpm) hu o hp
        | ok v =>
          cases hav : annEq a v
          · simp [hav, excParamType]
          · simpa [hav] using ih
      · simp [excMatch]
    · simp [excMatch]

/-- **every rejection is a PedanticDocstringException** (for docstrings whose documented types evaluate or raise an
    `Exception`) -/
theorem every_rejection_is_docstring_exception (f : FnD) (d : Doc) (he : Evaluable d) :
    checkDocstring f d = .ok ∨ checkDocstring f d = docExc := by
  have hflag : completeCalledBeforeLoop = true := by decide
  unfold checkDocstring
  simp only [hflag, ↓reduceIte]
  rcases assertComplete_cases f d with hc | hc
  · obtain ⟨_, _, hret⟩ := (assertComplete_ok_iff f d).mp hc
    simp only [hc]
    rcases checkReturn_cases f d he hret with hr | hr
    · simp only [hr]; exact checkParams_cases d he.1 f.anns
    · simp [hr]
  · simp [hc]

example : Evaluable exDocSyntax := by
  refine ⟨?_, ?_⟩
  · decide
  · intro n ty h; cases h; decide
example : checkDocstring exFn exDocSyntax = docExc := by decide

/-- the statement without the guard … -/
def every_rejection_is_docstring_exception_full : Prop :=
  ∀ (f : FnD) (d : Doc), checkDocstring f d = .ok ∨ checkDocstring f d = docExc

/-- … is false: the `except` clauses around `eval` name NameError and Exception, so a documented "type" whose evaluation
    raises a BaseException that is no Exception (`p (exit()): …`) lets SystemExit through -/
theorem every_rejection_is_docstring_exception_full_fails : ¬ every_rejection_is_docstring_exception_full := by
  intro h
  have := h ⟨[(100, .cls sInt)], some Option.none, .text⟩ ⟨[⟨100, .evalError .systemExit⟩], Option.none⟩
  revert this
  decide

/-- the Returns half of `Evaluable` also excludes a Returns entry that `docstring_parser` reports with two `args` but WITHOUT a type
    (`doc.returns.args[1] is None`): in the model `'typing.' in None` raises a TypeError outside the `try`, which leaves the decorator
    as it is.  docstring_parser 0.16 never produces that shape (two `args` only when it recognised `<type>: …`); the conjunct keeps the
    theorem true for every `Doc`, this is the witness that it cannot be dropped -/
theorem untyped_returns_with_two_args_escapes :
    checkDocstring ⟨[], some (some (.cls sInt)), .text⟩ ⟨[], some (2, .untyped)⟩ = .escaped .typeError := by decide

/-- **recorded region — `docstring_parser` not installed**: the theorems below that conclude a rejection (`required_missing_docstring`,
    `accepted_consistent`, `class_accepts_iff`, …) assume `parserInstalled = true`.  Without the package `decorated_func.docstring` is
    None, the trigger is false whatever `require_docstring` says, and NOTHING is checked: `pedantic_require_docstring` returns the
    wrapper for every function and every docstring — also for a missing one.  (Assumption of the check: the package is installed.) -/
theorem require_without_parser_checks_nothing (f : FnD) (d : Doc) : decorator ⟨true, false⟩ true f d = .wrapper := by
  unfold decorator
  simp [trigger_spec]

example : decoratorRequire ⟨true, false⟩ ⟨[], Option.none, .none⟩ ⟨[], Option.none⟩ = .wrapper := by decide

/-- **a required but missing docstring** raises PedanticDocstringException (`pedantic_require_docstring`) -/
theorem required_missing_docstring (env : Env) (f : FnD) (d : Doc) (hen : env.enabled = true)
    (hp : env.parserInstalled = true) (hm : f.rawDoc ≠ .text) :
    decoratorRequire env f d = .raised docExc := by
  have hrun : checkRunsBeforeWrapperIsBuilt = true := by decide
  have hflag : completeCalledBeforeLoop = true := by decide
  have hreq : requireShortcutFlag = true := by decide
  have hc : assertComplete f d = docExc := by
    unfold assertComplete
    simp only [completeTest1_spec]
    cases hr : f.rawDoc <;> simp [hr, completeExc1] at hm ⊢
  unfold decoratorRequire decorator
  simp only [hen, hp, hrun, hreq, trigger_spec, Bool.not_true, Bool.and_false, Bool.false_eq_true, ↓reduceIte,
    Bool.true_or, Bool.and_self, checkDocstring, hflag, hc]

-- `@pedantic_require_docstring def f(): pass`
example : decoratorRequire ⟨true, true⟩ ⟨[], Option.none, .none⟩ ⟨[], Option.none⟩ = .raised docExc := by decide

/-- the same through `pedantic_class_require_docstring`: a method without docstring makes the class decoration fail -/
theorem required_missing_docstring_class (env : Env) (f : FnD) (d : Doc) (rest : List (FnD × Doc))
    (hen : env.enabled = true) (hp : env.parserInstalled = true) (hm : f.rawDoc ≠ .text) :
    decorateClass env ((f, d) :: rest) = .raised docExc := by
  have hcls : classShortcutUsesRequireDocstring = true := by decide
  simp [decorateClass, hen, hcls, required_missing_docstring env f d hen hp hm]

/-- **raised at decoration**: when checking applies and the docstring is not consistent, `pedantic.decorator` does not
    return: an exception (a PedanticDocstringException for evaluable docstrings) leaves it before any wrapper exists, so
    the function cannot be called -/
theorem raised_at_decoration (env : Env) (req : Bool) (f : FnD) (d : Doc) (hen : env.enabled = true)
    (hp : env.parserInstalled = true) (hs : SigOk f) (happ : Applies req (sdocOf f d))
    (hn : ¬ Consistent f (sdocOf f d)) :
    (∃ o, o ≠ .ok ∧ decorator env req f d = .raised o) ∧ (Evaluable d → decorator env req f d = .raised docExc) := by
  have hrun : checkRunsBeforeWrapperIsBuilt = true := by decide
  have htr := (applies_iff_trigger req f d).mpr happ
  have hne : checkDocstring f d ≠ .ok := fun h => hn ((check_ok_iff_consistent f d hs).mp h)
  have hdec : decorator env req f d = .raised (checkDocstring f d) := by
    unfold decorator
    cases hck : checkDocstring f d <;> simp_all
  refine ⟨⟨_, hne, hdec⟩, ?_⟩
  intro he
  rcases every_rejection_is_docstring_exception f d he with h | h
  · exact absurd h hne
  · rw [hdec, h]

-- every single edit: checking applies, the docstring is inconsistent, PedanticDocstringException leaves `decorator`
example : [exDocBuiltin, exDocRenamed, exDocDup, exDocNoReturns, exDocUntyped, exDocSyntax].all (fun d =>
    decide (Applies false (sdocOf exFn d)) && decide (¬ Consistent exFn (sdocOf exFn d)) &&
    decide (decorator ⟨true, true⟩ false exFn d = .raised docExc)) = true := by decide

/-- the decorator raises only through the docstring check, and only when checking applies -/
theorem raised_only_by_check (env : Env) (req : Bool) (f : FnD) (d : Doc) (o : Out)
    (h : decorator env req f d = .raised o) :
    o = checkDocstring f d ∧ o ≠ .ok ∧ trigger env.parserInstalled req d.params.length = true := by
  unfold decorator at h
  split at h
  · cases h
  · split at h
    · rename_i htr
      cases hck : checkDocstring f d <;> simp [hck] at h <;> subst h <;> simp_all
    · cases h


/-! ## layer B: from the docstring as written to the verdict -/

/-- **guard**: the evaluation context the library builds gives every documented type the same verdict as its meaning in
    the module's namespace `ns` (the author's reading) -/
def ctxFaithful (ns : Ctx) (f : FnD) (i : Intended) : Bool :=
  i.params.all (fun p => f.anns.all (fun na => na.1 != p.name ||
    (typeMatches na.2 (parseDocumentedType (ctxAt (ctxStart ns f) p.name f.anns) p.ty).meaning ==
     typeMatches (resolveAnn ns na.2) (meaningIn ns p.ty)))) &&
  (match returnedType f, i.returns with
   | some r, some (some t) =>
     typeMatches r (parseDocumentedType (ctxStart ns f) (some t)).meaning == typeMatches (resolveAnn ns r) (meaningIn ns (some t))
   | _, _ => true)

theorem filter_len_map (ps : List RawParam) (g h : RawParam → Option Val) (n : Sym) :
    ((ps.map (fun p => (⟨p.name, g p⟩ : SParam))).filter (fun p => p.name == n)).length =
    ((ps.map (fun p => (⟨p.name, h p⟩ : SParam))).filter (fun p => p.name == n)).length := by
  induction ps with
  | nil => rfl
  | cons p ps ih =>
    simp only [List.map_cons, List.filter_cons]
    split <;> simp [ih]

/-- under the guard, the model's view of the parsed docstring and the author's view of the written docstring are
    consistent with the signature at the same time -/
theorem views_agree (ns : Ctx) (f : FnD) (i : Intended) (h : ctxFaithful ns f i = true) :
    Consistent f (sdocOf f (annotate ns f (rawOf i))) ↔ Consistent (resolveSig ns f) (specDoc ns f i) := by
  simp only [ctxFaithful, Bool.and_eq_true, List.all_eq_true, Bool.or_eq_true, bne_iff_ne, ne_eq, beq_iff_eq] at h
  obtain ⟨hpar, hret⟩ := h
  have hpar' : ∀ p ∈ i.params, ∀ na ∈ f.anns, na.1 = p.name →
      typeMatches na.2 (parseDocumentedType (ctxAt (ctxStart ns f) p.name f.anns) p.ty).meaning =
        typeMatches (resolveAnn ns na.2) (meaningIn ns p.ty) := by
    intro p hp na hna hn
    rcases hpar p hp na hna with h | h
    · exact absurd hn h
    · exact h
  unfold Consistent
  have e1 : (sdocOf f (annotate ns f (rawOf i))).present = (specDoc ns f i).present := rfl
  have e2 : ∀ n, ((sdocOf f (annotate ns f (rawOf i))).params.filter (fun p => p.name == n)).length =
      ((specDoc ns f i).params.filter (fun p => p.name == n)).length := by
    intro n
    simp only [sdocOf, annotate, rawOf, specDoc, List.map_map]
    exact filter_len_map i.params _ _ n
  have e3 : (∀ p ∈ (sdocOf f (annotate ns f (rawOf i))).params, ∃ na ∈ f.anns, na.1 = p.name ∧ typeMatches na.2 p.ty = true) ↔
      (∀ p ∈ (specDoc ns f i).params, ∃ na ∈ (resolveSig ns f).anns, na.1 = p.name ∧ typeMatches na.2 p.ty = true) := by
    simp only [sdocOf, annotate, rawOf, specDoc, resolveSig, List.map_map, List.mem_map, Function.comp]
    constructor
    · rintro hA sp ⟨q, hq, rfl⟩
      obtain ⟨na, hna, hn, ht⟩ := hA _ ⟨q, hq, rfl⟩
      refine ⟨(na.1, resolveAnn ns na.2), ⟨na, hna, rfl⟩, hn, ?_⟩
      simp only at hn ht ⊢
      rw [← hpar' q hq na hna hn]; exact ht
    · rintro hB sp ⟨q, hq, rfl⟩
      obtain ⟨na', ⟨na, hna, rfl⟩, hn, ht⟩ := hB _ ⟨q, hq, rfl⟩
      refine ⟨na, hna, hn, ?_⟩
      simp only at hn ht ⊢
      rw [hpar' q hq na hna hn]; exact ht
  have e4 : returnsOk f (sdocOf f (annotate ns f (rawOf i))) = returnsOk (resolveSig ns f) (specDoc ns f i) := by
    have hrt : returnedType (resolveSig ns f) = (returnedType f).map (resolveAnn ns) := by
      unfold returnedType resolveSig
      rcases f.ret with _ | _ | r <;> rfl
    unfold returnsOk
    rw [hrt]
    simp only [sdocOf, annotate, rawOf, specDoc, Option.map_map]
    rcases hr : returnedType f with _ | r <;> rcases hi : i.returns with _ | _ | t <;>
      simp [hr, hi, typeMatches, meaningIn] at hret ⊢
    exact hret
  rw [e1, e3, e4]
  constructor
  · rintro ⟨a, b, c, d⟩
    refine ⟨a, ?_, c, d⟩
    intro na hna
    simp only [resolveSig, List.mem_map] at hna
    obtain ⟨na0, hna0, rfl⟩ := hna
    rw [← e2]; exact b na0 hna0
  · rintro ⟨a, b, c, d⟩
    refine ⟨a, ?_, c, d⟩
    intro na hna
    rw [e2]
    exact b (na.1, resolveAnn ns na.2) (by simp only [resolveSig, List.mem_map]; exact ⟨na, hna, rfl⟩)

theorem applies_views (req : Bool) (ns : Ctx) (f : FnD) (i : Intended) :
    Applies req (sdocOf f (annotate ns f (rawOf i))) ↔ Applies req (specDoc ns f i) := by
  unfold Applies sdocOf annotate rawOf specDoc
  cases i.params <;> simp

/-- **C19 as a whole** (what one would like to say about every written docstring `i`, its parse `r` and every module
    namespace) -/
def C19_full : Prop :=
  ∀ (req : Bool) (f : FnD) (i : Intended) (r : RawDocstring) (ns : Ctx), SigOk f → Applies req (specDoc ns f i) →
    (decorateRaw ⟨true, true⟩ req ns f r = .wrapper ↔ Consistent (resolveSig ns f) (specDoc ns f i)) ∧
    (decorateRaw ⟨true, true⟩ req ns f r = .wrapper ∨ decorateRaw ⟨true, true⟩ req ns f r = .raised docExc)

/-- **C19, proved part**: if `docstring_parser` returns the docstring as written (`r = rawOf i`), the evaluation context
    is faithful and no documented "type" raises a BaseException, then decoration succeeds iff the written docstring is
    consistent with the signature, and otherwise raises PedanticDocstringException -/
theorem C19_partial (req : Bool) (f : FnD) (i : Intended) (ns : Ctx) (hs : SigOk f)
    (hg : ctxFaithful ns f i = true) (he : Evaluable (annotate ns f (rawOf i))) (happ : Applies req (specDoc ns f i)) :
    (decorateRaw ⟨true, true⟩ req ns f (rawOf i) = .wrapper ↔ Consistent (resolveSig ns f) (specDoc ns f i)) ∧
    (decorateRaw ⟨true, true⟩ req ns f (rawOf i) = .wrapper ∨ decorateRaw ⟨true, true⟩ req ns f (rawOf i) = .raised docExc) := by
  have happ' := (applies_views req ns f i).mpr happ
  refine ⟨?_, ?_⟩
  · unfold decorateRaw
    rw [accepts_iff_consistent ⟨true, true⟩ req f _ rfl rfl hs happ', views_agree ns f i hg]
  · unfold decorateRaw
    by_cases hc : Consistent f (sdocOf f (annotate ns f (rawOf i)))
    · left; exact consistent_accepted _ req f _ rfl hs hc
    · right; exact (raised_at_decoration ⟨true, true⟩ req f _ rfl rfl hs happ' hc).2 he


-- the hypotheses of `C19_partial` hold for `def f(p0: My | None) -> Optional[int]` documented `p0 (Optional[My])` /
-- `Returns: Optional[int]` in a module defining `My`, and the docstring is accepted (`pool_consistent_accepted` below: for
-- the whole annotation pool)
example :
    let f : FnD := ⟨[(2000, .union false [.cls 1000, .cls sNoneType])], some (some (.union true [.cls sInt, .cls sNoneType])), .text⟩
    let i : Intended := ⟨[⟨2000, some ⟨"Optional[My]", some (.sub (.name 25) [.name 1000])⟩⟩],
      some (some ⟨"Optional[int]", some (.sub (.name 25) [.name 0])⟩)⟩
    ctxFaithful [(1000, .cls 1000)] f i = true ∧ decorateRaw ⟨true, true⟩ false [(1000, .cls 1000)] f (rawOf i) = .wrapper ∧
    Applies false (specDoc [(1000, .cls 1000)] f i) := by decide

/-! ### the open region: `docstring_parser` does not return the Returns entry as written -/

/-- `def f(p0: int) -> Optional[int]` -/
def witnessFn : FnD := ⟨[(1000, .cls sInt)], some (some (.union true [.cls sInt, .cls sNoneType])), .text⟩
/-- `Args: p0 (int): …` / `Returns: int | None: …` as written -/
def witnessWritten : Intended :=
  ⟨[⟨1000, some ⟨"int", some (.name 0)⟩⟩], some (some ⟨"int | None", some (.bor (.name 0) .none)⟩)⟩
/-- what docstring_parser 0.16 returns for it: `returns.args == ['returns']` (the type contains a blank and does not end in `]`) -/
def witnessParsed : RawDocstring := ⟨[⟨1000, some ⟨"int", some (.name 0)⟩⟩], some (1, Option.none)⟩

/-- the parser did not return what was written … -/
theorem witness_parser_unfaithful : sameRaw witnessParsed (rawOf witnessWritten) = false := by decide
/-- … the written docstring is consistent with the signature … -/
theorem witness_consistent : Consistent (resolveSig [] witnessFn) (specDoc [] witnessFn witnessWritten) := by decide
/-- … and the library rejects it (with `Optional[int]: …` in the Returns section it is accepted) -/
theorem witness_rejected : decorateRaw ⟨true, true⟩ false [] witnessFn witnessParsed = .raised docExc := by decide

/-- **negation witness**: C19 does not hold for every (written docstring, parse) pair: known finding
    `C19-returns-type-with-blank-not-recognised` -/
theorem C19_full_fails : ¬ C19_full := by
  intro h
  have := (h false witnessFn witnessWritten witnessParsed [] (by unfold SigOk; decide) (by decide)).1
  rw [witness_rejected] at this
  exact absurd (this.mpr witness_consistent) (by decide)

/-! ### the annotation pool of the correspondence run, through context building and evaluation (non-vacuity of layer B; the
    spellings outside the vocabulary of `C19_vocab` below: `Callable[[…], …]`, `Literal[…]`, `Tuple[…, ...]`, `X | Y`, string
    annotations, permuted / nested `Union`s — by kernel evaluation, for these 27 annotations only) -/

/-- the module's own names: `class My`, `T = TypeVar('T')`, `class Other` -/
def poolNs : Ctx := [(1000, .cls 1000), (1001, .tvar 1001), (1002, .cls 1002)]

/-- annotation (as the typing object) and its equal spellings in a docstring (text and syntax tree) -/
def pool : List (Val × List TypeText) := [
  -- int
  (.cls 0,
   [⟨"int", some (.name 0)⟩]),
  -- str
  (.cls 1,
   [⟨"str", some (.name 1)⟩]),
  -- List[int]
  (.talias .List [.cls 0],
   [⟨"List[int]", some (.sub (.name 20) [.name 0])⟩]),
  -- Dict[str, int]
  (.talias .Dict [.cls 1, .cls 0],
   [⟨"Dict[str, int]", some (.sub (.name 21) [.name 1, .name 0])⟩]),
  -- Optional[int]
  (.union true [.cls 0, .cls 10],
   [⟨"Optional[int]", some (.sub (.name 25) [.name 0])⟩, ⟨"Union[int, None]", some (.sub (.name 26) [.name 0, .none])⟩, ⟨"Union[None, int]", some (.sub (.name 26) [.none, .name 0])⟩, ⟨"int | None", some (.bor (.name 0) (.none))⟩, ⟨"None | int", some (.bor (.none) (.name 0))⟩]),
  -- Union[int, str]
  (.union true [.cls 0, .cls 1],
   [⟨"Union[int, str]", some (.sub (.name 26) [.name 0, .name 1])⟩, ⟨"Union[str, int]", some (.sub (.name 26) [.name 1, .name 0])⟩, ⟨"int | str", some (.bor (.name 0) (.name 1))⟩, ⟨"Union[int, str, int]", some (.sub (.name 26) [.name 0, .name 1, .name 0])⟩]),
  -- My
  (.cls 1000,
   [⟨"My", some (.name 1000)⟩]),
  -- List[My]
  (.talias .List [.cls 1000],
   [⟨"List[My]", some (.sub (.name 20) [.name 1000])⟩]),
  -- Tuple[int, ...]
  (.talias .Tuple [.cls 0, .ellipsis],
   [⟨"Tuple[int, ...]", some (.sub (.name 22) [.name 0, .ellipsis])⟩]),
  -- Callable[[int], str]
  (.talias .Callable [.cls 0, .cls 1],
   [⟨"Callable[[int], str]", some (.sub (.name 27) [.list [.name 0], .name 1])⟩]),
  -- list[int]
  (.balias 4 [.cls 0],
   [⟨"list[int]", some (.sub (.name 4) [.name 0])⟩]),
  -- int | None
  (.union false [.cls 0, .cls 10],
   [⟨"int | None", some (.bor (.name 0) (.none))⟩, ⟨"Optional[int]", some (.sub (.name 25) [.name 0])⟩, ⟨"Union[None, int]", some (.sub (.name 26) [.none, .name 0])⟩]),
  -- Any
  (.special .Any,
   [⟨"Any", some (.name 29)⟩]),
  -- Literal[1, 2]
  (.talias .Literal [.int 1, .int 2],
   [⟨"Literal[1, 2]", some (.sub (.name 28) [.int 1, .int 2])⟩, ⟨"Literal[2, 1]", some (.sub (.name 28) [.int 2, .int 1])⟩]),
  -- T
  (.tvar 1001,
   [⟨"T", some (.name 1001)⟩]),
  -- 'My'
  (.str 1000,
   [⟨"My", some (.name 1000)⟩]),
  -- Type[My]
  (.talias .Type [.cls 1000],
   [⟨"Type[My]", some (.sub (.name 24) [.name 1000])⟩]),
  -- float
  (.cls 2,
   [⟨"float", some (.name 2)⟩]),
  -- bool
  (.cls 3,
   [⟨"bool", some (.name 3)⟩]),
  -- Dict[str, List[Optional[My]]]
  (.talias .Dict [.cls 1, .talias .List [.union true [.cls 1000, .cls 10]]],
   [⟨"Dict[str, List[Optional[My]]]", some (.sub (.name 21) [.name 1, .sub (.name 20) [.sub (.name 25) [.name 1000]]])⟩, ⟨"Dict[str, List[Union[None, My]]]", some (.sub (.name 21) [.name 1, .sub (.name 20) [.sub (.name 26) [.none, .name 1000]]])⟩]),
  -- Optional[List[My]]
  (.union true [.talias .List [.cls 1000], .cls 10],
   [⟨"Optional[List[My]]", some (.sub (.name 25) [.sub (.name 20) [.name 1000]])⟩, ⟨"Union[List[My], None]", some (.sub (.name 26) [.sub (.name 20) [.name 1000], .none])⟩, ⟨"List[My] | None", some (.bor (.sub (.name 20) [.name 1000]) (.none))⟩]),
  -- My | None
  (.union false [.cls 1000, .cls 10],
   [⟨"My | None", some (.bor (.name 1000) (.none))⟩, ⟨"Optional[My]", some (.sub (.name 25) [.name 1000])⟩]),
  -- dict[str, list[int]]
  (.balias 5 [.cls 1, .balias 4 [.cls 0]],
   [⟨"dict[str, list[int]]", some (.sub (.name 5) [.name 1, .sub (.name 4) [.name 0]])⟩]),
  -- Callable[..., Any]
  (.talias .Callable [.ellipsis, .special .Any],
   [⟨"Callable[..., Any]", some (.sub (.name 27) [.ellipsis, .name 29])⟩]),
  -- Tuple[int, str]
  (.talias .Tuple [.cls 0, .cls 1],
   [⟨"Tuple[int, str]", some (.sub (.name 22) [.name 0, .name 1])⟩]),
  -- Union[int, List[str], None]
  (.union true [.cls 0, .talias .List [.cls 1], .cls 10],
   [⟨"Union[int, List[str], None]", some (.sub (.name 26) [.name 0, .sub (.name 20) [.name 1], .none])⟩, ⟨"Optional[Union[List[str], int]]", some (.sub (.name 25) [.sub (.name 26) [.sub (.name 20) [.name 1], .name 0]])⟩]),
  -- Set[T]
  (.talias .Set [.tvar 1001],
   [⟨"Set[T]", some (.sub (.name 23) [.name 1001])⟩])]


/-- `@pedantic def f(p0: <a>) -> None` documented `p0 (<t>)` -/
def paramCase (a : Val) (t : TypeText) : FnD × Intended :=
  (⟨[(2000, a)], some Option.none, .text⟩, ⟨[⟨2000, some t⟩], Option.none⟩)
/-- `@pedantic def f(p0: int) -> <a>` documented `p0 (int)` / `Returns: <t>` (as written) -/
def returnCase (a : Val) (t : TypeText) : FnD × Intended :=
  (⟨[(2000, .cls sInt)], some (some a), .text⟩, ⟨[⟨2000, some ⟨"int", some (.name 0)⟩⟩], some (some t)⟩)

def acceptedFaithfully (c : FnD × Intended) : Bool :=
  decide (decorateRaw ⟨true, true⟩ false poolNs c.1 (rawOf c.2) = .wrapper) && ctxFaithful poolNs c.1 c.2 &&
  decide (Consistent (resolveSig poolNs c.1) (specDoc poolNs c.1 c.2))

/-- every annotation of the pool, documented in every listed equal spelling, as a parameter and as the return type:
    the context the library builds is faithful, the written docstring is consistent, and the model accepts it -/
theorem pool_consistent_accepted :
    pool.all (fun ab => ab.2.all (fun t => acceptedFaithfully (paramCase ab.1 t) && acceptedFaithfully (returnCase ab.1 t))) = true := by
  decide +kernel

/-- every annotation of the pool documented with the (first) spelling of every *different* pool annotation (different after
    a forward reference is resolved) is rejected
    with PedanticDocstringException, as a parameter and as the return type -/
theorem pool_wrong_type_rejected :
    pool.all (fun ab => pool.all (fun bt => annEq (resolveAnn poolNs ab.1) (resolveAnn poolNs bt.1) || (bt.2.take 1).all (fun t =>
      decide (decorateRaw ⟨true, true⟩ false poolNs (paramCase ab.1 t).1 (rawOf (paramCase ab.1 t).2) = .raised docExc) &&
      decide (decorateRaw ⟨true, true⟩ false poolNs (returnCase ab.1 t).1 (rawOf (returnCase ab.1 t).2) = .raised docExc)))) = true := by
  decide +kernel

-- layer B: `def f(p0: My | None)` documented `p0 (Optional[My])`: the context contains `My` (fix 9f161bb)
example : decorateRaw ⟨true, true⟩ false [] ⟨[(2000, .union false [.cls 1000, .cls sNoneType])], some Option.none, .text⟩
    ⟨[⟨2000, some ⟨"Optional[My]", some (.sub (.name 25) [.name 1000])⟩⟩], Option.none⟩ = .wrapper := by decide
-- layer B: `p0 (List[int)` (no expression) and `p0 (List[int, str])` (TypeError) raise PedanticDocstringException (fix f4557bf)
example : decorateRaw ⟨true, true⟩ false [] ⟨[(2000, .cls sInt)], some Option.none, .text⟩
    ⟨[⟨2000, some ⟨"List[int", Option.none⟩⟩], Option.none⟩ = .raised docExc := by decide
example : decorateRaw ⟨true, true⟩ false [] ⟨[(2000, .cls sInt)], some Option.none, .text⟩
    ⟨[⟨2000, some ⟨"List[int, str]", some (.sub (.name 20) [.name 0, .name 1])⟩⟩], Option.none⟩ = .raised docExc := by decide
-- layer B: `typing.List[int]` is refused because of the needle, before any evaluation
example : decorateRaw ⟨true, true⟩ false [] ⟨[(2000, .talias .List [.cls sInt])], some Option.none, .text⟩
    ⟨[⟨2000, some ⟨"typing.List[int]", some (.sub (.name 5000) [.name 0])⟩⟩], Option.none⟩ = .raised docExc := by decide

/-! ### layer B at every nesting depth: the documented text one writes for an annotation evaluates, in the context the library
    builds, to that annotation -/

mutual
/-- the type expression one writes in a docstring for the annotation `v` (canonical spelling: `List[int]`, `Dict[str, My]`,
    `Union[int, None]`, `list[int]`, `T`, `Any`; `NoneType` inside a generic is written `None`) -/
def render : Val → DExpr
  | .cls n => if n == sNoneType then .none else .name n
  | .tvar n => .name n
  | .special h => .name (headSym h)
  | .talias h args => .sub (.name (headSym h)) (renderL args)
  | .balias o args => .sub (.name o) (renderL args)
  | .union _ args => .sub (.name 26) (renderL args)
  | _ => .exitCall                                   -- outside the vocabulary below (no theorem speaks about it)
def renderL : List Val → List DExpr
  | [] => []
  | v :: vs => render v :: renderL vs
end

def isUnionV : Val → Bool
  | .union _ _ => true
  | _ => false

/-- no two members are equal (what `_deduplicate` leaves) -/
def distinctL : List Val → Bool
  | [] => true
  | a :: as => as.all (fun b => !annEq a b) && distinctL as

def isNoneTypeCls : Val → Bool
  | .cls n => n == sNoneType
  | _ => false

def arityOk : Head → Nat → Bool
  | .List, n => n == 1
  | .Set, n => n == 1
  | .Type, n => n == 1
  | .Dict, n => n == 2
  | .Tuple, n => 1 ≤ n
  | _, _ => false

mutual
/-- **vocabulary**: builtin classes, the module's own classes (`κ n = true`) and type variables (`κ n = false`; identifiers ≥ 1000), `Any`,
    `List[…]` / `Set[…]` / `Type[…]` / `Dict[…, …]` / `Tuple[…]` (without `...`), builtin generics `list[…]` …, `Union[…]` / `Optional[…]`
    in the normal form `typing` gives them (flat, no duplicates, at least two members), nested to ANY depth; `NoneType` only as an
    argument of a typing generic.  `κ` says which kind of object an identifier names: one name, one object (no class and type variable
    of the same `__name__`). -/
def vocab (κ : Sym → Bool) : Val → Bool
  | .cls n => decide (n ≤ sBytes) || (decide (1000 ≤ n) && κ n)
  | .tvar n => decide (1000 ≤ n) && !κ n
  | .special h => h == .Any
  | .talias h args => arityOk h args.length && vocabArgs κ args
  | .balias o args => builtinGeneric o && vocabL κ args
  | .union tf args => tf && decide (2 ≤ args.length) && args.all (fun a => !isUnionV a) && distinctL args && vocabArgs κ args
  | _ => false
/-- arguments of a typing generic: vocabulary or `NoneType` -/
def vocabArgs (κ : Sym → Bool) : List Val → Bool
  | [] => true
  | a :: as => (vocab κ a || isNoneTypeCls a) && vocabArgs κ as
/-- arguments of a builtin generic: vocabulary -/
def vocabL (κ : Sym → Bool) : List Val → Bool
  | [] => true
  | a :: as => vocab κ a && vocabL κ as
end

/-- the object the identifier `n` names -/
def leafOf (κ : Sym → Bool) (n : Sym) : Val := if n < 1000 then .cls n else if κ n then .cls n else .tvar n

/-- identifiers a context may bind: builtin class names, `NoneType`, the module's identifiers — not the names of `typing` -/
def bindable (n : Sym) : Bool := decide (n ≤ sBytes) || n == sNoneType || decide (1000 ≤ n)

/-- **well-named context**: every binding maps an identifier to the object of that name -/
def WN (κ : Sym → Bool) (ctx : Ctx) : Prop := ∀ n v, ctx.get n = some v → v = leafOf κ n ∧ bindable n = true

mutual
/-- every class of the module / type variable that occurs in `v` is bound in `ctx` (builtin classes are found without a binding,
    `NoneType` is written `None`) -/
def boundIn (ctx : Ctx) : Val → Bool
  | .cls n => decide (n ≤ sBytes) || n == sNoneType || (ctx.get n).isSome
  | .tvar n => (ctx.get n).isSome
  | .talias _ args => boundInL ctx args
  | .balias _ args => boundInL ctx args
  | .union _ args => boundInL ctx args
  | _ => true
def boundInL (ctx : Ctx) : List Val → Bool
  | [] => true
  | a :: as => boundIn ctx a && boundInL ctx as
end


theorem get_cons (k : Sym) (v : Val) (rest : Ctx) (n : Sym) :
    Ctx.get ((k, v) :: rest) n = if k == n then some v else Ctx.get rest n := rfl

/-- `ctx'` binds at least the identifiers `ctx` binds -/
def Ext (ctx ctx' : Ctx) : Prop := ∀ n, (ctx.get n).isSome = true → (ctx'.get n).isSome = true

theorem Ext.refl (ctx : Ctx) : Ext ctx ctx := fun _ h => h
theorem Ext.trans {a b c : Ctx} (h1 : Ext a b) (h2 : Ext b c) : Ext a c := fun n h => h2 n (h1 n h)
theorem Ext.cons (ctx : Ctx) (k : Sym) (v : Val) : Ext ctx ((k, v) :: ctx) := by
  intro n h
  rw [get_cons]
  split <;> simp [h]

mutual
/-- **context monotonicity**: `_update_context` only adds bindings -/
theorem ext_update : ∀ (v : Val) (ctx : Ctx), Ext ctx (updateContext ctx v)
  | .cls n, ctx => by unfold updateContext; split; exact Ext.refl _; exact Ext.cons _ _ _
  | .tvar n, ctx => by unfold updateContext; split; exact Ext.refl _; exact Ext.cons _ _ _
  | .special h, ctx => by unfold updateContext; split; exact Ext.refl _; exact Ext.cons _ _ _
  | .str n, ctx => by unfold updateContext; exact Ext.cons _ _ _
  | .talias h args, ctx => by unfold updateContext; split; exact ext_updateAll args ctx; exact Ext.cons _ _ _
  | .balias o args, ctx => by unfold updateContext; split; exact ext_updateAll args ctx; exact Ext.cons _ _ _
  | .union true args, ctx => by unfold updateContext; split; exact ext_updateAll args ctx; exact Ext.cons _ _ _
  | .union false args, ctx => by unfold updateContext; split; exact ext_updateAll args ctx; exact Ext.refl _
  | .none, ctx => by unfold updateContext; exact Ext.refl _
  | .ellipsis, ctx => by unfold updateContext; exact Ext.refl _
  | .int _, ctx => by unfold updateContext; exact Ext.refl _
  | .bool _, ctx => by unfold updateContext; exact Ext.refl _
  | .fref _, ctx => by unfold updateContext; exact Ext.refl _
  | .pylist _, ctx => by unfold updateContext; exact Ext.refl _
theorem ext_updateAll : ∀ (vs : List Val) (ctx : Ctx), Ext ctx (updateAll ctx vs)
  | [], ctx => by unfold updateAll; exact Ext.refl _
  | v :: vs, ctx => by unfold updateAll; exact Ext.trans (ext_update v ctx) (ext_updateAll vs _)
end

mutual
theorem boundIn_ext : ∀ (v : Val) (ctx ctx' : Ctx), Ext ctx ctx' → boundIn ctx v = true → boundIn ctx' v = true
  | .cls n, ctx, ctx', he, h => by
    simp only [boundIn, Bool.or_eq_true] at h ⊢
    rcases h with h | h
    · exact Or.inl h
    · exact Or.inr (he n h)
  | .tvar n, ctx, ctx', he, h => by simp only [boundIn] at h ⊢; exact he n h
  | .talias _ args, ctx, ctx', he, h => by simp only [boundIn] at h ⊢; exact boundInL_ext args ctx ctx' he h
  | .balias _ args, ctx, ctx', he, h => by simp only [boundIn] at h ⊢; exact boundInL_ext args ctx ctx' he h
  | .union _ args, ctx, ctx', he, h => by simp only [boundIn] at h ⊢; exact boundInL_ext args ctx ctx' he h
  | .special _, _, _, _, _ => by simp [boundIn]
  | .str _, _, _, _, _ => by simp [boundIn]
  | .none, _, _, _, _ => by simp [boundIn]
  | .ellipsis, _, _, _, _ => by simp [boundIn]
  | .int _, _, _, _, _ => by simp [boundIn]
  | .bool _, _, _, _, _ => by simp [boundIn]
  | .fref _, _, _, _, _ => by simp [boundIn]
  | .pylist _, _, _, _, _ => by simp [boundIn]
theorem boundInL_ext : ∀ (vs : List Val) (ctx ctx' : Ctx), Ext ctx ctx' → boundInL ctx vs = true → boundInL ctx' vs = true
  | [], _, _, _, _ => by simp [boundInL]
  | v :: vs, ctx, ctx', he, h => by
    simp only [boundInL, Bool.and_eq_true] at h ⊢
    exact ⟨boundIn_ext v ctx ctx' he h.1, boundInL_ext vs ctx ctx' he h.2⟩
end


theorem WN.cons {κ : Sym → Bool} {ctx : Ctx} (h : WN κ ctx) (k : Sym) (v : Val) (hv : v = leafOf κ k) (hb : bindable k = true) :
    WN κ ((k, v) :: ctx) := by
  intro n w hw
  rw [get_cons] at hw
  split at hw
  · rename_i hk
    have : k = n := by simpa using hk
    subst this
    simp only [Option.some.injEq] at hw
    subst hw
    exact ⟨hv, hb⟩
  · exact h n w hw

theorem descend_facts : descendTest true true true = true ∧ descendTest false true true = true ∧
    descendTest true false false = true ∧ descendTest false false false = false := by
  have := descendTest_table; exact ⟨this.1, this.2.1, this.2.2.2.1, this.2.2.2.2⟩

/-- a class / type variable of the vocabulary (or `NoneType`) is the object its name stands for -/
theorem leaf_cls {κ : Sym → Bool} {n : Nat} (h : (vocab κ (.cls n) || isNoneTypeCls (.cls n)) = true) :
    Val.cls n = leafOf κ n ∧ bindable n = true := by
  simp only [vocab, isNoneTypeCls, Bool.or_eq_true, Bool.and_eq_true, decide_eq_true_eq, beq_iff_eq] at h
  unfold leafOf bindable
  rcases h with (h | ⟨h1, h2⟩) | h
  · have h' : n ≤ 8 := h
    have : n < 1000 := by omega
    simp [this, h]
  · have h1' : 1000 ≤ n := h1
    have : ¬ n < 1000 := by omega
    simp [this, h2, h1]
  · have h' : n = 10 := h
    subst h'
    exact ⟨by simp, by decide⟩

theorem leaf_tvar {κ : Sym → Bool} {n : Nat} (h : vocab κ (.tvar n) = true) : Val.tvar n = leafOf κ n ∧ bindable n = true := by
  simp only [vocab, Bool.and_eq_true, decide_eq_true_eq, Bool.not_eq_true'] at h
  unfold leafOf bindable
  have h1' : 1000 ≤ n := h.1
  have : ¬ n < 1000 := by omega
  simp [this, h.2, h.1]

mutual
/-- `_update_context` of a vocabulary annotation keeps the context well-named … -/
theorem wn_update {κ : Sym → Bool} : ∀ (v : Val) (ctx : Ctx), (vocab κ v || isNoneTypeCls v) = true → WN κ ctx → WN κ (updateContext ctx v)
  | .cls n, ctx, hv, h => by
    unfold updateContext; rw [descend_facts.2.2.2]
    simp only [Bool.false_eq_true, ↓reduceIte]
    exact h.cons n _ (leaf_cls hv).1 (leaf_cls hv).2
  | .tvar n, ctx, hv, h => by
    unfold updateContext; rw [descend_facts.2.2.2]
    simp only [Bool.false_eq_true, ↓reduceIte]
    have hv' : vocab κ (.tvar n) = true := by simpa [isNoneTypeCls] using hv
    exact h.cons n _ (leaf_tvar hv').1 (leaf_tvar hv').2
  | .special hd, ctx, hv, h => by unfold updateContext; rw [descend_facts.2.2.1]; simpa using h
  | .talias hd args, ctx, hv, h => by
    unfold updateContext; rw [descend_facts.1]
    simp only [↓reduceIte]
    have : vocabArgs κ args = true := by simp [vocab, isNoneTypeCls] at hv; exact hv.2
    exact wn_updateArgs args ctx this h
  | .balias o args, ctx, hv, h => by
    unfold updateContext; rw [descend_facts.2.1]
    simp only [↓reduceIte]
    have : vocabL κ args = true := by simp [vocab, isNoneTypeCls] at hv; exact hv.2
    exact wn_updateL args ctx this h
  | .union true args, ctx, hv, h => by
    unfold updateContext; rw [descend_facts.1]
    simp only [↓reduceIte]
    have : vocabArgs κ args = true := by simp [vocab, isNoneTypeCls] at hv; exact hv.2
    exact wn_updateArgs args ctx this h
  | .union false args, ctx, hv, h => by simp [vocab, isNoneTypeCls] at hv
  | .str _, _, hv, _ => by simp [vocab, isNoneTypeCls] at hv
  | .none, _, hv, _ => by simp [vocab, isNoneTypeCls] at hv
  | .ellipsis, _, hv, _ => by simp [vocab, isNoneTypeCls] at hv
  | .int _, _, hv, _ => by simp [vocab, isNoneTypeCls] at hv
  | .bool _, _, hv, _ => by simp [vocab, isNoneTypeCls] at hv
  | .fref _, _, hv, _ => by simp [vocab, isNoneTypeCls] at hv
  | .pylist _, _, hv, _ => by simp [vocab, isNoneTypeCls] at hv
theorem wn_updateArgs {κ : Sym → Bool} : ∀ (vs : List Val) (ctx : Ctx), vocabArgs κ vs = true → WN κ ctx → WN κ (updateAll ctx vs)
  | [], ctx, _, h => by unfold updateAll; exact h
  | v :: vs, ctx, hv, h => by
    unfold updateAll
    simp only [vocabArgs, Bool.and_eq_true] at hv
    exact wn_updateArgs vs _ hv.2 (wn_update v ctx hv.1 h)
theorem wn_updateL {κ : Sym → Bool} : ∀ (vs : List Val) (ctx : Ctx), vocabL κ vs = true → WN κ ctx → WN κ (updateAll ctx vs)
  | [], ctx, _, h => by unfold updateAll; exact h
  | v :: vs, ctx, hv, h => by
    unfold updateAll
    simp only [vocabL, Bool.and_eq_true] at hv
    exact wn_updateL vs _ hv.2 (wn_update v ctx (by simp [hv.1]) h)
end


mutual
/-- … and binds every class and type variable that occurs in the annotation -/
theorem bound_update : ∀ (v : Val) (ctx : Ctx), boundIn (updateContext ctx v) v = true
  | .cls n, ctx => by
    unfold updateContext; rw [descend_facts.2.2.2]
    simp [boundIn, get_cons]
  | .tvar n, ctx => by
    unfold updateContext; rw [descend_facts.2.2.2]
    simp [boundIn, get_cons]
  | .talias hd args, ctx => by
    unfold updateContext; rw [descend_facts.1]
    simp only [↓reduceIte, boundIn]; exact bound_updateAll args ctx
  | .balias o args, ctx => by
    unfold updateContext; rw [descend_facts.2.1]
    simp only [↓reduceIte, boundIn]; exact bound_updateAll args ctx
  | .union true args, ctx => by
    unfold updateContext; rw [descend_facts.1]
    simp only [↓reduceIte, boundIn]; exact bound_updateAll args ctx
  | .union false args, ctx => by
    unfold updateContext; rw [descendTest_table.2.2.1]
    simp only [↓reduceIte, boundIn]; exact bound_updateAll args ctx
  | .special _, _ => by simp [boundIn]
  | .str _, _ => by simp [boundIn]
  | .none, _ => by simp [boundIn]
  | .ellipsis, _ => by simp [boundIn]
  | .int _, _ => by simp [boundIn]
  | .bool _, _ => by simp [boundIn]
  | .fref _, _ => by simp [boundIn]
  | .pylist _, _ => by simp [boundIn]
theorem bound_updateAll : ∀ (vs : List Val) (ctx : Ctx), boundInL (updateAll ctx vs) vs = true
  | [], ctx => by simp [boundInL]
  | v :: vs, ctx => by
    unfold updateAll
    simp only [boundInL, Bool.and_eq_true]
    exact ⟨boundIn_ext v _ _ (ext_updateAll vs _) (bound_update v ctx), bound_updateAll vs _⟩
end

/-! #### evaluation of the rendered text -/

theorem lookup_typing {κ : Sym → Bool} {ctx : Ctx} (h : WN κ ctx) (hd : Head) :
    evalD ctx (.name (headSym hd)) = .ok (.special hd) := by
  have hnone : ctx.get (headSym hd) = Option.none := by
    cases hg : ctx.get (headSym hd) with
    | none => rfl
    | some v =>
      have := (h _ v hg).2
      cases hd <;> simp [bindable, headSym, sBytes, sNoneType] at this
  simp only [evalD, hnone]
  cases hd <;> rfl

theorem lookup_builtin {κ : Sym → Bool} {ctx : Ctx} (h : WN κ ctx) (n : Nat) (hn : n ≤ 8) :
    evalD ctx (.name n) = .ok (.cls n) := by
  have hg : globalLookup n = some (.cls n) := by
    have : n = 0 ∨ n = 1 ∨ n = 2 ∨ n = 3 ∨ n = 4 ∨ n = 5 ∨ n = 6 ∨ n = 7 ∨ n = 8 := by omega
    rcases this with rfl | rfl | rfl | rfl | rfl | rfl | rfl | rfl | rfl <;> rfl
  simp only [evalD]
  cases hc : ctx.get n with
  | none => simp [hg]
  | some v =>
    have := (h n v hc).1
    have hlt : n < 1000 := by omega
    simp [leafOf, hlt] at this
    simp [this]

theorem lookup_leaf {κ : Sym → Bool} {ctx : Ctx} (h : WN κ ctx) (n : Nat) (hb : (ctx.get n).isSome = true) :
    evalD ctx (.name n) = .ok (leafOf κ n) := by
  simp only [evalD]
  cases hc : ctx.get n with
  | none => simp [hc] at hb
  | some v => simp [(h n v hc).1]

/-- what one writes for an argument of a typing generic evaluates to: `None` for `NoneType`, the argument itself otherwise -/
def unconv (a : Val) : Val := if isNoneTypeCls a then .none else a

theorem typeCheck_unconv {κ : Sym → Bool} (a : Val) (h : (vocab κ a || isNoneTypeCls a) = true) : typeCheck (unconv a) = .ok a := by
  cases a with
  | cls n =>
    by_cases hn : n = sNoneType
    · subst hn; rfl
    · have : (n == sNoneType) = false := by simpa using hn
      simp [unconv, isNoneTypeCls, this, typeCheck, typeConvert]
  | special hd =>
    have : hd = .Any := by simpa [vocab, isNoneTypeCls] using h
    subst this; rfl
  | tvar n => rfl
  | talias hd args => rfl
  | balias o args => rfl
  | union tf args => rfl
  | none => simp [vocab, isNoneTypeCls] at h
  | ellipsis => simp [vocab, isNoneTypeCls] at h
  | int _ => simp [vocab, isNoneTypeCls] at h
  | bool _ => simp [vocab, isNoneTypeCls] at h
  | str _ => simp [vocab, isNoneTypeCls] at h
  | fref _ => simp [vocab, isNoneTypeCls] at h
  | pylist _ => simp [vocab, isNoneTypeCls] at h

theorem typeCheckAll_unconv {κ : Sym → Bool} : ∀ (vs : List Val), vocabArgs κ vs = true → typeCheckAll (vs.map unconv) = .ok vs
  | [], _ => rfl
  | v :: vs, h => by
    simp only [vocabArgs, Bool.and_eq_true] at h
    simp only [List.map_cons, typeCheckAll, typeCheck_unconv v h.1, typeCheckAll_unconv vs h.2]
    rfl

theorem beq_noneType_false (n : Nat) (h : n ≤ 8 ∨ 1000 ≤ n) : (n == sNoneType) = false := by
  have : n ≠ 10 := by omega
  show (n == 10) = false
  simpa using this

theorem unconv_vocab {κ : Sym → Bool} (a : Val) (h : vocab κ a = true) : unconv a = a := by
  cases a <;> simp [vocab] at h <;> try rfl
  rename_i n
  have hn : (n == sNoneType) = false := beq_noneType_false n (h.elim (fun h => Or.inl h) (fun h => Or.inr h.1))
  simp [unconv, isNoneTypeCls, hn]


theorem flattenU_id : ∀ (args : List Val), args.all (fun a => !isUnionV a) = true → flattenU args = args
  | [], _ => rfl
  | a :: as, h => by
    simp only [List.all_cons, Bool.and_eq_true] at h
    have ih := flattenU_id as h.2
    cases a <;> simp [isUnionV] at h <;> simp [flattenU, ih]

theorem dedupe_id : ∀ (args : List Val), distinctL args = true → dedupe args = args
  | [], _ => rfl
  | a :: as, h => by
    simp only [distinctL, Bool.and_eq_true] at h
    simp only [dedupe, dedupe_id as h.2, List.cons.injEq, true_and]
    exact List.filter_eq_self.mpr (by simpa using h.1)

theorem mkUnion_normal (args : List Val) (h2 : 2 ≤ args.length) (hu : args.all (fun a => !isUnionV a) = true)
    (hd : distinctL args = true) : mkUnion true args = .union true args := by
  unfold mkUnion
  rw [flattenU_id args hu, dedupe_id args hd]
  match args, h2 with
  | a :: b :: rest, _ => rfl

theorem unconv_ne_ellipsis {κ : Sym → Bool} : ∀ (vs : List Val), vocabArgs κ vs = true → ∀ a ∈ vs.map unconv, a ≠ .ellipsis
  | [], _, a, ha => by simp at ha
  | v :: vs, h, a, ha => by
    simp only [vocabArgs, Bool.and_eq_true] at h
    simp only [List.map_cons, List.mem_cons] at ha
    rcases ha with rfl | ha
    · intro he
      have := typeCheck_unconv v h.1
      rw [he] at this
      simp [typeCheck, typeConvert] at this
      rw [← this] at h
      simp [vocab, isNoneTypeCls] at h
    · exact unconv_ne_ellipsis vs h.2 a ha

theorem splitEllipsis_none (args : List Val) (h : ∀ a ∈ args, a ≠ .ellipsis) : splitEllipsis args = Option.none := by
  unfold splitEllipsis
  split
  · rename_i r rest heq
    have : Val.ellipsis ∈ args := by
      have : Val.ellipsis ∈ args.reverse := by rw [heq]; simp
      simpa using this
    exact absurd rfl (h _ this)
  · rfl


theorem subscript_talias {κ : Sym → Bool} (hd : Head) (args : List Val) (ha : arityOk hd args.length = true)
    (hv : vocabArgs κ args = true) : subscript (.special hd) (args.map unconv) = .ok (.talias hd args) := by
  have htc := typeCheckAll_unconv args hv
  cases hd <;> simp [arityOk] at ha
  · simp [subscript, ha, htc]; rfl
  · simp [subscript, ha, htc]; rfl
  · simp only [subscript, splitEllipsis_none _ (unconv_ne_ellipsis args hv), htc]; rfl
  · simp [subscript, ha, htc]; rfl
  · simp [subscript, ha, htc]; rfl

theorem not_lt_1000 (n : Nat) (h : 1000 ≤ n) : ¬ n < 1000 := by omega

theorem evalD_sub (ctx : Ctx) (f : DExpr) (args : List DExpr) :
    evalD ctx (.sub f args) = (evalD ctx f >>= fun fv => evalDs ctx args >>= fun avs => subscript fv avs) := by
  simp only [evalD]

theorem evalDs_cons (ctx : Ctx) (e : DExpr) (es : List DExpr) :
    evalDs ctx (e :: es) = (evalD ctx e >>= fun v => evalDs ctx es >>= fun vs => pure (v :: vs)) := by
  simp only [evalDs]

theorem ite_bind_cons {α : Type} (b1 b2 : Bool) (a : α) (as : List α) :
    ((if b1 = true then Except.ok a else Except.error EvalErr.name) >>= fun v =>
      (if b2 = true then Except.ok as else Except.error EvalErr.name) >>= fun vs => (pure (v :: vs) : Except EvalErr (List α))) =
    if (b1 && b2) = true then Except.ok (a :: as) else Except.error EvalErr.name := by
  cases b1 <;> cases b2 <;> rfl

theorem ok_bind {α β : Type} (a : α) (f : α → Except EvalErr β) : (Except.ok a >>= f) = f a := rfl

theorem globalLookup_user (n : Nat) (h : 1000 ≤ n) : globalLookup n = Option.none := by
  have h1 : ∀ k : Nat, k < 1000 → (n == k) = false := by
    intro k hk
    have : n ≠ k := by omega
    simpa using this
  have h2 : ¬ n ≤ sBytes := by
    show ¬ n ≤ 8
    omega
  simp [globalLookup, typingName, h1, h2]

mutual
/-- **round trip**: in a well-named context the text one writes for the annotation `v` evaluates to `v` itself when the context
    binds the module's classes and type variables that occur in `v`, and to a NameError otherwise — for every annotation of the
    vocabulary, at every nesting depth -/
theorem render_eval {κ : Sym → Bool} : ∀ (v : Val) (ctx : Ctx), vocab κ v = true → WN κ ctx →
    evalD ctx (render v) = if boundIn ctx v then .ok v else .error .name
  | .cls n, ctx, hv, hw => by
    simp only [vocab, Bool.or_eq_true, Bool.and_eq_true, decide_eq_true_eq] at hv
    have hn : (n == sNoneType) = false := beq_noneType_false n (hv.elim (fun h => Or.inl h) (fun h => Or.inr h.1))
    simp only [render, hn, Bool.false_eq_true, ↓reduceIte, boundIn, Bool.or_false]
    rcases hv with h | ⟨h1, h2⟩
    · have : decide (n ≤ sBytes) = true := by simpa using h
      simp only [this, Bool.true_or, ↓reduceIte]
      exact lookup_builtin hw n h
    · have hnb : decide (n ≤ sBytes) = false := by
        have : ¬ (n ≤ sBytes) := fun h8 => absurd (Nat.le_trans h1 h8) (by decide)
        simpa using this
      have hlt := not_lt_1000 n h1
      simp only [hnb, Bool.false_or, evalD]
      cases hg : ctx.get n with
      | some w =>
        have := (hw n w hg).1
        simp only [leafOf, hlt, ↓reduceIte, h2] at this
        simp [this]
      | none => simp [globalLookup_user n h1]
  | .tvar n, ctx, hv, hw => by
    simp only [vocab, Bool.and_eq_true, decide_eq_true_eq, Bool.not_eq_true'] at hv
    have hlt := not_lt_1000 n hv.1
    simp only [render, boundIn, evalD]
    by_cases hs : (ctx.get n).isSome = true
    · obtain ⟨w, hg⟩ := Option.isSome_iff_exists.mp hs
      have := (hw n w hg).1
      simp only [leafOf, hlt, ↓reduceIte, hv.2, Bool.false_eq_true] at this
      simp [hg, this]
    · have hg : ctx.get n = Option.none := by simpa using hs
      simp [hg, globalLookup_user n hv.1]
  | .special hd, ctx, hv, hw => by
    simp only [render, boundIn, ↓reduceIte]; exact lookup_typing hw hd
  | .talias hd args, ctx, hv, hw => by
    simp only [vocab, Bool.and_eq_true] at hv
    simp only [render, boundIn]
    rw [evalD_sub, lookup_typing hw hd, render_evalArgs args ctx hv.2 hw, ok_bind]
    by_cases hb : boundInL ctx args = true
    · simp only [hb]
      simp only [↓reduceIte, ok_bind]; exact subscript_talias hd args hv.1 hv.2
    · have hb' : boundInL ctx args = false := by simpa using hb
      simp only [hb']
      rfl
  | .balias o args, ctx, hv, hw => by
    simp only [vocab, Bool.and_eq_true] at hv
    have ho : (o : Nat) ≤ 8 := by
      have := hv.1
      simp only [builtinGeneric, Bool.or_eq_true, beq_iff_eq] at this
      rcases this with ((h | h) | h) | h <;> (rw [h]; decide)
    simp only [render, boundIn]
    rw [evalD_sub, lookup_builtin hw o ho, render_evalL args ctx hv.2 hw, ok_bind]
    by_cases hb : boundInL ctx args = true
    · simp only [hb]
      simp only [↓reduceIte, ok_bind]; simp [subscript, hv.1, pure, Except.pure]
    · have hb' : boundInL ctx args = false := by simpa using hb
      simp only [hb']
      rfl
  | .union tf args, ctx, hv, hw => by
    simp only [vocab, Bool.and_eq_true, decide_eq_true_eq] at hv
    obtain ⟨⟨⟨⟨htf, h2⟩, hu⟩, hd⟩, hva⟩ := hv
    subst htf
    have := lookup_typing hw .Union
    simp only [headSym] at this
    simp only [render, boundIn]
    rw [evalD_sub, this, render_evalArgs args ctx hva hw, ok_bind]
    by_cases hb : boundInL ctx args = true
    · simp only [hb]
      simp only [↓reduceIte, ok_bind, subscript, typeCheckAll_unconv args hva, pure, Except.pure, mkUnion_normal args h2 hu hd]
    · have hb' : boundInL ctx args = false := by simpa using hb
      simp only [hb']
      rfl
  | .str _, _, hv, _ => by simp [vocab] at hv
  | .none, _, hv, _ => by simp [vocab] at hv
  | .ellipsis, _, hv, _ => by simp [vocab] at hv
  | .int _, _, hv, _ => by simp [vocab] at hv
  | .bool _, _, hv, _ => by simp [vocab] at hv
  | .fref _, _, hv, _ => by simp [vocab] at hv
  | .pylist _, _, hv, _ => by simp [vocab] at hv
theorem render_evalArgs {κ : Sym → Bool} : ∀ (vs : List Val) (ctx : Ctx), vocabArgs κ vs = true → WN κ ctx →
    evalDs ctx (renderL vs) = if boundInL ctx vs then .ok (vs.map unconv) else .error .name
  | [], _, _, _ => rfl
  | v :: vs, ctx, hv, hw => by
    simp only [vocabArgs, Bool.and_eq_true, Bool.or_eq_true] at hv
    have ih := render_evalArgs vs ctx hv.2 hw
    have hhead : evalD ctx (render v) = if boundIn ctx v then .ok (unconv v) else .error .name := by
      rcases hv.1 with h | h
      · rw [unconv_vocab v h]; exact render_eval v ctx h hw
      · cases v <;> simp [isNoneTypeCls] at h
        subst h; rfl
    simp only [renderL, boundInL]
    rw [evalDs_cons, hhead, ih]
    exact ite_bind_cons _ _ _ _
theorem render_evalL {κ : Sym → Bool} : ∀ (vs : List Val) (ctx : Ctx), vocabL κ vs = true → WN κ ctx →
    evalDs ctx (renderL vs) = if boundInL ctx vs then .ok vs else .error .name
  | [], _, _, _ => rfl
  | v :: vs, ctx, hv, hw => by
    simp only [vocabL, Bool.and_eq_true] at hv
    simp only [renderL, boundInL]
    rw [evalDs_cons, render_eval v ctx hv.1 hw, render_evalL vs ctx hv.2 hw]
    exact ite_bind_cons _ _ _ _
end

/-- in particular: bound ⇒ the annotation itself -/
theorem render_roundtrip {κ : Sym → Bool} (v : Val) (ctx : Ctx) (hv : vocab κ v = true) (hw : WN κ ctx) (hb : boundIn ctx v = true) :
    evalD ctx (render v) = .ok v := by
  rw [render_eval v ctx hv hw, hb]; rfl


/-! #### equal annotations mention the same classes and type variables -/

theorem boundInL_iff (ctx : Ctx) : ∀ (vs : List Val), boundInL ctx vs = true ↔ ∀ v ∈ vs, boundIn ctx v = true
  | [] => by simp [boundInL]
  | v :: vs => by simp [boundInL, boundInL_iff ctx vs]

theorem eqL_bound (ctx : Ctx) (as : List Val) (ih : ∀ a ∈ as, ∀ b, annEq a b = true → boundIn ctx b = true → boundIn ctx a = true) :
    ∀ bs, eqL as bs = true → boundInL ctx bs = true → boundInL ctx as = true := by
  induction as with
  | nil => intro bs _ _; simp [boundInL]
  | cons a as iha =>
    intro bs h hb
    cases bs with
    | nil => simp [eqL] at h
    | cons b bs =>
      simp only [eqL, Bool.and_eq_true] at h
      simp only [boundInL, Bool.and_eq_true] at hb ⊢
      exact ⟨ih a (by simp) b h.1 hb.1, iha (fun x hx => ih x (by simp [hx])) bs h.2 hb.2⟩

theorem subsetL_bound (ctx : Ctx) (as bs : List Val) (ih : ∀ a ∈ as, ∀ b, annEq a b = true → boundIn ctx b = true → boundIn ctx a = true)
    (h : subsetL as bs = true) (hb : boundInL ctx bs = true) : boundInL ctx as = true := by
  rw [subsetL_eq] at h
  simp only [List.all_eq_true, List.any_eq_true] at h
  rw [boundInL_iff] at hb ⊢
  intro a ha
  obtain ⟨b, hbm, hab⟩ := h a ha
  exact ih a ha b hab (hb b hbm)

mutual
/-- if `a == b` then every class / type variable `a` mentions is one `b` mentions -/
theorem bound_of_annEq (ctx : Ctx) : ∀ (a b : Val), annEq a b = true → boundIn ctx b = true → boundIn ctx a = true
  | .cls n, b, h, hb => by cases b <;> simp [annEq] at h; subst h; exact hb
  | .tvar n, b, h, hb => by cases b <;> simp [annEq] at h; subst h; exact hb
  | .none, b, h, hb => by simp [boundIn]
  | .ellipsis, b, h, hb => by simp [boundIn]
  | .int i, b, h, hb => by simp [boundIn]
  | .bool i, b, h, hb => by simp [boundIn]
  | .str n, b, h, hb => by simp [boundIn]
  | .special hd, b, h, hb => by simp [boundIn]
  | .fref n, b, h, hb => by simp [boundIn]
  | .pylist as, b, h, hb => by simp [boundIn]
  | .talias hd as, b, h, hb => by
    cases b <;> simp only [annEq, Bool.false_eq_true] at h
    rename_i hd' bs
    simp only [boundIn] at hb ⊢
    simp only [Bool.and_eq_true] at h
    have ih := bound_of_annEq_list ctx as
    split at h
    · simp only [Bool.and_eq_true] at h
      exact subsetL_bound ctx as bs ih h.2.1 hb
    · exact eqL_bound ctx as ih bs h.2 hb
  | .balias o as, b, h, hb => by
    cases b <;> simp only [annEq, Bool.false_eq_true] at h
    rename_i o' bs
    simp only [boundIn] at hb ⊢
    simp only [Bool.and_eq_true] at h
    exact eqL_bound ctx as (bound_of_annEq_list ctx as) bs h.2 hb
  | .union f as, b, h, hb => by
    cases b <;> simp only [annEq, Bool.false_eq_true] at h
    rename_i f' bs
    simp only [boundIn] at hb ⊢
    simp only [Bool.and_eq_true] at h
    exact subsetL_bound ctx as bs (bound_of_annEq_list ctx as) h.1 hb
theorem bound_of_annEq_list (ctx : Ctx) : ∀ (as : List Val), ∀ a ∈ as, ∀ b, annEq a b = true → boundIn ctx b = true → boundIn ctx a = true
  | [], a, h, _, _, _ => by simp at h
  | x :: xs, a, h, b, hab, hb => by
    simp only [List.mem_cons] at h
    rcases h with rfl | h
    · exact bound_of_annEq ctx a b hab hb
    · exact bound_of_annEq_list ctx xs a h b hab hb
end


/-! #### the contexts `_check_docstring` evaluates the documented types in -/

/-- every annotation of the signature lies in the vocabulary -/
def SigVocab (κ : Sym → Bool) (f : FnD) : Prop :=
  (∀ na ∈ f.anns, vocab κ na.2 = true) ∧ (∀ r, returnedType f = some r → vocab κ r = true)

theorem WN.nil (κ : Sym → Bool) : WN κ [] := by intro n v h; simp [Ctx.get] at h

theorem ctxAfterReturn_eq (c0 : Ctx) (f : FnD) : ctxAfterReturn c0 f = match returnedType f with
    | some r => updateContext c0 r
    | Option.none => c0 := by
  have hcu : contextUpdatedFirst = true := by decide
  unfold ctxAfterReturn returnedType
  rcases f.ret with _ | _ | r <;> simp [hcu]

/-- what `_check_docstring` starts from is well-named when the module's namespace is (it is that namespace, or empty) -/
theorem wn_initial {κ : Sym → Bool} (ns : Ctx) (hn : WN κ ns) : WN κ (initialCtx ns) := by
  unfold initialCtx; split
  · exact hn
  · exact WN.nil κ

theorem wn_afterReturn {κ : Sym → Bool} (ns : Ctx) (f : FnD) (hv : SigVocab κ f) (hn : WN κ ns) : WN κ (ctxStart ns f) := by
  unfold ctxStart
  rw [ctxAfterReturn_eq]
  cases hr : returnedType f with
  | none => exact wn_initial ns hn
  | some r => exact wn_update r _ (by simp [hv.2 r hr]) (wn_initial ns hn)

theorem bound_afterReturn (ns : Ctx) (f : FnD) (r : Val) (hr : returnedType f = some r) : boundIn (ctxStart ns f) r = true := by
  unfold ctxStart
  rw [ctxAfterReturn_eq, hr]; exact bound_update r _

theorem ctxAt_cons (ctx : Ctx) (n m : Sym) (v : Val) (rest : List (Sym × Val)) :
    ctxAt ctx n ((m, v) :: rest) = if m == n then updateContext ctx v else ctxAt (updateContext ctx v) n rest := by
  have hcu : contextUpdatedFirst = true := by decide
  simp [ctxAt, hcu]

/-- the context in which the documented type of the parameter `n` is evaluated is well-named … -/
theorem wn_ctxAt {κ : Sym → Bool} (n : Sym) : ∀ (anns : List (Sym × Val)) (ctx : Ctx), (∀ na ∈ anns, vocab κ na.2 = true) → WN κ ctx →
    WN κ (ctxAt ctx n anns)
  | [], ctx, _, hw => by simpa [ctxAt] using hw
  | (m, v) :: rest, ctx, hv, hw => by
    have hw' : WN κ (updateContext ctx v) := wn_update v ctx (by simp [hv (m, v) (by simp)]) hw
    rw [ctxAt_cons]
    split
    · exact hw'
    · exact wn_ctxAt n rest _ (fun na hna => hv na (by simp [hna])) hw'

/-- … and binds the classes and type variables of that parameter's annotation -/
theorem bound_ctxAt (n : Sym) (a : Val) : ∀ (anns : List (Sym × Val)) (ctx : Ctx), (anns.map (fun na => na.1)).Nodup → (n, a) ∈ anns →
    boundIn (ctxAt ctx n anns) a = true
  | [], _, _, h => by simp at h
  | (m, v) :: rest, ctx, hnd, h => by
    rw [ctxAt_cons]
    simp only [List.map_cons, List.nodup_cons] at hnd
    simp only [List.mem_cons, Prod.mk.injEq] at h
    rcases h with ⟨rfl, rfl⟩ | h
    · simp; exact bound_update a ctx
    · have : (m == n) = false := by
        have : m ≠ n := by
          intro e; subst e
          exact hnd.1 (List.mem_map.mpr ⟨(m, a), h, rfl⟩)
        simpa using this
      simp only [this, Bool.false_eq_true, ↓reduceIte]
      exact bound_ctxAt n a rest _ hnd.2 h


/-! #### the guard of `C19_partial` discharged for docstrings over the vocabulary -/

/-- a documented type as it may be written: no type at all, text that is no expression, or the text of a vocabulary annotation whose
    classes and type variables the module `ns` defines (the text does not contain `typing.`) -/
def TypeVocab (κ : Sym → Bool) (ns : Ctx) : Option TypeText → Prop
  | Option.none => True
  | some t => t.expr = Option.none ∨
      ∃ b, t.expr = some (render b) ∧ vocab κ b = true ∧ boundIn ns b = true ∧ isInfixChars typingNeedle.toList t.text.toList = false

/-- the written docstring: ANY documented names, any number of entries, in any order, with or without a Returns entry — only the
    documented types are taken from the vocabulary -/
def DocVocab (κ : Sym → Bool) (ns : Ctx) (i : Intended) : Prop :=
  (∀ p ∈ i.params, TypeVocab κ ns p.ty) ∧ (∀ t, i.returns = some t → TypeVocab κ ns t)

theorem resolveAnn_vocab {κ : Sym → Bool} (ns : Ctx) (a : Val) (h : vocab κ a = true) : resolveAnn ns a = a := by
  cases a <;> simp [vocab] at h <;> rfl

/-- **the library's reading of a documented type gives the verdict of the author's reading**: `ctx` is a context `_check_docstring`
    built (well-named, binding what the annotation `a` mentions), `ns` the module's namespace -/
theorem faithful_one {κ : Sym → Bool} (ctx ns : Ctx) (a : Val) (ty : Option TypeText) (hw : WN κ ctx) (hn : WN κ ns)
    (ha : vocab κ a = true) (hb : boundIn ctx a = true) (ht : TypeVocab κ ns ty) :
    typeMatches a (parseDocumentedType ctx ty).meaning = typeMatches (resolveAnn ns a) (meaningIn ns ty) := by
  rw [resolveAnn_vocab ns a ha]
  cases ty with
  | none => rfl
  | some t =>
    rcases ht with he | ⟨b, he, hvb, hbn, hneedle⟩
    · simp only [parseDocumentedType, meaningIn, he]
      split <;> rfl
    · have hauthor : meaningIn ns (some t) = some b := by
        simp only [meaningIn, he, render_roundtrip b ns hvb hn hbn]
      rw [hauthor]
      simp only [parseDocumentedType, hneedle, Bool.false_eq_true, ↓reduceIte, he, render_eval b ctx hvb hw]
      by_cases hbc : boundIn ctx b = true
      · simp only [hbc, ↓reduceIte, DT.meaning]
      · have hbc' : boundIn ctx b = false := by simpa using hbc
        simp only [hbc', Bool.false_eq_true, ↓reduceIte, DT.meaning]
        -- the author's type mentions a class / type variable the signature (so far) does not: it cannot equal the annotation
        cases hm : typeMatches a (some b) with
        | false => simp [typeMatches]
        | true =>
          simp only [typeMatches, Bool.and_eq_true] at hm
          exact absurd (bound_of_annEq ctx b a hm.2 hb) hbc


/-- **the guard `ctxFaithful` holds** for every signature over the vocabulary and every written docstring whose documented types are
    taken from it, in a module that defines the names used: it is a theorem about `_update_context` + `eval`, not an assumption -/
theorem vocab_ctx_faithful {κ : Sym → Bool} (ns : Ctx) (f : FnD) (i : Intended) (hs : SigOk f) (hv : SigVocab κ f)
    (hn : WN κ ns) (hd : DocVocab κ ns i) : ctxFaithful ns f i = true := by
  unfold ctxFaithful
  simp only [Bool.and_eq_true, List.all_eq_true, Bool.or_eq_true, bne_iff_ne, ne_eq, beq_iff_eq]
  refine ⟨?_, ?_⟩
  · intro p hp na hna
    by_cases hname : na.1 = p.name
    · right
      have hmem : (p.name, na.2) ∈ f.anns := by rw [← hname]; exact hna
      exact faithful_one _ ns na.2 p.ty (wn_ctxAt p.name f.anns _ hv.1 (wn_afterReturn ns f hv hn)) hn (hv.1 na hna)
        (bound_ctxAt p.name na.2 f.anns _ hs hmem) (hd.1 p hp)
    · left; exact hname
  · cases hr : returnedType f with
    | none => simp
    | some r =>
      cases hi : i.returns with
      | none => simp
      | some t =>
        cases t with
        | none => simp
        | some t =>
          simp only [beq_iff_eq]
          exact faithful_one _ ns r (some t) (wn_afterReturn ns f hv hn) hn (hv.2 r hr) (bound_afterReturn ns f r hr) (hd.2 (some t) hi)

theorem parse_clean {κ : Sym → Bool} (ctx ns : Ctx) (ty : Option TypeText) (hw : WN κ ctx) (ht : TypeVocab κ ns ty) :
    (parseDocumentedType ctx ty).clean = true := by
  cases ty with
  | none => rfl
  | some t =>
    rcases ht with he | ⟨b, he, hvb, _, hneedle⟩
    · simp only [parseDocumentedType, he]; split <;> rfl
    · simp only [parseDocumentedType, hneedle, Bool.false_eq_true, ↓reduceIte, he, render_eval b ctx hvb hw]
      cases boundIn ctx b <;> rfl

/-- **C19 for the text as written, at every nesting depth** (no guard on the evaluation context, no bound on the depth of the types):
    for every signature whose annotations lie in the vocabulary and every written docstring — any names, any number of entries, a
    Returns entry or none, typed or not — whose documented types are vocabulary texts over names the module defines: when docstring
    checking applies, decoration succeeds iff the docstring AS WRITTEN is consistent with the signature in the module's namespace,
    and otherwise raises PedanticDocstringException.  (Remaining guard: `docstring_parser` returned what was written, `rawOf i`.) -/
theorem C19_vocab {κ : Sym → Bool} (req : Bool) (f : FnD) (i : Intended) (ns : Ctx) (hs : SigOk f) (hv : SigVocab κ f)
    (hn : WN κ ns) (hd : DocVocab κ ns i) (happ : Applies req (specDoc ns f i)) :
    (decorateRaw ⟨true, true⟩ req ns f (rawOf i) = .wrapper ↔ Consistent (resolveSig ns f) (specDoc ns f i)) ∧
    (decorateRaw ⟨true, true⟩ req ns f (rawOf i) = .wrapper ∨ decorateRaw ⟨true, true⟩ req ns f (rawOf i) = .raised docExc) := by
  refine C19_partial req f i ns hs (vocab_ctx_faithful ns f i hs hv hn hd) ?_ happ
  refine ⟨?_, ?_⟩
  · intro p hp
    simp only [annotate, rawOf, List.mem_map] at hp
    obtain ⟨q, hq, rfl⟩ := hp
    exact parse_clean _ ns q.ty (wn_ctxAt q.name f.anns _ hv.1 (wn_afterReturn ns f hv hn)) (hd.1 q hq)
  · intro n ty hret
    simp only [annotate, rawOf, Option.map_map, Option.map_eq_some_iff] at hret
    obtain ⟨t, hi, hnt⟩ := hret
    cases t with
    | none =>
      simp only [Function.comp, Prod.mk.injEq] at hnt
      obtain ⟨rfl, rfl⟩ := hnt
      exact ⟨rfl, fun h => absurd h (by decide)⟩
    | some t =>
      simp only [Function.comp, Prod.mk.injEq] at hnt
      obtain ⟨rfl, rfl⟩ := hnt
      refine ⟨parse_clean _ ns (some t) (wn_afterReturn ns f hv hn) (hd.2 (some t) hi), fun _ => ?_⟩
      simp only [parseDocumentedType]
      split
      · rfl
      · split <;> (try rfl) <;> (split <;> rfl)


/-- … in particular **a wrong documented type is rejected at every nesting depth**: if the entry of an annotated parameter documents a
    vocabulary type that is not equal to the annotation — however deep inside the type the difference sits — decoration raises
    PedanticDocstringException (whatever else the docstring says) -/
theorem vocab_wrong_type_rejected {κ : Sym → Bool} (req : Bool) (f : FnD) (i : Intended) (ns : Ctx) (hs : SigOk f) (hv : SigVocab κ f)
    (hn : WN κ ns) (hd : DocVocab κ ns i) (p : RawParam) (hp : p ∈ i.params) (a b : Val) (t : TypeText)
    (ha : (p.name, a) ∈ f.anns) (hty : p.ty = some t) (he : t.expr = some (render b)) (hvb : vocab κ b = true) (hbn : boundIn ns b = true)
    (hne : annEq a b = false) :
    decorateRaw ⟨true, true⟩ req ns f (rawOf i) = .raised docExc := by
  have happ : Applies req (specDoc ns f i) := by
    right
    simp only [specDoc, ne_eq, List.map_eq_nil_iff]
    intro h; rw [h] at hp; simp at hp
  obtain ⟨hiff, hor⟩ := C19_vocab req f i ns hs hv hn hd happ
  rcases hor with h | h
  · exfalso
    obtain ⟨_, _, h3, _⟩ := hiff.mp h
    obtain ⟨na, hna, hname, hm⟩ := h3 ⟨p.name, meaningIn ns p.ty⟩ (by
      simp only [specDoc, List.mem_map]; exact ⟨p, hp, rfl⟩)
    simp only [resolveSig, List.mem_map] at hna
    obtain ⟨na0, hna0, rfl⟩ := hna
    simp only at hname hm
    -- names are distinct: `na0` is the annotation `a` of `p.name`
    have : na0.2 = a := by
      have hnd : (f.anns.map (fun na => na.1)).Nodup := hs
      have := key_unique f.anns hnd na0 (p.name, a) hna0 ha hname
      rw [this]
    rw [this, resolveAnn_vocab ns a (hv.1 _ ha), hty] at hm
    simp only [meaningIn, he, render_roundtrip b ns hvb hn hbn, typeMatches, hne, Bool.false_and] at hm
    exact absurd hm (by decide)
  · exact h

/-! non-vacuity of `C19_vocab`: `def f(a: Dict[str, List[Optional[My]]], b: Tuple[T, list[int]]) -> Union[int, Set[My], None]` in a module
    defining `class My` (identifier 1000) and `T = TypeVar('T')` (1001), documented canonically -/
def exKappa : Sym → Bool := fun n => n == 1000
def exNs : Ctx := [(1000, .cls 1000), (1001, .tvar 1001)]
def exDeepA : Val := .talias .Dict [.cls sStr, .talias .List [.union true [.cls 1000, .cls sNoneType]]]
def exDeepB : Val := .talias .Tuple [.tvar 1001, .balias sList [.cls sInt]]
def exDeepR : Val := .union true [.cls sInt, .talias .Set [.cls 1000], .cls sNoneType]
def exDeepFn : FnD := ⟨[(2000, exDeepA), (2001, exDeepB)], some (some exDeepR), .text⟩
def exDeepDoc : Intended :=
  ⟨[⟨2001, some ⟨"Tuple[T, list[int]]", some (render exDeepB)⟩⟩, ⟨2000, some ⟨"Dict[str, List[Union[My, None]]]", some (render exDeepA)⟩⟩],
   some (some ⟨"Union[int, Set[My], None]", some (render exDeepR)⟩)⟩

theorem exNs_wn : WN exKappa exNs :=
  ((WN.nil exKappa).cons 1001 (.tvar 1001) rfl (by decide)).cons 1000 (.cls 1000) rfl (by decide)

example : SigOk exDeepFn ∧ SigVocab exKappa exDeepFn ∧ DocVocab exKappa exNs exDeepDoc ∧ Applies false (specDoc exNs exDeepFn exDeepDoc) ∧
    decorateRaw ⟨true, true⟩ false exNs exDeepFn (rawOf exDeepDoc) = .wrapper := by
  refine ⟨by unfold SigOk; decide, ⟨by decide, ?_⟩, ⟨?_, ?_⟩, by decide, by decide⟩
  · intro r hr; cases hr; decide
  · intro p hp
    simp only [exDeepDoc, List.mem_cons, List.mem_nil_iff, or_false] at hp
    rcases hp with rfl | rfl
    · exact Or.inr ⟨exDeepB, rfl, by decide, by decide, by decide⟩
    · exact Or.inr ⟨exDeepA, rfl, by decide, by decide, by decide⟩
  · intro t ht
    cases ht
    exact Or.inr ⟨exDeepR, rfl, by decide, by decide, by decide⟩

/-! #### names that are not the `__name__` of the object they denote: type aliases -/

/-- `class My`, `Alias = My`, `def f(p: Alias) -> None` documented `p (Alias)`: in the module's namespace (`My` ↦ the class, `Alias` ↦ the
    same class) the written docstring is consistent with the signature -/
def aliasNs : Ctx := [(1000, .cls 1000), (1001, .cls 1000)]
def aliasFn : FnD := ⟨[(2000, .cls 1000)], some Option.none, .text⟩
def aliasDoc : Intended := ⟨[⟨2000, some ⟨"Alias", some (.name 1001)⟩⟩], Option.none⟩
/-- `IntList = List[int]`, `def f(p: IntList) -> Optional[IntList]` documented `p (IntList)` / `Returns: Optional[IntList]` -/
def aliasGenNs : Ctx := [(1000, .cls 1000), (1003, .talias .List [.cls sInt])]
def aliasGenFn : FnD := ⟨[(2000, .talias .List [.cls sInt])], some (some (.union true [.talias .List [.cls sInt], .cls sNoneType])), .text⟩
def aliasGenDoc : Intended :=
  ⟨[⟨2000, some ⟨"IntList", some (.name 1003)⟩⟩], some (some ⟨"Optional[IntList]", some (.sub (.name 25) [.name 1003])⟩)⟩
/-- `U = TypeVar('T2')` (identifier 1004, `__name__` 1005), `def f(p: U) -> None` documented `p (U)` -/
def aliasTvNs : Ctx := [(1004, .tvar 1005)]
def aliasTvFn : FnD := ⟨[(2000, .tvar 1005)], some Option.none, .text⟩
def aliasTvDoc : Intended := ⟨[⟨2000, some ⟨"U", some (.name 1004)⟩⟩], Option.none⟩
/-- `Wrong = Other`: `def f(p: Alias)` documented `p (Wrong)` -/
def aliasWrongNs : Ctx := [(1000, .cls 1000), (1001, .cls 1000), (1002, .cls 1002), (1006, .cls 1002)]
def aliasWrongDoc : Intended := ⟨[⟨2000, some ⟨"Wrong", some (.name 1006)⟩⟩], Option.none⟩

/-- **repaired (finding docstringAliasNotResolved)**: the evaluation context starts as the namespace of the defining module (generated
    flag `contextSeededWithModuleNames`), so a documented alias is read as the author reads it: the written docstring is consistent,
    the context is faithful, the model accepts — for an alias of a class, of a generic, for a type variable bound under another
    identifier; and an alias of ANOTHER type is inconsistent and rejected -/
theorem fixed_alias :
    contextSeededWithModuleNames = true ∧
    (ctxFaithful aliasNs aliasFn aliasDoc = true ∧ Consistent (resolveSig aliasNs aliasFn) (specDoc aliasNs aliasFn aliasDoc) ∧
      decorateRaw ⟨true, true⟩ false aliasNs aliasFn (rawOf aliasDoc) = .wrapper) ∧
    (ctxFaithful aliasGenNs aliasGenFn aliasGenDoc = true ∧ Consistent (resolveSig aliasGenNs aliasGenFn) (specDoc aliasGenNs aliasGenFn aliasGenDoc) ∧
      decorateRaw ⟨true, true⟩ false aliasGenNs aliasGenFn (rawOf aliasGenDoc) = .wrapper) ∧
    (ctxFaithful aliasTvNs aliasTvFn aliasTvDoc = true ∧ Consistent (resolveSig aliasTvNs aliasTvFn) (specDoc aliasTvNs aliasTvFn aliasTvDoc) ∧
      decorateRaw ⟨true, true⟩ false aliasTvNs aliasTvFn (rawOf aliasTvDoc) = .wrapper) ∧
    (¬ Consistent (resolveSig aliasWrongNs aliasFn) (specDoc aliasWrongNs aliasFn aliasWrongDoc) ∧
      decorateRaw ⟨true, true⟩ false aliasWrongNs aliasFn (rawOf aliasWrongDoc) = .raised docExc) := by decide

/-- **negation witness on the shape before the repair** (`context = {}`): `_update_context` binds the class under its `__name__` (`My`)
    only, `eval("Alias", …)` raises NameError, and the consistent docstring is rejected — for each of the three kinds of alias -/
theorem alias_breaks_unseeded_context :
    decorateRawFrom [] ⟨true, true⟩ false aliasFn (rawOf aliasDoc) = .raised docExc ∧
    decorateRawFrom [] ⟨true, true⟩ false aliasGenFn (rawOf aliasGenDoc) = .raised docExc ∧
    decorateRawFrom [] ⟨true, true⟩ false aliasTvFn (rawOf aliasTvDoc) = .raised docExc := by decide

/-! #### the complement of the guard that remains: a name of the module shadowed by the `__name__` of a part of an annotation -/

/-- the module binds `My` to one class (identifier 1000 ↦ class 1002), the annotation is ANOTHER class whose `__name__` is `My` (a class
    local to a function): the `__name__`s found in the annotations are bound on top of the module's names, the documented `My` is read
    as the annotation's class and accepted, while in the MODULE's namespace it denotes the other class.  (For a class local to a
    function the library's reading is the author's; the specification knows the module's namespace only.) -/
def shadowNs : Ctx := [(1000, .cls 1002)]
def shadowFn : FnD := ⟨[(2000, .cls 1000)], some Option.none, .text⟩
def shadowDoc : Intended := ⟨[⟨2000, some ⟨"My", some (.name 1000)⟩⟩], Option.none⟩

theorem shadowed_name_breaks_context :
    ctxFaithful shadowNs shadowFn shadowDoc = false ∧
    ¬ Consistent (resolveSig shadowNs shadowFn) (specDoc shadowNs shadowFn shadowDoc) ∧
    decorateRaw ⟨true, true⟩ false shadowNs shadowFn (rawOf shadowDoc) = .wrapper := by decide

/-- so the statement of `C19_partial` without the context guard fails (and `WN` cannot be dropped from `C19_vocab`) -/
theorem C19_partial_needs_faithful_context :
    ¬ (∀ (req : Bool) (f : FnD) (i : Intended) (ns : Ctx), SigOk f → Evaluable (annotate ns f (rawOf i)) → Applies req (specDoc ns f i) →
      (decorateRaw ⟨true, true⟩ req ns f (rawOf i) = .wrapper ↔ Consistent (resolveSig ns f) (specDoc ns f i))) := by
  intro h
  have := h false shadowFn shadowDoc shadowNs (by unfold SigOk; decide)
    ⟨by decide, by intro n ty h; simp [annotate, rawOf, shadowDoc] at h⟩ (by decide)
  exact absurd (this.mp shadowed_name_breaks_context.2.2) shadowed_name_breaks_context.2.1

/-! ### the class path -/

/-- `pedantic_class_require_docstring`: the class decoration succeeds iff every method's docstring is consistent -/
theorem class_accepts_iff (env : Env) (hen : env.enabled = true) (hp : env.parserInstalled = true) :
    ∀ (units : List (FnD × Doc)), (∀ u ∈ units, SigOk u.1) →
      (decorateClass env units = .wrapper ↔ ∀ u ∈ units, Consistent u.1 (sdocOf u.1 u.2)) := by
  have hcls : classShortcutUsesRequireDocstring = true := by decide
  have hreq : requireShortcutFlag = true := by decide
  intro units
  induction units with
  | nil => intro _; simp [decorateClass, hen]
  | cons u rest ih =>
    intro hs
    obtain ⟨f, d⟩ := u
    have hsf : SigOk f := hs (f, d) (by simp)
    have ih' := ih (fun u hu => hs u (by simp [hu]))
    have happ : Applies true (sdocOf f d) := Or.inl rfl
    have hiff := accepts_iff_consistent env true f d hen hp hsf happ
    simp only [decorateClass, hen, Bool.not_true, Bool.false_eq_true, ↓reduceIte, hcls, decoratorRequire, hreq,
      List.mem_cons, forall_eq_or_imp]
    cases hdec : decorator env true f d with
    | original =>
      exfalso
      unfold decorator at hdec
      simp only [hen, Bool.not_true, Bool.and_false, Bool.false_eq_true, ↓reduceIte] at hdec
      split at hdec
      · split at hdec <;> cases hdec
      · cases hdec
    | wrapper => simp [ih', hiff.mp hdec]
    | raised o =>
      have : ¬ Consistent f (sdocOf f d) := fun hc => by rw [hiff.mpr hc] at hdec; cases hdec
      simp [this]

theorem decorator_enabled_ne_original (env : Env) (req : Bool) (f : FnD) (d : Doc) (hen : env.enabled = true) :
    decorator env req f d ≠ .original := by
  intro hdec
  unfold decorator at hdec
  simp only [hen, Bool.not_true, Bool.and_false, Bool.false_eq_true, ↓reduceIte] at hdec
  split at hdec
  · split at hdec <;> cases hdec
  · cases hdec

/-- `pedantic_class`: the class decoration succeeds iff every method **to which docstring checking applies** (its docstring documents
    parameters) has a docstring consistent with its signature — for every class (any number of methods), whatever its base classes -/
theorem class_plain_accepts_iff (env : Env) (hen : env.enabled = true) (hp : env.parserInstalled = true) :
    ∀ (units : List (FnD × Doc)), (∀ u ∈ units, SigOk u.1) →
      (decorateClassPlain env units = .wrapper ↔
        ∀ u ∈ units, Applies false (sdocOf u.1 u.2) → Consistent u.1 (sdocOf u.1 u.2)) := by
  have hcls : plainClassShortcutUsesPedantic = true := by decide
  intro units
  induction units with
  | nil => intro _; simp [decorateClassPlain, hen]
  | cons u rest ih =>
    intro hs
    obtain ⟨f, d⟩ := u
    have hsf : SigOk f := hs (f, d) (by simp)
    have ih' := ih (fun u hu => hs u (by simp [hu]))
    simp only [decorateClassPlain, hen, Bool.not_true, Bool.false_eq_true, ↓reduceIte, hcls, List.mem_cons, forall_eq_or_imp]
    by_cases happ : Applies false (sdocOf f d)
    · have hiff := accepts_iff_consistent env false f d hen hp hsf happ
      cases hdec : decorator env false f d with
      | original => exact absurd hdec (decorator_enabled_ne_original env false f d hen)
      | wrapper => simp [ih', hiff.mp hdec]
      | raised o =>
        have : ¬ Consistent f (sdocOf f d) := fun hc => by rw [hiff.mpr hc] at hdec; cases hdec
        simp [this, happ]
    · rcases not_applies_accepted env f d happ with h | h
      · simp [h, ih', happ]
      · exact absurd h (decorator_enabled_ne_original env false f d hen)

/-- non-vacuity: a `pedantic_class` class with a method whose docstring documents no parameter (checking does not apply to it) and a
    consistently documented one is accepted; with the renamed entry of `exDocRenamed` in the second method it is rejected -/
example : ¬ Applies false (sdocOf exFn ⟨[], Option.none⟩) ∧
    decorateClassPlain ⟨true, true⟩ [(exFn, ⟨[], Option.none⟩), (exFn, exDoc)] = .wrapper ∧
    decorateClassPlain ⟨true, true⟩ [(exFn, ⟨[], Option.none⟩), (exFn, exDocRenamed)] = .raised (.raised "PedanticDocstringException") := by
  decide

/-- **every class is checked through its own methods, whatever its bases are**: `for_all_methods(..)(cls)` can return before its loop
    only for a disabled pedantic, the loop runs over `cls.__dict__` and hands every function to the decorator, and `pedantic_class`
    / `pedantic_class_require_docstring` are `for_all_methods(pedantic)` / `for_all_methods(pedantic_require_docstring)`: the
    decoration of a class derived from an already decorated class is `decorateClass` / `decorateClassPlain` of the methods it defines
    (`class_accepts_iff`, `class_plain_accepts_iff`).  Generated from class_decorators.py on every run. -/
theorem for_all_methods_checks_every_own_method :
    forAllMethodsEarlyReturns = [] ∧ forAllMethodsDecoratesEveryFunction = true ∧ plainClassShortcutUsesPedantic = true ∧
    classShortcutUsesRequireDocstring = true := by decide

/-! ### every function the class holds: methods, static and class methods, the accessors of properties -/

/-- **which members reach the decorator** (generated from class_decorators.py on every run): the function branch of the loop tests
    `isinstance(attr_value, (types.FunctionType, types.MethodType))` — plain functions, static methods (`getattr` gives the function)
    and class methods (`getattr` gives a bound method) —, and the property branch passes EACH accessor — getter, setter and deleter —
    through `decorator` and stores it, decorated, in the property the class gets back.  A rewrite of that branch that leaves one
    accessor out (say `prop.getter(decorator(fget))` / `prop.setter(decorator(fset))` and nothing for `fdel`) is translated to a
    shorter list and this theorem does not re-prove. -/
theorem for_all_methods_decorates_every_member : ∀ r : Role, roleDecorated r = true := by
  intro r; cases r <;> decide

theorem ownDecorated_all (ms : List Member) : ownDecorated roleDecorated ms = ms.map (fun m => m.2) := by
  unfold ownDecorated
  rw [List.filter_eq_self.mpr]
  intro m _
  exact for_all_methods_decorates_every_member m.1

/-- `pedantic_class_require_docstring` on a class given by ALL the functions it holds, in whatever role: the class decoration
    succeeds iff the docstring of every one of them is consistent with its signature — no role is exempt -/
theorem class_members_accept_iff (env : Env) (hen : env.enabled = true) (hp : env.parserInstalled = true)
    (ms : List Member) (hs : ∀ m ∈ ms, SigOk m.2.1) :
    decorateMembers env false ms = .wrapper ↔ ∀ m ∈ ms, Consistent m.2.1 (sdocOf m.2.1 m.2.2) := by
  have hearly : forAllMethodsEarlyReturns.isEmpty = true := by decide
  unfold decorateMembers decorateMembersWith
  simp only [hen, hearly, Bool.not_true, Bool.false_eq_true, ↓reduceIte, ownDecorated_all]
  rw [class_accepts_iff env hen hp (ms.map (fun m => m.2)) (by
    intro u hu
    obtain ⟨m, hm, rfl⟩ := List.mem_map.mp hu
    exact hs m hm)]
  constructor
  · intro h m hm; exact h m.2 (List.mem_map.mpr ⟨m, hm, rfl⟩)
  · intro h u hu
    obtain ⟨m, hm, rfl⟩ := List.mem_map.mp hu
    exact h m hm

/-- the same for `pedantic_class`: every function of the class to which docstring checking applies is consistent -/
theorem class_members_plain_accept_iff (env : Env) (hen : env.enabled = true) (hp : env.parserInstalled = true)
    (ms : List Member) (hs : ∀ m ∈ ms, SigOk m.2.1) :
    decorateMembers env true ms = .wrapper ↔
      ∀ m ∈ ms, Applies false (sdocOf m.2.1 m.2.2) → Consistent m.2.1 (sdocOf m.2.1 m.2.2) := by
  have hearly : forAllMethodsEarlyReturns.isEmpty = true := by decide
  unfold decorateMembers decorateMembersWith
  simp only [hen, hearly, Bool.not_true, Bool.false_eq_true, ↓reduceIte, ownDecorated_all]
  rw [class_plain_accepts_iff env hen hp (ms.map (fun m => m.2)) (by
    intro u hu
    obtain ⟨m, hm, rfl⟩ := List.mem_map.mp hu
    exact hs m hm)]
  constructor
  · intro h m hm; exact h m.2 (List.mem_map.mpr ⟨m, hm, rfl⟩)
  · intro h u hu
    obtain ⟨m, hm, rfl⟩ := List.mem_map.mp hu
    exact h m hm

/-- `def x(self) -> int` documented `Returns: int`, and a deleter `def x(self) -> None` WITHOUT a docstring -/
def exGetter : Member := (.fget, ⟨[], some (some (.cls sInt)), .text⟩, ⟨[], some (2, .parsed (.cls sInt))⟩)
def exDeleterNoDoc : Member := (.fdel, ⟨[], some Option.none, .none⟩, ⟨[], Option.none⟩)

/-- non-vacuity, and why every accessor has to be in the list: the class whose property has a consistent getter and a deleter without
    a docstring is rejected by `pedantic_class_require_docstring`; a `for_all_methods` that did not hand the deleter to the decorator
    would accept it (the deleter's docstring is never looked at) -/
example : decorateMembers ⟨true, true⟩ false [exGetter, exDeleterNoDoc] = .raised (.raised "PedanticDocstringException") ∧
    decorateMembers ⟨true, true⟩ false [exGetter] = .wrapper ∧
    decorateMembersWith (fun r => r != .fdel) ⟨true, true⟩ false [exGetter, exDeleterNoDoc] = .wrapper ∧
    ¬ Consistent exDeleterNoDoc.2.1 (sdocOf exDeleterNoDoc.2.1 exDeleterNoDoc.2.2) := by decide

/-! ### the docstring that is checked is the function's own, and every execution of a `def` is checked -/

/-- generated from decorated_function.py: the docstring handed to `docstring_parser` is `func.__doc__` and `raw_doc` is
    `self._func.__doc__` — what the model calls `f.rawDoc` / `d`.  (`inspect.getdoc(func)` would make a method WITHOUT a docstring
    borrow the one of the method it overrides: "a missing docstring — when required — raises" would fail for overriding methods.) -/
theorem docstring_is_the_functions_own : parsedDocstringIsOwnDoc = true ∧ rawDocIsOwnDoc = true := by decide

/-- generated from fn_deco_pedantic.py / check_docstring.py / decorated_function.py: nothing there survives a decoration (no
    module-level mutable binding, no `global` / `nonlocal`, no cache, no mutable default, no attribute set on a function) — the
    premise of `decorateSeq` (each decoration is judged by `decorateAs` on its own function) -/
theorem decoration_keeps_no_state : decorationState = [] := by decide

/-- does the decorator spelled `k` require a docstring -/
def reqOf : DecoKind → Bool
  | .pedantic => false
  | _ => true

theorem decorateAs_eq (env : Env) (k : DecoKind) (f : FnD) (d : Doc) : decorateAs env k f d = decorator env (reqOf k) f d := by
  have hreq : requireShortcutFlag = true := by decide
  cases k <;> simp [decorateAs, decoratorRequire, reqOf, hreq]

/-- **every execution of a `def` is checked**: for every sequence of decorations made one after the other — the same `def` executed
    again and again with annotations that evaluate differently each time (a factory, a loop, a reloaded module) or different ones —
    all of them come through iff EACH function to which checking applies has a docstring consistent with ITS signature; what was
    decorated before plays no part. -/
theorem repeated_decoration_accepts_iff (env : Env) (hen : env.enabled = true) (hp : env.parserInstalled = true) :
    ∀ (us : List (DecoKind × FnD × Doc)), (∀ u ∈ us, SigOk u.2.1) →
      (decorateSeq env us = .wrapper ↔
        ∀ u ∈ us, Applies (reqOf u.1) (sdocOf u.2.1 u.2.2) → Consistent u.2.1 (sdocOf u.2.1 u.2.2)) := by
  intro us
  induction us with
  | nil => intro _; simp [decorateSeq, hen]
  | cons u rest ih =>
    intro hs
    obtain ⟨k, f, d⟩ := u
    have hsf : SigOk f := hs (k, f, d) (by simp)
    have ih' := ih (fun u hu => hs u (by simp [hu]))
    simp only [decorateSeq, hen, Bool.not_true, Bool.false_eq_true, ↓reduceIte, decorateAs_eq, List.mem_cons, forall_eq_or_imp]
    by_cases happ : Applies (reqOf k) (sdocOf f d)
    · have hiff := accepts_iff_consistent env (reqOf k) f d hen hp hsf happ
      cases hdec : decorator env (reqOf k) f d with
      | original => exact absurd hdec (decorator_enabled_ne_original env (reqOf k) f d hen)
      | wrapper => simp [ih', hiff.mp hdec]
      | raised o =>
        have : ¬ Consistent f (sdocOf f d) := fun hc => by rw [hiff.mpr hc] at hdec; cases hdec
        simp [this, happ]
    · have hk : reqOf k = false := by
        cases hr : reqOf k
        · rfl
        · exact absurd (Or.inl hr) happ
      rw [hk] at happ ⊢
      rcases not_applies_accepted env f d happ with h | h
      · simp [h, ih', happ]
      · exact absurd h (decorator_enabled_ne_original env false f d hen)

/-- … in particular an inconsistent docstring is rejected however many consistent executions of the same `def` came before it -/
theorem later_execution_rejected (env : Env) (hen : env.enabled = true) (hp : env.parserInstalled = true)
    (pre post : List (DecoKind × FnD × Doc)) (u : DecoKind × FnD × Doc) (hs : ∀ v ∈ pre ++ u :: post, SigOk v.2.1)
    (happ : Applies (reqOf u.1) (sdocOf u.2.1 u.2.2)) (hbad : ¬ Consistent u.2.1 (sdocOf u.2.1 u.2.2)) :
    decorateSeq env (pre ++ u :: post) ≠ .wrapper := by
  intro h
  exact hbad ((repeated_decoration_accepts_iff env hen hp _ hs).mp h u (by simp) happ)

/-- `def f(p: tp) -> None` documented `p (int)`, executed with `tp = int` and then with `tp = str` -/
example : decorateSeq ⟨true, true⟩
    [(.pedantic, ⟨[(1, .cls sInt)], some Option.none, .text⟩, ⟨[⟨1, .parsed (.cls sInt)⟩], Option.none⟩),
     (.pedantic, ⟨[(1, .cls sStr)], some Option.none, .text⟩, ⟨[⟨1, .parsed (.cls sInt)⟩], Option.none⟩)]
      = .raised (.raised "PedanticDocstringException") ∧
    decorateSeq ⟨true, true⟩
    [(.pedantic, ⟨[(1, .cls sInt)], some Option.none, .text⟩, ⟨[⟨1, .parsed (.cls sInt)⟩], Option.none⟩),
     (.pedantic, ⟨[(1, .cls sInt)], some Option.none, .text⟩, ⟨[⟨1, .parsed (.cls sInt)⟩], Option.none⟩)] = .wrapper := by decide

/-! ### the source has the shape the model assumes (flags and constants read by the translator) -/

theorem docstring_source_shape :
    checkRunsBeforeWrapperIsBuilt = true ∧ disabledReturnsOriginal = true ∧ requireShortcutFlag = true ∧
    classShortcutUsesRequireDocstring = true ∧ completeNumTests = 4 ∧ completeCountsAsExpected = true ∧
    completeCalledBeforeLoop = true ∧ contextUpdatedFirst = true ∧ contextShapeAsExpected = true ∧ returnTypeIndex = 1 ∧
    typingNeedle = "typing." ∧
    [completeExc1, completeExc2, completeExc3, completeExc4, excReturnArgs, excReturnType, excMatch, excParamType,
      excTypingNeedle].all (· == "PedanticDocstringException") = true ∧
    evalHandlers.all (fun h => h.2 == "PedanticDocstringException") = true ∧
    afterHandlers .nameError evalHandlers = docExc ∧ afterHandlers .syntaxError evalHandlers = docExc ∧
    afterHandlers .typeError evalHandlers = docExc := by
  decide

/-- **which documented entries count for a parameter**: the source selects them with `p.arg_name == a` — the documented name EQUALS
    the parameter's name, as the model's `checkParams` (`p.name == n`) and the specification's `Consistent` (`p.name == na.1`) have it.
    A lookup that normalises the documented name first (`.lstrip('*')`, `.strip('_')`, `.lower()`, a prefix test …) lets an entry
    whose name is *not* the name of any parameter (`*factor` for `factor`, `Options` for `options`) stand for one: the translator then
    reports `false` here. -/
theorem param_lookup_by_exact_name : paramLookupIsNameEquality = true := by decide

/-- … and with exact names a documented entry whose name differs from every annotated parameter's name makes the docstring
    inconsistent, whatever else it says (a renamed entry — `*factor`, `factor_`, `Factor`, `fac tor`, `facto` — is never absorbed). -/
theorem renamed_entry_inconsistent (f : FnD) (s : SDoc) (p : SParam) (hp : p ∈ s.params)
    (hne : ∀ na ∈ f.anns, na.1 ≠ p.name) : ¬ Consistent f s := by
  intro h
  obtain ⟨na, hna, heq, _⟩ := h.2.2.1 p hp
  exact hne na hna heq

/-- **a near name is not absorbed by the check**: when docstring checking applies, a docstring with an entry whose name is not the
    name of an annotated parameter — however close: leading / trailing `*` or `_`, another case, a blank inside, a prefix — is never
    accepted at decoration (for every signature, every docstring, no bound on sizes).  For a variadic parameter `*args: T` the
    parameter's name is `args` (the key in `__annotations__`): `args (T)` documents it, `*args (T)` does not. -/
theorem renamed_entry_not_accepted (env : Env) (req : Bool) (f : FnD) (d : Doc) (hen : env.enabled = true)
    (hp : env.parserInstalled = true) (hs : SigOk f) (happ : Applies req (sdocOf f d))
    (p : DocParam) (hmem : p ∈ d.params) (hne : ∀ na ∈ f.anns, na.1 ≠ p.name) :
    decorator env req f d ≠ .wrapper := by
  intro h
  have hc := accepted_consistent env req f d hen hp hs happ h
  refine renamed_entry_inconsistent f (sdocOf f d) ⟨p.name, p.ty.meaning⟩ ?_ hne hc
  simp only [sdocOf, List.mem_map]
  exact ⟨p, hmem, rfl⟩

/-- the hypotheses are met by `exDocRenamed` (`a` documented under the name with code 3, everything else consistent): its second
    entry names no parameter of `exFn`, checking applies, and decoration raises -/
example : (⟨3, .parsed (.talias .List [.cls sInt])⟩ : DocParam).name ∉ exFn.anns.map (·.1) ∧
    Applies false (sdocOf exFn exDocRenamed) ∧
    decorator ⟨true, true⟩ false exFn exDocRenamed = .raised (.raised "PedanticDocstringException") := by decide

end PedVerif.Docstring
