import PedVerif.Spec.Docstring
/-!
# C19 — docstring checking accepts exactly the docstrings consistent with the signature

Property theorems only (+ the lemmas they need).  `checkDocstring`, `decorator`, … are the model instantiated with the
comparison operators, the trigger, the completeness conditions, the `except` clauses and the exception classes that the
translator read from the source (`PedVerif.Gen.Docstring`); the proofs are therefore re-checked against what the code says
now: comparing only the counts, skipping the Returns check, `==` for `!=`, a trigger that needs `require_docstring`, another
exception class on one path make them fail.
-/
namespace PedVerif.Docstring
open PedVerif.Gen.Docstring

/-! ## typing-object equality -/

theorem subsetL_eq (as bs : List Val) : subsetL as bs = as.all (fun a => bs.any (fun b => annEq a b)) := by
  induction as with
  | nil => simp [subsetL]
  | cons a as ih => simp [subsetL, ih]

theorem anyL_eq (as : List Val) (b : Val) : anyL as b = as.any (fun a => annEq a b) := by
  induction as with
  | nil => simp [anyL]
  | cons a as ih => simp [anyL, ih]

theorem beq_comm' {α} [BEq α] [LawfulBEq α] (a b : α) : (a == b) = (b == a) := by
  cases h : a == b with
  | true => have := eq_of_beq h; subst this; simp
  | false =>
    cases h' : b == a with
    | false => rfl
    | true => have := eq_of_beq h'; subst this; simp at h

theorem all_any_congr (as bs : List Val) (p q : Val → Val → Bool) (h : ∀ a ∈ as, ∀ b, p a b = q a b) :
    as.all (fun a => bs.any (fun b => p a b)) = as.all (fun a => bs.any (fun b => q a b)) := by
  induction as with
  | nil => rfl
  | cons a as ih =>
    simp only [List.all_cons]
    rw [ih (fun x hx => h x (by simp [hx]))]
    congr 1
    apply List.any_congr rfl
    intro b
    exact h a (by simp) b

theorem all_any_congr' (as bs : List Val) (p q : Val → Val → Bool) (h : ∀ a ∈ as, ∀ b, p a b = q a b) :
    bs.all (fun b => as.any (fun a => p a b)) = bs.all (fun b => as.any (fun a => q a b)) := by
  apply List.all_congr rfl
  intro b
  induction as with
  | nil => rfl
  | cons a as ih =>
    simp only [List.any_cons]
    rw [ih (fun x hx => h x (by simp [hx])), h a (by simp) b]

theorem setEq_symm (as bs : List Val) (ih : ∀ a ∈ as, ∀ b, annEq a b = annEq b a) :
    (subsetL as bs && bs.all (fun b => anyL as b)) = (subsetL bs as && as.all (fun a => anyL bs a)) := by
  rw [subsetL_eq, subsetL_eq]
  simp only [anyL_eq]
  rw [Bool.and_comm]
  rw [all_any_congr' as bs (fun a b => annEq a b) (fun a b => annEq b a) ih]
  rw [all_any_congr as bs (fun a b => annEq a b) (fun a b => annEq b a) ih]

theorem eqL_symm (as : List Val) (ih : ∀ a ∈ as, ∀ b, annEq a b = annEq b a) : ∀ bs, eqL as bs = eqL bs as := by
  induction as with
  | nil => intro bs; cases bs <;> simp [eqL]
  | cons a as iha =>
    intro bs
    cases bs with
    | nil => simp [eqL]
    | cons b bs =>
      simp only [eqL]
      rw [ih a (by simp) b, iha (fun x hx => ih x (by simp [hx])) bs]

mutual
theorem annEq_symm : ∀ (a b : Val), annEq a b = annEq b a
  | .cls n, b => by cases b <;> simp [annEq, beq_comm']
  | .none, b => by cases b <;> simp [annEq]
  | .ellipsis, b => by cases b <;> simp [annEq]
  | .int i, b => by cases b <;> simp [annEq, beq_comm']
  | .bool i, b => by cases b <;> simp [annEq, beq_comm']
  | .str n, b => by cases b <;> simp [annEq, beq_comm']
  | .tvar n, b => by cases b <;> simp [annEq, beq_comm']
  | .special h, b => by cases b <;> simp [annEq, beq_comm']
  | .fref n, b => by cases b <;> simp [annEq, beq_comm']
  | .talias h as, b => by
    cases b <;> simp only [annEq]
    rename_i h' bs
    have ih := annEq_symm_list as
    by_cases hh : h = h'
    · subst hh
      simp only [beq_self_eq_true, Bool.true_and]
      split
      · exact setEq_symm as bs ih
      · exact eqL_symm as ih bs
    · have : (h == h') = false := by simpa using hh
      have : (h' == h) = false := by simpa using (fun e => hh e.symm)
      simp [*]
  | .balias o as, b => by
    cases b <;> simp only [annEq]
    rename_i o' bs
    rw [eqL_symm as (annEq_symm_list as) bs, beq_comm' o]
  | .union f as, b => by
    cases b <;> simp only [annEq]
    rename_i f' bs
    exact setEq_symm as bs (annEq_symm_list as)
  | .pylist as, b => by
    cases b <;> simp only [annEq]
    rename_i bs
    exact eqL_symm as (annEq_symm_list as) bs
theorem annEq_symm_list : ∀ (as : List Val), ∀ a ∈ as, ∀ b, annEq a b = annEq b a
  | [], a, h, b => by simp at h
  | x :: xs, a, h, b => by
    simp only [List.mem_cons] at h
    rcases h with rfl | h
    · exact annEq_symm a b
    · exact annEq_symm_list xs a h b
end

theorem eqL_refl (as : List Val) (ih : ∀ a ∈ as, annEq a a = true) : eqL as as = true := by
  induction as with
  | nil => rfl
  | cons a as iha => simp [eqL, ih a (by simp), iha (fun x hx => ih x (by simp [hx]))]

/-- two argument lists with the same members (in any order, with any multiplicity) are equal as sets -/
theorem setEq_of_mem (as bs : List Val) (ih : ∀ a ∈ as, annEq a a = true) (h1 : ∀ a ∈ as, a ∈ bs) (h2 : ∀ b ∈ bs, b ∈ as) :
    (subsetL as bs && bs.all (fun b => anyL as b)) = true := by
  rw [subsetL_eq]
  simp only [anyL_eq, Bool.and_eq_true, List.all_eq_true, List.any_eq_true]
  exact ⟨fun a ha => ⟨a, h1 a ha, ih a ha⟩, fun b hb => ⟨b, h2 b hb, ih b (h2 b hb)⟩⟩

mutual
/-- typing-object equality is reflexive -/
theorem annEq_refl : ∀ (a : Val), annEq a a = true
  | .cls n => by simp [annEq]
  | .none => by simp [annEq]
  | .ellipsis => by simp [annEq]
  | .int i => by simp [annEq]
  | .bool b => by simp [annEq]
  | .str n => by simp [annEq]
  | .tvar n => by simp [annEq]
  | .special h => by simp [annEq]
  | .fref n => by simp [annEq]
  | .talias h as => by
    have ih := annEq_refl_list as
    simp only [annEq, beq_self_eq_true, Bool.true_and]
    split
    · exact setEq_of_mem as as ih (fun _ h => h) (fun _ h => h)
    · exact eqL_refl as ih
  | .balias o as => by simp [annEq, eqL_refl as (annEq_refl_list as)]
  | .union f as => by
    simp only [annEq]
    exact setEq_of_mem as as (annEq_refl_list as) (fun _ h => h) (fun _ h => h)
  | .pylist as => by simp [annEq, eqL_refl as (annEq_refl_list as)]
theorem annEq_refl_list : ∀ (as : List Val), ∀ a ∈ as, annEq a a = true
  | [], a, h => by simp at h
  | x :: xs, a, h => by
    simp only [List.mem_cons] at h
    rcases h with rfl | h
    · exact annEq_refl a
    · exact annEq_refl_list xs a h
end

/-- **`Union` is order-insensitive** (and flavour-insensitive: `typing.Union[...]` vs `X | Y`): any permutation of the
    members gives an equal type -/
theorem annEq_union_perm (f g : Bool) (as bs : List Val) (h : as.Perm bs) : annEq (.union f as) (.union g bs) = true := by
  simp only [annEq]
  exact setEq_of_mem as bs (fun a _ => annEq_refl a) (fun a ha => h.mem_iff.mp ha) (fun b hb => h.mem_iff.mpr hb)

/-- `Literal` likewise -/
theorem annEq_literal_perm (as bs : List Val) (h : as.Perm bs) : annEq (.talias .Literal as) (.talias .Literal bs) = true := by
  simp only [annEq, beq_self_eq_true, Bool.true_and, ↓reduceIte]
  exact setEq_of_mem as bs (fun a _ => annEq_refl a) (fun a ha => h.mem_iff.mp ha) (fun b hb => h.mem_iff.mpr hb)

/-- a typing alias never equals a builtin alias: `typing.List[int] ≠ list[int]`, whatever the arguments -/
theorem annEq_talias_balias (h : Head) (o : Sym) (as bs : List Val) :
    annEq (.talias h as) (.balias o bs) = false ∧ annEq (.balias o bs) (.talias h as) = false := by
  simp [annEq]

theorem annEq_cls (a b : Sym) : annEq (.cls a) (.cls b) = (a == b) := by rw [annEq]

/-- `Optional[X]`, `Union[X, None]`, `Union[None, X]`, `X | None`, `None | X` are the same type, for every class or alias `X`
    (stated on the evaluator: the five spellings over any name bound to a class) -/
theorem optional_spellings (ctx : Ctx) (n : Sym) (c : Sym) (hn : ctx.get n = some (.cls c)) (hc : c ≠ sNoneType)
    (h25 : ctx.get 25 = Option.none) (h26 : ctx.get 26 = Option.none) :
    let x := DExpr.name n
    evalD ctx (.sub (.name 25) [x]) = .ok (.union true [.cls c, .cls sNoneType]) ∧
    evalD ctx (.sub (.name 26) [x, .none]) = .ok (.union true [.cls c, .cls sNoneType]) ∧
    evalD ctx (.sub (.name 26) [.none, x]) = .ok (.union true [.cls sNoneType, .cls c]) ∧
    evalD ctx (.bor x .none) = .ok (.union false [.cls c, .cls sNoneType]) ∧
    evalD ctx (.bor .none x) = .ok (.union false [.cls sNoneType, .cls c]) := by
  have hc1 : (c == sNoneType) = false := by simpa using hc
  have hc2 : (sNoneType == c) = false := by simpa using (fun e => hc e.symm)
  simp only [evalD, evalDs, hn, h25, h26, globalLookup, typingName, bind, Except.bind, pure, Except.pure]
  simp [subscript, typeCheck, typeCheckAll, typeConvert, mkUnion, flattenU, dedupe, annEq_cls, hc1, hc2, orOp, isTypingObj,
    isBuiltinOrable, isNone, bind, Except.bind, pure, Except.pure]


example : annEq (.union true [.cls sInt, .cls sStr]) (.union false [.cls sStr, .cls sInt]) = true := by decide
example : annEq (.talias .List [.cls sInt]) (.balias sList [.cls sInt]) = false := by decide
example : annEq (.talias .Literal [.int 1, .int 2]) (.talias .Literal [.int 2, .int 1]) = true := by decide
example : annEq (.talias .Tuple [.cls sInt, .cls sStr]) (.talias .Tuple [.cls sStr, .cls sInt]) = false := by decide
-- `optional_spellings` applies to `My` bound by the annotation `Optional[My]`
example : (match Ctx.get (updateContext [] (.union true [.cls 1000, .cls sNoneType])) 1000 with
    | some (.cls c) => c == 1000
    | _ => false) = true := by decide

/-! ## what the translated conditions say (re-proved about the generated definitions on every run) -/

@[simp] theorem truthy_b (x : Bool) : (PyV.b x).truthy = x := rfl
@[simp] theorem truthy_i (x : Int) : (PyV.i x).truthy = (x != 0) := rfl
@[simp] theorem toInt_b (x : Bool) : (PyV.b x).toInt = if x then 1 else 0 := rfl
@[simp] theorem toInt_i (x : Int) : (PyV.i x).toInt = x := rfl
@[simp] theorem truthy_or (a b : PyV) : (pyOr a b).truthy = (a.truthy || b.truthy) := by
  unfold pyOr; cases h : a.truthy <;> simp [h]
@[simp] theorem truthy_and (a b : PyV) : (pyAnd a b).truthy = (a.truthy && b.truthy) := by
  unfold pyAnd; cases h : a.truthy <;> simp [h]
@[simp] theorem toInt_or (a b : PyV) : (pyOr a b).toInt = if a.truthy then a.toInt else b.toInt := by
  unfold pyOr; cases h : a.truthy <;> simp
@[simp] theorem toInt_and (a b : PyV) : (pyAnd a b).toInt = if a.truthy then b.toInt else a.toInt := by
  unfold pyAnd; cases h : a.truthy <;> simp
@[simp] theorem truthy_not (a : PyV) : (pyNot a).truthy = !a.truthy := rfl
@[simp] theorem truthy_eq (a b : PyV) : (pyEq a b).truthy = (a.toInt == b.toInt) := rfl
@[simp] theorem truthy_ne (a b : PyV) : (pyNe a b).truthy = (a.toInt != b.toInt) := rfl
@[simp] theorem truthy_lt (a b : PyV) : (pyLt a b).truthy = decide (a.toInt < b.toInt) := rfl
@[simp] theorem truthy_le (a b : PyV) : (pyLe a b).truthy = decide (a.toInt ≤ b.toInt) := rfl
@[simp] theorem truthy_gt (a b : PyV) : (pyGt a b).truthy = decide (a.toInt > b.toInt) := rfl
@[simp] theorem truthy_ge (a b : PyV) : (pyGe a b).truthy = decide (a.toInt ≥ b.toInt) := rfl

/-- decides an equation between a translated condition and its intended Boolean meaning -/
macro "py_cond" : tactic =>
  `(tactic| (rw [Bool.eq_iff_iff]; simp; (try omega)))

theorem trigger_spec (h r : Bool) (n : Nat) : trigger h r n = (h && (r || decide (n > 0))) := by
  unfold trigger; cases h <;> cases r <;> py_cond
theorem completeTest2_spec (a1 a2 : Bool) (nd nt : Nat) (rn ri rz : Bool) :
    completeTest2 a1 a2 nd nt rn ri rz = decide (nd ≠ nt) := by
  unfold completeTest2; py_cond
theorem returnArgsBad_spec (n : Nat) : returnArgsBad n = decide (n ≠ 2) := by
  unfold returnArgsBad; py_cond
theorem matchBad_spec (n : Nat) (t : Bool) : matchBad n t = (decide (n ≠ 1) || t) := by
  unfold matchBad; cases t <;> py_cond
theorem completeTest3_spec (a1 a2 : Bool) (nd nt : Nat) (rn ri rz : Bool) :
    completeTest3 a1 a2 nd nt rn ri rz = (rn && (ri && !rz)) := by
  unfold completeTest3; py_cond
theorem completeTest4_spec (a1 a2 : Bool) (nd nt : Nat) (rn ri rz : Bool) :
    completeTest4 a1 a2 nd nt rn ri rz = (!rn && (!ri || rz)) := by
  unfold completeTest4; py_cond
theorem completeTest1_spec (a1 a2 : Bool) (nd nt : Nat) (rn ri rz : Bool) :
    completeTest1 a1 a2 nd nt rn ri rz = (a1 || a2) := by
  unfold completeTest1; py_cond
theorem returnBranch_spec (r z : Bool) : returnBranch r z = (r && !z) := by
  unfold returnBranch; py_cond
theorem paramBranch_spec (r z : Bool) : paramBranch r z = !r := by
  unfold paramBranch; py_cond
theorem returnTypeBad_spec (e : Bool) : returnTypeBad e = !e := by
  unfold returnTypeBad; py_cond
theorem paramTypeBad_spec (e : Bool) : paramTypeBad e = !e := by
  unfold paramTypeBad; py_cond
/-- the branch of `_update_context` that walks the type arguments is taken for typing aliases / `typing.Union`
    (`str()` starts with "typing", `__origin__`, `__args__`), builtin aliases (`__origin__`, `__args__`), `X | Y` (`__args__`)
    and unsubscripted typing names (`str()`), and not for classes and type variables (none of the three) -/
theorem descendTest_table :
    descendTest true true true = true ∧ descendTest false true true = true ∧ descendTest false false true = true ∧
    descendTest true false false = true ∧ descendTest false false false = false := by
  unfold descendTest; simp

abbrev docExc : Out := .raised "PedanticDocstringException"

theorem assertComplete_ok_iff (f : FnD) (d : Doc) :
    assertComplete f d = .ok ↔
      f.rawDoc = .text ∧ d.params.length = f.anns.length ∧ d.returns.isSome = (returnedType f).isSome := by
  unfold assertComplete
  simp only [completeTest1_spec, completeTest2_spec, completeTest3_spec, completeTest4_spec, retInAnnotations, retAnnIsNone,
    returnedType]
  cases hr : f.rawDoc <;> cases hd : d.returns <;> rcases hf : f.ret with _ | _ | _ <;>
    by_cases hl : d.params.length = f.anns.length <;> simp [hl, completeExc1, completeExc2, completeExc3, completeExc4]

theorem assertComplete_cases (f : FnD) (d : Doc) : assertComplete f d = .ok ∨ assertComplete f d = docExc := by
  unfold assertComplete
  simp only [completeExc1, completeExc2, completeExc3, completeExc4]
  repeat' split
  all_goals simp

/-! ## counting -/

theorem pigeon_mem : ∀ (ns ds : List Nat), ns.Nodup → (∀ n ∈ ns, ds.count n = 1) → ds.length = ns.length →
    ∀ x ∈ ds, x ∈ ns := by
  intro ns
  induction ns with
  | nil => intro ds _ _ hl x hx; have : ds = [] := List.eq_nil_of_length_eq_zero (by simpa using hl); simp [this] at hx
  | cons n ns ih =>
    intro ds hnd hc hl x hx
    rw [List.nodup_cons] at hnd
    have hn : n ∈ ds := by
      have := hc n (by simp); exact List.count_pos_iff.mp (by omega)
    have hl' : (ds.erase n).length = ns.length := by
      rw [List.length_erase_of_mem hn]; simp at hl; omega
    have hc' : ∀ m ∈ ns, (ds.erase n).count m = 1 := by
      intro m hm
      have hmn : m ≠ n := fun e => hnd.1 (e ▸ hm)
      rw [List.count_erase_of_ne hmn]; exact hc m (by simp [hm])
    by_cases hxn : x = n
    · simp [hxn]
    · have := ih (ds.erase n) hnd.2 hc' hl' x ((List.mem_erase_of_ne hxn).mpr hx)
      simp [this]

theorem pigeon_len : ∀ (ns ds : List Nat), ns.Nodup → (∀ n ∈ ns, ds.count n = 1) → (∀ x ∈ ds, x ∈ ns) →
    ds.length = ns.length := by
  intro ns
  induction ns with
  | nil => intro ds _ _ hm; cases ds with
    | nil => rfl
    | cons a as => have := hm a (by simp); simp at this
  | cons n ns ih =>
    intro ds hnd hc hm
    rw [List.nodup_cons] at hnd
    have hcn := hc n (by simp)
    have hn : n ∈ ds := List.count_pos_iff.mp (by omega)
    have hc' : ∀ m ∈ ns, (ds.erase n).count m = 1 := by
      intro m hm'
      have hmn : m ≠ n := fun e => hnd.1 (e ▸ hm')
      rw [List.count_erase_of_ne hmn]; exact hc m (by simp [hm'])
    have hm' : ∀ x ∈ ds.erase n, x ∈ ns := by
      intro x hx
      have hxd := List.mem_of_mem_erase hx
      have := hm x hxd
      simp only [List.mem_cons] at this
      rcases this with rfl | h
      · exfalso
        have h0 : (ds.erase x).count x = 0 := by rw [List.count_erase_self]; omega
        exact (List.count_eq_zero.mp h0) hx
      · exact h
    have := ih (ds.erase n) hnd.2 hc' hm'
    rw [List.length_erase_of_mem hn] at this
    have : 0 < ds.length := List.length_pos_of_mem hn
    simp; omega

/-! ## the check and the specification -/

/-- parameter names of a Python signature are distinct (a duplicate is a SyntaxError) -/
def SigOk (f : FnD) : Prop := (f.anns.map (fun na => na.1)).Nodup

/-! concrete docstrings used by the `example`s below -/

/-- `def f(a: List[int], b: Optional[int]) -> int` -/
def exFn : FnD :=
  ⟨[(1, .talias .List [.cls sInt]), (2, .union true [.cls sInt, .cls sNoneType])], some (some (.cls sInt)), .text⟩
/-- `Args: b (None | int) … a (List[int]) …  Returns: int: …` (documented in another order, Optional spelled with `|`) -/
def exDoc : Doc :=
  ⟨[⟨2, .parsed (.union false [.cls sNoneType, .cls sInt])⟩, ⟨1, .parsed (.talias .List [.cls sInt])⟩], some (2, .parsed (.cls sInt))⟩
/-- the same with `a` documented as `list[int]` -/
def exDocBuiltin : Doc :=
  ⟨[⟨2, .parsed (.union false [.cls sNoneType, .cls sInt])⟩, ⟨1, .parsed (.balias sList [.cls sInt])⟩], some (2, .parsed (.cls sInt))⟩
/-- the same with `a` renamed to `c` -/
def exDocRenamed : Doc :=
  ⟨[⟨2, .parsed (.union false [.cls sNoneType, .cls sInt])⟩, ⟨3, .parsed (.talias .List [.cls sInt])⟩], some (2, .parsed (.cls sInt))⟩
/-- the same with `b` documented twice instead of `a` -/
def exDocDup : Doc :=
  ⟨[⟨2, .parsed (.union false [.cls sNoneType, .cls sInt])⟩, ⟨2, .parsed (.union false [.cls sNoneType, .cls sInt])⟩], some (2, .parsed (.cls sInt))⟩
/-- the same without the Returns entry -/
def exDocNoReturns : Doc :=
  ⟨[⟨2, .parsed (.union false [.cls sNoneType, .cls sInt])⟩, ⟨1, .parsed (.talias .List [.cls sInt])⟩], Option.none⟩
/-- the same with an untyped entry for `a`, and with an unparsable one -/
def exDocUntyped : Doc :=
  ⟨[⟨2, .parsed (.union false [.cls sNoneType, .cls sInt])⟩, ⟨1, .untyped⟩], some (2, .parsed (.cls sInt))⟩
def exDocSyntax : Doc :=
  ⟨[⟨2, .parsed (.union false [.cls sNoneType, .cls sInt])⟩, ⟨1, .evalError .syntaxError⟩], some (2, .parsed (.cls sInt))⟩

example : SigOk exFn := by unfold SigOk; decide

theorem afterHandlers_ne_ok (k : Esc) : ∀ hs, afterHandlers k hs ≠ .ok := by
  intro hs
  induction hs with
  | nil => simp [afterHandlers]
  | cons h rest ih =>
    obtain ⟨c, r⟩ := h
    simp only [afterHandlers]
    split
    · simp
    · exact ih

theorem parseOut_error_ne_ok (ty : DT) (o : Out) (h : parseOut ty = .error o) : o ≠ .ok := by
  cases ty <;> simp only [parseOut] at h
  · cases h
  · cases h; simp
  · cases h; simp
  · cases h; exact afterHandlers_ne_ok _ _
  · cases h; exact afterHandlers_ne_ok _ _

theorem parseOut_ok_iff (ty : DT) (v : Val) : parseOut ty = .ok v ↔ ty = .parsed v := by
  cases ty <;> simp [parseOut]

theorem meaning_eq_some (ty : DT) (v : Val) : ty.meaning = some v ↔ ty = .parsed v := by
  cases ty <;> simp [DT.meaning]

/-- the Returns part of the loop agrees with the specification's `returnsOk` (once the completeness check passed) -/
theorem checkReturn_ok_iff (f : FnD) (d : Doc) (hc : d.returns.isSome = (returnedType f).isSome) :
    checkReturn f d = .ok ↔ returnsOk f (sdocOf f d) = true := by
  unfold checkReturn returnsOk sdocOf returnedType
  unfold returnedType at hc
  rcases hf : f.ret with _ | _ | r
  · cases hd : d.returns <;> simp [hf, hd] at hc ⊢
  · cases hd : d.returns <;> simp [hf, hd, returnBranch_spec, paramBranch_spec] at hc ⊢
  · cases hd : d.returns with
    | none => simp [hf, hd] at hc
    | some nt =>
      obtain ⟨n, ty⟩ := nt
      simp only [returnBranch_spec, Option.isNone_some, Bool.not_false, Bool.and_self, ↓reduceIte, returnArgsBad_spec,
        Option.join_some, Option.map_some]
      by_cases hn : n = 2
      · subst hn
        have hidx : ¬ (2 ≤ returnTypeIndex) := by decide
        simp only [ne_eq, not_true_eq_false, decide_false, Bool.false_eq_true, ↓reduceIte, hidx, beq_self_eq_true,
          returnTypeBad_spec]
        cases hp : parseOut ty with
        | error o =>
          have hne := parseOut_error_ne_ok ty o hp
          have hm : ty.meaning = Option.none := by
            cases ty <;> simp [parseOut] at hp <;> rfl
          simp [hm, typeMatches, hne]
        | ok v =>
          have := (parseOut_ok_iff ty v).mp hp
          subst this
          simp only [DT.meaning, typeMatches, annEq_symm r v, Bool.and_self]
          cases annEq v r <;> simp
      · have : (n == 2) = false := by simpa using hn
        simp [hn, this, typeMatches, excReturnArgs]

def ParamsOk (d : Doc) (anns : List (Sym × Val)) : Prop :=
  ∀ na ∈ anns, ∃ p, d.params.filter (fun p => p.name == na.1) = [p] ∧ ∃ v, p.ty = .parsed v ∧ annEq na.2 v = true

theorem checkParams_ok_iff (d : Doc) : ∀ anns, checkParams d anns = .ok ↔ ParamsOk d anns := by
  intro anns
  induction anns with
  | nil => simp [checkParams, ParamsOk]
  | cons na rest ih =>
    obtain ⟨n, a⟩ := na
    have hcons : ParamsOk d ((n, a) :: rest) ↔
        (∃ p, d.params.filter (fun p => p.name == n) = [p] ∧ ∃ v, p.ty = .parsed v ∧ annEq a v = true) ∧ ParamsOk d rest := by
      simp [ParamsOk]
    rw [hcons, ← ih]
    simp only [checkParams, returnBranch_spec, paramBranch_spec, Bool.false_and, Bool.false_eq_true, ↓reduceIte,
      Bool.not_false, matchBad_spec]
    generalize hm : d.params.filter (fun p => p.name == n) = m
    rcases m with _ | ⟨p, _ | ⟨q, more⟩⟩
    · simp [excMatch]
    · simp only [List.length_cons, List.length_nil, Nat.zero_add, ne_eq, not_true_eq_false, decide_false, Bool.false_or,
        paramTypeBad_spec, List.cons.injEq, and_true, exists_eq_left']
      cases hu : p.ty.isUntyped
      · simp only [Bool.false_eq_true, ↓reduceIte]
        cases hp : parseOut p.ty with
        | error o =>
          have hne := parseOut_error_ne_ok p.ty o hp
          have : ∀ v, p.ty ≠ .parsed v := by
            intro v hv; rw [hv] at hp; simp [parseOut] at hp
          simp [hne, this]
        | ok v =>
          have hv := (parseOut_ok_iff p.ty v).mp hp
          simp only [hv, DT.parsed.injEq, exists_eq_left']
          cases annEq a v <;> simp [excParamType]
      · have : ∀ v, p.ty ≠ .parsed v := by
          intro v hv; rw [hv] at hu; simp [DT.isUntyped] at hu
        simp [this, excMatch]
    · simp [excMatch]


theorem filter_sdoc (f : FnD) (d : Doc) (n : Sym) :
    (sdocOf f d).params.filter (fun p => p.name == n) =
      (d.params.filter (fun p => p.name == n)).map (fun p => (⟨p.name, p.ty.meaning⟩ : SParam)) := by
  simp only [sdocOf]
  induction d.params with
  | nil => rfl
  | cons p ps ih =>
    simp only [List.map_cons, List.filter_cons]
    split <;> simp [ih]

theorem count_names (ps : List DocParam) (n : Sym) :
    (ps.map (fun p => p.name)).count n = (ps.filter (fun p => p.name == n)).length := by
  induction ps with
  | nil => rfl
  | cons p ps ih =>
    simp only [List.map_cons, List.count_cons, List.filter_cons, ih]
    split <;> simp_all

theorem key_unique (anns : List (Sym × Val)) (hnd : (anns.map (fun na => na.1)).Nodup) (x y : Sym × Val)
    (hx : x ∈ anns) (hy : y ∈ anns) (h : x.1 = y.1) : x = y := by
  induction anns with
  | nil => simp at hx
  | cons z zs ih =>
    simp only [List.map_cons, List.nodup_cons, List.mem_map, not_exists, not_and] at hnd
    simp only [List.mem_cons] at hx hy
    rcases hx with rfl | hx <;> rcases hy with rfl | hy
    · rfl
    · exact absurd h.symm (hnd.1 y hy)
    · exact absurd h (hnd.1 x hx)
    · exact ih hnd.2 hx hy

/-- the count comparison plus the per-parameter loop say exactly: every annotated parameter is documented once, nothing
    else is documented, and the types are equal -/
theorem params_iff (f : FnD) (d : Doc) (hs : SigOk f) :
    (d.params.length = f.anns.length ∧ ParamsOk d f.anns) ↔
      ((∀ na ∈ f.anns, ((sdocOf f d).params.filter (fun p => p.name == na.1)).length = 1) ∧
       (∀ p ∈ (sdocOf f d).params, ∃ na ∈ f.anns, na.1 = p.name ∧ typeMatches na.2 p.ty = true)) := by
  constructor
  · rintro ⟨hlen, hpo⟩
    have hcount : ∀ n ∈ f.anns.map (fun na => na.1), (d.params.map (fun p => p.name)).count n = 1 := by
      intro n hn
      obtain ⟨na, hna, rfl⟩ := List.mem_map.mp hn
      obtain ⟨p, hp, _⟩ := hpo na hna
      rw [count_names, hp]; rfl
    refine ⟨?_, ?_⟩
    · intro na hna
      obtain ⟨p, hp, _⟩ := hpo na hna
      rw [filter_sdoc, hp]; rfl
    · intro sp hsp
      simp only [sdocOf, List.mem_map] at hsp
      obtain ⟨p, hp, rfl⟩ := hsp
      have hmem := pigeon_mem _ _ hs hcount (by simpa using hlen)
        p.name (List.mem_map.mpr ⟨p, hp, rfl⟩)
      obtain ⟨na, hna, hname⟩ := List.mem_map.mp hmem
      obtain ⟨q, hq, v, hv, heq⟩ := hpo na hna
      have hpq : p ∈ d.params.filter (fun p => p.name == na.1) := by
        simp [List.mem_filter, hp, hname]
      rw [hq] at hpq
      have : p = q := by simpa using hpq
      subst this
      refine ⟨na, hna, hname, ?_⟩
      simp [hv, DT.meaning, typeMatches, heq, annEq_symm v na.2]
  · rintro ⟨ha, hb⟩
    have hcount : ∀ n ∈ f.anns.map (fun na => na.1), (d.params.map (fun p => p.name)).count n = 1 := by
      intro n hn
      obtain ⟨na, hna, rfl⟩ := List.mem_map.mp hn
      have := ha na hna
      rw [filter_sdoc, List.length_map] at this
      rw [count_names]; exact this
    have hmem : ∀ x ∈ d.params.map (fun p => p.name), x ∈ f.anns.map (fun na => na.1) := by
      intro x hx
      obtain ⟨p, hp, rfl⟩ := List.mem_map.mp hx
      obtain ⟨na, hna, hname, _⟩ := hb ⟨p.name, p.ty.meaning⟩ (by simp only [sdocOf, List.mem_map]; exact ⟨p, hp, rfl⟩)
      exact List.mem_map.mpr ⟨na, hna, hname⟩
    refine ⟨by simpa using pigeon_len _ _ hs hcount hmem, ?_⟩
    intro na hna
    have h1 := ha na hna
    rw [filter_sdoc, List.length_map] at h1
    obtain ⟨p, hp⟩ := List.length_eq_one_iff.mp h1
    refine ⟨p, hp, ?_⟩
    have hpm : p ∈ d.params.filter (fun p => p.name == na.1) := by rw [hp]; simp
    rw [List.mem_filter] at hpm
    obtain ⟨na', hna', hname', htm⟩ := hb ⟨p.name, p.ty.meaning⟩ (by simp only [sdocOf, List.mem_map]; exact ⟨p, hpm.1, rfl⟩)
    have hpn : p.name = na.1 := by simpa using hpm.2
    have : na' = na := key_unique f.anns hs na' na hna' hna (by simp only at hname'; rw [hname', hpn])
    subst this
    simp only [typeMatches] at htm
    cases hm : p.ty.meaning with
    | none => simp [hm] at htm
    | some v =>
      simp only [hm, Bool.and_eq_true] at htm
      exact ⟨v, (meaning_eq_some p.ty v).mp hm, htm.1⟩

/-- **the check accepts exactly the consistent docstrings** (model of `_check_docstring` vs the specification) -/
theorem check_ok_iff_consistent (f : FnD) (d : Doc) (hs : SigOk f) :
    checkDocstring f d = .ok ↔ Consistent f (sdocOf f d) := by
  have hflag : completeCalledBeforeLoop = true := by decide
  unfold checkDocstring Consistent
  simp only [hflag, ↓reduceIte]
  constructor
  · intro h
    cases hc : assertComplete f d with
    | ok =>
      obtain ⟨hraw, hlen, hret⟩ := (assertComplete_ok_iff f d).mp hc
      simp only [hc] at h
      cases hr : checkReturn f d with
      | ok =>
        simp only [hr] at h
        obtain ⟨ha, hb⟩ := (params_iff f d hs).mp ⟨hlen, (checkParams_ok_iff d f.anns).mp h⟩
        exact ⟨by simp [sdocOf, hraw], ha, hb, (checkReturn_ok_iff f d hret).mp hr⟩
      | raised c => simp [hr] at h
      | escaped k => simp [hr] at h
    | raised c => simp [hc] at h
    | escaped k => simp [hc] at h
  · rintro ⟨hp, ha, hb, hret⟩
    obtain ⟨hlen, hpo⟩ := (params_iff f d hs).mpr ⟨ha, hb⟩
    have hraw : f.rawDoc = .text := by simpa [sdocOf] using hp
    have hsome : d.returns.isSome = (returnedType f).isSome := by
      unfold returnsOk sdocOf at hret
      cases h1 : returnedType f <;> cases h2 : d.returns <;> simp [h1, h2] at hret ⊢
    have hc : assertComplete f d = .ok := (assertComplete_ok_iff f d).mpr ⟨hraw, hlen, hsome⟩
    have hr : checkReturn f d = .ok := (checkReturn_ok_iff f d hsome).mpr hret
    simp [hc, hr, (checkParams_ok_iff d f.anns).mpr hpo]

-- a consistent docstring (other documentation order, `None | int` for `Optional[int]`) and six single edits of it
example : checkDocstring exFn exDoc = .ok ∧ Consistent exFn (sdocOf exFn exDoc) := by decide
example : [exDocBuiltin, exDocRenamed, exDocDup, exDocNoReturns, exDocUntyped, exDocSyntax].all (fun d =>
    decide (checkDocstring exFn d ≠ .ok) && decide (¬ Consistent exFn (sdocOf exFn d))) = true := by decide

/-! ## the property, clause by clause (layer A: for every signature and every parsed docstring) -/

theorem applies_iff_trigger (req : Bool) (f : FnD) (d : Doc) :
    trigger true req d.params.length = true ↔ Applies req (sdocOf f d) := by
  rw [trigger_spec]
  unfold Applies sdocOf
  cases req <;> cases hd : d.params <;> simp

/-- **C19, "if"**: a docstring consistent with the signature is accepted: `pedantic.decorator` returns the wrapper -/
theorem consistent_accepted (env : Env) (req : Bool) (f : FnD) (d : Doc) (hen : env.enabled = true) (hs : SigOk f)
    (hc : Consistent f (sdocOf f d)) : decorator env req f d = .wrapper := by
  unfold decorator
  simp only [hen, Bool.not_true, Bool.and_false, Bool.false_eq_true, ↓reduceIte, (check_ok_iff_consistent f d hs).mpr hc]
  split <;> rfl

/-- **C19, "only if"**: when docstring checking applies, whatever is accepted is consistent with the signature -/
theorem accepted_consistent (env : Env) (req : Bool) (f : FnD) (d : Doc) (hen : env.enabled = true)
    (hp : env.parserInstalled = true) (hs : SigOk f) (happ : Applies req (sdocOf f d))
    (h : decorator env req f d = .wrapper) : Consistent f (sdocOf f d) := by
  have hrun : checkRunsBeforeWrapperIsBuilt = true := by decide
  have htr := (applies_iff_trigger req f d).mpr happ
  unfold decorator at h
  simp only [hen, hp, hrun, htr, Bool.not_true, Bool.and_false, Bool.false_eq_true, ↓reduceIte, Bool.and_self] at h
  apply (check_ok_iff_consistent f d hs).mp
  cases hck : checkDocstring f d <;> simp [hck] at h ⊢

/-- both directions at once -/
theorem accepts_iff_consistent (env : Env) (req : Bool) (f : FnD) (d : Doc) (hen : env.enabled = true)
    (hp : env.parserInstalled = true) (hs : SigOk f) (happ : Applies req (sdocOf f d)) :
    decorator env req f d = .wrapper ↔ Consistent f (sdocOf f d) :=
  ⟨accepted_consistent env req f d hen hp hs happ, consistent_accepted env req f d hen hs⟩

-- the hypotheses hold and the wrapper is returned
example : Consistent exFn (sdocOf exFn exDoc) ∧ Applies false (sdocOf exFn exDoc) ∧
    decorator ⟨true, true⟩ false exFn exDoc = .wrapper := by decide

/-- when checking does not apply (`@pedantic`, no documented parameter) nothing is checked -/
theorem not_applies_accepted (env : Env) (f : FnD) (d : Doc) (hn : ¬ Applies false (sdocOf f d)) :
    decorator env false f d = .wrapper ∨ decorator env false f d = .original := by
  have : trigger env.parserInstalled false d.params.length = false := by
    rw [trigger_spec]
    have : d.params = [] := by
      unfold Applies sdocOf at hn; simp at hn; exact hn
    simp [this]
  unfold decorator
  simp only [this, Bool.and_false, Bool.false_eq_true, ↓reduceIte]
  split <;> simp

-- `@pedantic def f(): pass` without docstring passes; with `require_docstring` it does not (below); disabled: `f` comes back
example : ¬ Applies false (sdocOf ⟨[], Option.none, .none⟩ ⟨[], Option.none⟩) ∧
    decorator ⟨true, true⟩ false ⟨[], Option.none, .none⟩ ⟨[], Option.none⟩ = .wrapper := by decide
example : decorator ⟨false, true⟩ true ⟨[], Option.none, .none⟩ ⟨[], Option.none⟩ = .original := by decide

/-- documented types whose evaluation ends in a value or in an `Exception`: everything except a `BaseException` such as
    the `SystemExit` of the "type" `exit()` (and the expressions outside the modelled fragment) -/
def DT.clean : DT → Bool
  | .evalError .systemExit => false
  | .evalError .unmodelled => false
  | _ => true

def Evaluable (d : Doc) : Prop :=
  (∀ p ∈ d.params, p.ty.clean = true) ∧ (∀ n ty, d.returns = some (n, ty) → ty.clean = true ∧ ty.isUntyped = false)

theorem parseOut_clean (ty : DT) (hc : ty.clean = true) (hu : ty.isUntyped = false) (o : Out) (h : parseOut ty = .error o) :
    o = docExc := by
  cases ty with
  | parsed v => simp [parseOut] at h
  | untyped => simp [DT.isUntyped] at hu
  | typingPrefixed => simp only [parseOut, Except.error.injEq] at h; subst h; decide
  | nameError => simp only [parseOut, Except.error.injEq] at h; subst h; decide
  | evalError k =>
    cases k <;> simp only [parseOut, Except.error.injEq, DT.clean] at h hc <;> first | (subst h; decide) | (simp at hc)

theorem checkReturn_cases (f : FnD) (d : Doc) (he : Evaluable d) (hc : d.returns.isSome = (returnedType f).isSome) :
    checkReturn f d = .ok ∨ checkReturn f d = docExc := by
  unfold checkReturn
  unfold returnedType at hc
  rcases hf : f.ret with _ | _ | r
  · simp
  · simp [returnBranch_spec, paramBranch_spec]
  · cases hd : d.returns with
    | none => simp [hf, hd] at hc
    | some nt =>
      obtain ⟨n, ty⟩ := nt
      obtain ⟨hcl, hun⟩ := he.2 n ty hd
      simp only [returnBranch_spec, Option.isNone_some, Bool.not_false, Bool.and_self, ↓reduceIte, returnArgsBad_spec]
      by_cases hn : n = 2
      · subst hn
        have hidx : ¬ (2 ≤ returnTypeIndex) := by decide
        simp only [ne_eq, not_true_eq_false, decide_false, Bool.false_eq_true, ↓reduceIte, hidx, returnTypeBad_spec]
        cases hp : parseOut ty with
        | error o => right; exact parseOut_clean ty hcl hun o hp
        | ok v => cases annEq v r <;> simp [excReturnType]
      · simp [hn, excReturnArgs]

theorem checkParams_cases (d : Doc) (he : ∀ p ∈ d.params, p.ty.clean = true) :
    ∀ anns, checkParams d anns = .ok ∨ checkParams d anns = docExc := by
  intro anns
  induction anns with
  | nil => simp [checkParams]
  | cons na rest ih =>
    obtain ⟨n, a⟩ := na
    simp only [checkParams, returnBranch_spec, paramBranch_spec, Bool.false_and, Bool.false_eq_true, ↓reduceIte,
      Bool.not_false, matchBad_spec]
    generalize hm : d.params.filter (fun p => p.name == n) = m
    rcases m with _ | ⟨p, _ | ⟨q, more⟩⟩
    · simp [excMatch]
    · have hpm : p ∈ d.params := by
        have : p ∈ d.params.filter (fun p => p.name == n) := by rw [hm]; simp
        exact (List.mem_filter.mp this).1
      simp only [List.length_cons, List.length_nil, Nat.zero_add, ne_eq, not_true_eq_false, decide_false, Bool.false_or,
        paramTypeBad_spec]
      cases hu : p.ty.isUntyped
      · simp only [Bool.false_eq_true, ↓reduceIte]
        cases hp : parseOut p.ty with
        | error o => right; exact parseOut_clean p.ty (he p hpm) hu o hp
        | ok v =>
          cases hav : annEq a v
          · simp [hav, excParamType]
          · simpa [hav] using ih
      · simp [excMatch]
    · simp [excMatch]

/-- **every rejection is a PedanticDocstringException** (for docstrings whose documented types evaluate or raise an
    `Exception`) -/
theorem every_rejection_is_docstring_exception (f : FnD) (d : Doc) (he : Evaluable d) :
    checkDocstring f d = .ok ∨ checkDocstring f d = docExc := by
  have hflag : completeCalledBeforeLoop = true := by decide
  unfold checkDocstring
  simp only [hflag, ↓reduceIte]
  rcases assertComplete_cases f d with hc | hc
  · obtain ⟨_, _, hret⟩ := (assertComplete_ok_iff f d).mp hc
    simp only [hc]
    rcases checkReturn_cases f d he hret with hr | hr
    · simp only [hr]; exact checkParams_cases d he.1 f.anns
    · simp [hr]
  · simp [hc]

example : Evaluable exDocSyntax := by
  refine ⟨?_, ?_⟩
  · decide
  · intro n ty h; cases h; decide
example : checkDocstring exFn exDocSyntax = docExc := by decide

/-- the statement without the guard … -/
def every_rejection_is_docstring_exception_full : Prop :=
  ∀ (f : FnD) (d : Doc), checkDocstring f d = .ok ∨ checkDocstring f d = docExc

/-- … is false: the `except` clauses around `eval` name NameError and Exception, so a documented "type" whose evaluation
    raises a BaseException that is no Exception (`p (exit()): …`) lets SystemExit through -/
theorem every_rejection_is_docstring_exception_full_fails : ¬ every_rejection_is_docstring_exception_full := by
  intro h
  have := h ⟨[(100, .cls sInt)], some Option.none, .text⟩ ⟨[⟨100, .evalError .systemExit⟩], Option.none⟩
  revert this
  decide

/-- **a required but missing docstring** raises PedanticDocstringException (`pedantic_require_docstring`) -/
theorem required_missing_docstring (env : Env) (f : FnD) (d : Doc) (hen : env.enabled = true)
    (hp : env.parserInstalled = true) (hm : f.rawDoc ≠ .text) :
    decoratorRequire env f d = .raised docExc := by
  have hrun : checkRunsBeforeWrapperIsBuilt = true := by decide
  have hflag : completeCalledBeforeLoop = true := by decide
  have hreq : requireShortcutFlag = true := by decide
  have hc : assertComplete f d = docExc := by
    unfold assertComplete
    simp only [completeTest1_spec]
    cases hr : f.rawDoc <;> simp [hr, completeExc1] at hm ⊢
  unfold decoratorRequire decorator
  simp only [hen, hp, hrun, hreq, trigger_spec, Bool.not_true, Bool.and_false, Bool.false_eq_true, ↓reduceIte,
    Bool.true_or, Bool.and_self, checkDocstring, hflag, hc]

-- `@pedantic_require_docstring def f(): pass`
example : decoratorRequire ⟨true, true⟩ ⟨[], Option.none, .none⟩ ⟨[], Option.none⟩ = .raised docExc := by decide

/-- the same through `pedantic_class_require_docstring`: a method without docstring makes the class decoration fail -/
theorem required_missing_docstring_class (env : Env) (f : FnD) (d : Doc) (rest : List (FnD × Doc))
    (hen : env.enabled = true) (hp : env.parserInstalled = true) (hm : f.rawDoc ≠ .text) :
    decorateClass env ((f, d) :: rest) = .raised docExc := by
  have hcls : classShortcutUsesRequireDocstring = true := by decide
  simp [decorateClass, hen, hcls, required_missing_docstring env f d hen hp hm]

/-- **raised at decoration**: when checking applies and the docstring is not consistent, `pedantic.decorator` does not
    return: an exception (a PedanticDocstringException for evaluable docstrings) leaves it before any wrapper exists, so
    the function cannot be called -/
theorem raised_at_decoration (env : Env) (req : Bool) (f : FnD) (d : Doc) (hen : env.enabled = true)
    (hp : env.parserInstalled = true) (hs : SigOk f) (happ : Applies req (sdocOf f d))
    (hn : ¬ Consistent f (sdocOf f d)) :
    (∃ o, o ≠ .ok ∧ decorator env req f d = .raised o) ∧ (Evaluable d → decorator env req f d = .raised docExc) := by
  have hrun : checkRunsBeforeWrapperIsBuilt = true := by decide
  have htr := (applies_iff_trigger req f d).mpr happ
  have hne : checkDocstring f d ≠ .ok := fun h => hn ((check_ok_iff_consistent f d hs).mp h)
  have hdec : decorator env req f d = .raised (checkDocstring f d) := by
    unfold decorator
    cases hck : checkDocstring f d <;> simp_all
  refine ⟨⟨_, hne, hdec⟩, ?_⟩
  intro he
  rcases every_rejection_is_docstring_exception f d he with h | h
  · exact absurd h hne
  · rw [hdec, h]

-- every single edit: checking applies, the docstring is inconsistent, PedanticDocstringException leaves `decorator`
example : [exDocBuiltin, exDocRenamed, exDocDup, exDocNoReturns, exDocUntyped, exDocSyntax].all (fun d =>
    decide (Applies false (sdocOf exFn d)) && decide (¬ Consistent exFn (sdocOf exFn d)) &&
    decide (decorator ⟨true, true⟩ false exFn d = .raised docExc)) = true := by decide

/-- the decorator raises only through the docstring check, and only when checking applies -/
theorem raised_only_by_check (env : Env) (req : Bool) (f : FnD) (d : Doc) (o : Out)
    (h : decorator env req f d = .raised o) :
    o = checkDocstring f d ∧ o ≠ .ok ∧ trigger env.parserInstalled req d.params.length = true := by
  unfold decorator at h
  split at h
  · cases h
  · split at h
    · rename_i htr
      cases hck : checkDocstring f d <;> simp [hck] at h <;> subst h <;> simp_all
    · cases h


/-! ## layer B: from the docstring as written to the verdict -/

/-- **guard**: the evaluation context the library builds gives every documented type the same verdict as its meaning in
    the module's namespace `ns` (the author's reading) -/
def ctxFaithful (ns : Ctx) (f : FnD) (i : Intended) : Bool :=
  i.params.all (fun p => f.anns.all (fun na => na.1 != p.name ||
    (typeMatches na.2 (parseDocumentedType (ctxAt (ctxAfterReturn f) p.name f.anns) p.ty).meaning ==
     typeMatches (resolveAnn ns na.2) (meaningIn ns p.ty)))) &&
  (match returnedType f, i.returns with
   | some r, some (some t) =>
     typeMatches r (parseDocumentedType (ctxAfterReturn f) (some t)).meaning == typeMatches (resolveAnn ns r) (meaningIn ns (some t))
   | _, _ => true)

theorem filter_len_map (ps : List RawParam) (g h : RawParam → Option Val) (n : Sym) :
    ((ps.map (fun p => (⟨p.name, g p⟩ : SParam))).filter (fun p => p.name == n)).length =
    ((ps.map (fun p => (⟨p.name, h p⟩ : SParam))).filter (fun p => p.name == n)).length := by
  induction ps with
  | nil => rfl
  | cons p ps ih =>
    simp only [List.map_cons, List.filter_cons]
    split <;> simp [ih]

/-- under the guard, the model's view of the parsed docstring and the author's view of the written docstring are
    consistent with the signature at the same time -/
theorem views_agree (ns : Ctx) (f : FnD) (i : Intended) (h : ctxFaithful ns f i = true) :
    Consistent f (sdocOf f (annotate f (rawOf i))) ↔ Consistent (resolveSig ns f) (specDoc ns f i) := by
  simp only [ctxFaithful, Bool.and_eq_true, List.all_eq_true, Bool.or_eq_true, bne_iff_ne, ne_eq, beq_iff_eq] at h
  obtain ⟨hpar, hret⟩ := h
  have hpar' : ∀ p ∈ i.params, ∀ na ∈ f.anns, na.1 = p.name →
      typeMatches na.2 (parseDocumentedType (ctxAt (ctxAfterReturn f) p.name f.anns) p.ty).meaning =
        typeMatches (resolveAnn ns na.2) (meaningIn ns p.ty) := by
    intro p hp na hna hn
    rcases hpar p hp na hna with h | h
    · exact absurd hn h
    · exact h
  unfold Consistent
  have e1 : (sdocOf f (annotate f (rawOf i))).present = (specDoc ns f i).present := rfl
  have e2 : ∀ n, ((sdocOf f (annotate f (rawOf i))).params.filter (fun p => p.name == n)).length =
      ((specDoc ns f i).params.filter (fun p => p.name == n)).length := by
    intro n
    simp only [sdocOf, annotate, rawOf, specDoc, List.map_map]
    exact filter_len_map i.params _ _ n
  have e3 : (∀ p ∈ (sdocOf f (annotate f (rawOf i))).params, ∃ na ∈ f.anns, na.1 = p.name ∧ typeMatches na.2 p.ty = true) ↔
      (∀ p ∈ (specDoc ns f i).params, ∃ na ∈ (resolveSig ns f).anns, na.1 = p.name ∧ typeMatches na.2 p.ty = true) := by
    simp only [sdocOf, annotate, rawOf, specDoc, resolveSig, List.map_map, List.mem_map, Function.comp]
    constructor
    · rintro hA sp ⟨q, hq, rfl⟩
      obtain ⟨na, hna, hn, ht⟩ := hA _ ⟨q, hq, rfl⟩
      refine ⟨(na.1, resolveAnn ns na.2), ⟨na, hna, rfl⟩, hn, ?_⟩
      simp only at hn ht ⊢
      rw [← hpar' q hq na hna hn]; exact ht
    · rintro hB sp ⟨q, hq, rfl⟩
      obtain ⟨na', ⟨na, hna, rfl⟩, hn, ht⟩ := hB _ ⟨q, hq, rfl⟩
      refine ⟨na, hna, hn, ?_⟩
      simp only at hn ht ⊢
      rw [hpar' q hq na hna hn]; exact ht
  have e4 : returnsOk f (sdocOf f (annotate f (rawOf i))) = returnsOk (resolveSig ns f) (specDoc ns f i) := by
    have hrt : returnedType (resolveSig ns f) = (returnedType f).map (resolveAnn ns) := by
      unfold returnedType resolveSig
      rcases f.ret with _ | _ | r <;> rfl
    unfold returnsOk
    rw [hrt]
    simp only [sdocOf, annotate, rawOf, specDoc, Option.map_map]
    rcases hr : returnedType f with _ | r <;> rcases hi : i.returns with _ | _ | t <;>
      simp [hr, hi, typeMatches, meaningIn] at hret ⊢
    exact hret
  rw [e1, e3, e4]
  constructor
  · rintro ⟨a, b, c, d⟩
    refine ⟨a, ?_, c, d⟩
    intro na hna
    simp only [resolveSig, List.mem_map] at hna
    obtain ⟨na0, hna0, rfl⟩ := hna
    rw [← e2]; exact b na0 hna0
  · rintro ⟨a, b, c, d⟩
    refine ⟨a, ?_, c, d⟩
    intro na hna
    rw [e2]
    exact b (na.1, resolveAnn ns na.2) (by simp only [resolveSig, List.mem_map]; exact ⟨na, hna, rfl⟩)

theorem applies_views (req : Bool) (ns : Ctx) (f : FnD) (i : Intended) :
    Applies req (sdocOf f (annotate f (rawOf i))) ↔ Applies req (specDoc ns f i) := by
  unfold Applies sdocOf annotate rawOf specDoc
  cases i.params <;> simp

/-- **C19 as a whole** (what one would like to say about every written docstring `i`, its parse `r` and every module
    namespace) -/
def C19_full : Prop :=
  ∀ (req : Bool) (f : FnD) (i : Intended) (r : RawDocstring) (ns : Ctx), SigOk f → Applies req (specDoc ns f i) →
    (decorateRaw ⟨true, true⟩ req f r = .wrapper ↔ Consistent (resolveSig ns f) (specDoc ns f i)) ∧
    (decorateRaw ⟨true, true⟩ req f r = .wrapper ∨ decorateRaw ⟨true, true⟩ req f r = .raised docExc)

/-- **C19, proved part**: if `docstring_parser` returns the docstring as written (`r = rawOf i`), the evaluation context
    is faithful and no documented "type" raises a BaseException, then decoration succeeds iff the written docstring is
    consistent with the signature, and otherwise raises PedanticDocstringException -/
theorem C19_partial (req : Bool) (f : FnD) (i : Intended) (ns : Ctx) (hs : SigOk f)
    (hg : ctxFaithful ns f i = true) (he : Evaluable (annotate f (rawOf i))) (happ : Applies req (specDoc ns f i)) :
    (decorateRaw ⟨true, true⟩ req f (rawOf i) = .wrapper ↔ Consistent (resolveSig ns f) (specDoc ns f i)) ∧
    (decorateRaw ⟨true, true⟩ req f (rawOf i) = .wrapper ∨ decorateRaw ⟨true, true⟩ req f (rawOf i) = .raised docExc) := by
  have happ' := (applies_views req ns f i).mpr happ
  refine ⟨?_, ?_⟩
  · unfold decorateRaw
    rw [accepts_iff_consistent ⟨true, true⟩ req f _ rfl rfl hs happ', views_agree ns f i hg]
  · unfold decorateRaw
    by_cases hc : Consistent f (sdocOf f (annotate f (rawOf i)))
    · left; exact consistent_accepted _ req f _ rfl hs hc
    · right; exact (raised_at_decoration ⟨true, true⟩ req f _ rfl rfl hs happ' hc).2 he


-- the hypotheses of `C19_partial` hold for `def f(p0: My | None) -> Optional[int]` documented `p0 (Optional[My])` /
-- `Returns: Optional[int]` in a module defining `My`, and the docstring is accepted (`pool_consistent_accepted` below: for
-- the whole annotation pool)
example :
    let f : FnD := ⟨[(2000, .union false [.cls 1000, .cls sNoneType])], some (some (.union true [.cls sInt, .cls sNoneType])), .text⟩
    let i : Intended := ⟨[⟨2000, some ⟨"Optional[My]", some (.sub (.name 25) [.name 1000])⟩⟩],
      some (some ⟨"Optional[int]", some (.sub (.name 25) [.name 0])⟩)⟩
    ctxFaithful [(1000, .cls 1000)] f i = true ∧ decorateRaw ⟨true, true⟩ false f (rawOf i) = .wrapper ∧
    Applies false (specDoc [(1000, .cls 1000)] f i) := by decide

/-! ### the open region: `docstring_parser` does not return the Returns entry as written -/

/-- `def f(p0: int) -> Optional[int]` -/
def witnessFn : FnD := ⟨[(1000, .cls sInt)], some (some (.union true [.cls sInt, .cls sNoneType])), .text⟩
/-- `Args: p0 (int): …` / `Returns: int | None: …` as written -/
def witnessWritten : Intended :=
  ⟨[⟨1000, some ⟨"int", some (.name 0)⟩⟩], some (some ⟨"int | None", some (.bor (.name 0) .none)⟩)⟩
/-- what docstring_parser 0.16 returns for it: `returns.args == ['returns']` (the type contains a blank and does not end in `]`) -/
def witnessParsed : RawDocstring := ⟨[⟨1000, some ⟨"int", some (.name 0)⟩⟩], some (1, Option.none)⟩

/-- the parser did not return what was written … -/
theorem witness_parser_unfaithful : sameRaw witnessParsed (rawOf witnessWritten) = false := by decide
/-- … the written docstring is consistent with the signature … -/
theorem witness_consistent : Consistent (resolveSig [] witnessFn) (specDoc [] witnessFn witnessWritten) := by decide
/-- … and the library rejects it (with `Optional[int]: …` in the Returns section it is accepted) -/
theorem witness_rejected : decorateRaw ⟨true, true⟩ false witnessFn witnessParsed = .raised docExc := by decide

/-- **negation witness**: C19 does not hold for every (written docstring, parse) pair: known finding
    `C19-returns-type-with-blank-not-recognised` -/
theorem C19_full_fails : ¬ C19_full := by
  intro h
  have := (h false witnessFn witnessWritten witnessParsed [] (by unfold SigOk; decide) (by decide)).1
  rw [witness_rejected] at this
  exact absurd (this.mpr witness_consistent) (by decide)

/-! ### the annotation pool of the correspondence run, through context building and evaluation (non-vacuity of layer B) -/

/-- the module's own names: `class My`, `T = TypeVar('T')`, `class Other` -/
def poolNs : Ctx := [(1000, .cls 1000), (1001, .tvar 1001), (1002, .cls 1002)]

/-- annotation (as the typing object) and its equal spellings in a docstring (text and syntax tree) -/
def pool : List (Val × List TypeText) := [
  -- int
  (.cls 0,
   [⟨"int", some (.name 0)⟩]),
  -- str
  (.cls 1,
   [⟨"str", some (.name 1)⟩]),
  -- List[int]
  (.talias .List [.cls 0],
   [⟨"List[int]", some (.sub (.name 20) [.name 0])⟩]),
  -- Dict[str, int]
  (.talias .Dict [.cls 1, .cls 0],
   [⟨"Dict[str, int]", some (.sub (.name 21) [.name 1, .name 0])⟩]),
  -- Optional[int]
  (.union true [.cls 0, .cls 10],
   [⟨"Optional[int]", some (.sub (.name 25) [.name 0])⟩, ⟨"Union[int, None]", some (.sub (.name 26) [.name 0, .none])⟩, ⟨"Union[None, int]", some (.sub (.name 26) [.none, .name 0])⟩, ⟨"int | None", some (.bor (.name 0) (.none))⟩, ⟨"None | int", some (.bor (.none) (.name 0))⟩]),
  -- Union[int, str]
  (.union true [.cls 0, .cls 1],
   [⟨"Union[int, str]", some (.sub (.name 26) [.name 0, .name 1])⟩, ⟨"Union[str, int]", some (.sub (.name 26) [.name 1, .name 0])⟩, ⟨"int | str", some (.bor (.name 0) (.name 1))⟩, ⟨"Union[int, str, int]", some (.sub (.name 26) [.name 0, .name 1, .name 0])⟩]),
  -- My
  (.cls 1000,
   [⟨"My", some (.name 1000)⟩]),
  -- List[My]
  (.talias .List [.cls 1000],
   [⟨"List[My]", some (.sub (.name 20) [.name 1000])⟩]),
  -- Tuple[int, ...]
  (.talias .Tuple [.cls 0, .ellipsis],
   [⟨"Tuple[int, ...]", some (.sub (.name 22) [.name 0, .ellipsis])⟩]),
  -- Callable[[int], str]
  (.talias .Callable [.cls 0, .cls 1],
   [⟨"Callable[[int], str]", some (.sub (.name 27) [.list [.name 0], .name 1])⟩]),
  -- list[int]
  (.balias 4 [.cls 0],
   [⟨"list[int]", some (.sub (.name 4) [.name 0])⟩]),
  -- int | None
  (.union false [.cls 0, .cls 10],
   [⟨"int | None", some (.bor (.name 0) (.none))⟩, ⟨"Optional[int]", some (.sub (.name 25) [.name 0])⟩, ⟨"Union[None, int]", some (.sub (.name 26) [.none, .name 0])⟩]),
  -- Any
  (.special .Any,
   [⟨"Any", some (.name 29)⟩]),
  -- Literal[1, 2]
  (.talias .Literal [.int 1, .int 2],
   [⟨"Literal[1, 2]", some (.sub (.name 28) [.int 1, .int 2])⟩, ⟨"Literal[2, 1]", some (.sub (.name 28) [.int 2, .int 1])⟩]),
  -- T
  (.tvar 1001,
   [⟨"T", some (.name 1001)⟩]),
  -- 'My'
  (.str 1000,
   [⟨"My", some (.name 1000)⟩]),
  -- Type[My]
  (.talias .Type [.cls 1000],
   [⟨"Type[My]", some (.sub (.name 24) [.name 1000])⟩]),
  -- float
  (.cls 2,
   [⟨"float", some (.name 2)⟩]),
  -- bool
  (.cls 3,
   [⟨"bool", some (.name 3)⟩]),
  -- Dict[str, List[Optional[My]]]
  (.talias .Dict [.cls 1, .talias .List [.union true [.cls 1000, .cls 10]]],
   [⟨"Dict[str, List[Optional[My]]]", some (.sub (.name 21) [.name 1, .sub (.name 20) [.sub (.name 25) [.name 1000]]])⟩, ⟨"Dict[str, List[Union[None, My]]]", some (.sub (.name 21) [.name 1, .sub (.name 20) [.sub (.name 26) [.none, .name 1000]]])⟩]),
  -- Optional[List[My]]
  (.union true [.talias .List [.cls 1000], .cls 10],
   [⟨"Optional[List[My]]", some (.sub (.name 25) [.sub (.name 20) [.name 1000]])⟩, ⟨"Union[List[My], None]", some (.sub (.name 26) [.sub (.name 20) [.name 1000], .none])⟩, ⟨"List[My] | None", some (.bor (.sub (.name 20) [.name 1000]) (.none))⟩]),
  -- My | None
  (.union false [.cls 1000, .cls 10],
   [⟨"My | None", some (.bor (.name 1000) (.none))⟩, ⟨"Optional[My]", some (.sub (.name 25) [.name 1000])⟩]),
  -- dict[str, list[int]]
  (.balias 5 [.cls 1, .balias 4 [.cls 0]],
   [⟨"dict[str, list[int]]", some (.sub (.name 5) [.name 1, .sub (.name 4) [.name 0]])⟩]),
  -- Callable[..., Any]
  (.talias .Callable [.ellipsis, .special .Any],
   [⟨"Callable[..., Any]", some (.sub (.name 27) [.ellipsis, .name 29])⟩]),
  -- Tuple[int, str]
  (.talias .Tuple [.cls 0, .cls 1],
   [⟨"Tuple[int, str]", some (.sub (.name 22) [.name 0, .name 1])⟩]),
  -- Union[int, List[str], None]
  (.union true [.cls 0, .talias .List [.cls 1], .cls 10],
   [⟨"Union[int, List[str], None]", some (.sub (.name 26) [.name 0, .sub (.name 20) [.name 1], .none])⟩, ⟨"Optional[Union[List[str], int]]", some (.sub (.name 25) [.sub (.name 26) [.sub (.name 20) [.name 1], .name 0]])⟩]),
  -- Set[T]
  (.talias .Set [.tvar 1001],
   [⟨"Set[T]", some (.sub (.name 23) [.name 1001])⟩])]


/-- `@pedantic def f(p0: <a>) -> None` documented `p0 (<t>)` -/
def paramCase (a : Val) (t : TypeText) : FnD × Intended :=
  (⟨[(2000, a)], some Option.none, .text⟩, ⟨[⟨2000, some t⟩], Option.none⟩)
/-- `@pedantic def f(p0: int) -> <a>` documented `p0 (int)` / `Returns: <t>` (as written) -/
def returnCase (a : Val) (t : TypeText) : FnD × Intended :=
  (⟨[(2000, .cls sInt)], some (some a), .text⟩, ⟨[⟨2000, some ⟨"int", some (.name 0)⟩⟩], some (some t)⟩)

def acceptedFaithfully (c : FnD × Intended) : Bool :=
  decide (decorateRaw ⟨true, true⟩ false c.1 (rawOf c.2) = .wrapper) && ctxFaithful poolNs c.1 c.2 &&
  decide (Consistent (resolveSig poolNs c.1) (specDoc poolNs c.1 c.2))

/-- every annotation of the pool, documented in every listed equal spelling, as a parameter and as the return type:
    the context the library builds is faithful, the written docstring is consistent, and the model accepts it -/
theorem pool_consistent_accepted :
    pool.all (fun ab => ab.2.all (fun t => acceptedFaithfully (paramCase ab.1 t) && acceptedFaithfully (returnCase ab.1 t))) = true := by
  decide +kernel

/-- every annotation of the pool documented with the (first) spelling of every *different* pool annotation (different after
    a forward reference is resolved) is rejected
    with PedanticDocstringException, as a parameter and as the return type -/
theorem pool_wrong_type_rejected :
    pool.all (fun ab => pool.all (fun bt => annEq (resolveAnn poolNs ab.1) (resolveAnn poolNs bt.1) || (bt.2.take 1).all (fun t =>
      decide (decorateRaw ⟨true, true⟩ false (paramCase ab.1 t).1 (rawOf (paramCase ab.1 t).2) = .raised docExc) &&
      decide (decorateRaw ⟨true, true⟩ false (returnCase ab.1 t).1 (rawOf (returnCase ab.1 t).2) = .raised docExc)))) = true := by
  decide +kernel

-- layer B: `def f(p0: My | None)` documented `p0 (Optional[My])`: the context contains `My` (fix 9f161bb)
example : decorateRaw ⟨true, true⟩ false ⟨[(2000, .union false [.cls 1000, .cls sNoneType])], some Option.none, .text⟩
    ⟨[⟨2000, some ⟨"Optional[My]", some (.sub (.name 25) [.name 1000])⟩⟩], Option.none⟩ = .wrapper := by decide
-- layer B: `p0 (List[int)` (no expression) and `p0 (List[int, str])` (TypeError) raise PedanticDocstringException (fix f4557bf)
example : decorateRaw ⟨true, true⟩ false ⟨[(2000, .cls sInt)], some Option.none, .text⟩
    ⟨[⟨2000, some ⟨"List[int", Option.none⟩⟩], Option.none⟩ = .raised docExc := by decide
example : decorateRaw ⟨true, true⟩ false ⟨[(2000, .cls sInt)], some Option.none, .text⟩
    ⟨[⟨2000, some ⟨"List[int, str]", some (.sub (.name 20) [.name 0, .name 1])⟩⟩], Option.none⟩ = .raised docExc := by decide
-- layer B: `typing.List[int]` is refused because of the needle, before any evaluation
example : decorateRaw ⟨true, true⟩ false ⟨[(2000, .talias .List [.cls sInt])], some Option.none, .text⟩
    ⟨[⟨2000, some ⟨"typing.List[int]", some (.sub (.name 5000) [.name 0])⟩⟩], Option.none⟩ = .raised docExc := by decide

/-! ### the class path -/

/-- `pedantic_class_require_docstring`: the class decoration succeeds iff every method's docstring is consistent -/
theorem class_accepts_iff (env : Env) (hen : env.enabled = true) (hp : env.parserInstalled = true) :
    ∀ (units : List (FnD × Doc)), (∀ u ∈ units, SigOk u.1) →
      (decorateClass env units = .wrapper ↔ ∀ u ∈ units, Consistent u.1 (sdocOf u.1 u.2)) := by
  have hcls : classShortcutUsesRequireDocstring = true := by decide
  have hreq : requireShortcutFlag = true := by decide
  intro units
  induction units with
  | nil => intro _; simp [decorateClass, hen]
  | cons u rest ih =>
    intro hs
    obtain ⟨f, d⟩ := u
    have hsf : SigOk f := hs (f, d) (by simp)
    have ih' := ih (fun u hu => hs u (by simp [hu]))
    have happ : Applies true (sdocOf f d) := Or.inl rfl
    have hiff := accepts_iff_consistent env true f d hen hp hsf happ
    simp only [decorateClass, hen, Bool.not_true, Bool.false_eq_true, ↓reduceIte, hcls, decoratorRequire, hreq,
      List.mem_cons, forall_eq_or_imp]
    cases hdec : decorator env true f d with
    | original =>
      exfalso
      unfold decorator at hdec
      simp only [hen, Bool.not_true, Bool.and_false, Bool.false_eq_true, ↓reduceIte] at hdec
      split at hdec
      · split at hdec <;> cases hdec
      · cases hdec
    | wrapper => simp [ih', hiff.mp hdec]
    | raised o =>
      have : ¬ Consistent f (sdocOf f d) := fun hc => by rw [hiff.mpr hc] at hdec; cases hdec
      simp [this]

theorem decorator_enabled_ne_original (env : Env) (req : Bool) (f : FnD) (d : Doc) (hen : env.enabled = true) :
    decorator env req f d ≠ .original := by
  intro hdec
  unfold decorator at hdec
  simp only [hen, Bool.not_true, Bool.and_false, Bool.false_eq_true, ↓reduceIte] at hdec
  split at hdec
  · split at hdec <;> cases hdec
  · cases hdec

/-- `pedantic_class`: the class decoration succeeds iff every method **to which docstring checking applies** (its docstring documents
    parameters) has a docstring consistent with its signature — for every class (any number of methods), whatever its base classes -/
theorem class_plain_accepts_iff (env : Env) (hen : env.enabled = true) (hp : env.parserInstalled = true) :
    ∀ (units : List (FnD × Doc)), (∀ u ∈ units, SigOk u.1) →
      (decorateClassPlain env units = .wrapper ↔
        ∀ u ∈ units, Applies false (sdocOf u.1 u.2) → Consistent u.1 (sdocOf u.1 u.2)) := by
  have hcls : plainClassShortcutUsesPedantic = true := by decide
  intro units
  induction units with
  | nil => intro _; simp [decorateClassPlain, hen]
  | cons u rest ih =>
    intro hs
    obtain ⟨f, d⟩ := u
    have hsf : SigOk f := hs (f, d) (by simp)
    have ih' := ih (fun u hu => hs u (by simp [hu]))
    simp only [decorateClassPlain, hen, Bool.not_true, Bool.false_eq_true, ↓reduceIte, hcls, List.mem_cons, forall_eq_or_imp]
    by_cases happ : Applies false (sdocOf f d)
    · have hiff := accepts_iff_consistent env false f d hen hp hsf happ
      cases hdec : decorator env false f d with
      | original => exact absurd hdec (decorator_enabled_ne_original env false f d hen)
      | wrapper => simp [ih', hiff.mp hdec]
      | raised o =>
        have : ¬ Consistent f (sdocOf f d) := fun hc => by rw [hiff.mpr hc] at hdec; cases hdec
        simp [this, happ]
    · rcases not_applies_accepted env f d happ with h | h
      · simp [h, ih', happ]
      · exact absurd h (decorator_enabled_ne_original env false f d hen)

/-- non-vacuity: a `pedantic_class` class with a method whose docstring documents no parameter (checking does not apply to it) and a
    consistently documented one is accepted; with the renamed entry of `exDocRenamed` in the second method it is rejected -/
example : ¬ Applies false (sdocOf exFn ⟨[], Option.none⟩) ∧
    decorateClassPlain ⟨true, true⟩ [(exFn, ⟨[], Option.none⟩), (exFn, exDoc)] = .wrapper ∧
    decorateClassPlain ⟨true, true⟩ [(exFn, ⟨[], Option.none⟩), (exFn, exDocRenamed)] = .raised (.raised "PedanticDocstringException") := by
  decide

/-- **every class is checked through its own methods, whatever its bases are**: `for_all_methods(..)(cls)` can return before its loop
    only for a disabled pedantic, the loop runs over `cls.__dict__` and hands every function to the decorator, and `pedantic_class`
    / `pedantic_class_require_docstring` are `for_all_methods(pedantic)` / `for_all_methods(pedantic_require_docstring)`: the
    decoration of a class derived from an already decorated class is `decorateClass` / `decorateClassPlain` of the methods it defines
    (`class_accepts_iff`, `class_plain_accepts_iff`).  Generated from class_decorators.py on every run. -/
theorem for_all_methods_checks_every_own_method :
    forAllMethodsEarlyReturns = [] ∧ forAllMethodsDecoratesEveryFunction = true ∧ plainClassShortcutUsesPedantic = true ∧
    classShortcutUsesRequireDocstring = true := by decide

/-! ### the source has the shape the model assumes (flags and constants read by the translator) -/

theorem docstring_source_shape :
    checkRunsBeforeWrapperIsBuilt = true ∧ disabledReturnsOriginal = true ∧ requireShortcutFlag = true ∧
    classShortcutUsesRequireDocstring = true ∧ completeNumTests = 4 ∧ completeCountsAsExpected = true ∧
    completeCalledBeforeLoop = true ∧ contextUpdatedFirst = true ∧ contextShapeAsExpected = true ∧ returnTypeIndex = 1 ∧
    typingNeedle = "typing." ∧
    [completeExc1, completeExc2, completeExc3, completeExc4, excReturnArgs, excReturnType, excMatch, excParamType,
      excTypingNeedle].all (· == "PedanticDocstringException") = true ∧
    evalHandlers.all (fun h => h.2 == "PedanticDocstringException") = true ∧
    afterHandlers .nameError evalHandlers = docExc ∧ afterHandlers .syntaxError evalHandlers = docExc ∧
    afterHandlers .typeError evalHandlers = docExc := by
  decide

/-- **which documented entries count for a parameter**: the source selects them with `p.arg_name == a` — the documented name EQUALS
    the parameter's name, as the model's `checkParams` (`p.name == n`) and the specification's `Consistent` (`p.name == na.1`) have it.
    A lookup that normalises the documented name first (`.lstrip('*')`, `.strip('_')`, `.lower()`, a prefix test …) lets an entry
    whose name is *not* the name of any parameter (`*factor` for `factor`, `Options` for `options`) stand for one: the translator then
    reports `false` here. -/
theorem param_lookup_by_exact_name : paramLookupIsNameEquality = true := by decide

/-- … and with exact names a documented entry whose name differs from every annotated parameter's name makes the docstring
    inconsistent, whatever else it says (a renamed entry — `*factor`, `factor_`, `Factor`, `fac tor`, `facto` — is never absorbed). -/
theorem renamed_entry_inconsistent (f : FnD) (s : SDoc) (p : SParam) (hp : p ∈ s.params)
    (hne : ∀ na ∈ f.anns, na.1 ≠ p.name) : ¬ Consistent f s := by
  intro h
  obtain ⟨na, hna, heq, _⟩ := h.2.2.1 p hp
  exact hne na hna heq

/-- **a near name is not absorbed by the check**: when docstring checking applies, a docstring with an entry whose name is not the
    name of an annotated parameter — however close: leading / trailing `*` or `_`, another case, a blank inside, a prefix — is never
    accepted at decoration (for every signature, every docstring, no bound on sizes).  For a variadic parameter `*args: T` the
    parameter's name is `args` (the key in `__annotations__`): `args (T)` documents it, `*args (T)` does not. -/
theorem renamed_entry_not_accepted (env : Env) (req : Bool) (f : FnD) (d : Doc) (hen : env.enabled = true)
    (hp : env.parserInstalled = true) (hs : SigOk f) (happ : Applies req (sdocOf f d))
    (p : DocParam) (hmem : p ∈ d.params) (hne : ∀ na ∈ f.anns, na.1 ≠ p.name) :
    decorator env req f d ≠ .wrapper := by
  intro h
  have hc := accepted_consistent env req f d hen hp hs happ h
  refine renamed_entry_inconsistent f (sdocOf f d) ⟨p.name, p.ty.meaning⟩ ?_ hne hc
  simp only [sdocOf, List.mem_map]
  exact ⟨p, hmem, rfl⟩

/-- the hypotheses are met by `exDocRenamed` (`a` documented under the name with code 3, everything else consistent): its second
    entry names no parameter of `exFn`, checking applies, and decoration raises -/
example : (⟨3, .parsed (.talias .List [.cls sInt])⟩ : DocParam).name ∉ exFn.anns.map (·.1) ∧
    Applies false (sdocOf exFn exDocRenamed) ∧
    decorator ⟨true, true⟩ false exFn exDocRenamed = .raised (.raised "PedanticDocstringException") := by decide

end PedVerif.Docstring
