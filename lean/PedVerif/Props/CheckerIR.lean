import PedVerif.Lemmas.CheckerIR
import PedVerif.Lemmas.CheckerEnvs
/-!
# The translated checker refines the hand-written model (tie for C01 / C02 / C08)

`PedVerif.Gen.IsInstanceIR` is `_check_type`, `_is_instance` and the helper checkers of `check_types.py`, translated statement by
statement from the current source (`harness/gen/isinstance_ir.py`); `PedVerif.CheckerIR.interpIsInstance` runs it on the
introspection record of an annotation (`intro`: what `_get_name`, `__module__`, `_is_generic`, `get_type_arguments`, … answer).

`ir_refines` / `checkType_ir_refines`: the interpretation *is* the model the theorems of C01 / C02 / C08 are about - for every
class table, oracle, annotation, value.  The corollaries restate the main theorems for the interpreted code.  What this buys:
the branch order and the guards of `_is_instance` are no longer a reading of the source by the author of the model but a
translation that is re-done on every run; the remaining assumption is `intro` (+ the meaning of the guard / action vocabulary),
and `intro`, every `if` test and the statement each activation leaves from are compared with the running code on every case
(`harness/props/_intro_common.py`).
-/
namespace PedVerif.CheckerIR
open PedVerif.Checker PedVerif.Gen.IsInstanceIR

/-- **Refinement (`_is_instance`).** -/
theorem ir_refines (env : Env) (orc : Nat → Val → Raw) (pc : Bool) (a : Ann) (v : Val) :
    (interpIsInstance env orc pc a v).raw = isInstance env orc pc a v := interp_eq_isInstance env orc pc a v

/-- **Refinement (`_check_type`).** -/
theorem checkType_ir_refines (env : Env) (orc : Nat → Val → Raw) (a : Ann) (v : Val) :
    checkTypeIR env orc a v = checkType env orc a v := checkTypeIR_eq_checkType env orc a v

/-- C01 `sound_partial`, about the interpreted code -/
theorem ir_sound_partial (env : Env) (orc : Nat → Val → Raw) (hw : WfEnv env)
    (a : Ann) (v : Val) (hs : a.strAnnOk env v = true) (hns : a.noSpecial = true) (hwf : v.wf env = true) (hp : v.iterFree = true) :
    checkTypeIR env orc a v = .accept → conforms env a v = true := by
  rw [checkType_ir_refines]; exact sound_checkType env orc hw a v hs hns hwf hp

/-- C02 `complete_partial`, about the interpreted code -/
theorem ir_complete_partial (env : Env) (orc : Nat → Val → Raw) (hw : WfEnv env) (a : Ann) (v : Val)
    (hok : a.okC env = true ∨ a = .none) (hwf : v.wf env = true) (hp : v.plain = true) :
    conforms env a v = true → checkTypeIR env orc a v = .accept := by
  rw [checkType_ir_refines]; exact complete_checkType env orc hw a v hok hwf hp

/-- C02 `verdict_exact`, about the interpreted code -/
theorem ir_verdict_exact (env : Env) (orc : Nat → Val → Raw) (hw : WfEnv env) (a : Ann) (v : Val)
    (hok : a.okC env = true ∨ a = .none) (hwf : v.wf env = true) (hp : v.plain = true) :
    checkTypeIR env orc a v = if conforms env a v then .accept else .reject := by
  rw [checkType_ir_refines]; exact exact_checkType env orc hw a v hok hwf hp

/-- C08 `contained`, about the interpreted code: whatever the annotation object does (oracle), nothing but a verdict or a
    PedanticException leaves `_check_type` -/
theorem ir_contained (env : Env) (orc : Nat → Val → Raw) (a : Ann) (v : Val) : checkTypeIR env orc a v ≠ .escape := by
  rw [checkType_ir_refines]; exact checkType_ne_escape env orc a v

/-- C08 `total`, about the interpreted code -/
theorem ir_total (env : Env) (orc : Nat → Val → Raw) (hw : WfEnv env) (a : Ann) (v : Val)
    (hok : a.okC env = true) (hwf : v.wf env = true) (hp : v.plain = true) :
    checkTypeIR env orc a v = .accept ∨ checkTypeIR env orc a v = .reject := by
  rw [ir_verdict_exact env orc hw a v (Or.inl hok) hwf hp]
  cases conforms env a v <;> simp

/-- the trace is the trace of the same run: its outcome component is the model's outcome -/
theorem trace_of_same_run (env : Env) (orc : Nat → Val → Raw) (a : Ann) (v : Val) :
    toOut (interpCheckType env orc a v).raw = checkType env orc a v ∧ interpTrace env orc a v = (interpCheckType env orc a v).trace :=
  ⟨checkType_ir_refines env orc a v, rfl⟩

/-! ### non-vacuity: the interpreter really runs the generated programs (class table `envW`: 2 int, 3 str, 4 list, 5 tuple, 7 A, 9 NT1).
    Statement ids are not mentioned (they move when the source gains a line): outcome and number of activations are. -/
-- list[int] against [1, "a"]: `_check_type` → `_is_instance` on the alias → on its conversion → `_instancecheck_iterable` → two elements
example : (interpCheckType envW (fun _ _ => .raisedOther) (.seq .pep585 .list (.cls 2)) (.coll 4 [.lit (.int 1), .lit (.str [97])])).raw
    = .ok false := by decide
example : (interpTrace envW (fun _ _ => .raisedOther) (.seq .pep585 .list (.cls 2)) (.coll 4 [.lit (.int 1), .lit (.str [97])])).length = 6 := by decide
-- … and `all(<generator>)` stops at the first failing element: one activation less when the bad element comes first
example : (interpTrace envW (fun _ _ => .raisedOther) (.seq .pep585 .list (.cls 2)) (.coll 4 [.lit (.str [97]), .lit (.int 1)])).length = 5 := by decide
-- Optional[A] against None: `_is_instance` → `_instancecheck_union` → `_check_union` → both members (`any([...])` is a list)
example : (interpTrace envW (fun _ _ => .raisedOther) (.union .optional [.cls 7, .cls 0]) (.lit .none)).length = 6 := by decide
-- the bare builtin: 'Missing type arguments', re-raised by `_check_type`
example : (interpCheckType envW (fun _ _ => .raisedOther) (.bare .list) (.coll 4 [])).raw = .raisedPed := by decide
example : (interpTrace envW (fun _ _ => .raisedOther) (.bare .list) (.coll 4 [])).length = 2 := by decide
-- an NT1 instance against the NamedTuple class NT1 (`envN`): the NamedTuple block, one activation per annotated field
example : (interpIsInstance envN (fun _ _ => .raisedOther) false (.clsF 9 [20, 21] [.cls 2, .cls 3])
    (.ntup 9 [20, 21] [.lit (.int 1), .lit (.str [])])).raw = .ok true := by decide
example : (interpIsInstance envN (fun _ _ => .raisedOther) false (.clsF 9 [20, 21] [.cls 2, .cls 3])
    (.ntup 9 [20, 21] [.lit (.int 1), .lit (.str [])])).trace.length = 3 := by decide
-- … an NT2 instance is no instance of NT1: one activation, rejected
example : interpIsInstance envN (fun _ _ => .raisedOther) false (.clsF 9 [20, 21] [.cls 2, .cls 3])
    (.ntup 10 [20, 21] [.lit (.int 1), .lit (.str [])]) = ⟨.ok false, (interpIsInstance envN (fun _ _ => .raisedOther) false
      (.clsF 9 [20, 21] [.cls 2, .cls 3]) (.ntup 10 [20, 21] [.lit (.int 1), .lit (.str [])])).trace⟩ := by decide
-- the hypotheses of the corollaries are satisfiable and the conclusions are not trivially true
example : checkTypeIR envW (fun _ _ => .raisedOther) (.tuple .typing [.cls 2, .cls 3]) (.tup 5 [.lit (.int 1), .lit (.str [])]) = .accept := by decide
example : checkTypeIR envW (fun _ _ => .raisedOther) (.tuple .typing [.cls 2, .cls 3]) (.tup 5 [.lit (.int 1)]) = .reject := by decide
example : checkTypeIR envW (fun k _ => .ok (k == 3)) (.seq .typing .list (.special 3)) (.coll 4 [.inst 0]) = .accept := by decide
-- the generated program is what runs: a program without the generic branch is not equivalent
example : (runFn (ext callDepth) "_no_such_function" { env := envW, I := {}, v := .inst 0 }).raw = .raisedOther := by decide

end PedVerif.CheckerIR
