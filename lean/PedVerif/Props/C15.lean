import PedVerif.Spec.Retry
/-!
# C15 — retry: bounded attempts, first success wins, foreign exceptions are not retried

Property theorems only.  `retry` is the model of `retry_func` instantiated with the loop shape that the
translator read from the source (`PedVerif.Gen.Retry`); the proofs below therefore re-check against what
the code says now: `<` → `<=` in the guard, a different initial counter, a missing final call or a sleep in
another place make them fail.
-/
namespace PedVerif.Retry
open PedVerif.Gen.Retry

theorem firstStop_ge (script : Nat → Outc) :
    ∀ (b i : Nat), i ≤ firstStop script b i ∧ firstStop script b i ≤ i + b := by
  intro b
  induction b with
  | zero => intro i; simp [firstStop]
  | succ b ih =>
    intro i; simp only [firstStop]
    split
    · omega
    · have := ih (i + 1); omega

theorem firstStop_isStop_or_end (script : Nat → Outc) :
    ∀ (b i : Nat), firstStop script b i = i + b ∨ isStop (script (firstStop script b i)) = true := by
  intro b
  induction b with
  | zero => intro i; simp [firstStop]
  | succ b ih =>
    intro i; simp only [firstStop]
    split
    · right; assumption
    · rcases ih (i + 1) with h | h
      · left; omega
      · right; exact h

theorem firstStop_prefix_listed (script : Nat → Outc) :
    ∀ (b i j : Nat), i ≤ j → j < firstStop script b i → isStop (script j) = false := by
  intro b
  induction b with
  | zero => intro i j h1 h2; simp [firstStop] at h2; omega
  | succ b ih =>
    intro i j h1 h2
    simp only [firstStop] at h2
    split at h2
    · omega
    · rename_i hns
      by_cases hij : i = j
      · subst hij; simpa using hns
      · exact ih (i + 1) j (by omega) h2

/-- the loop in closed form, for every fuel that covers the remaining budget -/
theorem loop_spec (script : Nat → Outc) (attempts : Int) :
    ∀ (fuel : Nat) (attempt : Int) (i : Nat), (attempts - attempt).toNat ≤ fuel →
      loop script attempts fuel attempt i =
        ⟨altTrace i (firstStop script (attempts - attempt).toNat i - i),
         resOf (script (firstStop script (attempts - attempt).toNat i))⟩ := by
  intro fuel
  induction fuel with
  | zero =>
    intro attempt i h
    have hb : (attempts - attempt).toNat = 0 := by omega
    simp [hb, firstStop, loop, afterLoop, finalCall, altTrace]
  | succ fuel ih =>
    intro attempt i h
    simp only [loop, loopGuard]
    by_cases hlt : attempt < attempts
    · simp only [hlt, decide_true, ↓reduceIte]
      have hb : (attempts - attempt).toNat = (attempts - (attempt + inc)).toNat + 1 := by
        simp only [inc]; omega
      rw [hb]
      simp only [firstStop]
      cases hs : script i with
      | ret v => simp [isStop, resOf, hs, altTrace]
      | foreign e => simp [isStop, resOf, hs, altTrace]
      | listed e =>
        simp only [isStop, Bool.false_eq_true, ↓reduceIte]
        have h' := ih (attempt + inc) (i + 1) (by simp only [inc] at hb ⊢; omega)
        rw [h']
        have hge := (firstStop_ge script (attempts - (attempt + inc)).toNat (i + 1)).1
        have hk : firstStop script (attempts - (attempt + inc)).toNat (i + 1) - i
            = (firstStop script (attempts - (attempt + inc)).toNat (i + 1) - (i + 1)) + 1 := by omega
        rw [hk]
        simp [altTrace, handlerEvents, sleepInHandler]
    · have hb : (attempts - attempt).toNat = 0 := by omega
      simp [hlt, hb, firstStop, afterLoop, finalCall, altTrace]

/-- **C15 (main statement).** For every script of outcomes and every `attempts : Int` (zero and negative
    included) the model of `retry_func` behaves as the contract says. -/
theorem retry_spec (script : Nat → Outc) (attempts : Int) : retry script attempts = spec script attempts := by
  have := loop_spec script attempts ((attempts - initAttempt).toNat + 1) initAttempt 0 (by omega)
  simpa [retry, spec, initAttempt] using this

theorem altTrace_calls : ∀ (n i : Nat), ((altTrace i n).filter (fun e => e != .sleep)).length = n + 1 := by
  intro n
  induction n with
  | zero => intro i; simp [altTrace]
  | succ n ih => intro i; simp [altTrace, ih]

theorem altTrace_sleeps : ∀ (n i : Nat), ((altTrace i n).filter (fun e => e == .sleep)).length = n := by
  intro n
  induction n with
  | zero => intro i; simp [altTrace]
  | succ n ih => intro i; simp [altTrace, ih]

/-- number of invocations = (index of the first stopping outcome within the budget) + 1 -/
theorem retry_calls (script : Nat → Outc) (attempts : Int) :
    (retry script attempts).calls = firstStop script (attempts - 1).toNat 0 + 1 := by
  rw [retry_spec]; simp [spec, Run.calls, altTrace_calls]

/-- `calls = min (k+1) (max attempts 1)` when `k` is the index of the first return / foreign exception -/
theorem retry_calls_min (script : Nat → Outc) (attempts : Int) (k : Nat)
    (hk : isStop (script k) = true) (hpre : ∀ j, j < k → isStop (script j) = false) :
    (retry script attempts).calls = min (k + 1) (max attempts 1).toNat := by
  rw [retry_calls]
  have hge := firstStop_ge script (attempts - 1).toNat 0
  rcases firstStop_isStop_or_end script (attempts - 1).toNat 0 with h | h
  · -- no stop within the budget: k must be ≥ budget
    have : ¬ k < firstStop script (attempts - 1).toNat 0 := by
      intro hlt
      have := firstStop_prefix_listed script (attempts - 1).toNat 0 k (by omega) hlt
      simp [hk] at this
    omega
  · have h1 : ¬ firstStop script (attempts - 1).toNat 0 < k := by
      intro hlt; have := hpre _ hlt; rw [h] at this; cases this
    have h2 : ¬ k < firstStop script (attempts - 1).toNat 0 := by
      intro hlt
      have := firstStop_prefix_listed script (attempts - 1).toNat 0 k (by omega) hlt
      simp [hk] at this
    omega

/-- … and `max attempts 1` invocations when every outcome is a listed exception -/
theorem retry_calls_all_listed (script : Nat → Outc) (attempts : Int)
    (hall : ∀ j, isStop (script j) = false) :
    (retry script attempts).calls = (max attempts 1).toNat := by
  rw [retry_calls]
  rcases firstStop_isStop_or_end script (attempts - 1).toNat 0 with h | h
  · omega
  · simp [hall] at h

/-- the caller sees exactly the result / exception object of the last invocation -/
theorem retry_result_is_last (script : Nat → Outc) (attempts : Int) :
    (retry script attempts).res = resOf (script ((retry script attempts).calls - 1)) := by
  rw [retry_calls]; rw [retry_spec]; simp [spec]

/-- waiting happens only between attempts: the trace is call, sleep, call, …, call -/
theorem retry_sleeps_between (script : Nat → Outc) (attempts : Int) :
    (retry script attempts).trace = altTrace 0 ((retry script attempts).calls - 1) := by
  rw [retry_calls]; rw [retry_spec]; simp [spec]

theorem retry_sleeps_eq (script : Nat → Outc) (attempts : Int) :
    (retry script attempts).sleeps + 1 = (retry script attempts).calls := by
  rw [retry_spec]; simp [spec, Run.calls, Run.sleeps, altTrace_calls, altTrace_sleeps]

/-- foreign exceptions are not retried: a foreign outcome at index k (after listed ones) ends the run there -/
theorem retry_foreign_not_retried (script : Nat → Outc) (attempts : Int) (k e : Nat)
    (hk : script k = .foreign e) (hpre : ∀ j, j < k → isStop (script j) = false) (hb : (k : Int) < max attempts 1) :
    (retry script attempts).calls = k + 1 ∧ (retry script attempts).res = .exc e := by
  have hc := retry_calls_min script attempts k (by simp [hk, isStop]) hpre
  have hc' : (retry script attempts).calls = k + 1 := by omega
  refine ⟨hc', ?_⟩
  rw [retry_result_is_last, hc']; simp [hk, resOf]

/-- the syntactic facts the model takes from the source: the handler is `except exceptions`, there is no
    sleep outside the handler, every invocation is `func(*args, **kwargs)` -/
theorem retry_source_shape :
    handlerIsExceptionsParam = true ∧ sleepElsewhere = false ∧ forwardsArgsUnchanged = true := by decide

/-- the handler needs nothing from the callable but the call itself, and waits the caller's `sleep_time` -/
theorem cfg_handler : handlerNeedsName = false ∧ sleepArgIsSleepTime = true := by decide

/-- **C15 for every kind of callable** - functions, lambdas, bound methods (`named`) as well as `functools.partial` objects and
    instances with `__call__` (no `__name__`): the contract holds (before ccd8bc6 the handler read `func.__name__` and a callable
    without it ended the run with an AttributeError after the first listed failure) -/
theorem retryFor_spec (named : Bool) (script : Nat → Outc) (attempts : Int) : retryFor named script attempts = spec script attempts := by
  simp [retryFor, cfg_handler, retry_spec]

/-- the handler does not look at the exception object, `retry_func` works on locals only, and `@retry` is a plain forward that
    creates nothing per decorator or per decorated function -/
theorem cfg_no_hidden_state :
    handlerReadsException = false ∧ retryFuncOnlyLocals = true ∧ decoratorWrapperForwards = true ∧ decoratorKeepsNoState = true := by
  decide

theorem loopP_eq_loop (printable : Nat → Bool) (script : Nat → Outc) (attempts : Int) :
    ∀ (fuel : Nat) (attempt : Int) (i : Nat), loopP printable script attempts fuel attempt i = loop script attempts fuel attempt i := by
  intro fuel
  induction fuel with
  | zero => intro attempt i; simp [loopP, loop]
  | succ fuel ih =>
    intro attempt i
    simp only [loopP, loop, cfg_no_hidden_state.1, Bool.false_and, Bool.false_eq_true, ↓reduceIte, ih]

/-- **C15 for every kind of exception object**: also when the listed exceptions that are raised cannot be formatted (their `__str__`
    / `__repr__` raises) every attempt is made and the caller sees the last invocation's outcome - the handler never looks at them -/
theorem retryForP_spec (named : Bool) (printable : Nat → Bool) (script : Nat → Outc) (attempts : Int) :
    retryForP named printable script attempts = spec script attempts := by
  have := retryFor_spec named script attempts
  simp only [retryFor, retry] at this
  simp only [retryForP, loopP_eq_loop]
  exact this

/-- **C15 through the decorator**: a call of a `@retry(...)` function is the contract, whatever ran before or runs meanwhile (the
    model of a call has no other input than its own script: `cfg_no_hidden_state` is what licenses that for the code) -/
theorem retryDecorated_spec (named : Bool) (printable : Nat → Bool) (script : Nat → Outc) (attempts : Int) :
    retryDecorated named printable script attempts = spec script attempts := retryForP_spec named printable script attempts

/-- overlapping calls (a call made while another call of the same decorated function is in progress - recursion, re-entrancy): each
    of them meets the contract for its own outcomes -/
theorem overlapping_calls_independent (named : Bool) (p₁ p₂ : Nat → Bool) (s₁ s₂ : Nat → Outc) (attempts : Int) :
    retryDecorated named p₁ s₁ attempts = spec s₁ attempts ∧ retryDecorated named p₂ s₂ attempts = spec s₂ attempts :=
  ⟨retryDecorated_spec named p₁ s₁ attempts, retryDecorated_spec named p₂ s₂ attempts⟩

-- non-vacuity: concrete runs
example : retryForP true (fun _ => false) (fun i => if i < 2 then .listed i else .ret 42) 5
    = ⟨[.call 0, .sleep, .call 1, .sleep, .call 2], .ret 42⟩ := by decide
example : retry (fun i => if i < 2 then .listed i else .ret 42) 5
    = ⟨[.call 0, .sleep, .call 1, .sleep, .call 2], .ret 42⟩ := by decide
example : retry (fun i => .listed i) 3 = ⟨[.call 0, .sleep, .call 1, .sleep, .call 2], .exc 2⟩ := by decide
example : retry (fun i => .listed i) 0 = ⟨[.call 0], .exc 0⟩ := by decide
example : retry (fun i => .listed i) (-4) = ⟨[.call 0], .exc 0⟩ := by decide
example : retry (fun i => if i = 0 then .foreign 9 else .ret 1) 7 = ⟨[.call 0], .exc 9⟩ := by decide

end PedVerif.Retry
