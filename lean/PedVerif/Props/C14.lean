import PedVerif.Spec.Validators
/-!
# C14 — validators and `convert_value` decide exactly their documented predicate

Property theorems only.  `minValidate`, `maxValidate`, `minLengthValidate`, `maxLengthValidate`, `notEmptyValidate`,
`isUuidValidate`, `isEnumValidate`, `matchPatternValidate`, `datetimeIsoFormatValidate`, `dateTimeUnixTimestampValidate`,
`emailValidate` (statement-by-statement translations of the `validate` bodies; the standard-library callees are opaque
function parameters) and all tables (`…Caught<i>`, `rejects`, `excBases`, `regexEmail`, `convert…`) are the definitions the
translator regenerates from the source on every run (`PedVerif.Gen.Validators`), so these proofs are re-checked against what
the code says now: `<` ↔ `<=`, an off-by-one length, a missing `strip`, `converted_value if self._convert else value` → `value`,
a narrowed `except`, a guard moved behind the call it guards, another exception class on a rejection path, a lost rejection
statement, another e-mail pattern or `re` entry point, another epoch, a missing bool branch of `convert_value` make them fail.

Each `*_exact` has the form: accepts ⇔ documented predicate ∧ returns the documented value ∧ every rejection is
`ValidatorException`; each `*_meets_spec` says that the model result is the executable spec the driver reports; the `*_eq`
lemmas are the functional reading of a translated body (proved by walking every path of the generated function).
What is assumed about the library callees is stated as hypotheses (`raisesWithin` the lists of `Model/Validators.lean`,
`FloatOracleOK`, `StrOracleOK`, `FloatRoundTrip`) — environment facts exercised by the correspondence check, not Lean postulates.
-/
set_option linter.unusedSimpArgs false
set_option linter.unusedVariables false
namespace PedVerif.Validators
open PedVerif.Gen.Validators

/-! ## exact numbers -/

theorem dec_lt_not_le (x y : Int) : decide (x < y) = !decide (y ≤ x) := by
  by_cases h : x < y <;> simp [h] <;> omega
theorem dec_le_not_lt (x y : Int) : decide (x ≤ y) = !decide (y < x) := by
  by_cases h : x ≤ y <;> simp [h] <;> omega

/-- on non-NaN numbers `a < b` is the negation of `b ≤ a` … -/
theorem Num.lt_eq_not_le (a b : Num) (ha : a.isNan = false) (hb : b.isNan = false) :
    Num.lt a b = !Num.le b a := by
  cases a <;> cases b <;> simp_all [Num.lt, Num.le, Num.isNan]
  exact dec_lt_not_le _ _
/-- … and `a ≤ b` the negation of `b < a` (this is what fails for NaN) -/
theorem Num.le_eq_not_lt (a b : Num) (ha : a.isNan = false) (hb : b.isNan = false) :
    Num.le a b = !Num.lt b a := by
  cases a <;> cases b <;> simp_all [Num.lt, Num.le, Num.isNan]
  exact dec_le_not_lt _ _

/-- sanity of the order: `<` implies `≤`, `≤` is reflexive and total away from NaN -/
theorem Num.lt_imp_le (a b : Num) (h : Num.lt a b = true) : Num.le a b = true := by
  cases a <;> cases b <;> simp_all [Num.lt, Num.le] <;> omega
theorem Num.le_total (a b : Num) (ha : a.isNan = false) (hb : b.isNan = false) :
    Num.le a b = true ∨ Num.le b a = true := by
  cases a <;> cases b <;> simp_all [Num.le, Num.isNan] <;> omega
theorem Num.le_refl (a : Num) (ha : a.isNan = false) : Num.le a a = true := by
  cases a <;> simp_all [Num.le, Num.isNan]

/-! ## Min / Max -/

/-- **Min.** For all bounds and values (ints, floats, ±inf, NaN; both settings of `include_boundary`):
    accepted ⇔ `bound ≤ v` (resp. `bound < v`); an accepted value is returned unchanged; every rejection is
    `ValidatorException`.  NaN (as value or as bound) satisfies no comparison and is rejected - since the repair of
    finding `minMaxNaN` the code tests `not value >= bound`, so no NaN guard is needed any more. -/
theorem min_exact (b v : Num) (incl : Bool) :
    (minValidate b incl v = .ok v ↔ minPred b v incl = true) ∧
    (∀ r, minValidate b incl v = .ok r → r = v) ∧
    (∀ e, minValidate b incl v = .raises e → e = .validator) ∧
    (minPred b v incl = false → minValidate b incl v = .raises .validator) := by
  rcases Bool.eq_false_or_eq_true (Num.le b v) with h1 | h1 <;> rcases Bool.eq_false_or_eq_true (Num.lt b v) with h2 | h2 <;>
    cases incl <;> simp [minValidate, minPred, raiseExceptionClass, Num.gt, Num.ge, h1, h2]

/-- **Max.** accepted ⇔ `v ≤ bound` (resp. `v < bound`), NaN included. -/
theorem max_exact (b v : Num) (incl : Bool) :
    (maxValidate b incl v = .ok v ↔ maxPred b v incl = true) ∧
    (∀ r, maxValidate b incl v = .ok r → r = v) ∧
    (∀ e, maxValidate b incl v = .raises e → e = .validator) ∧
    (maxPred b v incl = false → maxValidate b incl v = .raises .validator) := by
  rcases Bool.eq_false_or_eq_true (Num.le v b) with h1 | h1 <;> rcases Bool.eq_false_or_eq_true (Num.lt v b) with h2 | h2 <;>
    cases incl <;> simp [maxValidate, maxPred, raiseExceptionClass, Num.gt, Num.ge, h1, h2]

/-- boundary: the value equal to the bound is accepted with `include_boundary` … -/
theorem min_boundary_incl (b : Num) (hb : b.isNan = false) : minValidate b true b = .ok b := by
  have := (min_exact b b true).1; simp [minPred, Num.le_refl b hb] at this; exact this
theorem max_boundary_incl (b : Num) (hb : b.isNan = false) : maxValidate b true b = .ok b := by
  have := (max_exact b b true).1; simp [maxPred, Num.le_refl b hb] at this; exact this
/-- … and rejected (with ValidatorException) without it -/
theorem Num.lt_irrefl (b : Num) : Num.lt b b = false := by
  cases b <;> simp [Num.lt]
theorem min_boundary_excl (b : Num) : minValidate b false b = .raises .validator :=
  (min_exact b b false).2.2.2 (by simp [minPred, Num.lt_irrefl])
theorem max_boundary_excl (b : Num) : maxValidate b false b = .raises .validator :=
  (max_exact b b false).2.2.2 (by simp [maxPred, Num.lt_irrefl])

/-- the full statement (no NaN guard) holds -/
def min_exact_full : Prop := ∀ (b v : Num) (incl : Bool), minValidate b incl v = .ok v ↔ minPred b v incl = true
def max_exact_full : Prop := ∀ (b v : Num) (incl : Bool), maxValidate b incl v = .ok v ↔ maxPred b v incl = true
theorem min_exact_full_holds : min_exact_full := fun b v incl => (min_exact b v incl).1
theorem max_exact_full_holds : max_exact_full := fun b v incl => (max_exact b v incl).1
/-- NaN is rejected by every Min and Max, as value and as bound (was finding `minMaxNaN`, fixed) -/
theorem min_rejects_nan (b : Num) (incl : Bool) : minValidate b incl .nan = .raises .validator :=
  (min_exact b .nan incl).2.2.2 (by cases b <;> cases incl <;> simp [minPred, Num.le, Num.lt])
theorem max_rejects_nan (b : Num) (incl : Bool) : maxValidate b incl .nan = .raises .validator :=
  (max_exact b .nan incl).2.2.2 (by cases b <;> cases incl <;> simp [maxPred, Num.le, Num.lt])
theorem min_nan_bound_rejects (v : Num) (incl : Bool) : minValidate .nan incl v = .raises .validator :=
  (min_exact .nan v incl).2.2.2 (by cases v <;> cases incl <;> simp [minPred, Num.le, Num.lt])

/-- the validators on Python values meet the executable specification the driver reports -/
theorem vMin_meets_spec (bound v : Val) (incl : Bool) :
    match specMin bound incl v with
    | .accept r _ => vMin bound incl v = .ok r
    | .reject => vMin bound incl v = .raises .validator
    | .na => True := by
  unfold specMin vMin
  cases hb' : bound.toNum <;> cases hv' : v.toNum <;> simp only []
  rename_i b x
  have h := min_exact b x incl
  cases hp : minPred b x incl
  · simp [h.2.2.2 hp, liftNum]
  · simp [h.1.2 hp, liftNum]

theorem vMax_meets_spec (bound v : Val) (incl : Bool) :
    match specMax bound incl v with
    | .accept r _ => vMax bound incl v = .ok r
    | .reject => vMax bound incl v = .raises .validator
    | .na => True := by
  unfold specMax vMax
  cases hb' : bound.toNum <;> cases hv' : v.toNum <;> simp only []
  rename_i b x
  have h := max_exact b x incl
  cases hp : maxPred b x incl
  · simp [h.2.2.2 hp, liftNum]
  · simp [h.1.2 hp, liftNum]

-- non-vacuity: 7 vs 7 with/without boundary, a float just above an int bound, an int beyond 2^53 against a float bound
example : minValidate (.fin 7 1) true (.fin 7 1) = .ok (.fin 7 1) := by decide
example : minValidate (.fin 7 1) false (.fin 7 1) = .raises .validator := by decide
example : minValidate (.fin 7 1) false (.fin 7881299347898369 1125899906842624) = .ok (.fin 7881299347898369 1125899906842624) := by decide
example : maxValidate (.fin 9007199254740992 1) true (.fin 9007199254740993 1) = .raises .validator := by decide
example : maxValidate .pinf true .pinf = .ok .pinf := by decide
example : vMin (.int 5) true (.bool true) = .raises .validator := rfl

/-! ## MinLength / MaxLength -/

/-- **MinLength.** accepted ⇔ the value is `Sized` and `len(v) ≥ n` (length exactly at the limit included);
    returned unchanged; every rejection is `ValidatorException`. -/
theorem minlen_exact (n : Int) (v : Val) :
    (minLengthValidate n v = .ok v ↔ minLenPred n v = true) ∧
    (∀ r, minLengthValidate n v = .ok r → r = v) ∧
    (∀ e, minLengthValidate n v = .raises e → e = .validator) ∧
    (minLenPred n v = false → minLengthValidate n v = .raises .validator) := by
  simp only [minLengthValidate, minLenPred, raiseExceptionClass]
  cases v.isSized <;> simp <;> (by_cases h : v.len < n <;> simp [h] <;> omega)

/-- **MaxLength.** accepted ⇔ `Sized` and `len(v) ≤ n`. -/
theorem maxlen_exact (n : Int) (v : Val) :
    (maxLengthValidate n v = .ok v ↔ maxLenPred n v = true) ∧
    (∀ r, maxLengthValidate n v = .ok r → r = v) ∧
    (∀ e, maxLengthValidate n v = .raises e → e = .validator) ∧
    (maxLenPred n v = false → maxLengthValidate n v = .raises .validator) := by
  simp only [maxLengthValidate, maxLenPred, raiseExceptionClass]
  cases v.isSized <;> simp <;> (by_cases h : n < v.len <;> simp [h] <;> omega)

theorem vMinLength_meets_spec (n : Int) (v : Val) :
    match specMinLength n v with
    | .accept r _ => vMinLength n v = .ok r
    | .reject => vMinLength n v = .raises .validator
    | .na => True := by
  unfold specMinLength vMinLength
  have h := minlen_exact n v
  cases hp : minLenPred n v
  · simp [h.2.2.2 hp]
  · simp [h.1.2 hp]

theorem vMaxLength_meets_spec (n : Int) (v : Val) :
    match specMaxLength n v with
    | .accept r _ => vMaxLength n v = .ok r
    | .reject => vMaxLength n v = .raises .validator
    | .na => True := by
  unfold specMaxLength vMaxLength
  have h := maxlen_exact n v
  cases hp : maxLenPred n v
  · simp [h.2.2.2 hp]
  · simp [h.1.2 hp]

example : minLengthValidate 2 (.str ['a', 'b']) = .ok (.str ['a', 'b']) := rfl
example : minLengthValidate 3 (.str ['a', 'b']) = .raises .validator := rfl
example : maxLengthValidate 1 (.dict [(['k'], ['v']), (['l'], [])]) = .raises .validator := rfl
example : maxLengthValidate 5 (.int 3) = .raises .validator := rfl

/-! ## NotEmpty -/

theorem drop_takeWhile_length (p : Char → Bool) (s : List Char) : s.drop (s.takeWhile p).length = s.dropWhile p := by
  induction s with
  | nil => simp
  | cons c cs ih => by_cases h : p c <;> simp [List.takeWhile_cons, List.dropWhile_cons, h, ih]

theorem specStrip_eq_strip (p : Char → Bool) (s : List Char) : specStrip p s = strip p s := by
  unfold specStrip strip
  simp only [drop_takeWhile_length]
  generalize s.dropWhile p = a
  have h := drop_takeWhile_length p a.reverse
  rw [← h]
  rw [List.reverse_drop]
  simp

theorem strip_decomp (p : Char → Bool) (s : List Char) :
    ∃ l r, s = l ++ strip p s ++ r ∧ l.all p = true ∧ r.all p = true := by
  refine ⟨s.takeWhile p, ((s.dropWhile p).reverse.takeWhile p).reverse, ?_, ?_, ?_⟩
  · unfold strip
    have h1 : s = s.takeWhile p ++ s.dropWhile p := (List.takeWhile_append_dropWhile).symm
    have h2 : (s.dropWhile p).reverse = (s.dropWhile p).reverse.takeWhile p ++ (s.dropWhile p).reverse.dropWhile p :=
      (List.takeWhile_append_dropWhile).symm
    have h3 := congrArg List.reverse h2
    simp only [List.reverse_reverse, List.reverse_append] at h3
    rw [List.append_assoc, ← h3]; exact h1
  · simp
  · simp

theorem head_dropWhile_false (p : Char → Bool) (s : List Char) (c : Char) (h : (s.dropWhile p).head? = some c) : p c = false := by
  induction s with
  | nil => simp at h
  | cons a as ih =>
    by_cases ha : p a
    · simp [List.dropWhile_cons, ha] at h; exact ih h
    · simp [List.dropWhile_cons, ha] at h; subst h; simpa using ha

theorem strip_last (p : Char → Bool) (s : List Char) (c : Char) (h : (strip p s).getLast? = some c) : p c = false := by
  unfold strip at h
  rw [List.getLast?_reverse] at h
  exact head_dropWhile_false p _ c h

theorem dropWhile_eq_nil_of_all (p : Char → Bool) (s : List Char) : s.dropWhile p = [] ↔ s.all p = true := by
  induction s with
  | nil => simp
  | cons a as ih => by_cases ha : p a <;> simp [List.dropWhile_cons, ha, ih]

theorem rstrip_decomp (p : Char → Bool) (a : List Char) :
    a = (a.reverse.dropWhile p).reverse ++ (a.reverse.takeWhile p).reverse := by
  have h2 : a.reverse = a.reverse.takeWhile p ++ a.reverse.dropWhile p := (List.takeWhile_append_dropWhile).symm
  have h3 := congrArg List.reverse h2
  simpa only [List.reverse_reverse, List.reverse_append] using h3

theorem strip_head (p : Char → Bool) (s : List Char) (c : Char) (h : (strip p s).head? = some c) : p c = false := by
  have hd := rstrip_decomp p (s.dropWhile p)
  unfold strip at h
  apply head_dropWhile_false p s c
  rw [hd]
  cases hx : ((s.dropWhile p).reverse.dropWhile p).reverse with
  | nil => simp [hx] at h
  | cons x xs => simp [hx] at h; simp [h]

/-- `strip` meets its declarative description -/
theorem strip_spec (p : Char → Bool) (s : List Char) : IsStripOf p s (strip p s) := by
  obtain ⟨l, r, hs, hl, hr⟩ := strip_decomp p s
  exact ⟨l, r, hs, hl, hr, strip_head p s, strip_last p s⟩

theorem strip_nonempty_iff (p : Char → Bool) (s : List Char) : (strip p s).isEmpty = !notBlank p s := by
  have hnb : notBlank p s = !(s.all p) := by
    unfold notBlank; induction s with
    | nil => simp
    | cons a as ih => simp [List.any_cons, List.all_cons, ih, Bool.not_and]
  rw [hnb]; simp only [Bool.not_not]
  unfold strip
  cases hall : s.all p
  · -- some non-space char: dropWhile is non-empty with a non-space head; its reverse ends... 
    cases ha : s.dropWhile p with
    | nil => have := (dropWhile_eq_nil_of_all p s).1 ha; simp [hall] at this
    | cons x xs =>
      have hx := head_dropWhile_false p s x (by simp [ha])
      -- reverse of x :: xs = xs.reverse ++ [x]; dropWhile leaves at least [x]
      have : ((x :: xs).reverse.dropWhile p) ≠ [] := by
        intro hnil
        have := (dropWhile_eq_nil_of_all p _).1 hnil
        simp [List.all_eq_true] at this
        simp [hx] at this
      cases hr : (x :: xs).reverse.dropWhile p with
      | nil => exact absurd hr this
      | cons y ys => simp
  · have := (dropWhile_eq_nil_of_all p s).2 hall
    simp [this]


theorem notempty_str_exact (isSpace : Char → Bool) (strp : Bool) (s : List Char) :
    (∀ r, notEmptyValidate isSpace strp (.str s) = .ok r ↔
        (notBlank isSpace s = true ∧ r = if strp then .str (strip isSpace s) else .str s)) ∧
    (∀ e, notEmptyValidate isSpace strp (.str s) = .raises e → e = .validator) ∧
    (notBlank isSpace s = false → notEmptyValidate isSpace strp (.str s) = .raises .validator) := by
  have h := strip_nonempty_iff isSpace s
  simp only [notEmptyValidate, raiseExceptionClass, Val.isStr, Val.strip, Val.truthy, h]
  cases notBlank isSpace s <;> cases strp <;> simp [eq_comm]

theorem notempty_seq_exact (isSpace : Char → Bool) (strp : Bool) (v : Val) (hv : v.isStr = false) :
    (notEmptyValidate isSpace strp v = .ok v ↔ (v.isSequence = true ∧ 0 < v.len)) ∧
    (∀ r, notEmptyValidate isSpace strp v = .ok r → r = v) ∧
    (∀ e, notEmptyValidate isSpace strp v = .raises e → e = .validator) ∧
    (¬ (v.isSequence = true ∧ 0 < v.len) → notEmptyValidate isSpace strp v = .raises .validator) := by
  have hlen : 0 ≤ v.len := by cases v <;> simp [Val.len]
  simp only [notEmptyValidate, raiseExceptionClass, hv]
  cases v.isSequence <;> simp <;> (by_cases h0 : v.len = 0 <;> simp [h0] <;> omega)

theorem notempty_exact (isSpace : Char → Bool) (strp : Bool) (v : Val) :
    match specNotEmpty isSpace strp v with
    | .accept r _ => vNotEmpty isSpace strp v = .ok r
    | .reject => vNotEmpty isSpace strp v = .raises .validator
    | .na => True := by
  unfold vNotEmpty
  by_cases hs : v.isStr = true
  · cases v <;> simp [Val.isStr] at hs
    rename_i s
    have h := notempty_str_exact isSpace strp s
    simp only [specNotEmpty, specStrip_eq_strip]
    cases hb : notBlank isSpace s
    · simp [h.2.2 hb]
    · cases strp <;> simp [(h.1 _).2 ⟨hb, rfl⟩]
  · have hs' : v.isStr = false := by simpa using hs
    have h := notempty_seq_exact isSpace strp v hs'
    have hspec : specNotEmpty isSpace strp v = if v.isSequence && decide (0 < v.len) then .accept v true else .reject := by
      cases v <;> simp [specNotEmpty, Val.isStr] at hs' ⊢
    rw [hspec]
    by_cases hc : v.isSequence = true ∧ 0 < v.len
    · simp [hc.1, hc.2, h.1.2 hc]
    · have := h.2.2.2 hc
      have hf : (v.isSequence && decide (0 < v.len)) = false := by
        cases hq : v.isSequence <;> simp_all
      simp [hf, this]

example : notEmptyValidate asciiSpace true (.str " a b\t".toList) = .ok (.str "a b".toList) := rfl
example : notEmptyValidate asciiSpace false (.str " a ".toList) = .ok (.str " a ".toList) := rfl
example : notEmptyValidate asciiSpace true (.str " \n".toList) = .raises .validator := rfl
example : notEmptyValidate asciiSpace true (.tuple []) = .raises .validator := rfl
example : notEmptyValidate asciiSpace true (.dict [(['a'], [])]) = .raises .validator := rfl

/-! ## Email -/

theorem tw_split {p : Char → Bool} (l r : List Char) (x : Char) (hl : ∀ a ∈ l, p a = true) (hx : p x = false) :
    (l ++ x :: r).takeWhile p = l ∧ (l ++ x :: r).dropWhile p = x :: r := by
  rw [List.takeWhile_append_of_pos hl, List.dropWhile_append_of_pos hl]
  simp [List.takeWhile_cons, List.dropWhile_cons, hx]

theorem dw_inv {p : Char → Bool} (s r : List Char) (x : Char) (h : s.dropWhile p = x :: r) :
    s = s.takeWhile p ++ x :: r ∧ p x = false := by
  refine ⟨?_, ?_⟩
  · rw [← h]; exact (List.takeWhile_append_dropWhile).symm
  · have hne : s.dropWhile p ≠ [] := by rw [h]; simp
    have := List.head_dropWhile_not p (l := s) hne
    simp only [h, List.head_cons] at this
    exact this

theorem isC_not_at {isSpace : Char → Bool} {c : Char} (h : isC isSpace c = true) : (c != '@') = true := by
  simp only [isC, Bool.and_eq_true] at h; exact h.1

theorem isA_not_dot {c : Char} (h : isA c = true) : (c != '.') = true := by
  by_cases hc : c = '.'
  · subst hc; simp [isA] at h
  · simpa using hc

theorem splitLast_spec (d t : List Char) (ht : ∀ a ∈ t, (a != '.') = true) :
    splitLast '.' (d ++ ['.'] ++ t) = some (d, t) := by
  unfold splitLast
  have hrev : (d ++ ['.'] ++ t).reverse = t.reverse ++ '.' :: d.reverse := by simp
  obtain ⟨h1, h2⟩ := tw_split (p := (· != '.')) t.reverse d.reverse '.' (by intro a ha; exact ht a (by simpa using ha)) (by decide)
  rw [hrev, h1, h2]
  simp

theorem splitLast_inv (rest d t : List Char) (h : splitLast '.' rest = some (d, t)) :
    rest = d ++ ['.'] ++ t := by
  unfold splitLast at h
  split at h
  · rename_i x dRev heq
    simp only [Option.some.injEq, Prod.mk.injEq] at h
    obtain ⟨rfl, rfl⟩ := h
    obtain ⟨h1, h3⟩ := dw_inv _ _ _ heq
    have hx : x = '.' := by simpa using h3
    subst hx
    have := congrArg List.reverse h1
    simpa using this
  · cases h

theorem email_exact (isSpace : Char → Bool) (s : List Char) :
    emailMatch isSpace s = true ↔ EmailSpec isSpace s := by
  constructor
  · intro h
    unfold emailMatch at h
    split at h
    · rename_i x rest heq
      obtain ⟨h1, h3⟩ := dw_inv _ _ _ heq
      have hx : x = '@' := by simpa using h3
      subst hx
      simp only [Bool.and_eq_true] at h
      obtain ⟨⟨hl1, hl2⟩, hrest⟩ := h
      split at hrest
      · rename_i d t hs
        simp only [Bool.and_eq_true] at hrest
        obtain ⟨⟨⟨hd1, hd2⟩, ht1⟩, ht2⟩ := hrest
        have := splitLast_inv rest d t hs
        refine ⟨s.takeWhile (· != '@'), d, t, ?_, ?_, ?_, ?_, hl2, hd2, ht2⟩
        · rw [this] at h1; simpa using h1
        · intro hh; rw [hh] at hl1; simp at hl1
        · intro hh; subst hh; simp at hd1
        · intro hh; subst hh; simp at ht1
      · cases hrest
    · cases h
  · intro ⟨l, d, t, hs, hl, hd, ht, hlc, hdc, hta⟩
    unfold emailMatch
    have hsplit : s = l ++ '@' :: (d ++ ['.'] ++ t) := by rw [hs]; simp
    obtain ⟨h1, h2⟩ := tw_split (p := (· != '@')) l (d ++ ['.'] ++ t) '@'
      (by intro a ha; exact isC_not_at (List.all_eq_true.mp hlc a ha)) (by decide)
    rw [hsplit, h1, h2]
    have hsl := splitLast_spec d t (by intro a ha; exact isA_not_dot (List.all_eq_true.mp hta a ha))
    simp only [hsl, hlc, hdc, hta, Bool.and_true]
    cases l <;> cases d <;> cases t <;> simp_all

/-- the matcher is the matcher of the pattern the code uses now, applied the way the code applies it -/
theorem email_source_shape :
    regexEmail = "[^@\\s]+@[^@\\s]+\\.[a-zA-Z0-9]+$" ∧ emailMethod = "fullmatch" ∧ emailSubject = "value" := by decide

/-- closes `translated body = its functional reading`: every path of the generated function is walked (`split` on each
    `if` / `match`), then each leaf is closed from the hypotheses in scope -/
local macro "walk_paths" : tactic =>
  `(tactic| ((repeat' split) <;> first | (simp_all [raiseExceptionClass]; done) | grind [raiseExceptionClass]))

/-- the translated body of `Email.validate`, as a function of what the `re` callee answers -/
theorem emailValidate_eq (reMatch : Val → Orc Bool) (post : Val → Val) (v : Val) :
    emailValidate reMatch post v =
      match reMatch v with
      | .ok true => .ok (post v)
      | .ok false => .raises .validator
      | .raises e => .raises e := by
  unfold emailValidate
  walk_paths

/-- **Email** (default pattern): accepted ⇔ `EmailSpec`; returns `post_processor(value)`; rejection is ValidatorException -/
theorem vEmail_exact (isSpace : Char → Bool) (post : Val → Val) (s : List Char) :
    (∀ r, vEmail isSpace post (.str s) = .ok r ↔ (EmailSpec isSpace s ∧ r = post (.str s))) ∧
    (∀ e, vEmail isSpace post (.str s) = .raises e → e = .validator) ∧
    (¬ EmailSpec isSpace s → vEmail isSpace post (.str s) = .raises .validator) := by
  rw [← email_exact]
  simp only [vEmail, emailValidate_eq, emailFullmatch]
  cases emailMatch isSpace s <;> simp [eq_comm]

theorem split_at_index (s : List Char) (i : Nat) (c : Char) (h : s[i]? = some c) :
    s = s.take i ++ c :: s.drop (i + 1) := by
  obtain ⟨hi, hc⟩ := List.getElem?_eq_some_iff.mp h
  have := List.drop_eq_getElem_cons hi
  rw [hc] at this
  rw [← this]; simp

/-- the executable reading used by the driver is the declarative `EmailSpec` -/
theorem emailSpecB_iff (isSpace : Char → Bool) (s : List Char) : emailSpecB isSpace s = true ↔ EmailSpec isSpace s := by
  constructor
  · intro h
    simp only [emailSpecB, List.any_eq_true, List.mem_range, Bool.and_eq_true, decide_eq_true_eq, beq_iff_eq] at h
    obtain ⟨i, hi, j, hj, ⟨⟨⟨hij, hat⟩, hdot⟩, hparts⟩⟩ := h
    simp only [Bool.and_eq_true, Bool.not_eq_true', List.isEmpty_eq_false_iff] at hparts
    obtain ⟨⟨⟨⟨⟨hl, hd⟩, ht⟩, hlc⟩, hdc⟩, hta⟩ := hparts
    refine ⟨s.take i, (s.take j).drop (i + 1), s.drop (j + 1), ?_, hl, hd, ht, hlc, hdc, hta⟩
    have h1 := split_at_index s j '.' hdot
    have hat' : (s.take j)[i]? = some '@' := by rw [List.getElem?_take]; simp [hij, hat]
    have h2 := split_at_index (s.take j) i '@' hat'
    have h3 : (s.take j).take i = s.take i := by rw [List.take_take]; congr 1; omega
    rw [h3] at h2
    conv => lhs; rw [h1, h2]
    simp
  · intro ⟨l, d, t, hs, hl, hd, ht, hlc, hdc, hta⟩
    simp only [emailSpecB, List.any_eq_true, List.mem_range, Bool.and_eq_true, decide_eq_true_eq, beq_iff_eq]
    have hlen : s.length = l.length + 1 + d.length + 1 + t.length := by rw [hs]; simp; omega
    refine ⟨l.length, by omega, l.length + 1 + d.length, by omega, ⟨⟨⟨by omega, ?_⟩, ?_⟩, ?_⟩⟩
    · rw [hs]; simp
    · have e : s = (l ++ '@' :: d) ++ '.' :: t := by rw [hs]; simp
      have hl2 : (l ++ '@' :: d).length = l.length + 1 + d.length := by simp; omega
      rw [e, ← hl2]; simp
    · have e : s = (l ++ '@' :: d) ++ '.' :: t := by rw [hs]; simp
      have hl2 : (l ++ '@' :: d).length = l.length + 1 + d.length := by simp; omega
      have t1 : s.take l.length = l := by rw [hs]; simp
      have t2 : s.take (l.length + 1 + d.length) = l ++ '@' :: d := by rw [e]; exact List.take_left' hl2
      have t3 : s.drop (l.length + 1 + d.length + 1) = t := by
        have e2 : s = (l ++ '@' :: d ++ ['.']) ++ t := by rw [hs]; simp
        rw [e2]; exact List.drop_left' (by simp; omega)
      have t4 : (l ++ '@' :: d).drop (l.length + 1) = d := by
        have e3 : l ++ '@' :: d = (l ++ ['@']) ++ d := by simp
        rw [e3]; exact List.drop_left' (by simp)
      rw [t1, t2, t3, t4]
      simp [hlc, hdc, hta, hl, hd, ht]

/-- Email meets the executable specification the driver reports -/
theorem vEmail_meets_spec (isSpace : Char → Bool) (post : Val → Val) (v : Val) :
    match specEmail isSpace post v with
    | .accept r _ => vEmail isSpace post v = .ok r
    | .reject => vEmail isSpace post v = .raises .validator
    | .na => True := by
  cases v <;> simp only [specEmail]
  rename_i s
  have h1 := email_exact isSpace s
  have h2 := emailSpecB_iff isSpace s
  simp only [vEmail, emailValidate_eq, emailFullmatch]
  cases hm : emailMatch isSpace s <;> cases hb : emailSpecB isSpace s <;> simp
  · exact absurd (h1.2 (h2.1 hb)) (by simp [hm])
  · exact absurd (h2.2 (h1.1 hm)) (by simp [hb])

example : emailMatch asciiSpace "a.b@c-d.e9".toList = true := by decide
example : emailMatch asciiSpace "a@b.co\n".toList = false := by decide
example : emailMatch asciiSpace "a@b@c.de".toList = false := by decide
example : emailMatch asciiSpace "a@b.c.d_".toList = false := by decide

/-! ## validators that ask the standard library: accepted ⇔ the library says valid

`isUuidValidate`, `isEnumValidate`, `matchPatternValidate`, `datetimeIsoFormatValidate`, `dateTimeUnixTimestampValidate` and
`emailValidate` are the statement-by-statement translations of the `validate` bodies (regenerated on every run); the library
callees are opaque function parameters.  The theorems quantify over all such functions; what they assume about them is
only which classes they raise (`raisesWithin`, environment facts exercised by the correspondence check). -/

/-- which classes the callees can raise vs. which the code catches: every one is caught (narrowing an `except` breaks this) -/
theorem uuid_catches_all : ∀ e ∈ uuidRaises, catches isUuidCaught0 e = true := by decide
theorem iso_catches_all : ∀ e ∈ isoRaises, catches datetimeIsoFormatCaught0 e = true := by decide
theorem unix_float_catches_all : ∀ e ∈ floatOfRaises, catches dateTimeUnixTimestampCaught0 e = true := by decide
theorem unix_add_catches_all : ∀ e ∈ timedeltaRaises ++ [.overflowError], catches dateTimeUnixTimestampCaught1 e = true := by decide
/-- `int(x)` can raise ValueError, TypeError and OverflowError (`int(float('inf'))`), `enum(x)` ValueError: all caught -/
theorem enum_catches_all : ∀ e ∈ intOfRaises ++ enumLookupRaises, catches isEnumCaught0 e = true := by decide
/-- the guard of ForEach (its loop is modelled by hand) rejects with ValidatorException -/
theorem foreach_rejects_with_validator : forEachRejects = .validator := by decide
/-- every rejection statement of every validator class raises ValidatorException (table read from the sources) — and the
    table has the rejection statements the sources have: an extractor that stopped recognising one would shorten a row -/
theorem all_rejections_are_ValidatorException :
    (∀ row ∈ rejects, ∀ e ∈ row.2, e = Exc.validator) ∧
    rejects.map (fun row => (row.1, row.2.length)) =
      [("Composite", 0), ("DatetimeIsoFormat", 1), ("DateTimeUnixTimestamp", 3), ("Email", 1), ("IsEnum", 1), ("ForEach", 1),
       ("IsUuid", 1), ("MatchPattern", 1), ("Max", 2), ("MaxLength", 2), ("Min", 2), ("MinLength", 2), ("NotEmpty", 3)] := by decide
/-- the class hierarchy of exceptions.py (generated `excBases`) is the one `catches` walks (`Exc.base`): for every class
    the model has a constructor for, the first base in the source is `Exc.base`; the three classes of the property are there -/
theorem exception_hierarchy :
    (∀ p ∈ excBases, (excOfName p.1).isModelled = true → (excOfName p.1).base = some (excOfName p.2)) ∧
    ("ValidatorException", "ValidateException") ∈ excBases ∧ ("ConversionError", "ValidateException") ∈ excBases ∧
    ("ValidateException", "Exception") ∈ excBases ∧
    Exc.isSub .validator .validate = true ∧ Exc.isSub .conversion .validate = true ∧ Exc.isSub .validator .conversion = false := by decide

theorem caught_of_within {α : Type} {o : Orc α} {l caught : List Exc} (hl : ∀ e ∈ l, catches caught e = true)
    (ho : o.raisesWithin l) {e : Exc} (h : o = .raises e) : catches caught e = true := hl e (ho e h)

/-- the translated body of `IsUuid.validate`, as a function of what `UUID(str(v))` answers -/
theorem isUuidValidate_eq (convert : Bool) (uuidOfStr : Val → Orc Val) (v : Val) (ho : (uuidOfStr v).raisesWithin uuidRaises) :
    isUuidValidate convert uuidOfStr v =
      match uuidOfStr v with
      | .ok u => .ok (if convert then u else v)
      | .raises _ => .raises .validator := by
  have hc := @caught_of_within Val (uuidOfStr v) _ _ uuid_catches_all ho
  unfold isUuidValidate
  walk_paths

/-- **IsUuid.** accepted ⇔ `uuid.UUID(str(v))` succeeds; returns the UUID when `convert`, else the value unchanged. -/
theorem uuid_exact (convert : Bool) (uuidOfStr : Val → Orc Val) (v : Val) (ho : (uuidOfStr v).raisesWithin uuidRaises) :
    (∀ r, isUuidValidate convert uuidOfStr v = .ok r ↔ ∃ u, uuidOfStr v = .ok u ∧ r = if convert then u else v) ∧
    (∀ e, isUuidValidate convert uuidOfStr v = .raises e → e = .validator) ∧
    ((∃ e, uuidOfStr v = .raises e) → isUuidValidate convert uuidOfStr v = .raises .validator) := by
  rw [isUuidValidate_eq convert uuidOfStr v ho]
  cases uuidOfStr v with
  | ok u =>
    refine ⟨fun r => ⟨fun h => ⟨u, rfl, ?_⟩, fun ⟨u', hu, hr⟩ => ?_⟩, fun e h => ?_, fun ⟨e, h⟩ => ?_⟩
    · cases h; rfl
    · cases hu; rw [hr]
    · cases h
    · cases h
  | raises e =>
    refine ⟨fun r => ⟨fun h => ?_, fun ⟨u', hu, _⟩ => ?_⟩, fun e h => ?_, fun _ => rfl⟩
    · cases h
    · cases hu
    · cases h; rfl

theorem uuid_meets_spec (convert : Bool) (uuidOfStr : Val → Orc Val) (v : Val) (ho : (uuidOfStr v).raisesWithin uuidRaises) :
    match specIsUuid convert uuidOfStr v with
    | .accept r _ => vIsUuid convert uuidOfStr v = .ok r
    | .reject => vIsUuid convert uuidOfStr v = .raises .validator
    | .na => True := by
  unfold vIsUuid specIsUuid
  rw [isUuidValidate_eq convert uuidOfStr v ho]
  cases uuidOfStr v with
  | ok u => cases convert <;> simp [Orc.toOption]
  | raises e => simp [Orc.toOption]

/-- the translated body of `DatetimeIsoFormat.validate`, as a function of what `datetime.fromisoformat(v)` answers -/
theorem datetimeIsoFormatValidate_eq (fromIso : Val → Orc Val) (v : Val) (ho : (fromIso v).raisesWithin isoRaises) :
    datetimeIsoFormatValidate fromIso v =
      match fromIso v with
      | .ok d => .ok d
      | .raises _ => .raises .validator := by
  have hc := @caught_of_within Val (fromIso v) _ _ iso_catches_all ho
  unfold datetimeIsoFormatValidate
  walk_paths

/-- **DatetimeIsoFormat.** accepted ⇔ `datetime.fromisoformat(v)` succeeds; returns that datetime. -/
theorem iso_exact (fromIso : Val → Orc Val) (v : Val) (ho : (fromIso v).raisesWithin isoRaises) :
    (∀ r, datetimeIsoFormatValidate fromIso v = .ok r ↔ fromIso v = .ok r) ∧
    (∀ e, datetimeIsoFormatValidate fromIso v = .raises e → e = .validator) ∧
    ((∃ e, fromIso v = .raises e) → datetimeIsoFormatValidate fromIso v = .raises .validator) := by
  rw [datetimeIsoFormatValidate_eq fromIso v ho]
  cases fromIso v with
  | ok d => simp [eq_comm]
  | raises e => simp

theorem iso_meets_spec (fromIso : Val → Orc Val) (v : Val) (ho : (fromIso v).raisesWithin isoRaises) :
    match specIso fromIso v with
    | .accept r _ => vIso fromIso v = .ok r
    | .reject => vIso fromIso v = .raises .validator
    | .na => True := by
  unfold vIso specIso
  rw [datetimeIsoFormatValidate_eq fromIso v ho]
  cases fromIso v <;> simp [Orc.toOption]

/-- the translated body of `MatchPattern.validate`, as a function of what the `re` callee answers (there is no `try`:
    whatever `re` raises escapes as it is) -/
theorem matchPatternValidate_eq (reMatch : Val → Orc Bool) (v : Val) :
    matchPatternValidate reMatch v =
      match reMatch v with
      | .ok true => .ok v
      | .ok false => .raises .validator
      | .raises e => .raises e := by
  unfold matchPatternValidate
  walk_paths

/-- **MatchPattern.** accepted ⇔ `pattern.search(str(v))` finds a match; the value is returned unchanged. -/
theorem pattern_exact (reMatch : Val → Orc Bool) (v : Val) :
    (matchPatternValidate reMatch v = .ok v ↔ reMatch v = .ok true) ∧
    (∀ r, matchPatternValidate reMatch v = .ok r → r = v) ∧
    (reMatch v = .ok false → matchPatternValidate reMatch v = .raises .validator) ∧
    (∀ e, matchPatternValidate reMatch v = .raises e → e = .validator ∨ reMatch v = .raises e) ∧
    matchPatternMethod = "search" ∧ matchPatternSubject = "str(value)" := by
  rw [matchPatternValidate_eq]
  refine ⟨?_, ?_, ?_, ?_, by decide, by decide⟩ <;>
    (cases reMatch v with
     | ok m => cases m <;> simp [eq_comm]
     | raises e => simp [eq_comm])

theorem pattern_meets_spec (reMatch : Val → Orc Bool) (v : Val) :
    match specOracleBool (reMatch v) v true with
    | .accept r _ => vMatchPattern reMatch v = .ok r
    | .reject => vMatchPattern reMatch v = .raises .validator
    | .na => True := by
  unfold vMatchPattern specOracleBool
  rw [matchPatternValidate_eq]
  cases reMatch v with
  | ok m => cases m <;> simp
  | raises e => simp

/-- **Email with a custom pattern.** accepted ⇔ `re.fullmatch(pattern, v)` matches; returns `post_processor(v)`. -/
theorem email_custom_exact (reMatch : Val → Orc Bool) (post : Val → Val) (v : Val) :
    (∀ r, emailValidate reMatch post v = .ok r ↔ (reMatch v = .ok true ∧ r = post v)) ∧
    (reMatch v = .ok false → emailValidate reMatch post v = .raises .validator) ∧
    (∀ e, emailValidate reMatch post v = .raises e → e = .validator ∨ reMatch v = .raises e) := by
  rw [emailValidate_eq]
  refine ⟨?_, ?_, ?_⟩ <;>
    (cases reMatch v with
     | ok m => cases m <;> simp [eq_comm]
     | raises e => simp [eq_comm])

theorem email_custom_meets_spec (reMatch : Val → Orc Bool) (post : Val → Val) (v : Val) :
    match specOracleBool (reMatch v) (post v) false with
    | .accept r _ => vEmailCustom reMatch post v = .ok r
    | .reject => vEmailCustom reMatch post v = .raises .validator
    | .na => True := by
  unfold vEmailCustom specOracleBool
  rw [emailValidate_eq]
  cases reMatch v with
  | ok m => cases m <;> simp
  | raises e => simp

/-- the key IsEnum looks up: the upper-cased value when it is a str and `to_upper_case`, else the value -/
def EnumEnv.key (env : EnumEnv) (toUpper : Bool) (v : Val) : Val := if env.isStrInst v && toUpper then env.upperOf v else v
/-- what the lookup of key `k` answers: `enum(int(k))` for an IntEnum, else `enum(k)` -/
def EnumEnv.looked (env : EnumEnv) (k : Val) : Orc Val :=
  if env.isIntEnum then
    match env.intOf k with
    | .ok i => env.enumOf i
    | .raises e => .raises e
  else env.enumOf k

/-- the translated body of `IsEnum.validate`, as a function of what the lookup answers (every path of the generated
    function is walked: `repeat' split`) -/
theorem isEnumValidate_eq (convert toUpper : Bool) (env : EnumEnv) (v : Val)
    (ho : (env.looked (env.key toUpper v)).raisesWithin (intOfRaises ++ enumLookupRaises)) :
    vIsEnum convert toUpper env v =
      match env.looked (env.key toUpper v) with
      | .ok m => .ok (if convert then m else env.key toUpper v)
      | .raises _ => .raises .validator := by
  have hc := @caught_of_within Val (env.looked (env.key toUpper v)) _ _ enum_catches_all ho
  unfold vIsEnum isEnumValidate
  unfold EnumEnv.looked EnumEnv.key at *
  cases hup : (env.isStrInst v && toUpper) <;> cases hie : env.isIntEnum <;>
    simp only [hup, hie, Bool.false_eq_true, ↓reduceIte] at hc ⊢
  all_goals walk_paths

/-- **IsEnum.** accepted ⇔ the value (upper-cased if a str and `to_upper_case`; through `int()` for an IntEnum) names a
    member; returns the member when `convert`, else the (upper-cased) value; every rejection — whichever class `int()` or
    the enum lookup raised — is a ValidatorException. -/
theorem enum_exact (convert toUpper : Bool) (env : EnumEnv) (v : Val)
    (ho : (env.looked (env.key toUpper v)).raisesWithin (intOfRaises ++ enumLookupRaises)) :
    (∀ r, vIsEnum convert toUpper env v = .ok r ↔
        ∃ m, env.looked (env.key toUpper v) = .ok m ∧ r = if convert then m else env.key toUpper v) ∧
    (∀ e, vIsEnum convert toUpper env v = .raises e → e = .validator) ∧
    ((∃ e, env.looked (env.key toUpper v) = .raises e) → vIsEnum convert toUpper env v = .raises .validator) := by
  rw [isEnumValidate_eq convert toUpper env v ho]
  cases env.looked (env.key toUpper v) with
  | ok m =>
    refine ⟨fun r => ⟨fun h => ⟨m, rfl, ?_⟩, fun ⟨m', hm, hr⟩ => ?_⟩, fun e h => ?_, fun ⟨e, h⟩ => ?_⟩
    · cases h; rfl
    · cases hm; rw [hr]
    · cases h
    · cases h
  | raises e =>
    refine ⟨fun r => ⟨fun h => ?_, fun ⟨m', hm, _⟩ => ?_⟩, fun e h => ?_, fun _ => rfl⟩
    · cases h
    · cases hm
    · cases h; rfl

theorem enum_meets_spec (convert toUpper : Bool) (env : EnumEnv) (v : Val)
    (ho : (env.looked (env.key toUpper v)).raisesWithin (intOfRaises ++ enumLookupRaises)) :
    match specIsEnum convert toUpper env v with
    | .accept r _ => vIsEnum convert toUpper env v = .ok r
    | .reject => vIsEnum convert toUpper env v = .raises .validator
    | .na => True := by
  have h := enum_exact convert toUpper env v ho
  have hk : (enumKey toUpper env v).1 = env.key toUpper v := by
    unfold enumKey EnumEnv.key; rw [Bool.and_comm]; split <;> rfl
  have hm : enumMember env (env.key toUpper v) = (env.looked (env.key toUpper v)).toOption := by
    unfold enumMember EnumEnv.looked
    cases env.isIntEnum
    · simp
    · cases env.intOf (env.key toUpper v) <;> simp [Orc.toOption]
  unfold specIsEnum
  rw [hk, hm]
  cases hl : env.looked (env.key toUpper v) with
  | ok m => cases convert <;> simp [Orc.toOption, (h.1 _).2 ⟨m, hl, rfl⟩]
  | raises e => simp [Orc.toOption, h.2.2 ⟨e, hl⟩]

/-- the input that used to escape (fixed in /repo 09f6ab5): `IsEnum(<IntEnum>).validate(float('inf'))` -/
def infEnv : EnumEnv := ⟨fun _ => false, fun x => x, true, fun _ => .raises .overflowError, fun _ => .raises .valueError⟩
example : vIsEnum true true infEnv (.float .pinf false) = .raises .validator := rfl
-- non-vacuity: a str value, upper-cased, read as an int, found
def demoEnumEnv : EnumEnv := ⟨Val.isStr, fun _ => .str ['1'], true, fun _ => .ok (.int 1), fun _ => .ok (.ext "enum" "IE.A")⟩
example : vIsEnum true true demoEnumEnv (.str ['1']) = .ok (.ext "enum" "IE.A") := rfl
example : vIsEnum false true demoEnumEnv (.str ['1']) = .ok (.str ['1']) := rfl

/-- the date the source adds the seconds to is the literal 1970-01-01 (about the generated `dateTimeUnixTimestampEpoch`): a
    timestamp denotes the same naive datetime in every time zone -/
theorem unix_epoch_is_1970 : epochUs = some 0 := by decide

theorem datetimePlus_epoch (us : Int) :
    datetimePlus dateTimeUnixTimestampEpoch us = if minUs ≤ us ∧ us ≤ maxUs then .ok (mkDatetime us) else .raises .overflowError := by
  have h : epochUsOf dateTimeUnixTimestampEpoch = some 0 := unix_epoch_is_1970
  simp [datetimePlus, h]

/-- **No import-time computation** (about the generated list): the modules of the validators package and convert_value.py
    compute nothing when they are imported — no module- or class-level value, parameter default or decorator argument is
    derived from the environment of the importing process (time zone, locale, clock), so what a validator does is a function
    of its configuration and its argument alone, as the theorems of this file assume. -/
theorem no_import_time_computation : importTimeComputations = [] := by decide

/-- the translated body of `DateTimeUnixTimestamp.validate`, as a function of what `float` and `timedelta` answer -/
theorem unix_eq (floatOf : Val → Orc Num) (timedeltaOf : Num → Orc Int) (v : Val)
    (hfl : isSecondsValue v = true → (floatOf v).raisesWithin floatOfRaises) (htd : ∀ x, (timedeltaOf x).raisesWithin timedeltaRaises) :
    vUnix floatOf timedeltaOf v =
      if isSecondsValue v then
        match floatOf v with
        | .raises _ => .raises .validator
        | .ok x =>
          match timedeltaOf x with
          | .raises _ => .raises .validator
          | .ok us => if minUs ≤ us ∧ us ≤ maxUs then .ok (mkDatetime us) else .raises .validator
      else .raises .validator := by
  have hov : catches dateTimeUnixTimestampCaught1 .overflowError = true := by decide
  have hc0 : isSecondsValue v = true → ∀ e, floatOf v = .raises e → catches dateTimeUnixTimestampCaught0 e = true :=
    fun hb e h => caught_of_within unix_float_catches_all (hfl hb) h
  have hc1 : ∀ x e, timedeltaOf x = .raises e → catches dateTimeUnixTimestampCaught1 e = true :=
    fun x e h => unix_add_catches_all e (by have := htd x e h; simp [this])
  unfold vUnix dateTimeUnixTimestampValidate
  simp only [datetimePlus_epoch]
  -- the isinstance test of the source, whatever the order of its tuple: decided per kind of value
  cases v <;> simp only [Val.isInstanceOf, isSecondsValue, List.any_cons, List.any_nil] at hc0 ⊢ <;> walk_paths

/-- **DateTimeUnixTimestamp.** accepted ⇔ the value is an int / float / str, `float(v)` succeeds, `timedelta(seconds=…)`
    succeeds with `us` microseconds and `datetime.min ≤ epoch + us ≤ datetime.max`; returns that datetime.  `float` is only
    assumed to stay within its documented exceptions on the documented domain: were it asked before the isinstance guard,
    the second clause would not be provable. -/
theorem unix_exact (floatOf : Val → Orc Num) (timedeltaOf : Num → Orc Int) (v : Val)
    (hfl : isSecondsValue v = true → (floatOf v).raisesWithin floatOfRaises) (htd : ∀ x, (timedeltaOf x).raisesWithin timedeltaRaises) :
    (∀ r, vUnix floatOf timedeltaOf v = .ok r ↔
        (isSecondsValue v = true ∧
         ∃ x us, floatOf v = .ok x ∧ timedeltaOf x = .ok us ∧ specMinUs ≤ us ∧ us ≤ specMaxUs ∧ r = mkDatetime us)) ∧
    (∀ e, vUnix floatOf timedeltaOf v = .raises e → e = .validator) := by
  have hmin : specMinUs = minUs := by decide
  have hmax : specMaxUs = maxUs := by decide
  rw [unix_eq floatOf timedeltaOf v hfl htd, hmin, hmax]
  cases hb : isSecondsValue v
  · simp
  · simp only [↓reduceIte, true_and]
    cases hf : floatOf v with
    | raises e => simp
    | ok x =>
      simp only []
      cases ht : timedeltaOf x with
      | raises e =>
        simp only []
        constructor
        · intro r; constructor
          · intro h; cases h
          · intro ⟨x', us', hx, hu, _⟩
            cases hx; rw [ht] at hu; cases hu
        · intro e' h; cases h; rfl
      | ok us =>
        simp only []
        by_cases hr : minUs ≤ us ∧ us ≤ maxUs
        · simp only [hr, and_self, ↓reduceIte]
          constructor
          · intro r; constructor
            · intro h; cases h; exact ⟨x, us, rfl, ht, hr.1, hr.2, rfl⟩
            · intro ⟨x', us', hx, hu, _, _, hr2⟩
              cases hx; rw [ht] at hu; cases hu; rw [hr2]
          · intro e h; cases h
        · simp only [hr, ↓reduceIte]
          constructor
          · intro r; constructor
            · intro h; cases h
            · intro ⟨x', us', hx, hu, h1, h2, _⟩
              cases hx; rw [ht] at hu; cases hu; exact absurd ⟨h1, h2⟩ hr
          · intro e h; cases h; rfl

/-- DateTimeUnixTimestamp meets the executable specification the driver reports -/
theorem unix_meets_spec (floatOf : Val → Orc Num) (timedeltaOf : Num → Orc Int) (v : Val)
    (hfl : isSecondsValue v = true → (floatOf v).raisesWithin floatOfRaises) (htd : ∀ x, (timedeltaOf x).raisesWithin timedeltaRaises) :
    match specUnix floatOf timedeltaOf v with
    | .accept r _ => vUnix floatOf timedeltaOf v = .ok r
    | .reject => vUnix floatOf timedeltaOf v = .raises .validator
    | .na => True := by
  have hmin : specMinUs = minUs := by decide
  have hmax : specMaxUs = maxUs := by decide
  rw [unix_eq floatOf timedeltaOf v hfl htd]
  unfold specUnix
  rw [hmin, hmax]
  cases hb : isSecondsValue v
  · simp
  · simp only [↓reduceIte]
    cases hf : floatOf v with
    | raises e => simp [Orc.toOption]
    | ok x =>
      cases ht : timedeltaOf x with
      | raises e => simp [Orc.toOption, ht]
      | ok us =>
        simp only [Orc.toOption, Option.bind_some, ht]
        by_cases hr : minUs ≤ us ∧ us ≤ maxUs
        · simp [hr, mkDatetime]
        · simp [hr]

example : vIsUuid true (fun _ => .ok (.ext "uuid" "x")) (.str []) = .ok (.ext "uuid" "x") := rfl
example : vIsUuid false (fun _ => .raises .valueError) (.int 5) = .raises .validator := rfl
example : vUnix (fun _ => .ok (.fin 253402300800 1)) (fun _ => .ok 253402300800000000) (.int 253402300800) = .raises .validator := rfl
example : vUnix (fun _ => .ok (.fin 0 1)) (fun _ => .ok 0) (.bool false) = .ok (mkDatetime 0) := rfl
example : vUnix (fun _ => .raises .overflowError) (fun _ => .raises .overflowError) (.int 5) = .raises .validator := rfl
example : vUnix (fun _ => .ok .nan) (fun _ => .raises .valueError) (.float .nan false) = .raises .validator := rfl
example : vUnix (fun _ => .raises .typeError) (fun _ => .ok 0) .none = .raises .validator := rfl

/-! ## ForEach / Composite -/

theorem isIterable_iff_items (x : Val) : x.isIterable = true ↔ ∃ xs, x.items = some xs := by
  cases x <;> simp [Val.isIterable, Val.items]

theorem eachItem_ok_iff (f : Val → VRes Val) (R : Val → Val → Prop) (h : ∀ a b, f a = .ok b ↔ R a b) :
    ∀ xs ys, eachItem f xs = .ok ys ↔ Forall2 R xs ys := by
  intro xs
  induction xs with
  | nil => intro ys; cases ys <;> simp [eachItem, Forall2]
  | cons a as ih =>
    intro ys
    simp only [eachItem]
    cases hfa : f a with
    | raises e =>
      simp only []
      constructor
      · intro h'; cases h'
      · intro h'
        cases ys with
        | nil => simp [Forall2] at h'
        | cons b bs => have := (h a b).2 h'.1; rw [hfa] at this; cases this
    | ok y =>
      simp only []
      cases hr : eachItem f as with
      | raises e =>
        simp only []
        constructor
        · intro h'; cases h'
        · intro h'
          cases ys with
          | nil => simp [Forall2] at h'
          | cons b bs => have := (ih bs).2 h'.2; rw [hr] at this; cases this
      | ok ys' =>
        simp only []
        constructor
        · intro h'; cases h'
          exact ⟨(h a y).1 hfa, (ih ys').1 hr⟩
        · intro h'
          cases ys with
          | nil => simp [Forall2] at h'
          | cons b bs =>
            have h1 := (h a b).2 h'.1; rw [hfa] at h1; cases h1
            have h2 := (ih bs).2 h'.2; rw [hr] at h2; cases h2
            rfl

mutual
theorem run_ok_iff (sem : Nat → Val → VRes Val) : ∀ (t : VT) (x y : Val), run sem t x = .ok y ↔ Accepts sem t x y
  | .leaf i, x, y => by simp [run, Accepts]
  | .forEach ch, x, y => by
    have hch := runChain_ok_iff sem ch
    have he := eachItem_ok_iff (fun it => runChain sem ch it) (fun a b => ChainAccepts sem ch a b) hch
    simp only [run, Accepts]
    cases hit : x.isIterable
    · have : ¬ ∃ xs, x.items = some xs := by rw [← isIterable_iff_items]; simp [hit]
      simp only [Bool.not_false, ↓reduceIte]
      constructor
      · intro h; cases h
      · intro ⟨xs, ys, hx, _⟩; exact absurd ⟨xs, hx⟩ this
    · obtain ⟨xs, hxs⟩ := (isIterable_iff_items x).1 hit
      simp only [Bool.not_true, Bool.false_eq_true, ↓reduceIte, hxs]
      cases hr : eachItem (fun it => runChain sem ch it) xs with
      | raises e =>
        simp only []
        constructor
        · intro h; cases h
        · intro ⟨xs', ys, hx, hy, hf⟩
          cases hx
          have := (he xs ys).2 hf; rw [hr] at this; cases this
      | ok ys =>
        simp only []
        constructor
        · intro h; cases h; exact ⟨xs, ys, rfl, rfl, (he xs ys).1 hr⟩
        · intro ⟨xs', ys', hx, hy, hf⟩
          cases hx
          have := (he xs ys').2 hf; rw [hr] at this; cases this; rw [hy]
  | .composite cs, x, y => by
    have hall := runAll_none_iff sem cs x
    simp only [run, Accepts]
    cases hr : runAll sem cs x with
    | none =>
      simp only []
      constructor
      · intro h; cases h; exact ⟨rfl, hall.1 hr⟩
      · intro ⟨h1, _⟩; rw [h1]
    | some e =>
      simp only []
      constructor
      · intro h; cases h
      · intro ⟨_, h2⟩; have := hall.2 h2; rw [hr] at this; cases this
theorem runChain_ok_iff (sem : Nat → Val → VRes Val) : ∀ (ch : List VT) (x z : Val), runChain sem ch x = .ok z ↔ ChainAccepts sem ch x z
  | [], x, z => by simp [runChain, ChainAccepts, eq_comm]
  | v :: vs, x, z => by
    have h1 := run_ok_iff sem v x
    simp only [runChain, ChainAccepts]
    cases hr : run sem v x with
    | raises e =>
      simp only []
      constructor
      · intro h; cases h
      · intro ⟨y, hy, _⟩; have := (h1 y).2 hy; rw [hr] at this; cases this
    | ok y =>
      simp only []
      have h2 := runChain_ok_iff sem vs y z
      constructor
      · intro h; exact ⟨y, (h1 y).1 hr, h2.1 h⟩
      · intro ⟨y', hy', hc⟩
        have := (h1 y').2 hy'; rw [hr] at this; cases this
        exact h2.2 hc
theorem runAll_none_iff (sem : Nat → Val → VRes Val) : ∀ (cs : List VT) (x : Val), runAll sem cs x = none ↔ AllAccept sem cs x
  | [], x => by simp [runAll, AllAccept]
  | v :: vs, x => by
    have h1 := run_ok_iff sem v x
    have h2 := runAll_none_iff sem vs x
    simp only [runAll, AllAccept]
    cases hr : run sem v x with
    | raises e =>
      simp only []
      constructor
      · intro h; cases h
      · intro ⟨⟨y, hy⟩, _⟩; have := (h1 y).2 hy; rw [hr] at this; cases this
    | ok y =>
      simp only []
      constructor
      · intro h; exact ⟨⟨y, (h1 y).1 hr⟩, h2.1 h⟩
      · intro ⟨_, hc⟩; exact h2.2 hc
end

/-- some leaf validator raised `e` on some input -/
def LeafRaises (sem : Nat → Val → VRes Val) (e : Exc) : Prop := ∃ i x, sem i x = .raises e

theorem eachItem_raises (f : Val → VRes Val) (P : Exc → Prop) (h : ∀ a e, f a = .raises e → P e) :
    ∀ xs e, eachItem f xs = .raises e → P e := by
  intro xs
  induction xs with
  | nil => intro e h'; simp [eachItem] at h'
  | cons a as ih =>
    intro e h'
    simp only [eachItem] at h'
    cases hfa : f a with
    | raises e' => rw [hfa] at h'; cases h'; exact h a _ hfa
    | ok y =>
      rw [hfa] at h'
      cases hr : eachItem f as with
      | raises e' => rw [hr] at h'; cases h'; exact ih _ hr
      | ok ys => rw [hr] at h'; cases h'

mutual
theorem run_raises (sem : Nat → Val → VRes Val) :
    ∀ (t : VT) (x : Val) (e : Exc), run sem t x = .raises e → e = .validator ∨ LeafRaises sem e
  | .leaf i, x, e => by intro h; exact Or.inr ⟨i, x, by simpa [run] using h⟩
  | .forEach ch, x, e => by
    have hch := runChain_raises sem ch
    intro h
    simp only [run] at h
    cases hit : x.isIterable
    · simp [hit, forEachRejects, raiseExceptionClass] at h; exact Or.inl h.symm
    · simp only [hit, Bool.not_true, Bool.false_eq_true, ↓reduceIte] at h
      cases hxs : x.items with
      | none => simp [hxs, forEachRejects, raiseExceptionClass] at h; exact Or.inl h.symm
      | some xs =>
        simp only [hxs] at h
        cases hr : eachItem (fun it => runChain sem ch it) xs with
        | ok ys => rw [hr] at h; cases h
        | raises e' =>
          rw [hr] at h; cases h
          exact eachItem_raises _ (fun e => e = .validator ∨ LeafRaises sem e) (fun a e he => hch a e he) xs _ hr
  | .composite cs, x, e => by
    intro h
    simp only [run] at h
    cases hr : runAll sem cs x with
    | none => rw [hr] at h; cases h
    | some e' => rw [hr] at h; cases h; exact runAll_raises sem cs x _ hr
theorem runChain_raises (sem : Nat → Val → VRes Val) :
    ∀ (ch : List VT) (x : Val) (e : Exc), runChain sem ch x = .raises e → e = .validator ∨ LeafRaises sem e
  | [], x, e => by intro h; simp [runChain] at h
  | v :: vs, x, e => by
    intro h
    simp only [runChain] at h
    cases hr : run sem v x with
    | raises e' => rw [hr] at h; cases h; exact run_raises sem v x _ hr
    | ok y => rw [hr] at h; exact runChain_raises sem vs y e h
theorem runAll_raises (sem : Nat → Val → VRes Val) :
    ∀ (cs : List VT) (x : Val) (e : Exc), runAll sem cs x = some e → e = .validator ∨ LeafRaises sem e
  | [], x, e => by intro h; simp [runAll] at h
  | v :: vs, x, e => by
    intro h
    simp only [runAll] at h
    cases hr : run sem v x with
    | raises e' => rw [hr] at h; cases h; exact run_raises sem v x _ hr
    | ok y => rw [hr] at h; exact runAll_raises sem vs x e h
end

/-- **ForEach** (any chain of validator trees, any nesting depth): accepted ⇔ the value is iterable and every item passes the
    chain, each validator receiving the output of the one before; returns the list of the chain outputs. -/
theorem foreach_exact (sem : Nat → Val → VRes Val) (ch : List VT) (x y : Val) :
    run sem (.forEach ch) x = .ok y ↔
      ∃ xs ys, x.items = some xs ∧ y = .list ys ∧ Forall2 (fun a b => ChainAccepts sem ch a b) xs ys := by
  rw [run_ok_iff]; simp only [Accepts]

/-- **Composite**: accepted ⇔ every child accepts the value; the value is returned unchanged. -/
theorem composite_exact (sem : Nat → Val → VRes Val) (cs : List VT) (x y : Val) :
    run sem (.composite cs) x = .ok y ↔ (y = x ∧ AllAccept sem cs x) := by
  rw [run_ok_iff]; simp only [Accepts]

/-- a non-iterable value is rejected by ForEach with ValidatorException -/
theorem foreach_not_iterable (sem : Nat → Val → VRes Val) (ch : List VT) (x : Val) (h : x.isIterable = false) :
    run sem (.forEach ch) x = .raises .validator := by
  simp [run, h, forEachRejects, raiseExceptionClass]

/-- when the leaves reject with ValidatorException only, so does every tree built from them -/
theorem tree_rejects_with_validator (sem : Nat → Val → VRes Val) (hsem : ∀ i x e, sem i x = .raises e → e = .validator)
    (t : VT) (x : Val) (e : Exc) (h : run sem t x = .raises e) : e = .validator := by
  rcases run_raises sem t x e h with h | ⟨i, x', h⟩
  · exact h
  · exact hsem i x' e h

/-! ### the executable tree specification the driver reports (`specTree`) -/

/-- the outcome of `run`, in the vocabulary of `specTree` -/
def TreeOut.ofRes : VRes Val → TreeOut
  | .ok y => ⟨some y, false⟩
  | .raises e => ⟨none, e != .validator⟩

theorem eachItem_spec (f : Val → VRes Val) (g : Val → TreeOut) (h : ∀ a, g a = TreeOut.ofRes (f a)) : ∀ xs : List Val,
    match eachItem f xs with
    | .ok ys => (xs.map g).all (fun r => r.out.isSome) = true ∧ (xs.map g).filterMap (·.out) = ys
    | .raises e => (xs.map g).all (fun r => r.out.isSome) = false ∧
        ((xs.map g).dropWhile (fun r => r.out.isSome)).head?.any (·.foreign) = (e != .validator) := by
  intro xs
  induction xs with
  | nil => simp [eachItem]
  | cons a as ih =>
    simp only [eachItem, List.map_cons]
    cases hfa : f a with
    | raises e => simp [h a, hfa, TreeOut.ofRes]
    | ok y =>
      simp only []
      cases hr : eachItem f as with
      | ok ys => rw [hr] at ih; simp only [] at ih ⊢; simp [h a, hfa, TreeOut.ofRes, ih.1, ih.2]
      | raises e => rw [hr] at ih; simp only [] at ih ⊢; simp [h a, hfa, TreeOut.ofRes, ih.1, ih.2]

mutual
/-- **the functional spec is the model's outcome**, for every tree (any depth), every leaf semantics and every value:
    accepted with the same output, or rejected with the same "a leaf raised something foreign" flag -/
theorem specTree_eq_run (sem : Nat → Val → VRes Val) : ∀ (t : VT) (x : Val), specTree sem t x = TreeOut.ofRes (run sem t x)
  | .leaf i, x => by
    simp only [specTree, run]
    cases sem i x <;> rfl
  | .forEach ch, x => by
    have hch := specChain_eq_run sem ch
    have he := eachItem_spec (fun it => runChain sem ch it) (fun it => specChain sem ch it) hch
    simp only [specTree, run]
    cases hit : x.isIterable
    · have : x.items = none := by
        cases hi : x.items with
        | none => rfl
        | some xs => have := (isIterable_iff_items x).2 ⟨xs, hi⟩; simp [hit] at this
      simp [this, TreeOut.ofRes, forEachRejects, raiseExceptionClass]
    · obtain ⟨xs, hxs⟩ := (isIterable_iff_items x).1 hit
      simp only [hxs, Bool.not_true, Bool.false_eq_true, ↓reduceIte]
      have h := he xs
      cases hr : eachItem (fun it => runChain sem ch it) xs with
      | ok ys => rw [hr] at h; simp only [] at h ⊢; simp [h.1, h.2, TreeOut.ofRes]
      | raises e => rw [hr] at h; simp only [] at h ⊢; simp [h.1, h.2, TreeOut.ofRes]
  | .composite cs, x => by
    have h := specEvery_runAll sem cs x
    simp only [specTree, run]
    cases hr : runAll sem cs x with
    | none => rw [hr] at h; simp only [] at h ⊢; simp [h, TreeOut.ofRes]
    | some e => rw [hr] at h; simp only [] at h ⊢; simp [h.1, h.2, TreeOut.ofRes]
theorem specChain_eq_run (sem : Nat → Val → VRes Val) : ∀ (ch : List VT) (x : Val), specChain sem ch x = TreeOut.ofRes (runChain sem ch x)
  | [], x => by simp [specChain, runChain, TreeOut.ofRes]
  | v :: vs, x => by
    have h1 := specTree_eq_run sem v x
    simp only [specChain, runChain, h1]
    cases hr : run sem v x with
    | ok y => simp only [TreeOut.ofRes]; exact specChain_eq_run sem vs y
    | raises e => simp [TreeOut.ofRes]
theorem specEvery_runAll (sem : Nat → Val → VRes Val) : ∀ (cs : List VT) (x : Val),
    match runAll sem cs x with
    | none => (specEvery sem cs x).all (fun r => r.out.isSome) = true
    | some e => (specEvery sem cs x).all (fun r => r.out.isSome) = false ∧
        ((specEvery sem cs x).dropWhile (fun r => r.out.isSome)).head?.any (·.foreign) = (e != .validator)
  | [], x => by simp [runAll, specEvery]
  | v :: vs, x => by
    have h1 := specTree_eq_run sem v x
    have h2 := specEvery_runAll sem vs x
    simp only [runAll, specEvery, h1]
    cases hr : run sem v x with
    | raises e => simp [TreeOut.ofRes]
    | ok y =>
      simp only []
      cases hr2 : runAll sem vs x with
      | none => rw [hr2] at h2; simp only [] at h2 ⊢; simp [TreeOut.ofRes, h2]
      | some e => rw [hr2] at h2; simp only [] at h2 ⊢; simp [TreeOut.ofRes, h2.1, h2.2]
end

/-- **the functional `specTree` accepts iff the relational `Accepts` holds** (any depth, any leaves) -/
theorem specTree_iff_Accepts (sem : Nat → Val → VRes Val) (t : VT) (x y : Val) :
    (specTree sem t x).out = some y ↔ Accepts sem t x y := by
  rw [specTree_eq_run, ← run_ok_iff]
  cases run sem t x <;> simp [TreeOut.ofRes]

/-- ForEach / Composite trees meet the executable specification the driver reports (`na` when a leaf raised a foreign class) -/
theorem tree_meets_spec (sem : Nat → Val → VRes Val) (t : VT) (x : Val) (hf : (specTree sem t x).foreign = false) :
    match (specTree sem t x).out with
    | some y => run sem t x = .ok y
    | none => run sem t x = .raises .validator := by
  rw [specTree_eq_run] at hf ⊢
  generalize run sem t x = r at hf ⊢
  cases r with
  | ok y => simp [TreeOut.ofRes]
  | raises e => simpa [TreeOut.ofRes] using hf

-- non-vacuity: a ForEach of a chain [leaf 0; ForEach [leaf 1]] over a nested list, leaves that transform / reject
def demoSem : Nat → Val → VRes Val
  | 0, x => .ok x
  | 1, .int i => if i < 0 then .raises .validator else .ok (.int (i + 1))
  | _, _ => .raises .validator
example : run demoSem (.forEach [.leaf 0, .forEach [.leaf 1]]) (.list [.list [.int 1, .int 2], .tuple []])
    = .ok (.list [.list [.int 2, .int 3], .list []]) := rfl
example : run demoSem (.forEach [.forEach [.leaf 1]]) (.list [.list [.int 1, .int (-2)]]) = .raises .validator := rfl
example : run demoSem (.composite [.leaf 0, .composite [.leaf 1]]) (.int 4) = .ok (.int 4) := rfl
example : run demoSem (.forEach [.leaf 0]) (.int 4) = .raises .validator := rfl

/-! ## convert_value -/

/-- the `float(s)` oracle answers with a float or ValueError -/
def FloatOracleOK (env : CEnv) : Prop :=
  ∀ s, match env.floatOf s with | .ok r => r.isOfTarget .float = true | .raises e => e = .valueError

theorem parseInt_shape (env : CEnv) (s : List Char) :
    (∃ i, parseInt env s = .ok (.int i)) ∨ parseInt env s = .raises .valueError := by
  unfold parseInt
  split
  · split
    · right; rfl
    · left; exact ⟨_, rfl⟩
  · right; rfl

/-- what the property needs from the structure of `convert_value` as the source has it now: nothing runs in front of the
    isinstance shortcut (a statement there runs unguarded for every input: `value.decode()` of a byte string that is not
    valid UTF-8 would escape as UnicodeDecodeError), both failure paths and the
    `str()` path end in ConversionError, ValueError is what the try blocks catch, and `str(True)` / `str(False)` — once
    lower-cased — are literals of the right list only -/
theorem convert_source_shape :
    convertPrelude = [] ∧ convertBoolFail = .conversion ∧ convertHandlerRaises = .conversion ∧ convertStrHandlerRaises = .conversion ∧
    catches convertCaught .valueError = true ∧ catches convertStrCaught .valueError = true ∧
    "lower" ∈ convertNormalise ∧
    "true" ∈ convertBoolTrue ∧ "false" ∉ convertBoolTrue ∧ "false" ∈ convertBoolFalse ∧ "true" ∉ convertBoolFalse := by decide

/-- the `str(v)` oracle raises nothing but ValueError (objects whose `__str__` raises something else are not values of the property) -/
def StrOracleOK (env : CEnv) : Prop := ∀ v, (env.strOf v).raisesWithin strOfRaises

theorem str_catches_all : ∀ e ∈ strOfRaises, catches convertStrCaught e = true := by decide

theorem pyStr_raises (env : CEnv) (hs : StrOracleOK env) (v : Val) (e : Exc) (h : pyStr env v = .raises e) : e ∈ strOfRaises := by
  cases v with
  | int i =>
    simp only [pyStr] at h
    split at h
    · cases h; simp [strOfRaises]
    · cases h
  | none => simp [pyStr] at h
  | bool b => simp [pyStr] at h
  | str s => simp [pyStr] at h
  | float x nz => exact hs _ e h
  | bytes b => exact hs _ e h
  | list xs => exact hs _ e h
  | tuple xs => exact hs _ e h
  | set xs => exact hs _ e h
  | dict kvs => exact hs _ e h
  | range n => exact hs _ e h
  | gen xs => exact hs _ e h
  | ext k r => exact hs _ e h

/-- `target_type(value)` gives an instance of the target type or raises ValueError -/
theorem construct_shape (env : CEnv) (hf : FloatOracleOK env) (s : List Char) (t : Target) :
    match construct env s t with
    | .ok r => r.isOfTarget t = true
    | .raises e => e = .valueError := by
  cases t with
  | bool => simp [construct, Val.isOfTarget, Val.isInstanceOf, Target.name]
  | str => simp [construct, Val.isOfTarget, Val.isInstanceOf, Target.name]
  | list => simp [construct, Val.isOfTarget, Val.isInstanceOf, Target.name]
  | dict =>
    simp only [construct]
    by_cases h : s.isEmpty = true
    · simp [h, Val.isOfTarget, Val.isInstanceOf, Target.name]
    · simp [h]
  | int =>
    simp only [construct]
    rcases parseInt_shape env s with ⟨i, h⟩ | h <;> simp [h, Val.isOfTarget, Val.isInstanceOf, Target.name]
  | float => exact hf s

/-- a branch of its own gives an instance of its target type or ConversionError -/
theorem ownBranch_ok (env : CEnv) (s : List Char) (t : Target) (r : VRes Val) (h : ownBranch env s t = some r) : ConvertOK t r := by
  cases t with
  | bool =>
    simp only [ownBranch, Option.some.injEq] at h; subst h
    split
    · simp [ConvertOK, Val.isOfTarget, Val.isInstanceOf, Target.name]
    · split
      · simp [ConvertOK, Val.isOfTarget, Val.isInstanceOf, Target.name]
      · simp [ConvertOK, convertBoolFail]
  | list => simp only [ownBranch, Option.some.injEq] at h; subst h; simp [ConvertOK, Val.isOfTarget, Val.isInstanceOf, Target.name]
  | dict => simp only [ownBranch, Option.some.injEq] at h; subst h; simp [ConvertOK, Val.isOfTarget, Val.isInstanceOf, Target.name]
  | int => simp [ownBranch] at h
  | float => simp [ownBranch] at h
  | str => simp [ownBranch] at h

/-- **convert_value is total.** For every value (including ints whose `str()` the interpreter refuses), every target type
    and every interpreter table: the result is an instance of the target type, or the exception is ConversionError — whichever
    targets have a branch of their own (the proof does not look into `convertSpecialTargets`). -/
theorem convert_total (env : CEnv) (v : Val) (t : Target) (hf : FloatOracleOK env) (hs : StrOracleOK env) :
    ConvertOK t (convert env v t) := by
  have hc : catches convertCaught .valueError = true := by decide
  unfold convert
  by_cases hsc : (convertShortcut && v.isOfTarget t) = true
  · simp only [hsc, ↓reduceIte, ConvertOK]
    simp [convertShortcut] at hsc; exact hsc
  · simp only [hsc, Bool.false_eq_true, ↓reduceIte]
    cases hs0 : pyStr env v with
    | raises e =>
      have := str_catches_all e (pyStr_raises env hs v e hs0)
      simp [this, ConvertOK, convertStrHandlerRaises]
    | ok s0 =>
      simp only []
      cases hob : (if convertSpecialTargets.contains t.name then ownBranch env (normalise env s0) t else none) with
      | some r =>
        simp only []
        refine ownBranch_ok env (normalise env s0) t r ?_
        split at hob
        · exact hob
        · cases hob
      | none =>
        simp only []
        have := construct_shape env hf (normalise env s0) t
        cases hcon : construct env (normalise env s0) t with
        | ok r => rw [hcon] at this; simpa [tryExcept, ConvertOK] using this
        | raises e => rw [hcon] at this; simp only [] at this; subst this; simp [tryExcept, hc, ConvertOK, convertHandlerRaises]

/-- the input that used to escape (fixed in /repo fed15a8): `str()` of an int beyond the digit limit (here: limit 1 digit) -/
def tinyEnv : CEnv := ⟨fun _ => false, fun c => [c], fun _ => none, 1, fun _ => .ok [], fun _ => .raises .valueError⟩
example : convert tinyEnv (.int 10) .float = .raises .conversion := by
  simp [convert, convertShortcut, Val.isOfTarget, Val.isInstanceOf, Target.name, pyStr, natDigits, natDigitsAcc, tinyEnv,
    catches, convertStrCaught, convertStrHandlerRaises, Exc.isSub]
-- non-vacuity of the oracle guards of `convert_total`
example : FloatOracleOK tinyEnv := by intro s; simp [tinyEnv]
example : StrOracleOK tinyEnv := by intro v e h; simp [tinyEnv] at h

/-- `convert_value(str(b), bool) == b` -/
theorem convert_inverts_str_bool (env : CEnv) (b : Bool) (s : List Char) (hs : pyStr env (.bool b) = .ok s) :
    convert env (.str s) .bool = .ok (.bool b) := by
  cases b <;> simp [pyStr] at hs <;> subst hs <;> rfl

theorem natDigitsAcc_small (n : Nat) (acc : List Char) (h : n < 10) : natDigitsAcc n acc = digitChar n :: acc := by
  rw [natDigitsAcc]; simp [h]
theorem natDigitsAcc_big (n : Nat) (acc : List Char) (h : ¬ n < 10) :
    natDigitsAcc n acc = natDigitsAcc (n / 10) (digitChar (n % 10) :: acc) := by
  rw [natDigitsAcc]; simp [h]

theorem natDigitsAcc_append : ∀ (n : Nat) (acc : List Char), natDigitsAcc n acc = natDigitsAcc n [] ++ acc := by
  intro n
  induction n using Nat.strongRecOn with
  | _ n ih =>
    intro acc
    by_cases h : n < 10
    · rw [natDigitsAcc_small n acc h, natDigitsAcc_small n [] h]; rfl
    · rw [natDigitsAcc_big n acc h, natDigitsAcc_big n [] h, ih (n / 10) (by omega) (digitChar (n % 10) :: acc),
        ih (n / 10) (by omega) [digitChar (n % 10)]]
      simp

theorem natDigits_small (n : Nat) (h : n < 10) : natDigits n = [digitChar n] := natDigitsAcc_small n [] h
theorem natDigits_big (n : Nat) (h : ¬ n < 10) : natDigits n = natDigits (n / 10) ++ [digitChar (n % 10)] := by
  unfold natDigits; rw [natDigitsAcc_big n [] h]; exact natDigitsAcc_append _ _

/-- a decimal digit character: ASCII, not whitespace, its own lower case, and `int()` reads its value -/
theorem digitChar_facts (env : CEnv) (d : Nat) (h : d < 10) :
    digitVal env (digitChar d) = some d ∧ env.isSpace (digitChar d) = false ∧ lowerChar env (digitChar d) = [digitChar d]
    ∧ digitChar d ≠ '_' ∧ digitChar d ≠ '-' ∧ digitChar d ≠ '+' := by
  have : d = 0 ∨ d = 1 ∨ d = 2 ∨ d = 3 ∨ d = 4 ∨ d = 5 ∨ d = 6 ∨ d = 7 ∨ d = 8 ∨ d = 9 := by omega
  rcases this with rfl | rfl | rfl | rfl | rfl | rfl | rfl | rfl | rfl | rfl <;>
    refine ⟨rfl, rfl, rfl, by decide, by decide, by decide⟩

/-- every character of `natDigits n` is a digit character -/
theorem natDigits_chars (n : Nat) : ∀ c ∈ natDigits n, ∃ d, d < 10 ∧ c = digitChar d := by
  induction n using Nat.strongRecOn with
  | _ n ih =>
    by_cases h : n < 10
    · rw [natDigits_small n h]; intro c hc; simp at hc; exact ⟨n, h, hc⟩
    · rw [natDigits_big n h]; intro c hc
      simp only [List.mem_append, List.mem_singleton] at hc
      rcases hc with hc | hc
      · exact ih (n / 10) (by omega) c hc
      · exact ⟨n % 10, by omega, hc⟩

theorem natDigits_ne_nil (n : Nat) : natDigits n ≠ [] := by
  by_cases h : n < 10
  · rw [natDigits_small n h]; simp
  · rw [natDigits_big n h]; simp

/-- `int()` reads back what `str()` wrote -/
theorem parse_natDigits (env : CEnv) (n : Nat) : ∀ (rest : List Char) (prev : Bool),
    parseNatAcc env (natDigits n ++ rest) prev 0 0 = parseNatAcc env rest true n (natDigits n).length := by
  induction n using Nat.strongRecOn with
  | _ n ih =>
    intro rest prev
    by_cases h : n < 10
    · obtain ⟨h1, _, _, h4, _, _⟩ := digitChar_facts env n h
      rw [natDigits_small n h]
      simp [parseNatAcc, h1, h4]
    · obtain ⟨h1, _, _, h4, _, _⟩ := digitChar_facts env (n % 10) (by omega)
      rw [natDigits_big n h, List.append_assoc, ih (n / 10) (by omega)]
      simp only [List.singleton_append, parseNatAcc, h4, ↓reduceIte, h1, List.length_append, List.length_singleton]
      have : n / 10 * 10 + n % 10 = n := by omega
      rw [this]

theorem strip_id (p : Char → Bool) (s : List Char) (h : ∀ c ∈ s, p c = false) : strip p s = s := by
  have dw : ∀ l : List Char, (∀ c ∈ l, p c = false) → l.dropWhile p = l := by
    intro l hl; cases l with
    | nil => rfl
    | cons a as => simp [List.dropWhile_cons, hl a (by simp)]
  unfold strip
  rw [dw s h, dw s.reverse (by intro c hc; exact h c (by simpa using hc))]
  simp

theorem lowerStr_id (env : CEnv) (s : List Char) (h : ∀ c ∈ s, lowerChar env c = [c]) : lowerStr env s = s := by
  unfold lowerStr
  induction s with
  | nil => rfl
  | cons a as ih =>
    simp only [List.flatMap_cons, h a (by simp)]
    rw [ih (fun c hc => h c (by simp [hc]))]; rfl

/-- `convert_value(str(i), int) == i` for every int whose `str()` exists (any sign, any size below the digit limit).
    `natDigits` (inside `pyStr`) and `parseInt` are HAND-WRITTEN models of CPython's `str(int)` and `int(str)` — decimal printing
    and parsing (sign, `_` separators, Unicode digits, the digit limit); they are neither generated from a source nor oracles.
    The theorem is about these two functions and the generated structure of `convert_value` around them; that CPython's
    `str` / `int` are these functions is what the correspondence check exercises (the `convert:int/rt/…` round trips and the
    `int` targets of the value zoo). -/
theorem convert_inverts_str_int (env : CEnv) (i : Int) (s : List Char) (hs : pyStr env (.int i) = .ok s) :
    convert env (.str s) .int = .ok (.int i) := by
  simp only [pyStr] at hs
  split at hs
  · cases hs
  · rename_i hlen
    have hlen' : (natDigits i.natAbs).length ≤ env.maxStrDigits := by omega
    simp only [Orc.ok.injEq] at hs
    -- plain characters: digits and the sign
    have hplain : ∀ c ∈ s, env.isSpace c = false ∧ lowerChar env c = [c] := by
      intro c hc
      have hmem : c = '-' ∨ c ∈ natDigits i.natAbs := by
        rw [← hs] at hc; split at hc
        · simpa using hc
        · exact Or.inr hc
      rcases hmem with rfl | hmem
      · exact ⟨rfl, rfl⟩
      · obtain ⟨d, hd, rfl⟩ := natDigits_chars _ c hmem
        obtain ⟨_, h2, h3, _⟩ := digitChar_facts env d hd
        exact ⟨h2, h3⟩
    have hnorm : normalise env s = s := by
      simp only [normalise, convertNormalise, List.foldl_cons, List.foldl_nil]
      simp only [↓reduceIte, String.reduceEq]
      rw [strip_id _ s (fun c hc => (hplain c hc).1), lowerStr_id env s (fun c hc => (hplain c hc).2)]
    have hc : catches convertCaught .valueError = true := by decide
    -- the head of the digit string is a digit
    obtain ⟨d0, ds, hds⟩ : ∃ d0 ds, natDigits i.natAbs = d0 :: ds := by
      cases h : natDigits i.natAbs with
      | nil => exact absurd h (natDigits_ne_nil _)
      | cons a as => exact ⟨a, as, rfl⟩
    obtain ⟨d, hd, hd0⟩ := natDigits_chars i.natAbs d0 (by simp [hds])
    obtain ⟨_, _, _, _, hm, hp⟩ := digitChar_facts env d hd
    have hparse := parse_natDigits env i.natAbs [] false
    simp only [List.append_nil, parseNatAcc, ↓reduceIte] at hparse
    have hsp : convertSpecialTargets.contains "int" = false := by decide
    unfold convert
    simp only [convertShortcut, Val.isOfTarget, Val.isInstanceOf, Target.name, Bool.true_and, pyStr, hnorm, hsp, construct,
      Bool.false_eq_true, ↓reduceIte]
    by_cases hneg : i < 0
    · have hs' : s = '-' :: natDigits i.natAbs := by rw [← hs]; simp [hneg]
      subst hs'
      simp only [parseInt, unsign, signNeg, hparse]
      have : ¬ (natDigits i.natAbs).length > env.maxStrDigits := by omega
      have hi : -(i.natAbs : Int) = i := by omega
      simp [tryExcept, this, hi]
    · have hs' : s = natDigits i.natAbs := by rw [← hs]; simp [hneg]
      subst hs'
      have hne1 : ¬ (d0 = '-') := by rw [hd0]; exact hm
      have hne2 : ¬ (d0 = '+') := by rw [hd0]; exact hp
      have hbody : unsign (natDigits i.natAbs) = natDigits i.natAbs := by
        rw [hds]; unfold unsign; split <;> simp_all
      have hnegb : signNeg (natDigits i.natAbs) = false := by
        rw [hds]; unfold signNeg; split <;> simp_all
      simp only [parseInt, hbody, hnegb, hparse]
      have : ¬ (natDigits i.natAbs).length > env.maxStrDigits := by omega
      have hi : (i.natAbs : Int) = i := by omega
      simp [tryExcept, this, hi]

/-- **Round-trip assumption about the interpreter** (an explicitly named hypothesis on the environment, not a Lean
    postulate): `float()` reads back, from the stripped and lower-cased text, the float whose `str()` that text is — CPython's
    `float(repr(x)) == x` for every float incl. `inf`, `nan`, `-0.0` and exponents (`1e+16` lower-cases to itself).  `str(x)`
    and `float(s)` are oracles of this model; the assumption is what the `convert:float/rt/…` round trips of the correspondence
    check exercise (10^4 floats per run). -/
def FloatRoundTrip (env : CEnv) : Prop :=
  ∀ (x : Num) (z : Bool) (s : List Char), env.strOf (.float x z) = .ok s → env.floatOf (normalise env s) = .ok (.float x z)

/-- `convert_value(str(x), float) == x` for every float, GIVEN that the interpreter's `float` inverts its `str`
    (`FloatRoundTrip`): the shortcut does not fire on the str, normalisation is the one the oracle assumption is about, float
    has no branch of its own and the try block hands the answer of `float()` through unchanged. -/
theorem convert_inverts_str_float (env : CEnv) (hrt : FloatRoundTrip env) (x : Num) (z : Bool) (s : List Char)
    (hs : pyStr env (.float x z) = .ok s) :
    convert env (.str s) .float = .ok (.float x z) := by
  have h := hrt x z s (by simpa [pyStr] using hs)
  have hsp : ¬ ("float" ∈ convertSpecialTargets) := by decide
  simp [convert, convertShortcut, Val.isOfTarget, Val.isInstanceOf, Target.name, pyStr, hsp, construct, h, tryExcept]

/-- non-vacuity: an environment that prints 1.5 as "1.5" and reads it back satisfies the assumption, and the theorem applies -/
def rtEnv : CEnv :=
  ⟨fun _ => false, fun c => [c], fun _ => none, 4300,
   fun v => match v with
     | .float x z => if x = .fin 3 2 ∧ z = false then .ok "1.5".toList else .raises .valueError
     | _ => .raises .valueError,
   fun s => if s = "1.5".toList then .ok (.float (.fin 3 2) false) else .raises .valueError⟩
theorem rtEnv_roundTrips : FloatRoundTrip rtEnv := by
  intro x z s h
  simp only [rtEnv] at h
  split at h
  · rename_i hxz
    cases h
    obtain ⟨rfl, rfl⟩ := hxz
    rfl
  · cases h
example : convert rtEnv (.str "1.5".toList) .float = .ok (.float (.fin 3 2) false) :=
  convert_inverts_str_float rtEnv rtEnv_roundTrips (.fin 3 2) false "1.5".toList rfl

example (env : CEnv) : convert env (.str " TRUE ".toList) .bool = .ok (.bool true) := rfl
example (env : CEnv) : convert env (.str "a:b:c, d : e ,f".toList) .dict
    = .ok (.dict [("a".toList, "b:c".toList), ("d".toList, "e".toList), ("f".toList, [])]) := rfl
example (env : CEnv) : convert env (.bool true) .int = .ok (.bool true) := rfl
example (env : CEnv) : convert env .none .bool = .raises .conversion := rfl

end PedVerif.Validators
