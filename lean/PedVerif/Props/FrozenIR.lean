import PedVerif.Lemmas.FrozenIR
/-!
# Frozen IR — the theorems of C10 and C11 about the code as translated statement by statement

`harness/gen/frozen_ir.py` turns `cls_deco_frozen_dataclass.py` (and `get_context.py`) into the statement programs of `Gen/FrozenIR.lean`;
`Model/FrozenIR.lean` executes them.  `Lemmas/FrozenIR.lean` shows that these executions ARE the hand models of C10 / C11 (for all inputs);
here the main theorems of `Props/C10.lean` and `Props/C11.lean` are restated about the executed programs.  A source edit that changes what a
function does changes a program, and the refinement it feeds no longer checks.
-/
set_option linter.unusedVariables false
namespace PedVerif.FrozenIR
open PedVerif.Gen.FrozenIR

/-! ## refinement (statements; proofs in `Lemmas/FrozenIR.lean`) -/

/-- the decorator -/
theorem decorator_is_model (p : Params) : decoOut p = some (handDeco p) := deco_refines p

/-- `frozen_type_safe_dataclass` is `frozen_dataclass(type_safe=True)` with every other option at its default -/
theorem shortcut_is_type_safe :
    shortcutParams.map (·.1) = some ⟨true, Gen.Frozen.defaultOrder, Gen.Frozen.defaultKwOnly, Gen.Frozen.defaultSlots⟩ ∧
    defaultParams = (Gen.Frozen.defaultTypeSafe, Gen.Frozen.defaultOrder, Gen.Frozen.defaultKwOnly, Gen.Frozen.defaultSlots) := by decide

/-- `@frozen_dataclass` applies the decorator to the class, `@frozen_dataclass(...)` returns it -/
theorem outer_applies_or_returns : (runOuter true outerProg false []).1 = .applied ∧ (runOuter false outerProg false []).1 = .decorator := by
  decide

/-- **`dataclass(...)` is called exactly once, with `frozen=True`, outside any `try`**: the source text has one call site, it is the one
    statement `callDataclass` of the decorator program (a second call, or a call before its options are bound, makes the run ill-formed:
    `decoOut = none`), no statement of the decorator is a `try` (the translator refuses such a source), and for all parameters the options
    it hands over have `frozen = true`.  So a definition `dataclasses` refuses (a non-frozen dataclass base, …) ends the decoration with
    that TypeError: there is no fallback that could hand back a mutable class. -/
theorem ir_dataclass_once_frozen (p : Params) :
    dataclassCallSites = 1 ∧ (decoProg.filter fun s => match s.2 with | .callDataclass _ _ => true | _ => false).length = 1 ∧
    ∃ a, (decoOut p).bind (·.dc) = some a ∧ a.frozen = true := by
  refine ⟨by decide, by decide, ?_⟩
  rw [deco_refines]
  exact ⟨_, rfl, by simp [handDeco, PedVerif.Gen.Frozen.frozenArg]⟩

/-! ## the two older translators and this one read the same source: their facts are the ones the programs imply

`Gen/TypeSafe.lean` and `Gen/Frozen.lean` are flag / table facts extracted by pattern (`gen/typesafe.py`, `gen/frozen.py`); several of them are
not read by a hand model and were only pinned by a `decide` lemma.  Here each is derived from the statement programs: a fact that the source
no longer supports, or a program that no longer implies the fact, breaks this theorem. -/

def postInitOrderOfProg : List String :=
  (postInitProg.map fun s => match s.2 with | .callOld => ["old"] | .callValidate _ => ["validate"] | _ => []).flatten
def callerStartOfProg : List Nat := (callerProg.map fun s => match s.2 with | .startFrame d => [d] | _ => []).flatten
def callerStopsOfProg : List Bool := (callerProg.map fun s => match s.2 with | .whileInternal st _ _ => [st] | _ => []).flatten
def ctxPartName : CtxPart → String
  | .given => "caller" | .moduleGlobals => "globals" | .ownClass => "own" | .frameGlobals => "globals" | .frameLocals => "locals"
def validateMergeOfProg : List String := (validateProg.map fun s => match s.2 with | .ctxMerge ps => ps.map ctxPartName | _ => []).flatten
def validateDepthOfProg : List Nat :=
  (validateProg.map fun s => match s.2 with
    | .ifContextNone body => (body.map fun b => match b.2 with | .ctxFromGetContext d => [d] | _ => []).flatten
    | _ => []).flatten
def validateLoopOfProg : List (FieldsSrc × List VBody) :=
  (validateProg.map fun s => match s.2 with | .forFields src b => [(src, b.map (·.2))] | _ => []).flatten
def validatePropsOfProg : List FieldsSrc := (validateProg.map fun s => match s.2 with | .bindProps src => [src] | _ => []).flatten
def getContextShape : List String :=
  (getContextProg.map fun s => match s.2 with
    | .frameAt e => [s!"frame+{e}"] | .bindName => ["name"] | .ifNameMatches b => [s!"if-name:{b.length}"] | .retContext ps => ps.map ctxPartName).flatten
def lastStmt {α : Type} (l : List (Nat × α)) : Option α := l.getLast?.map (·.2)

/-- **the pattern-extracted facts are what the statement programs say** (each conjunct: fact of `Gen/TypeSafe.lean` / `Gen/Frozen.lean` = value
    computed from `Gen/FrozenIR.lean`) -/
theorem facts_are_what_the_programs_say :
    Gen.TypeSafe.postInitOrder = postInitOrderOfProg ∧
    Gen.TypeSafe.callerStartDepth :: [] = callerStartOfProg ∧
    Gen.TypeSafe.callerWalkStopsAtLastFrame :: [] = callerStopsOfProg ∧
    Gen.TypeSafe.callerSkipCodes = irSkipCodes ∧
    Gen.TypeSafe.contextMergeOrder = validateMergeOfProg ∧
    Gen.TypeSafe.validateContextDepth :: [] = validateDepthOfProg ∧
    Gen.TypeSafe.validateContextOnlyWhenNone = !validateDepthOfProg.isEmpty ∧
    -- the loop of validate_types: over the fields of the decorated class (bound first or written at the loop), one unconditional check per field
    -- of the field's value against the field's type with fresh TypeVars and the merged context, nothing leaves the loop early
    (Gen.TypeSafe.validateOverAllFields = true ∧ Gen.TypeSafe.validateLeavesLoopEarly = false ∧ Gen.TypeSafe.validateUsesFieldValue = true ∧
      Gen.TypeSafe.validateUsesFieldType = true ∧ Gen.TypeSafe.validateFreshTypeVars = true ∧ Gen.TypeSafe.validatePassesContext = true ↔
      -- (`fields(new_class)` and `fields(cls_)` are the same fields: `dataclass()` puts them on the class it is handed, `slots=True` copies them)
      (validateLoopOfProg = [(.props, [.assertField true true true true])] ∧
          (validatePropsOfProg = [.ofNewClass] ∨ validatePropsOfProg = [.ofOldClass] ∨ validatePropsOfProg = [.ofSelf] ∨ validatePropsOfProg = [.ofTypeSelf])) ∨
        validateLoopOfProg = [(.ofNewClass, [.assertField true true true true])] ∨
        validateLoopOfProg = [(.ofOldClass, [.assertField true true true true])]) ∧
    Gen.TypeSafe.getContextMerge = ["globals", "locals"] ∧ Gen.TypeSafe.getContextSkipMode = "once" ∧
      getContextShape = ["frame+0", "name", "if-name:1", "globals", "locals"] ∧
    Gen.TypeSafe.copyWithIsReplace = (match lastStmt copyWithProg with | some (.retReplace false .kwargs) => true | _ => false) ∧
    Gen.TypeSafe.deepCopyCallsConstructor = (match lastStmt deepCopyWithProg with | some (.retConstruct .typeSelf _) => true | _ => false) ∧
    Gen.TypeSafe.shortcutIsTypeSafe = (shortcutParams.map (·.1.typeSafe) == some true) ∧
    Gen.TypeSafe.initFrames = [PedVerif.FrozenIR.initFrame.name] ∧
    Gen.TypeSafe.methodsAdded = Gen.Frozen.methodsAdded ∧
    Gen.Frozen.postInitCallsOld = postInitOrderOfProg.contains "old" ∧
    (Gen.Frozen.copyWithBody = .replace false ↔ lastStmt copyWithProg = some (.retReplace false .kwargs)) := by
  decide

section C10
open PedVerif.Checker PedVerif.TypeSafe PedVerif.Gen.TypeSafe

/-- `_get_context_of_caller` -/
theorem caller_walk_is_model (stack : List Frame) :
    (runCaller (irSkipFns.map fnName) stack callerProg none []).1 = some (selectFrame stack, [.frameGlobals, .frameLocals]) :=
  caller_refines _ (by decide) stack

/-- `validate_types` with a context handed in / called by the user -/
theorem validate_types_is_model (env : Env) (locals : List (NameId × ClsId)) (orc : Nat → Val → Raw) (fvs : List (Field × Val)) (sees : Bool)
    (getCtx : Nat → Option CtxVal × List Nat) :
    (runValidate ⟨env, locals, orc, fvs, fvs.length, if sees then .callerFrame else .otherFrame, getCtx⟩ validateProg
      { ctx := if sees then .callerFrame else .otherFrame } []).1 = VRes.ofOption (validateTypes (env.withCaller locals sees) orc fvs) :=
  validate_given_refines env locals orc fvs sees getCtx

theorem validate_call_is_model (env : Env) (locals : List (NameId × ClsId)) (orc : Nat → Val → Raw) (fvs : List (Field × Val))
    (caller : Frame) (outer : List Frame) :
    (irValidateCall env locals orc fvs caller outer).1 = VRes.ofOption (validateTypes (env.withCaller locals userValidateSeesCaller) orc fvs) :=
  validate_user_refines env locals orc fvs caller outer

/-- `new_post_init` and the three construction paths -/
theorem construction_is_model (env : Env) (locals : List (NameId × ClsId)) (caller : Frame) (outer : List Frame) (orc : Nat → Val → Raw)
    (typeSafe : Bool) (up : UserPost) (p : Path) (fvs : List (Field × Val)) :
    (irConstructIn env locals caller outer orc typeSafe up p fvs).1 =
      some (constructIn env locals [[initFrame]] caller outer orc typeSafe up p fvs) :=
  construct_refines env locals caller outer orc typeSafe up p fvs

theorem initFrame_chain : ∀ ch ∈ [[initFrame]], ∀ f ∈ ch, f.holdsInstance = true := by
  intro ch hch f hf
  simp only [List.mem_singleton] at hch
  subst hch
  simp only [List.mem_singleton] at hf
  subst hf
  rfl

/-- **C10 about the translated code.**  Through every construction path — the statements of `copy_with` / `deep_copy_with` up to the call that
    enters `__init__`, then the statements of `new_post_init`, `_get_context_of_caller` and `validate_types` — executed by any function that
    is not one of the library's own: an instance is obtained iff every field value conforms at the call site; otherwise
    PedanticTypeCheckException and no instance. -/
theorem ir_instance_iff_fields_conform (env : Env) (locals : List (NameId × ClsId)) (caller : Frame) (outer : List Frame)
    (hcaller : caller.internal = false) (orc : Nat → Val → Raw) (horc : ∀ k v, orc k v ≠ .raisedTV)
    (hw : WfEnv (env.atCallSite locals)) (up : UserPost) (hup : ∀ e, up ≠ .raises e) (p : Path) (fvs : List (Field × Val))
    (hok : FieldsOk (env.atCallSite locals) fvs) :
    ∃ r, (irConstructIn env locals caller outer orc true up p fvs).1 = some r ∧
      (r.2 = .instance ↔ allConform (env.atCallSite locals) fvs = true) ∧ (r.2 ≠ .instance → r.2 = .pedTypeCheck) := by
  have h := instance_iff_fields_conform_at_call_site env locals [[initFrame]] caller outer initFrame_chain hcaller orc horc hw up hup p fvs hok
  exact ⟨_, construct_refines env locals caller outer orc true up p fvs, h.1, h.2⟩

/-- **the values of a copy are computed, not handed in**: on a receiver with distinct field names and keywords that name fields, the statements
    of `copy_with` / `deep_copy_with` (comprehension, `{**current, **kwargs}`, `replace` / constructor call) and the argument binding of the
    generated `__init__` give the new instance the keyword's value where one is passed and the receiver's value elsewhere -/
theorem copy_values_are_model (p : Path) (hp : p ≠ .constructor) (cur : List (Field × Val)) (kw : List (NameId × Val))
    (hnd : (cur.map (·.1.name)).Nodup) (hkw : ∀ kv ∈ kw, ∃ fv ∈ cur, fv.1.name = kv.1) :
    copiedFields p cur kw = some (replacedFields cur kw) := copiedFields_eq p hp cur kw hnd hkw

/-- **C10 for `copy_with` / `deep_copy_with`, with the field values computed by the translated methods.**  `inst.copy_with(**kw)` /
    `inst.deep_copy_with(**kw)` on a receiver that holds `cur`, executed by any function that is not one of the library's own: an instance is
    obtained iff — the keywords' values where given, the receiver's elsewhere — every field value conforms at the call site; otherwise
    PedanticTypeCheckException and no instance. -/
theorem ir_copy_instance_iff_fields_conform (env : Env) (locals : List (NameId × ClsId)) (caller : Frame) (outer : List Frame)
    (hcaller : caller.internal = false) (orc : Nat → Val → Raw) (horc : ∀ k v, orc k v ≠ .raisedTV)
    (hw : WfEnv (env.atCallSite locals)) (up : UserPost) (hup : ∀ e, up ≠ .raises e) (p : Path) (hp : p ≠ .constructor)
    (cur : List (Field × Val)) (kw : List (NameId × Val)) (hnd : (cur.map (·.1.name)).Nodup)
    (hkw : ∀ kv ∈ kw, ∃ fv ∈ cur, fv.1.name = kv.1) (hok : FieldsOk (env.atCallSite locals) (replacedFields cur kw)) :
    ∃ r, irCopyIn env locals caller outer orc true up p cur kw = some r ∧
      (r.2 = .instance ↔ allConform (env.atCallSite locals) (replacedFields cur kw) = true) ∧ (r.2 ≠ .instance → r.2 = .pedTypeCheck) := by
  obtain ⟨r, h1, h2, h3⟩ := ir_instance_iff_fields_conform env locals caller outer hcaller orc horc hw up hup p (replacedFields cur kw) hok
  exact ⟨r, by simp only [irCopyIn, copiedFields_eq p hp cur kw hnd hkw, h1], h2, h3⟩

/-- **`validate_types()` about the translated code**: the call passes iff every field currently conforms at the call site -/
theorem ir_validate_types_iff (env : Env) (locals : List (NameId × ClsId)) (orc : Nat → Val → Raw) (hw : WfEnv (env.atCallSite locals))
    (fvs : List (Field × Val)) (hok : FieldsOk (env.atCallSite locals) fvs) (caller : Frame) (outer : List Frame) :
    (irValidateCall env locals orc fvs caller outer).1 = .passed ↔ allConform (env.atCallSite locals) fvs = true := by
  rw [validate_user_refines, ← validate_types_iff_at_call_site env locals orc hw fvs hok]
  simp only [validateCallIn, validateCall]
  cases h : validateTypes (env.withCaller locals userValidateSeesCaller) orc fvs with
  | none => simp [VRes.ofOption]
  | some o =>
    simp only [VRes.ofOption, reduceCtorEq, false_iff]
    intro ho; subst ho
    exact validateTypes_ne_instance _ orc fvs h

/-- **a user-defined `__post_init__` runs first** — the first statement of the translated `new_post_init` calls it, the validation follows -/
theorem ir_post_init_runs_first (env : Env) (locals : List (NameId × ClsId)) (caller : Frame) (outer : List Frame) (orc : Nat → Val → Raw)
    (p : Path) (fvs : List (Field × Val)) :
    (irConstructIn env locals caller outer orc true .runs p fvs).1.map (·.1) = some [.post, .validate] := by
  rw [construct_refines]
  simp only [Option.map, constructIn, post_init_runs_first]

/-- … and if it raises, its exception is the outcome: no validation, no instance -/
theorem ir_post_init_exception (env : Env) (locals : List (NameId × ClsId)) (caller : Frame) (outer : List Frame) (orc : Nat → Val → Raw)
    (p : Path) (fvs : List (Field × Val)) (e : Nat) :
    (irConstructIn env locals caller outer orc true (.raises e) p fvs).1.map (·.2) = some (.postInitExc e) := by
  rw [construct_refines]
  simp only [Option.map, constructIn, post_init_exception]

/-- **the translated frame walk selects the caller's frame** — however many wrappers, user hooks and `__init__` frames work on the instance,
    on every path, whatever called the caller -/
theorem ir_caller_frame_selected (p : Path) (chain : List Frame) (caller : Frame) (outer : List Frame)
    (hchain : ∀ f ∈ chain, f.holdsInstance = true) (hcaller : caller.internal = false) :
    (runCaller (irSkipFns.map fnName) (stackOf p chain caller outer) callerProg none []).1 =
      some (callerIndex p chain, [.frameGlobals, .frameLocals]) := by
  rw [caller_refines _ (by decide)]
  have := caller_frame_selected p chain caller outer hchain hcaller
  simp only [seesCaller, beq_iff_eq] at this
  rw [this]

end C10

section C11
open PedVerif.Frozen PedVerif.Gen.Frozen

theorem copy_with_is_model (self : Inst) (kw : List (Name × Obj)) (n : Nat) : irCopyWith self kw n = some (copyWith self kw n) :=
  copy_with_refines self kw n
theorem deep_copy_with_is_model (self : Inst) (kw : List (Name × Obj)) (n : Nat) : irDeepCopyWith self kw n = some (deepCopyWith self kw n) :=
  deep_copy_with_refines self kw n
theorem post_init_journal_is_model (c : Cls) : irPostInitEvents c = postInitEvents c := irPostInitEvents_eq c
theorem dataclass_options_are_model (l : Layer) : irLayerArgs l = some ⟨l.frozen, l.effOrder, l.effKwOnly, l.effSlots⟩ := irLayerArgs_eq l
theorem setattr_is_model (self : Inst) (name : Name) (v : Obj) : irSetattr self name v = some (setattr self name v) := irSetattr_eq self name v
theorem delattr_is_model (self : Inst) (name : Name) : irDelattr self name = some (delattr self name) := irDelattr_eq self name

/-- **C11, copy_with, about the translated code**: same class; replaced fields hold the objects passed; every other field holds the very
    object the original holds; the receiver is what it was; the journal is that of the translated hook chain -/
theorem ir_copy_with_meets_spec (self : Inst) (kw : List (Name × Obj)) (n : Nat)
    (hwf : wfCls self.cls = true) (hself : InstOk self) (hkw : specKwValid self.cls kw = true) :
    ∃ out, irCopyWith self kw n = some (.ok out) ∧ CopyMeets false self kw out.result ∧ out.selfAfter = some self ∧
      out.journal = irPostInitEvents self.cls ∧ n ≤ out.next := by
  obtain ⟨out, h1, h2, h3, h4, h5⟩ := copy_with_meets_spec self kw n hwf hself hkw
  exact ⟨out, by rw [copy_with_refines, h1], h2, h3, by rw [irPostInitEvents_eq]; exact h4, h5⟩

/-- **C11, deep_copy_with, about the translated code** (receiver that can be deep-copied) -/
theorem ir_deep_copy_with_meets_spec (self : Inst) (kw : List (Name × Obj)) (n : Nat)
    (hwf : wfCls self.cls = true) (hself : InstOk self) (hkw : specKwValid self.cls kw = true)
    (hlive : ∀ i ∈ self.mutIds, i < n) (hcp : specDeepCopyable self = true) :
    ∃ out, irDeepCopyWith self kw n = some (.ok out) ∧ CopyMeets true self kw out.result ∧ out.selfAfter = some self ∧
      out.journal = irPostInitEvents self.cls ∧ n ≤ out.next := by
  obtain ⟨out, h1, h2, h3, h4, h5⟩ := deep_copy_with_meets_spec self kw n hwf hself hkw hlive hcp
  exact ⟨out, by rw [deep_copy_with_refines, h1], h2, h3, by rw [irPostInitEvents_eq]; exact h4, h5⟩

/-- … for EVERY instance the translated `deep_copy_with` returns, whatever the field values hold; a receiver that cannot be deep-copied
    yields TypeError and no instance -/
theorem ir_deep_copy_with_returned_instance_meets_spec (self : Inst) (kw : List (Name × Obj)) (n : Nat) (out : CopyOut)
    (hwf : wfCls self.cls = true) (hself : InstOk self) (hkw : specKwValid self.cls kw = true)
    (hlive : ∀ i ∈ self.mutIds, i < n) (h : irDeepCopyWith self kw n = some (.ok out)) :
    CopyMeets true self kw out.result ∧ out.selfAfter = some self := by
  rw [deep_copy_with_refines] at h
  have := deep_copy_with_returned_instance_meets_spec self kw n out hwf hself hkw hlive (Option.some.inj h)
  exact ⟨this.1, this.2.1⟩
theorem ir_deep_copy_with_uncopyable_raises (self : Inst) (kw : List (Name × Obj)) (n : Nat) (hself : InstOk self)
    (h : specDeepCopyable self = false) : irDeepCopyWith self kw n = some (.error .typeError) := by
  rw [deep_copy_with_refines, deep_copy_with_uncopyable_raises self kw n hself h]

/-- **no mutable node shared**: every un-replaced init field of the copy the translated `deep_copy_with` makes is structurally equal to the
    original's and disjoint from every mutable node of the original -/
theorem ir_deep_copy_no_shared_mutable (self : Inst) (kw : List (Name × Obj)) (n : Nat)
    (hwf : wfCls self.cls = true) (hself : InstOk self) (hkw : specKwValid self.cls kw = true) (hlive : ∀ i ∈ self.mutIds, i < n)
    (hcp : specDeepCopyable self = true) :
    ∃ out, irDeepCopyWith self kw n = some (.ok out) ∧
      ∀ f ∈ fieldsOf self.cls, f.init = true → kw.lookup f.name = none →
        ∃ s r, self.fields.lookup f.name = some s ∧ out.result.fields.lookup f.name = some r ∧ s.seq r = true ∧
          (∀ i ∈ r.mutIds, i ∉ s.mutIds) ∧ (∀ i ∈ r.mutIds, i ∉ self.mutIds) ∧ (s.noObj = true → s.veq r = true) := by
  obtain ⟨out, h1, h2⟩ := deep_copy_no_shared_mutable self kw n hwf hself hkw hlive hcp
  exact ⟨out, by rw [deep_copy_with_refines, h1], h2⟩

/-- **immutability about the translated decorator**: on an instance of a class the decorator program built (`dataclass(frozen=True, …)` applied
    once, the result handed back, no attribute-protocol method attached) every assignment and deletion inside the guard raises -/
theorem ir_frozen_rejects_set_del_partial (self : Inst) (name : Name) (v : Obj) (hg : inFrozenGuard self name = true) :
    (irSetattr self name v).map rejected = some true ∧ (irDelattr self name).map rejected = some true := by
  have := frozen_rejects_set_del_partial self name v hg
  rw [irSetattr_eq, irDelattr_eq]
  simp [this.1, this.2]

/-- … under the tight guard (`frozenGuard`: the class is decorated, or the name is a field, or some decorated class of the hierarchy has
    `slots=True`), which for assignment is exact -/
theorem ir_frozen_rejects_set_del (self : Inst) (name : Name) (v : Obj) (hg : frozenGuard self name = true) :
    (irSetattr self name v).map rejected = some true ∧ (irDelattr self name).map rejected = some true := by
  have := frozen_rejects_set_del self name v hg
  rw [irSetattr_eq, irDelattr_eq]
  simp [this.1, this.2]
theorem ir_setattr_rejected_iff_guard (self : Inst) (name : Name) (v : Obj) (hne : self.cls ≠ []) :
    (irSetattr self name v).map rejected = some (frozenGuard self name) := by
  rw [irSetattr_eq]; simp [setattr_rejected_iff_guard self name v hne]

end C11

/-! ## non-vacuity (statement ids are not pinned: an equivalent rewrite of the source renumbers them) -/

section Examples
open PedVerif.Checker PedVerif.TypeSafe

-- the decorator program, run with `type_safe=True, slots=True`: what it hands to dataclass(), what it attaches
example : decoOut ⟨true, false, true, true⟩ = some ⟨some ⟨true, false, true, true⟩, true, ["copy_with", "deep_copy_with", "validate_types"], true⟩ := by decide
example : (decoOut ⟨false, true, false, false⟩).map (·.wrapper) = some false := by decide
-- with type_safe the run executes more statements (those under `if type_safe:`), starts with the same one and ends with the same `return`
example : (decoPath ⟨false, false, true, false⟩).length < (decoPath ⟨true, false, true, false⟩).length ∧
    (decoPath ⟨true, false, true, false⟩).head? = decoProg.head?.map (·.1) ∧
    (decoPath ⟨true, false, true, false⟩).getLast? = (decoPath ⟨false, false, true, false⟩).getLast? := by decide

-- a class with two fields (int, List[str]); copy_with called from `f`: user hook, walk over __init__ / replace / copy_with, both fields checked
def exFvs : List (Field × Val) := [(⟨1, .cls 2⟩, .lit (.int 1)), (⟨2, .seq .typing .list (.cls 3)⟩, .coll 4 [.lit (.str [97])])]
def exBad : List (Field × Val) := [(⟨1, .cls 2⟩, .lit (.int 1)), (⟨2, .seq .typing .list (.cls 3)⟩, .coll 4 [.lit (.int 5)])]
example : (irConstructIn envW [] { name := "f" } [{ name := "<module>" }] (fun _ _ => .raisedOther) true .runs .copyWith exFvs).1
    = some ([.post, .validate], .instance) := by decide
example : (irConstructIn envW [] { name := "f" } [{ name := "<module>" }] (fun _ _ => .raisedOther) true .absent .constructor exBad).1
    = some ([.validate], .pedTypeCheck) := by decide
-- the copy path executes the statements of `copy_with` first, then those of the hook chain; the failing run is shorter than the passing one
example : (irConstructIn envW [] { name := "f" } [] (fun _ _ => .raisedOther) true .absent .copyWith exFvs).2.take copyWithProg.length
      = copyWithProg.map (·.1) ∧
    (irConstructIn envW [] { name := "f" } [] (fun _ _ => .raisedOther) true .absent .constructor exBad).2.length <
      (irConstructIn envW [] { name := "f" } [] (fun _ _ => .raisedOther) true .absent .constructor exFvs).2.length := by decide
example : (irValidateCall envW [] (fun _ _ => .raisedOther) exFvs { name := "f" } []).1 = .passed ∧
    (irValidateCall envW [] (fun _ _ => .raisedOther) exBad { name := "f" } []).1 = .raised .pedTypeCheck := by decide
-- a decorated subclass that inherits the wrapped hook of its decorated base: two wrappers, the user's hook once, two validations
example : (runInit ⟨envW, [], fun _ _ => .raisedOther, exFvs, .constructor, { name := "f" }, []⟩ (.wrapped 2 (.wrapped 2 (.user none)))).2.1
    = [.post, .validate, .validate] := by decide
example : ({ name := "f" } : Frame).internal = false := by decide
-- copy_with(f2=[5]) on a conforming instance: the copy would hold a list of ints in a List[str] field
example : copiedFields .copyWith exFvs [(2, .coll 4 [.lit (.int 5)])] = some exBad ∧
    copiedFields .deepCopyWith exFvs [] = some exFvs ∧ copiedFields .copyWith exFvs [(9, .lit (.int 5))] = none := ⟨rfl, rfl, rfl⟩
example : irCopyIn envW [] { name := "f" } [] (fun _ _ => .raisedOther) true .absent .copyWith exFvs [(2, .coll 4 [.lit (.int 5)])]
    = some ([.validate], .pedTypeCheck) := by decide
end Examples

section ExamplesC11
open PedVerif.Frozen
-- the translated copy methods on the instance of `Props/C11.lean`: deep_copy_with executes each of its statements once, in order
example : (irDeepCopyWith exInst [(1, .atom .none)] 30).map raisedExc = some none ∧
    ((runC exInst [(1, .atom .none)] deepCopyWithProg { next := 30 } []).2 = deepCopyWithProg.map (·.1)) := by decide
example : (irCopyWith exInst [(2, .atom .none)] 30).map raisedExc = some (some .valueError) := by decide
example : irDeepCopyWith exLockInst [] 110 = some (.error .typeError) :=
  ir_deep_copy_with_uncopyable_raises _ _ _ (construct_instOk _ _ _ _ _ (by decide) exLockInst_constructed).1 (by decide)
example : irPostInitEvents [⟨2, true, true, false, true, false, false, []⟩, ⟨0, true, true, false, true, false, true, []⟩] = [.post, .validate, .validate] := by decide
end ExamplesC11

end PedVerif.FrozenIR
