import PedVerif.Spec.Mixins
import PedVerif.Gen.MixinsShape
/-!
# C20 — mixins report type arguments and decorated methods exactly

Property theorems (the list audited in `Audit/C20.lean`):

* `type_vars_exact`, `type_var_single`, `type_var_multiple`, `non_generic_asserts`, `unparametrised_asserts`, `must_assert`
  — `GenericMixin`, for every class table the interpreter accepts (`WF`), every number of type parameters, every list
  of type arguments, every supported shape as recognised by the independent `expectedOutcome`;
* `transformation_receives_f_type_value`, `applyApps_dict` — `create_decorator`;
* `decorated_scan_exact` (= `decorated_exact_partial`, guard `decoGuard`), `decorated_exact`, `decorated_exact_one_class`
  — `get_decorated_functions`; `decorated_exact_full` is the unguarded statement, `decorated_exact_full_fails` and the
  witnesses next to it show where the code leaves it;
* `redeclared_generic_over_bound_base`, `subclass_of_binding_subclass_answers_for_itself` — a class that declares `Generic[…]` over a base
  whose parameters are all bound (`class CachedUserRepo(UserRepo, Generic[K])`), to any depth;
* `queries_leave_nothing_behind` (generated facts: no statement of generic_mixin.py writes into an object, …) ⇒
  `query_independent_of_history`, `history_exact` over `runQueriesW`, the history model that threads the written state through and
  abstains once something was written;
* `closures_keep_their_argument` ⇒ `configured_decorator_keeps_its_argument`;
* `decorated_scan_exact` is about the REPAIRED `get_decorated_functions` (raw attribute first, only functions defined in a class,
  marks from the function's `__dict__`, no name skipped; the translator reads the old shape as well and the model follows the facts):
  plain, class and static methods with any names, whatever else lives in the classes and in the instance `__dict__`;
  `seen_some`, `fixed_no_property_is_evaluated` and the `fixed_…` statements are the former findings, now positive;
* `guard_iff_no_region` and one statement per named region of the guard's complement — two are left:
  `fresh_transformation_drops_everything` (transformationDropsDecoratorAttribute) and `function_slot_name_is_never_a_mark`
  (enumValueNamesFunctionSlot), the open findings of C20 in `known_findings.json`;
* `mixins_source_shape`, `helpers_keep_nothing`, `mixins_keep_no_state` — the remaining facts read from the source (premises and tripwires,
  see there).

All of them are about the model instantiated with `PedVerif.Gen.Mixins` (regenerated from the source on every run):
a swapped `zip`, another index into `generic_bases`, a dropped `__origin__ == Generic` filter, another guard attribute
or exception class, another assertion in `type_var`, another `startswith` prefix, other `setattr` / transformation
arguments make the proofs fail.
-/
namespace PedVerif.Mixins
open PedVerif.Gen.Mixins

/-! ## C3 merge: the facts needed about the interpreter's MRO -/

theorem mem_c3pop {h x : Nat} {s : List Nat} (hx : x ∈ c3pop h s) : x ∈ s := by
  cases s with
  | nil => simp [c3pop] at hx
  | cons y r =>
    simp only [c3pop] at hx
    split at hx
    · exact List.mem_cons_of_mem _ hx
    · exact hx

theorem nodup_c3pop {h : Nat} {s : List Nat} (hs : s.Nodup) : (c3pop h s).Nodup := by
  cases s with
  | nil => simp [c3pop]
  | cons y r =>
    simp only [c3pop]
    split
    · exact (List.nodup_cons.mp hs).2
    · exact hs

/-- a candidate accepted by C3 does not occur in any sequence after it was popped -/
theorem not_mem_c3pop_of_good {live : List (List Nat)} {h : Nat} (hg : c3good live h = true)
    {s : List Nat} (hs : s ∈ live) : h ∉ c3pop h s := by
  have ht : h ∉ s.tail := by
    have := (List.all_eq_true.mp hg) s hs
    simpa using this
  cases s with
  | nil => simp [c3pop]
  | cons y r =>
    simp only [c3pop]
    split
    · simpa using ht
    · rename_i hne
      intro hm
      rcases List.mem_cons.mp hm with h1 | h1
      · exact hne h1.symm
      · exact ht (by simpa using h1)

theorem mem_c3merge : ∀ (f : Nat) (seqs : List (List Nat)) (x : Nat), x ∈ c3merge f seqs → ∃ s ∈ seqs, x ∈ s := by
  intro f
  induction f with
  | zero => intro seqs x hx; simp [c3merge] at hx
  | succ f ih =>
    intro seqs x hx
    simp only [c3merge] at hx
    split at hx
    · simp at hx
    · rename_i h hfind
      rcases List.mem_cons.mp hx with h1 | h1
      · subst h1
        have hm := List.mem_of_find?_eq_some hfind
        rcases List.mem_filterMap.mp hm with ⟨s, hs, hhead⟩
        refine ⟨s, (List.mem_filter.mp hs).1, ?_⟩
        cases s with
        | nil => simp at hhead
        | cons y r => simp at hhead; simp [hhead]
      · rcases ih _ x h1 with ⟨s', hs', hxs'⟩
        rcases List.mem_map.mp hs' with ⟨s, hs, rfl⟩
        exact ⟨s, (List.mem_filter.mp hs).1, mem_c3pop hxs'⟩

theorem nodup_c3merge : ∀ (f : Nat) (seqs : List (List Nat)), (∀ s ∈ seqs, s.Nodup) → (c3merge f seqs).Nodup := by
  intro f
  induction f with
  | zero => intro seqs _; simp [c3merge]
  | succ f ih =>
    intro seqs hnd
    simp only [c3merge]
    split
    · simp
    · rename_i h hfind
      have hgood : c3good (seqs.filter fun s => !s.isEmpty) h = true := by
        have := List.find?_some hfind
        simpa using this
      refine List.nodup_cons.mpr ⟨?_, ?_⟩
      · intro hm
        rcases mem_c3merge _ _ _ hm with ⟨s', hs', hxs'⟩
        rcases List.mem_map.mp hs' with ⟨s, hs, rfl⟩
        exact not_mem_c3pop_of_good hgood hs hxs'
      · apply ih
        intro s' hs'
        rcases List.mem_map.mp hs' with ⟨s, hs, rfl⟩
        exact nodup_c3pop (hnd s (List.mem_filter.mp hs).1)

/-- merging a single duplicate-free sequence gives the sequence -/
theorem c3merge_single : ∀ (A : List Nat) (f : Nat), A.Nodup → A.length < f → c3merge f [A] = A := by
  intro A
  induction A with
  | nil => intro f _ hf; cases f with
    | zero => omega
    | succ f => simp [c3merge]
  | cons a r ih =>
    intro f hnd hf
    cases f with
    | zero => omega
    | succ f =>
      have ha : a ∉ r := (List.nodup_cons.mp hnd).1
      have hg : c3good [a :: r] a = true := by simp [c3good, ha]
      simp only [c3merge, List.filter, List.isEmpty_cons, Bool.not_false, List.filterMap_cons, List.head?_cons,
        List.filterMap_nil, List.find?_cons, hg, List.map_cons, List.map_nil, c3pop, ↓reduceIte]
      rw [ih f (List.nodup_cons.mp hnd).2 (by simp at hf; omega)]

/-- single inheritance: merging the parent's linearisation with the list of bases `[b]` -/
theorem c3merge_chain (b : Nat) (A : List Nat) (f : Nat) (hb : b ∉ A) (hnd : A.Nodup) (hf : A.length + 1 < f) :
    c3merge f [b :: A, [b]] = b :: A := by
  cases f with
  | zero => omega
  | succ f =>
    have hg : c3good [b :: A, [b]] b = true := by simp [c3good, hb]
    simp only [c3merge, List.filter, List.isEmpty_cons, Bool.not_false, List.filterMap_cons, List.head?_cons,
      List.filterMap_nil, List.find?_cons, hg, List.map_cons, List.map_nil, c3pop, ↓reduceIte]
    congr 1
    cases f with
    | zero => omega
    | succ f =>
      have := c3merge_single A (f + 1) hnd (by omega)
      simp only [c3merge, List.filter, List.isEmpty_nil, Bool.not_true] at this ⊢
      exact this

/-! ## well-formed tables and the linearisation -/

/-- what the interpreter guarantees for every class it creates: bases exist before the class, no base twice -/
def WF (t : Table) : Prop := ∀ c, (parents t c).Nodup ∧ ∀ p ∈ parents t c, p < c

def wfB (t : Table) : Bool :=
  (List.range t.length).all fun c => decide (parents t c).Nodup && (parents t c).all fun p => decide (p < c)

theorem WF_of_wfB {t : Table} (h : wfB t = true) : WF t := by
  intro c
  by_cases hc : c < t.length
  · have := (List.all_eq_true.mp h) c (List.mem_range.mpr hc)
    simp only [Bool.and_eq_true, decide_eq_true_eq, List.all_eq_true] at this
    exact this
  · have : parents t c = [] := by
      simp [parents, basesOf, List.getElem?_eq_none (Nat.le_of_not_lt hc), parentsOfBases]
    simp [this]

theorem lin_head (t : Table) (d c : Nat) : ∃ A, lin t d c = c :: A := by
  cases d with
  | zero => exact ⟨[], rfl⟩
  | succ d => exact ⟨_, rfl⟩

theorem lin_le {t : Table} (hwf : WF t) : ∀ (d c x : Nat), x ∈ lin t d c → x ≤ c := by
  intro d
  induction d with
  | zero => intro c x hx; simp [lin] at hx; omega
  | succ d ih =>
    intro c x hx
    simp only [lin] at hx
    rcases List.mem_cons.mp hx with h1 | h1
    · omega
    · rcases mem_c3merge _ _ _ h1 with ⟨s, hs, hxs⟩
      rcases List.mem_append.mp hs with h2 | h2
      · rcases List.mem_map.mp h2 with ⟨p, hp, rfl⟩
        have := ih p x hxs
        have := (hwf c).2 p hp
        omega
      · simp at h2; subst h2
        have := (hwf c).2 x hxs
        omega

theorem lin_nodup {t : Table} (hwf : WF t) : ∀ (d c : Nat), (lin t d c).Nodup := by
  intro d
  induction d with
  | zero => intro c; simp [lin]
  | succ d ih =>
    intro c
    simp only [lin]
    refine List.nodup_cons.mpr ⟨?_, ?_⟩
    · intro h1
      rcases mem_c3merge _ _ _ h1 with ⟨s, hs, hxs⟩
      rcases List.mem_append.mp hs with h2 | h2
      · rcases List.mem_map.mp h2 with ⟨p, hp, rfl⟩
        have := lin_le hwf d p c hxs
        have := (hwf c).2 p hp
        omega
      · simp at h2; subst h2
        have := (hwf c).2 c hxs
        omega
    · apply nodup_c3merge
      intro s hs
      rcases List.mem_append.mp hs with h2 | h2
      · rcases List.mem_map.mp h2 with ⟨p, _, rfl⟩
        exact ih p
      · simp at h2; subst h2; exact (hwf c).1

/-- a class whose only base is the plain class `b` looks `__orig_bases__` up exactly where `b` does -/
theorem lookup_plain_single {t : Table} (hwf : WF t) (d c b : Nat) (hb : basesOf t c = [.plain b]) :
    lookupOrigBases t (d + 1) c = lookupOrigBases t d b := by
  have hp : parents t c = [b] := by simp [parents, hb, parentsOfBases]
  have hown : ownOrigBases t c = none := by simp [ownOrigBases, hb, BaseRef.isAlias]
  rcases lin_head t d b with ⟨A, hA⟩
  have hnd := lin_nodup hwf d b
  rw [hA] at hnd
  have hm : c3merge (((b :: A).length + ([b].length + 0)) + 1) [b :: A, [b]] = b :: A :=
    c3merge_chain b A _ (List.nodup_cons.mp hnd).1 (List.nodup_cons.mp hnd).2 (by simp)
  simp only [lookupOrigBases, lin, hp, List.map_cons, List.map_nil, List.cons_append, List.nil_append, hA,
    List.sum_cons, List.sum_nil, List.findSome?_cons, hown]
  rw [hm]
  simp [List.findSome?_cons]

/-! ## from the declared shape to what `_get_types` finds -/

theorem genericBases_eq (bs : List BaseRef) :
    genericBases bs = (bs.filterMap genericOf).map (fun tvs => tvs.map TArg.tv) := by
  induction bs with
  | nil => rfl
  | cons b r ih =>
    unfold genericBases at ih ⊢
    simp only [genericFilterChecksOrigin, ↓reduceIte] at ih ⊢
    cases b <;> simp [List.filterMap_cons, genericOf, ih]

theorem any_alias_of_generic {bs : List BaseRef} {tvs : List Nat} (h : tvs ∈ bs.filterMap genericOf) :
    bs.any BaseRef.isAlias = true := by
  rcases List.mem_filterMap.mp h with ⟨b, hb, hg⟩
  refine List.any_eq_true.mpr ⟨b, hb, ?_⟩
  cases b <;> simp [genericOf] at hg <;> rfl

theorem any_alias_of_param {bs : List BaseRef} {p : Nat × List TArg} (h : p ∈ bs.filterMap paramOf) :
    bs.any BaseRef.isAlias = true := by
  rcases List.mem_filterMap.mp h with ⟨b, hb, hg⟩
  refine List.any_eq_true.mpr ⟨b, hb, ?_⟩
  cases b <;> simp [paramOf] at hg <;> rfl

theorem all_plain {bs : List BaseRef} (hg : bs.filterMap genericOf = []) (hp : bs.filterMap paramOf = []) :
    ∀ b ∈ bs, ∃ p, b = .plain p := by
  intro b hb
  have h1 := (List.filterMap_eq_nil_iff.mp hg) b hb
  have h2 := (List.filterMap_eq_nil_iff.mp hp) b hb
  cases b with
  | generic tvs => simp [genericOf] at h1
  | param c a => simp [paramOf] at h2
  | plain p => exact ⟨p, rfl⟩

theorem lookup_own {t : Table} {c : Nat} {bs : List BaseRef} (h : ownOrigBases t c = some bs) (d : Nat) :
    lookupOrigBases t d c = some bs := by
  rcases lin_head t d c with ⟨A, hA⟩
  simp [lookupOrigBases, hA, h]

/-- a class of kind `direct tvs` finds bases whose only `Generic[…]` entry is `Generic[tvs]` -/
theorem kind_direct {t : Table} (hwf : WF t) : ∀ (d c : Nat) (tvs : List Nat), kindOf t d c = .direct tvs →
    tvs.Nodup ∧ ∃ bs, genericBases bs = [tvs.map TArg.tv] ∧ ∀ d', d ≤ d' → lookupOrigBases t d' c = some bs := by
  intro d
  induction d with
  | zero => intro c tvs h; simp [kindOf] at h
  | succ d ih =>
    intro c tvs h
    simp only [kindOf] at h
    split at h
    · rename_i ps tvs' hg
      split at h
      · rename_i hc
        injection h with h; subst h
        simp only [Bool.and_eq_true, decide_eq_true_eq] at hc
        refine ⟨hc.1.2, basesOf t c, ?_, ?_⟩
        · simp [genericBases_eq, hg]
        · intro d' _
          apply lookup_own
          have : (basesOf t c).any BaseRef.isAlias = true := any_alias_of_generic (tvs := tvs') (by simp [hg])
          simp [ownOrigBases, this]
      · simp at h
    · repeat' split at h
      all_goals simp at h
    · split at h
      · rename_i b hb
        rcases ih b tvs h with ⟨hnd, bs, hgb, hl⟩
        refine ⟨hnd, bs, hgb, ?_⟩
        intro d' hd'
        cases d' with
        | zero => omega
        | succ d'' =>
          rw [lookup_plain_single hwf d'' c b hb]
          exact hl d'' (by omega)
      · split at h <;> simp at h
    · simp at h

theorem nonGeneric_lookup {t : Table} : ∀ (d c : Nat), nonGeneric t d c = true →
    ∀ d' x, x ∈ lin t d' c → ownOrigBases t x = none := by
  intro d
  induction d with
  | zero => intro c h; simp [nonGeneric] at h
  | succ d ih =>
    intro c h d' x hx
    simp only [nonGeneric, List.all_eq_true] at h
    have hown : ownOrigBases t c = none := by
      have : (basesOf t c).any BaseRef.isAlias = false := by
        apply List.any_eq_false.mpr
        intro b hb
        have := h b hb
        cases b <;> simp at this <;> simp [BaseRef.isAlias]
      simp [ownOrigBases, this]
    have hpar : ∀ p ∈ parents t c, nonGeneric t d p = true := by
      intro p hp
      have key : ∀ (bs : List BaseRef), (∀ b ∈ bs, (match b with | .plain p => nonGeneric t d p | _ => false) = true) →
          p ∈ parentsOfBases bs → nonGeneric t d p = true := by
        intro bs
        induction bs with
        | nil => intro _ hp; simp [parentsOfBases] at hp
        | cons b r ihr =>
          intro hall hp
          have hb := hall b (List.mem_cons_self ..)
          cases b with
          | generic tvs => simp at hb
          | param c a => simp at hb
          | plain q =>
            simp only [parentsOfBases, List.mem_cons] at hp
            rcases hp with rfl | hp
            · simpa using hb
            · exact ihr (fun b hb => hall b (List.mem_cons_of_mem _ hb)) hp
      exact key _ h hp
    cases d' with
    | zero => simp [lin] at hx; subst hx; exact hown
    | succ d' =>
      simp only [lin] at hx
      rcases List.mem_cons.mp hx with h1 | h1
      · subst h1; exact hown
      · rcases mem_c3merge _ _ _ h1 with ⟨s, hs, hxs⟩
        rcases List.mem_append.mp hs with h2 | h2
        · rcases List.mem_map.mp h2 with ⟨p, hp, rfl⟩
          exact ih p (hpar p hp) d' x hxs
        · simp at h2; subst h2
          rcases lin_head t 0 x with ⟨A, hA⟩
          exact ih x (hpar x hxs) 0 x (by simp [hA])

theorem kind_nonGeneric {t : Table} : ∀ (d c : Nat), kindOf t d c = .nonGeneric → nonGeneric t d c = true := by
  intro d
  induction d with
  | zero => intro c h; simp [kindOf] at h
  | succ d ih =>
    intro c h
    simp only [kindOf] at h
    split at h
    · split at h <;> simp at h
    · repeat' split at h
      all_goals simp at h
    · rename_i hg hp
      have hpl := all_plain hg hp
      split at h
      · rename_i b hb
        simp [nonGeneric, hb, ih b h]
      · split at h
        · rename_i hc
          simp only [nonGeneric, List.all_eq_true]
          intro b hb
          rcases hpl b hb with ⟨p, rfl⟩
          have := (List.all_eq_true.mp hc) p (List.mem_filterMap.mpr ⟨_, hb, rfl⟩)
          simpa using this
        · simp at h
    · simp at h

/-! ### `issubclass(origin, GenericMixin)`: the model's reachability against the specification's reading of the declarations -/

theorem parents_zero {t : Table} (hwf : WF t) : parents t 0 = [] := by
  cases h : parents t 0 with
  | nil => rfl
  | cons p r => have := (hwf 0).2 p (by simp [h]); omega

theorem derives_zero {t : Table} (hwf : WF t) : ∀ d, derives t mixinId d 0 = false := by
  intro d
  cases d <;> simp [derives, mixinId, parents_zero hwf]

/-- every class among `__bases__` comes from a written base (or is `typing.Generic`) -/
theorem mem_parentsOfBases {p : Nat} : ∀ (bs : List BaseRef), p ∈ parentsOfBases bs →
    p = genericId ∨ (∃ a, BaseRef.param p a ∈ bs) ∨ BaseRef.plain p ∈ bs := by
  intro bs
  induction bs with
  | nil => intro h; simp [parentsOfBases] at h
  | cons b r ih =>
    intro h
    cases b with
    | generic tvs =>
      simp only [parentsOfBases] at h
      split at h
      · rcases ih h with h1 | ⟨a, h1⟩ | h1
        · exact .inl h1
        · exact .inr (.inl ⟨a, List.mem_cons_of_mem _ h1⟩)
        · exact .inr (.inr (List.mem_cons_of_mem _ h1))
      · rcases List.mem_cons.mp h with h1 | h1
        · exact .inl h1
        · rcases ih h1 with h2 | ⟨a, h2⟩ | h2
          · exact .inl h2
          · exact .inr (.inl ⟨a, List.mem_cons_of_mem _ h2⟩)
          · exact .inr (.inr (List.mem_cons_of_mem _ h2))
    | param c a =>
      simp only [parentsOfBases] at h
      rcases List.mem_cons.mp h with h1 | h1
      · subst h1; exact .inr (.inl ⟨a, List.mem_cons_self ..⟩)
      · rcases ih h1 with h2 | ⟨a', h2⟩ | h2
        · exact .inl h2
        · exact .inr (.inl ⟨a', List.mem_cons_of_mem _ h2⟩)
        · exact .inr (.inr (List.mem_cons_of_mem _ h2))
    | plain c =>
      simp only [parentsOfBases] at h
      rcases List.mem_cons.mp h with h1 | h1
      · subst h1; exact .inr (.inr (List.mem_cons_self ..))
      · rcases ih h1 with h2 | ⟨a', h2⟩ | h2
        · exact .inl h2
        · exact .inr (.inl ⟨a', List.mem_cons_of_mem _ h2⟩)
        · exact .inr (.inr (List.mem_cons_of_mem _ h2))

theorem param_mem_parentsOfBases {p : Nat} {a : List TArg} : ∀ (bs : List BaseRef), BaseRef.param p a ∈ bs → p ∈ parentsOfBases bs := by
  intro bs
  induction bs with
  | nil => intro h; simp at h
  | cons b r ih =>
    intro h
    rcases List.mem_cons.mp h with h1 | h1
    · subst h1; simp [parentsOfBases]
    · have := ih h1
      cases b with
      | generic tvs => simp only [parentsOfBases]; split <;> simp [this]
      | param c a' => simp [parentsOfBases, this]
      | plain c => simp [parentsOfBases, this]

theorem plain_mem_parentsOfBases {p : Nat} : ∀ (bs : List BaseRef), BaseRef.plain p ∈ bs → p ∈ parentsOfBases bs := by
  intro bs
  induction bs with
  | nil => intro h; simp at h
  | cons b r ih =>
    intro h
    rcases List.mem_cons.mp h with h1 | h1
    · subst h1; simp [parentsOfBases]
    · have := ih h1
      cases b with
      | generic tvs => simp only [parentsOfBases]; split <;> simp [this]
      | param c a' => simp [parentsOfBases, this]
      | plain c => simp [parentsOfBases, this]

/-- a class the declarations show to have nothing to do with GenericMixin is no subclass of it, whatever the depth searched -/
theorem foreign_not_derives {t : Table} (hwf : WF t) : ∀ (d c : Nat), foreign t d c = true → ∀ d', derives t mixinId d' c = false := by
  intro d
  induction d with
  | zero => intro c h; simp [foreign] at h
  | succ d ih =>
    intro c h d'
    simp only [foreign, Bool.and_eq_true, bne_iff_ne, ne_eq, List.all_eq_true] at h
    obtain ⟨hne, hall⟩ := h
    cases d' with
    | zero => simpa [derives] using hne
    | succ d'' =>
      simp only [derives, Bool.or_eq_false_iff, beq_eq_false_iff_ne, ne_eq, List.any_eq_false]
      refine ⟨hne, ?_⟩
      intro p hp
      rcases mem_parentsOfBases _ hp with h1 | ⟨a, h1⟩ | h1
      · subst h1; simp [genericId, derives_zero hwf]
      · have := hall _ h1; simp only at this; simp [ih p this d'']
      · have := hall _ h1; simp only at this; simp [ih p this d'']

/-- a class the declarations show to be a GenericMixin class is a subclass of it at every depth searched from there on -/
theorem usesMixin_derives {t : Table} : ∀ (d c : Nat), usesMixin t d c = true → ∀ d', d ≤ d' → derives t mixinId d' c = true := by
  intro d
  induction d with
  | zero => intro c h; simp [usesMixin] at h
  | succ d ih =>
    intro c h d' hd'
    cases d' with
    | zero => omega
    | succ d'' =>
      simp only [usesMixin, Bool.or_eq_true, beq_iff_eq, List.any_eq_true] at h
      simp only [derives, Bool.or_eq_true, beq_iff_eq, List.any_eq_true]
      rcases h with h | ⟨b, hb, hu⟩
      · exact .inl h
      · right
        cases b with
        | generic tvs => simp at hu
        | param p a => exact ⟨p, param_mem_parentsOfBases _ hb, ih p hu d'' (by omega)⟩
        | plain p => exact ⟨p, plain_mem_parentsOfBases _ hb, ih p hu d'' (by omega)⟩

/-! ### which bases the loop runs over -/

theorem subscripted_plain (q : Nat) (r : List BaseRef) : subscriptedBases (.plain q :: r) = subscriptedBases r := rfl

theorem subscripted_param (o : Nat) (a : List TArg) (r : List BaseRef) :
    subscriptedBases (.param o a :: r) = .param o a :: subscriptedBases r := rfl

theorem mixinBases_plain (t : Table) (d : Nat) (n : String) (q : Nat) (r : List BaseRef) :
    mixinBases t d n (.plain q :: r) = mixinBases t d n r := by
  simp [mixinBases, subscripted_plain]

theorem mixinBases_param (t : Table) (d : Nat) (n : String) (o : Nat) (a : List TArg) (r : List BaseRef) :
    mixinBases t d n (.param o a :: r) =
      if derives t (libClassId n) d o then .param o a :: mixinBases t d n r else mixinBases t d n r := by
  simp [mixinBases, subscripted_param, List.filter_cons, BaseRef.origin]

/-- no subscripted base is a GenericMixin class: `mixin_bases` is empty -/
theorem mixinBases_none {t : Table} (hwf : WF t) (d0 d' : Nat) : ∀ (bs : List BaseRef), bs.filterMap genericOf = [] →
    ((bs.filterMap paramOf).all fun q => foreign t d0 q.1) = true → mixinBases t d' "GenericMixin" bs = [] := by
  intro bs
  induction bs with
  | nil => intro _ _; rfl
  | cons x r ih =>
    intro hg hall
    cases x with
    | generic tvs => simp [genericOf] at hg
    | plain q =>
      rw [mixinBases_plain]
      exact ih (by simpa [genericOf, List.filterMap_cons] using hg) (by simpa [paramOf, List.filterMap_cons] using hall)
    | param o a =>
      simp only [paramOf, List.filterMap_cons, List.all_cons, Bool.and_eq_true] at hall
      have hnd : derives t (libClassId "GenericMixin") d' o = false := foreign_not_derives hwf d0 o hall.1 d'
      rw [mixinBases_param, hnd]
      exact ih (by simpa [genericOf, List.filterMap_cons] using hg) hall.2

/-- exactly one subscripted base is a GenericMixin class and the others are foreign to it: `mixin_bases` is that one base -/
theorem mixinBases_select {t : Table} (hwf : WF t) {d0 b : Nat} {args : List TArg} (d' : Nat) (hd : d0 ≤ d') :
    ∀ (bs : List BaseRef), bs.filterMap genericOf = [] →
      ((bs.filterMap paramOf).filter fun q => usesMixin t d0 q.1) = [(b, args)] →
      ((bs.filterMap paramOf).all fun q => usesMixin t d0 q.1 || foreign t d0 q.1) = true →
      mixinBases t d' "GenericMixin" bs = [.param b args] := by
  intro bs
  induction bs with
  | nil => intro _ hp; simp at hp
  | cons x r ih =>
    intro hg hsel hall
    cases x with
    | generic tvs => simp [genericOf] at hg
    | plain q =>
      rw [mixinBases_plain]
      exact ih (by simpa [genericOf, List.filterMap_cons] using hg) (by simpa [paramOf, List.filterMap_cons] using hsel)
        (by simpa [paramOf, List.filterMap_cons] using hall)
    | param o a =>
      have hg' : r.filterMap genericOf = [] := by simpa [genericOf, List.filterMap_cons] using hg
      simp only [paramOf, List.filterMap_cons, List.all_cons, Bool.and_eq_true] at hall
      simp only [paramOf, List.filterMap_cons, List.filter_cons] at hsel
      rw [mixinBases_param]
      by_cases hu : usesMixin t d0 o = true
      · simp only [hu, ↓reduceIte, List.cons.injEq, Prod.mk.injEq] at hsel
        obtain ⟨⟨rfl, rfl⟩, hrest⟩ := hsel
        have hder : derives t (libClassId "GenericMixin") d' o = true := usesMixin_derives d0 o hu d' hd
        have hfor : ((r.filterMap paramOf).all fun q => foreign t d0 q.1) = true := by
          rw [List.all_eq_true]
          intro q hq
          have h1 := (List.all_eq_true.mp hall.2) q hq
          have h2 : usesMixin t d0 q.1 = false := by
            have : q ∉ (r.filterMap paramOf).filter fun q => usesMixin t d0 q.1 := by rw [hrest]; simp
            simpa [List.mem_filter, hq] using this
          simpa [h2] using h1
        rw [hder, mixinBases_none hwf d0 d' r hg' hfor]; rfl
      · have hu' : usesMixin t d0 o = false := by simpa using hu
        have hf : foreign t d0 o = true := by simpa [hu'] using hall.1
        have hnd : derives t (libClassId "GenericMixin") d' o = false := foreign_not_derives hwf d0 o hf d'
        simp only [hu', Bool.false_eq_true, ↓reduceIte] at hsel
        rw [hnd]
        exact ih hg' hsel hall.2

/-- **mixin bases win over foreign ones**: as soon as one subscripted base is a GenericMixin class, the loop runs over the subscripted
    GenericMixin bases only — whatever other subscripted bases there are, generic or not, before or after them (commit 2c5b09b;
    without the preference the loop runs over all subscripted bases and this fails) -/
theorem mixin_bases_win (t : Table) (d : Nat) (bs : List BaseRef) (h : mixinBases t d "GenericMixin" bs ≠ []) :
    loopCandidates t d bs = mixinBases t d "GenericMixin" bs ∧
    ∀ b ∈ loopCandidates t d bs, derives t mixinId d b.origin = true := by
  have h1 : loopCandidates t d bs = mixinBases t d "GenericMixin" bs := by
    simp [loopCandidates, loopPrefersOriginsDerivedFrom, loopFallsBackToAll, h]
  refine ⟨h1, ?_⟩
  intro b hb
  rw [h1] at hb
  simpa [mixinBases, libClassId, mixinId] using (List.mem_filter.mp hb).2

/-- … and only when NO subscripted base is a GenericMixin class does it run over all of them (commit 148d517: `mixin_bases or
    subscripted_bases`; with `mixin_bases` alone the loop would find nothing) -/
theorem no_mixin_base_all_subscripted (t : Table) (d : Nat) (bs : List BaseRef) (h : mixinBases t d "GenericMixin" bs = []) :
    loopCandidates t d bs = subscriptedBases bs := by
  simp [loopCandidates, loopPrefersOriginsDerivedFrom, loopFallsBackToAll, h]

/-- **the loop selects the GenericMixin base, wherever it stands**: among bases without `Generic[…]`, with exactly one subscripted
    base `B[args]` that is a GenericMixin class (whose declarations show `Generic[g]`) and every other subscripted base foreign to
    GenericMixin, the loop answers `(g, args)` — the foreign bases are not even looked at -/
theorem loop_select {t : Table} (hwf : WF t) {d0 b : Nat} {args g : List TArg} {bs' : List BaseRef} (d' : Nat) (hd : d0 ≤ d')
    (hl : lookupOrigBases t d' b = some bs') (hgb : genericBases bs' = [g]) :
    ∀ (bs : List BaseRef), bs.filterMap genericOf = [] →
      ((bs.filterMap paramOf).filter fun q => usesMixin t d0 q.1) = [(b, args)] →
      ((bs.filterMap paramOf).all fun q => usesMixin t d0 q.1 || foreign t d0 q.1) = true →
      loopCandidates t d' bs = [.param b args] ∧ loopBases t d' (loopCandidates t d' bs) = .found g args := by
  intro bs hg hsel hall
  have hm := mixinBases_select hwf d' hd bs hg hsel hall
  have hc : loopCandidates t d' bs = [.param b args] := by
    rw [(mixin_bases_win t d' bs (by rw [hm]; simp)).1, hm]
  exact ⟨hc, by simp [hc, loopBases, hl, getGenericBase, hgb, pickIdx, genericBaseIndex]⟩

/-- **order independence**: the answer of the loop does not depend on where the subscripted bases that are foreign to GenericMixin
    (and the plain mixins) stand — any permutation of such a list of bases is answered alike -/
theorem loop_order_independent {t : Table} (hwf : WF t) {d0 b : Nat} {args g : List TArg} {bs' : List BaseRef} (d' : Nat) (hd : d0 ≤ d')
    (hl : lookupOrigBases t d' b = some bs') (hgb : genericBases bs' = [g]) (bs₁ bs₂ : List BaseRef) (hperm : bs₁.Perm bs₂)
    (hg : bs₁.filterMap genericOf = [])
    (hsel : ((bs₁.filterMap paramOf).filter fun q => usesMixin t d0 q.1) = [(b, args)])
    (hall : ((bs₁.filterMap paramOf).all fun q => usesMixin t d0 q.1 || foreign t d0 q.1) = true) :
    loopBases t d' (loopCandidates t d' bs₂) = loopBases t d' (loopCandidates t d' bs₁) ∧
    loopBases t d' (loopCandidates t d' bs₁) = .found g args := by
  have h1 := (loop_select hwf d' hd hl hgb bs₁ hg hsel hall).2
  have hg2 : bs₂.filterMap genericOf = [] := by
    have := (hperm.filterMap genericOf); rw [hg] at this; exact List.perm_nil.mp this.symm
  have hp := hperm.filterMap paramOf
  have hsel2 : ((bs₂.filterMap paramOf).filter fun q => usesMixin t d0 q.1) = [(b, args)] := by
    have := hp.filter (fun q => usesMixin t d0 q.1); rw [hsel] at this
    exact List.perm_singleton.mp this.symm
  have hall2 : ((bs₂.filterMap paramOf).all fun q => usesMixin t d0 q.1 || foreign t d0 q.1) = true := by
    rw [List.all_eq_true] at hall ⊢
    intro q hq; exact hall q (hp.mem_iff.mpr hq)
  exact ⟨(loop_select hwf d' hd hl hgb bs₂ hg2 hsel2 hall2).2.trans h1.symm, h1⟩

theorem lookup_nonGeneric {t : Table} {d0 o : Nat} (h : nonGeneric t d0 o = true) (d' : Nat) : lookupOrigBases t d' o = none := by
  simp only [lookupOrigBases]
  apply List.findSome?_eq_none_iff.mpr
  intro x hx
  exact nonGeneric_lookup d0 o h d' x hx

/-- **no GenericMixin base: the one subscripted base with a generic-class origin is selected**, wherever it stands — subscripted bases
    whose origin has no `__orig_bases__` (`Sequence[int]`, `list[int]`) are passed over instead of ending in AttributeError -/
theorem loop_foreign_select {t : Table} {d0 b : Nat} {args g : List TArg} {bs' : List BaseRef} (d' : Nat)
    (hl : lookupOrigBases t d' b = some bs') (hgb : genericBases bs' = [g]) :
    ∀ (bs : List BaseRef), bs.filterMap genericOf = [] →
      ((bs.filterMap paramOf).filter fun q => !nonGeneric t d0 q.1) = [(b, args)] →
      loopBases t d' (subscriptedBases bs) = .found g args := by
  intro bs
  induction bs with
  | nil => intro _ hp; simp at hp
  | cons x r ih =>
    intro hg hsel
    cases x with
    | generic tvs => simp [genericOf] at hg
    | plain q =>
      rw [subscripted_plain]
      exact ih (by simpa [genericOf, List.filterMap_cons] using hg) (by simpa [paramOf, List.filterMap_cons] using hsel)
    | param o a =>
      simp only [paramOf, List.filterMap_cons, List.filter_cons] at hsel
      rw [subscripted_param]
      by_cases hn : nonGeneric t d0 o = true
      · simp only [hn, Bool.not_true, Bool.false_eq_true, ↓reduceIte] at hsel
        simp only [loopBases, loopSkipsOriginsWithoutOrigBases, lookup_nonGeneric hn d', Option.isNone_none, Bool.and_self, ↓reduceIte]
        exact ih (by simpa [genericOf, List.filterMap_cons] using hg) hsel
      · have hn' : nonGeneric t d0 o = false := by simpa using hn
        simp only [hn', Bool.not_false, ↓reduceIte, List.cons.injEq, Prod.mk.injEq] at hsel
        obtain ⟨⟨rfl, rfl⟩, _⟩ := hsel
        simp [loopBases, hl, getGenericBase, hgb, pickIdx, genericBaseIndex]

/-- a class of kind `bound` finds bases without `Generic[…]`, and the loop over them stops at `B[args]` -/
theorem kind_bound {t : Table} (hwf : WF t) : ∀ (d c : Nat) (m : List (TArg × TArg)), kindOf t d c = .bound m →
    ∃ bs tvs args, m = pairUp tvs args ∧ tvs.Nodup ∧ genericBases bs = [] ∧
      (∀ d', d ≤ d' → lookupOrigBases t d' c = some bs) ∧
      (∀ d', d ≤ d' → loopBases t d' (loopCandidates t d' bs) = .found (tvs.map TArg.tv) args) := by
  intro d
  induction d with
  | zero => intro c m h; simp [kindOf] at h
  | succ d ih =>
    intro c m h
    simp only [kindOf] at h
    split at h
    · split at h <;> simp at h
    · rename_i p ps' hg hp
      have hown : ∀ d', lookupOrigBases t d' c = some (basesOf t c) := by
        intro d'
        apply lookup_own
        have : (basesOf t c).any BaseRef.isAlias = true := any_alias_of_param (p := p) (by simp [hp])
        simp [ownOrigBases, this]
      split at h
      · -- exactly one subscripted GenericMixin base
        rename_i b args hsel
        split at h
        · rename_i tvs hk
          split at h
          · rename_i hc
            injection h with h; subst h
            simp only [Bool.and_eq_true, decide_eq_true_eq] at hc
            rcases kind_direct hwf d b tvs hk with ⟨hnd, bs', hgb, hl⟩
            refine ⟨basesOf t c, tvs, args, rfl, hnd, by simp [genericBases_eq, hg], fun d' _ => hown d', ?_⟩
            intro d' hd'
            exact (loop_select (d0 := d) hwf d' (by omega) (hl d' (by omega)) hgb _ hg (by rw [hp]; exact hsel)
              (by rw [hp]; exact hc.1.1.2)).2
          · simp at h
        · simp at h
      · -- no subscripted GenericMixin base: the one subscripted base with a generic-class origin
        rename_i hsel0
        split at h
        · rename_i b args hsel
          split at h
          · rename_i tvs hk
            split at h
            · rename_i hc
              injection h with h; subst h
              simp only [Bool.and_eq_true, decide_eq_true_eq] at hc
              rcases kind_direct hwf d b tvs hk with ⟨hnd, bs', hgb, hl⟩
              refine ⟨basesOf t c, tvs, args, rfl, hnd, by simp [genericBases_eq, hg], fun d' _ => hown d', ?_⟩
              intro d' hd'
              have hm := mixinBases_none hwf d d' (basesOf t c) hg (by rw [hp]; exact hc.1.1.2)
              rw [no_mixin_base_all_subscripted t d' _ hm]
              exact loop_foreign_select (d0 := d) d' (hl d' (by omega)) hgb _ hg (by rw [hp]; exact hsel)
            · simp at h
          · simp at h
        · simp at h
      · simp at h
    · split at h
      · rename_i b hb
        rcases ih b m h with ⟨bs, tvs, args, hm, hnd, hgb, hl, hloop⟩
        refine ⟨bs, tvs, args, hm, hnd, hgb, ?_, fun d' hd' => hloop d' (by omega)⟩
        intro d' hd'
        cases d' with
        | zero => omega
        | succ d'' =>
          rw [lookup_plain_single hwf d'' c b hb]
          exact hl d'' (by omega)
      · split at h <;> simp at h
    · simp at h

/-! ## the dictionary that is returned -/

theorem dictInsert_fresh {κ ν : Type} [DecidableEq κ] (k : κ) (v : ν) :
    ∀ (l : List (κ × ν)), k ∉ l.map Prod.fst → dictInsert k v l = l ++ [(k, v)] := by
  intro l
  induction l with
  | nil => intro _; rfl
  | cons x r ih =>
    intro h
    obtain ⟨k', v'⟩ := x
    simp only [List.map_cons, List.mem_cons, not_or] at h
    simp only [dictInsert]
    rw [if_neg (fun e => h.1 e.symm), ih h.2]
    rfl

theorem foldl_dictInsert {κ ν : Type} [DecidableEq κ] :
    ∀ (l acc : List (κ × ν)), ((acc ++ l).map Prod.fst).Nodup →
      l.foldl (fun d kv => dictInsert kv.1 kv.2 d) acc = acc ++ l := by
  intro l
  induction l with
  | nil => intro acc _; simp
  | cons x r ih =>
    intro acc h
    have hx : x.1 ∉ acc.map Prod.fst := by
      intro hm
      simp only [List.map_append, List.map_cons] at h
      have := (List.nodup_append.mp h).2.2 x.1 hm x.1 (List.mem_cons_self ..)
      exact this rfl
    simp only [List.foldl_cons]
    rw [dictInsert_fresh _ _ _ hx, ih]
    · simp
    · simpa using h

theorem dictOfPairs_nodup {κ ν : Type} [DecidableEq κ] (l : List (κ × ν)) (h : (l.map Prod.fst).Nodup) :
    dictOfPairs l = l := by
  simpa [dictOfPairs] using foldl_dictInsert l [] (by simpa using h)

theorem zip_eq_pairUp : ∀ (tvs : List Nat) (args : List TArg), (tvs.map TArg.tv).zip args = pairUp tvs args := by
  intro tvs
  induction tvs with
  | nil => intro args; simp [pairUp]
  | cons a r ih =>
    intro args
    cases args with
    | nil => simp [pairUp]
    | cons x xs => simp [pairUp, ih]

theorem mem_pairUp_keys : ∀ (tvs : List Nat) (args : List TArg) (k : TArg),
    k ∈ (pairUp tvs args).map Prod.fst → ∃ a ∈ tvs, k = .tv a := by
  intro tvs
  induction tvs with
  | nil => intro args k h; simp [pairUp] at h
  | cons a r ih =>
    intro args k h
    cases args with
    | nil => simp [pairUp] at h
    | cons x xs =>
      simp only [pairUp, List.map_cons, List.mem_cons] at h
      rcases h with rfl | h
      · exact ⟨a, List.mem_cons_self .., rfl⟩
      · rcases ih xs k h with ⟨b, hb, rfl⟩
        exact ⟨b, List.mem_cons_of_mem _ hb, rfl⟩

theorem pairUp_nodup : ∀ (tvs : List Nat) (args : List TArg), tvs.Nodup → ((pairUp tvs args).map Prod.fst).Nodup := by
  intro tvs
  induction tvs with
  | nil => intro args _; simp [pairUp]
  | cons a r ih =>
    intro args h
    cases args with
    | nil => simp [pairUp]
    | cons x xs =>
      simp only [pairUp, List.map_cons]
      refine List.nodup_cons.mpr ⟨?_, ih xs (List.nodup_cons.mp h).2⟩
      intro hm
      rcases mem_pairUp_keys r xs _ hm with ⟨b, hb, he⟩
      injection he with he
      subst he
      exact (List.nodup_cons.mp h).1 hb

/-- with distinct type variables the returned dict is the substitution `Ti ↦ Xi`, in order -/
theorem mkDict_eq (tvs : List Nat) (args : List TArg) (h : tvs.Nodup) :
    mkDict (tvs.map TArg.tv) args = pairUp tvs args := by
  simp only [mkDict, keysFromGenericBase, valsFromActualTypes, ↓reduceIte, zip_eq_pairUp]
  exact dictOfPairs_nodup _ (pairUp_nodup tvs args h)

/-! ## property theorems: GenericMixin -/

/-- **type_vars is exactly {Ti: Xi}** on every supported shape: whenever the declarations put the instance into a
    supported shape with expected mapping `m`, `_get_types` returns `m` — for every table, every number of type
    parameters, every list of type arguments, every depth of plain subclassing, extra mixin bases in any order. -/
theorem type_vars_exact {t : Table} (hwf : WF t) (d c : Nat) (orig : Option (List TArg)) (m : List (TArg × TArg))
    (h : expectedOutcome t d c orig = .ok m) : getTypes t d c orig = .ok m := by
  simp only [expectedOutcome] at h
  split at h
  · simp at h
  · rename_i tvs hk
    rcases kind_direct hwf d c tvs hk with ⟨hnd, bs, hgb, hl⟩
    split at h
    · simp at h
    · rename_i args
      split at h
      · injection h with h; subst h
        simp [getTypes, hl d (Nat.le_refl _), selfHas, nonGenericGuardAttr, unparamGuardAttr, getGenericBase, hgb,
          pickIdx, genericBaseIndex, mkDict_eq _ _ hnd]
      · simp at h
  · rename_i m' hk
    injection h with h; subst h
    rcases kind_bound hwf d c m' hk with ⟨bs, tvs, args, rfl, hnd, hgb, hl, hloop⟩
    simp [getTypes, hl d (Nat.le_refl _), selfHas, nonGenericGuardAttr, getGenericBase, hgb,
      hloop d (Nat.le_refl _), mkDict_eq _ _ hnd]
  · simp at h

/-- **use on a non-generic class raises AssertionError** (whatever `__orig_class__` says) -/
theorem non_generic_asserts {t : Table} (d c : Nat) (orig : Option (List TArg)) (h : kindOf t d c = .nonGeneric) :
    getTypes t d c orig = .raised .nonGeneric "AssertionError" := by
  have hn : lookupOrigBases t d c = none := by
    simp only [lookupOrigBases]
    apply List.findSome?_eq_none_iff.mpr
    intro x hx
    exact nonGeneric_lookup d c (kind_nonGeneric d c h) d x hx
  simp [getTypes, hn, selfHas, nonGenericGuardAttr, nonGenericExc]

/-- **an unparametrised instance of a generic class raises AssertionError** -/
theorem unparametrised_asserts {t : Table} (hwf : WF t) (d c : Nat) (tvs : List Nat) (h : kindOf t d c = .direct tvs) :
    getTypes t d c none = .raised .unparam "AssertionError" := by
  rcases kind_direct hwf d c tvs h with ⟨_, bs, hgb, hl⟩
  simp [getTypes, hl d (Nat.le_refl _), selfHas, nonGenericGuardAttr, unparamGuardAttr, unparamExc, getGenericBase, hgb,
    pickIdx, genericBaseIndex]

/-- both refusals in one statement: where the property demands an AssertionError, that is what is raised -/
theorem must_assert {t : Table} (hwf : WF t) (d c : Nat) (orig : Option (List TArg))
    (h : expectedOutcome t d c orig = .mustAssert) : ∃ s, getTypes t d c orig = .raised s "AssertionError" := by
  simp only [expectedOutcome] at h
  split at h
  · rename_i hk; exact ⟨_, non_generic_asserts d c orig hk⟩
  · rename_i tvs hk
    split at h
    · exact ⟨_, unparametrised_asserts hwf d c tvs hk⟩
    · split at h <;> simp at h
  · simp at h
  · simp at h

/-- **type_var is X1 when n = 1** -/
theorem type_var_single {t : Table} (hwf : WF t) (d c : Nat) (orig : Option (List TArg)) (k x : TArg)
    (h : expectedOutcome t d c orig = .ok [(k, x)]) : typeVar (getTypes t d c orig) = .ok x := by
  rw [type_vars_exact hwf d c orig _ h]
  simp [typeVar, typeVarLenOk, typeVarIndex]

/-- … and with any other number of parameters `type_var` refuses with AssertionError -/
theorem type_var_multiple {t : Table} (hwf : WF t) (d c : Nat) (orig : Option (List TArg)) (m : List (TArg × TArg))
    (h : expectedOutcome t d c orig = .ok m) (hn : m.length ≠ 1) :
    typeVar (getTypes t d c orig) = .raised .multiple "AssertionError" := by
  rw [type_vars_exact hwf d c orig _ h]
  simp [typeVar, typeVarLenOk, hn]

/-- **a directly generic class with extra parametrised mixin bases** — `class Box(Labelled[str], Generic[T], GenericMixin)`,
    `class Box(Generic[T1, T2], GenericMixin, Sequence[T1], Labelled[bytes])`, … — stated on the declarations themselves: the
    class lists exactly one `Generic[T1..Tn]` (distinct variables) at ANY position among its bases, its plain bases are
    non-generic, and its other subscripted bases — any number of them, before or after `Generic[…]`, with any arguments — are
    classes that know nothing about `GenericMixin`.  Then `Cls[X1..Xn]()` reports exactly `{Ti: Xi}` (never the type arguments
    of a mixin), and the unparametrised `Cls()` raises AssertionError instead of returning data. -/
theorem direct_with_parametrised_mixins {t : Table} (hwf : WF t) (d c : Nat) (tvs : List Nat) (args : List TArg)
    (hg : (basesOf t c).filterMap genericOf = [tvs]) (hnd : tvs.Nodup)
    (hpl : ((basesOf t c).filterMap plainOf).all (nonGeneric t d) = true)
    (hpar : ((basesOf t c).filterMap paramOf).all (fun p => foreign t d p.1) = true)
    (hlen : args.length = tvs.length) :
    getTypes t (d + 1) c (some args) = .ok (pairUp tvs args) ∧
    getTypes t (d + 1) c none = .raised .unparam "AssertionError" := by
  have hpl' : ((basesOf t c).filterMap plainOf).all (fun p => nonGeneric t d p || (kindOf t d p).isBound) = true := by
    rw [List.all_eq_true] at hpl ⊢
    intro p hp
    simp [hpl p hp]
  have hk : kindOf t (d + 1) c = .direct tvs := by simp only [kindOf, hg, hnd, hpl', hpar, Bool.and_self, decide_true, ↓reduceIte]
  refine ⟨type_vars_exact hwf (d + 1) c (some args) _ ?_, unparametrised_asserts hwf (d + 1) c tvs hk⟩
  simp [expectedOutcome, hk, hlen]

/-- **a class that declares `Generic[K1..Km]` over a base whose parameters are all bound** — `class CachedUserRepo(UserRepo, Generic[K])`
    over `class UserRepo(Repo[User])` over `class Repo(Generic[T], GenericMixin)`, to any depth — stated on the declarations themselves:
    the class lists exactly one `Generic[K1..Km]` (distinct variables) at any position; each of its plain bases is non-generic OR a
    class all of whose parameters are bound (a fully binding subclass, a plain subclass of one — `Kind.isBound`); its subscripted bases
    know nothing about GenericMixin.  Then `Cls[X1..Xm]()` reports exactly `{Ki: Xi}` — its OWN parameters, never the `{T: User}` of
    the base it stands on — and the unparametrised `Cls()` raises AssertionError instead of returning the data of its base. -/
theorem redeclared_generic_over_bound_base {t : Table} (hwf : WF t) (d c : Nat) (tvs : List Nat) (args : List TArg)
    (hg : (basesOf t c).filterMap genericOf = [tvs]) (hnd : tvs.Nodup)
    (hpl : ((basesOf t c).filterMap plainOf).all (fun p => nonGeneric t d p || (kindOf t d p).isBound) = true)
    (hpar : ((basesOf t c).filterMap paramOf).all (fun p => foreign t d p.1) = true)
    (hlen : args.length = tvs.length) :
    getTypes t (d + 1) c (some args) = .ok (pairUp tvs args) ∧
    getTypes t (d + 1) c none = .raised .unparam "AssertionError" := by
  have hk : kindOf t (d + 1) c = .direct tvs := by simp only [kindOf, hg, hnd, hpl, hpar, Bool.and_self, decide_true, ↓reduceIte]
  refine ⟨type_vars_exact hwf (d + 1) c (some args) _ ?_, unparametrised_asserts hwf (d + 1) c tvs hk⟩
  simp [expectedOutcome, hk, hlen]

/-- **a subclass that binds all parameters of its generic base, with further subscripted bases at any position** — stated on the
    declarations themselves: the class lists no `Generic[…]`; exactly one of its subscripted bases, `B[X1..Xn]`, is a GenericMixin
    class (`B` declares `Generic[T1..Tn]`, or is a plain subclass of such a class), with as many arguments as `B` has parameters, all
    of them types; every other subscripted base — `Labelled[str]`, `Sequence[int]`, `list[int]`, any number of them, BEFORE or AFTER
    `B[…]` — has nothing to do with GenericMixin; the plain bases are non-generic.  Then `type_vars` is exactly `{Ti: Xi}` of `B[…]`,
    however the instance was created.  The hypotheses speak about the bases through `filterMap` / `filter` / `all` only: they do not
    see the order of the bases, so the position of the foreign subscripted bases does not matter (`class Odd(Labelled[str], Box[int])`
    and `class Even(Box[int], Labelled[str])` alike). -/
theorem binding_subclass_foreign_bases_any_position {t : Table} (hwf : WF t) (d c b : Nat) (tvs : List Nat)
    (args : List TArg) (orig : Option (List TArg))
    (hb : kindOf t d b = .direct tvs)
    (hg : (basesOf t c).filterMap genericOf = [])
    (hsel : ((basesOf t c).filterMap paramOf).filter (fun q => usesMixin t d q.1) = [(b, args)])
    (hfor : ((basesOf t c).filterMap paramOf).all (fun q => usesMixin t d q.1 || foreign t d q.1) = true)
    (hpl : ((basesOf t c).filterMap plainOf).all (nonGeneric t d) = true)
    (hlen : args.length = tvs.length) (hty : args.all TArg.isTy = true) :
    getTypes t (d + 1) c orig = .ok (pairUp tvs args) := by
  apply type_vars_exact hwf
  cases hps : (basesOf t c).filterMap paramOf with
  | nil => rw [hps] at hsel; simp at hsel
  | cons p ps' =>
    rw [hps] at hsel hfor
    simp only [expectedOutcome, kindOf, hg, hps, hsel, hb, hpl, hfor, hlen, hty, Bool.and_self, decide_true, ↓reduceIte]

/-- **a class that binds all parameters of an ordinary generic class and adds GenericMixin itself** — `class IntL(Labelled[int],
    GenericMixin)`, `class IntL2(GenericMixin, Labelled[int])`, `class X(Sequence[int], Labelled[int], GenericMixin)` — stated on the
    declarations themselves: the class lists no `Generic[…]`; none of its subscripted bases is a GenericMixin class; GenericMixin is
    among its plain bases (directly or through a plain non-generic class), at any position; exactly one subscripted base, `B[X1..Xn]`,
    has an origin in whose ancestry something is subscripted — and `B` is a generic class (declares `Generic[T1..Tn]`, or is a plain
    subclass of such a class) with all parameters bound to types; every other subscripted base (`Sequence[int]`, `list[int]`, any
    number, before or after `B[…]`) has nothing subscripted in its ancestry.  Then `type_vars` is exactly `{Ti: Xi}` of `B[…]`.
    As above, the hypotheses do not see the order of the bases. -/
theorem binding_of_foreign_generic_base {t : Table} (hwf : WF t) (d c b : Nat) (tvs : List Nat)
    (args : List TArg) (orig : Option (List TArg))
    (hb : kindOf t d b = .direct tvs)
    (hg : (basesOf t c).filterMap genericOf = [])
    (hnomix : ((basesOf t c).filterMap paramOf).filter (fun q => usesMixin t d q.1) = [])
    (hsel : ((basesOf t c).filterMap paramOf).filter (fun q => !nonGeneric t d q.1) = [(b, args)])
    (hfor : ((basesOf t c).filterMap paramOf).all (fun q => foreign t d q.1) = true)
    (hpl : ((basesOf t c).filterMap plainOf).all (nonGeneric t d) = true)
    (hmix : ((basesOf t c).filterMap plainOf).any (usesMixin t d) = true)
    (hlen : args.length = tvs.length) (hty : args.all TArg.isTy = true) :
    getTypes t (d + 1) c orig = .ok (pairUp tvs args) := by
  apply type_vars_exact hwf
  cases hps : (basesOf t c).filterMap paramOf with
  | nil => rw [hps] at hsel; simp at hsel
  | cons p ps' =>
    rw [hps] at hsel hfor hnomix
    simp only [expectedOutcome, kindOf, hg, hps, hnomix, hsel, hb, hpl, hmix, hfor, hlen, hty, Bool.and_self, decide_true, ↓reduceIte]

/-- the same with `B[…]` as the only subscripted base: `class IntBox(Box[int])`, plain non-generic mixins around it -/
theorem binding_subclass_of_direct_with_parametrised_mixins {t : Table} (hwf : WF t) (d c b : Nat) (tvs : List Nat)
    (args : List TArg) (orig : Option (List TArg))
    (hb : kindOf t d b = .direct tvs) (hu : usesMixin t d b = true)
    (hg : (basesOf t c).filterMap genericOf = []) (hp : (basesOf t c).filterMap paramOf = [(b, args)])
    (hpl : ((basesOf t c).filterMap plainOf).all (nonGeneric t d) = true)
    (hlen : args.length = tvs.length) (hty : args.all TArg.isTy = true) :
    getTypes t (d + 1) c orig = .ok (pairUp tvs args) :=
  binding_subclass_foreign_bases_any_position hwf d c b tvs args orig hb hg (by simp [hp, hu]) (by simp [hp, hu]) hpl hlen hty

/-- **order independence, on whole class tables**: two tables that differ in nothing but the ORDER in which one binding subclass
    lists its bases (same classes everywhere else, the bases of that class a permutation) give the same `type_vars` — whenever the
    interpreter accepts both (`WF`) and the declarations of one of them are in the shape of the theorem above -/
theorem type_vars_order_independent {t₁ t₂ : Table} (hwf₁ : WF t₁) (hwf₂ : WF t₂) (d c b : Nat) (tvs : List Nat)
    (args : List TArg) (orig : Option (List TArg))
    (hperm : (basesOf t₁ c).Perm (basesOf t₂ c))
    (hb₁ : kindOf t₁ d b = .direct tvs) (hb₂ : kindOf t₂ d b = .direct tvs)
    (hu : ∀ q, usesMixin t₂ d q = usesMixin t₁ d q) (hf : ∀ q, foreign t₂ d q = foreign t₁ d q)
    (hn : ∀ q, nonGeneric t₂ d q = nonGeneric t₁ d q)
    (hg : (basesOf t₁ c).filterMap genericOf = [])
    (hsel : ((basesOf t₁ c).filterMap paramOf).filter (fun q => usesMixin t₁ d q.1) = [(b, args)])
    (hfor : ((basesOf t₁ c).filterMap paramOf).all (fun q => usesMixin t₁ d q.1 || foreign t₁ d q.1) = true)
    (hpl : ((basesOf t₁ c).filterMap plainOf).all (nonGeneric t₁ d) = true)
    (hlen : args.length = tvs.length) (hty : args.all TArg.isTy = true) :
    getTypes t₂ (d + 1) c orig = getTypes t₁ (d + 1) c orig := by
  rw [binding_subclass_foreign_bases_any_position hwf₁ d c b tvs args orig hb₁ hg hsel hfor hpl hlen hty]
  have hp := hperm.filterMap paramOf
  apply binding_subclass_foreign_bases_any_position hwf₂ d c b tvs args orig hb₂
  · have := hperm.filterMap genericOf; rw [hg] at this; exact List.perm_nil.mp this.symm
  · have := hp.filter (fun q => usesMixin t₁ d q.1); rw [hsel] at this
    simpa [hu] using List.perm_singleton.mp this.symm
  · rw [List.all_eq_true] at hfor ⊢
    intro q hq; simpa [hu, hf] using hfor q (hp.mem_iff.mpr hq)
  · have hq := hperm.filterMap plainOf
    rw [List.all_eq_true] at hpl ⊢
    intro q hq'; simpa [hn] using hpl q (hq.mem_iff.mpr hq')
  · exact hlen
  · exact hty

/-! ### `type_vars_order_independent`, instantiated: two real tables that differ in the order of the bases of one class -/

theorem basesOf_out_of_range {t : Table} {q : Nat} (h : t.length ≤ q) : basesOf t q = [] := by
  simp [basesOf, List.getElem?_eq_none h]

theorem usesMixin_out_of_range {t : Table} {q : Nat} (h : t.length ≤ q) (d : Nat) : usesMixin t (d + 1) q = (q == mixinId) := by
  simp [usesMixin, basesOf_out_of_range h]

theorem foreign_out_of_range {t : Table} {q : Nat} (h : t.length ≤ q) (d : Nat) : foreign t (d + 1) q = (q != mixinId) := by
  simp [foreign, basesOf_out_of_range h]

theorem nonGeneric_out_of_range {t : Table} {q : Nat} (h : t.length ≤ q) (d : Nat) : nonGeneric t (d + 1) q = true := by
  simp [nonGeneric, basesOf_out_of_range h]

/-- `class Labelled(Generic[T4])` (4); `class Box(Generic[T1], GenericMixin)` (5); `class Odd(Labelled[X1], Box[X0])` (6) -/
def exOddFirst : Table := libTable ++ [⟨[.generic [4]], []⟩, ⟨[.generic [1], .plain 1], []⟩, ⟨[.param 4 [.ty 1], .param 5 [.ty 0]], []⟩]
/-- the same program with `class Odd(Box[X0], Labelled[X1])` -/
def exOddLast : Table := libTable ++ [⟨[.generic [4]], []⟩, ⟨[.generic [1], .plain 1], []⟩, ⟨[.param 5 [.ty 0], .param 4 [.ty 1]], []⟩]

/-- the hypotheses of `type_vars_order_independent` are met by two real programs: whichever way `Odd` lists its bases, and however
    the instance was created, `type_vars` is the same — `{T1: X0}` -/
theorem odd_answers_alike_in_either_order (orig : Option (List TArg)) :
    getTypes exOddLast 8 6 orig = getTypes exOddFirst 8 6 orig ∧ getTypes exOddFirst 8 6 orig = .ok [(.tv 1, .ty 0)] := by
  have hfin : ∀ q, q < 7 → usesMixin exOddLast 7 q = usesMixin exOddFirst 7 q ∧ foreign exOddLast 7 q = foreign exOddFirst 7 q ∧
      nonGeneric exOddLast 7 q = nonGeneric exOddFirst 7 q := by decide
  have hall : ∀ q, usesMixin exOddLast 7 q = usesMixin exOddFirst 7 q ∧ foreign exOddLast 7 q = foreign exOddFirst 7 q ∧
      nonGeneric exOddLast 7 q = nonGeneric exOddFirst 7 q := by
    intro q
    rcases Nat.lt_or_ge q 7 with h | h
    · exact hfin q h
    · have h1 : exOddLast.length ≤ q := h
      have h2 : exOddFirst.length ≤ q := h
      simp [usesMixin_out_of_range h1, usesMixin_out_of_range h2, foreign_out_of_range h1, foreign_out_of_range h2,
        nonGeneric_out_of_range h1, nonGeneric_out_of_range h2]
  have hwf₁ : WF exOddFirst := WF_of_wfB (by decide)
  have hwf₂ : WF exOddLast := WF_of_wfB (by decide)
  refine ⟨type_vars_order_independent hwf₁ hwf₂ 7 6 5 [1] [.ty 0] orig (by decide) (by decide) (by decide)
    (fun q => (hall q).1) (fun q => (hall q).2.1) (fun q => (hall q).2.2) (by decide) (by decide) (by decide) (by decide) rfl (by decide), ?_⟩
  exact binding_subclass_foreign_bases_any_position hwf₁ 7 6 5 [1] [.ty 0] orig (by decide) (by decide) (by decide) (by decide)
    (by decide) rfl (by decide)

/-! ## create_decorator -/

theorem dictGet_insert {κ ν : Type} [DecidableEq κ] (k k' : κ) (v : ν) :
    ∀ (d : List (κ × ν)), dictGet k (dictInsert k' v d) = if k' = k then some v else dictGet k d := by
  intro d
  induction d with
  | nil => simp [dictInsert, dictGet]
  | cons x r ih =>
    obtain ⟨k0, v0⟩ := x
    simp only [dictInsert]
    by_cases h0 : k0 = k'
    · subst h0; simp only [↓reduceIte, dictGet]; split <;> rfl
    · simp only [h0, ↓reduceIte, dictGet, ih]
      by_cases h1 : k0 = k
      · subst h1; simp [Ne.symm h0]
      · simp [h1]

theorem applyApps_dict_aux (k : Key) : ∀ (apps : List App) (s : FState), (∀ a ∈ apps, a.tr ≠ Tr.fresh) →
    dictGet k (apps.foldl applyOne s).dict =
      (match outermost k apps with | some v => some v | none => dictGet k s.dict) := by
  intro apps
  induction apps with
  | nil => intro s _; simp [outermost]
  | cons a r ih =>
    intro s h
    have ha := h a (List.mem_cons_self ..)
    have hr : ∀ b ∈ r, b.tr ≠ Tr.fresh := fun b hb => h b (List.mem_cons_of_mem _ hb)
    simp only [List.foldl_cons, outermost]
    rw [ih _ hr]
    cases ho : outermost k r with
    | some v => rfl
    | none =>
      have hd : dictGet k (applyOne s a).dict = if a.ty = k then some a.val else dictGet k s.dict := by
        cases htr : a.tr <;> simp_all [applyOne, setattrKeyRole, setattrValRole, roleNat, dictGet_insert]
      simp only [hd]
      split <;> rfl

/-- with attribute-preserving transformations the function object that ends up in the class carries, for every key,
    the argument of the outermost application of that key — and nothing for keys never applied -/
theorem applyApps_dict (k : Key) (apps : List App) (h : ∀ a ∈ apps, a.tr ≠ Tr.fresh) :
    dictGet k (applyApps apps).dict = outermost k apps := by
  have := applyApps_dict_aux k apps ⟨0, [], []⟩ h
  simp only [applyApps, this]
  cases outermost k apps <;> rfl

theorem journal_aux : ∀ (apps : List App) (s : FState),
    (apps.foldl applyOne s).journal = s.journal ++ expectedCalls s.gen apps := by
  intro apps
  induction apps with
  | nil => intro s; simp [expectedCalls]
  | cons a r ih =>
    intro s
    simp only [List.foldl_cons, ih]
    cases htr : a.tr <;>
      simp [applyOne, htr, expectedCalls, transformationArgs, roleArg, List.append_assoc]

/-- **a custom transformation receives (function, type, value)**: for every stack of applications, every
    transformation is called exactly once, in application order, with the function object it has to wrap (the `def`
    or the wrapper returned by the previous transformation), the decorator type and the decorator argument -/
theorem transformation_receives_f_type_value (apps : List App) :
    (applyApps apps).journal = expectedCalls 0 apps := by
  simpa [applyApps] using journal_aux apps ⟨0, [], []⟩

/-! ## the scan of `get_decorated_functions` -/

/-- what one (name, getattr-result) contributes to the inner dict of key `k` -/
def contrib (k : Key) (e : Name × Got) : Option (Attr × Val) :=
  if skipName e.1 then none else
  match e.2 with
  | .value a dict => (dictGet k dict).map fun v => (a, v)
  | .raises _ => none

/-- the inner dict of key `k` as the code builds it: one `d[a] = v` per contributing attribute -/
def rowFold (k : Key) (es : List (Name × Got)) (acc : List (Attr × Val)) : List (Attr × Val) :=
  es.foldl (fun acc e => match contrib k e with | some av => dictInsert av.1 av.2 acc | none => acc) acc

def rowOf (k : Key) (es : List (Name × Got)) : List (Attr × Val) := es.filterMap (contrib k)

def noRaise (es : List (Name × Got)) : Prop := ∀ e ∈ es, skipName e.1 = false → ∀ x, e.2 ≠ .raises x

/-- whatever answers to a member can be a dictionary key -/
def hashOk (M : List Key) (es : List (Name × Got)) : Prop :=
  ∀ e ∈ es, skipName e.1 = false → ∀ a dict, e.2 = .value a dict → (∃ k ∈ M, (dictGet k dict).isSome = true) → a.hashable = true

theorem insertOuter_map (t : Key) (a : Attr) (v : Val) (g : Key → List (Attr × Val)) :
    ∀ (M : List Key), t ∈ M → M.Nodup →
      insertOuter t a v (M.map fun k => (k, g k)) =
        some (M.map fun k => (k, if k = t then dictInsert a v (g k) else g k)) := by
  intro M
  induction M with
  | nil => intro h; simp at h
  | cons m r ih =>
    intro hm hnd
    by_cases h : m = t
    · subst h
      have hr : ∀ k ∈ r, (if k = m then dictInsert a v (g k) else g k) = g k := by
        intro k hk
        have : k ≠ m := fun e => (List.nodup_cons.mp hnd).1 (e ▸ hk)
        simp [this]
      simp only [List.map_cons, insertOuter, ↓reduceIte]
      congr 2
      apply List.map_congr_left
      intro k hk
      rw [hr k hk]
    · have hm' : t ∈ r := by
        rcases List.mem_cons.mp hm with h1 | h1
        · exact absurd h1.symm h
        · exact h1
      simp only [List.map_cons, insertOuter, h, ↓reduceIte, ih hm' (List.nodup_cons.mp hnd).2, Option.map_some]

theorem scanMembers_map (a : Attr) (dict : List (Key × Val)) (M : List Key) (hM : M.Nodup) :
    ∀ (ms : List Key) (g : Key → List (Attr × Val)), ms.Nodup → (∀ k ∈ ms, k ∈ M) →
      scanMembers a dict ms (M.map fun k => (k, g k)) =
        some (M.map fun k => (k, if k ∈ ms then (match dictGet k dict with
                                                  | some v => dictInsert a v (g k)
                                                  | none => g k) else g k)) := by
  intro ms
  induction ms with
  | nil => intro g _ _; simp [scanMembers]
  | cons t ts ih =>
    intro g hnd hsub
    have ht : t ∈ M := hsub t (List.mem_cons_self ..)
    have hts : ∀ k ∈ ts, k ∈ M := fun k hk => hsub k (List.mem_cons_of_mem _ hk)
    have htn : t ∉ ts := (List.nodup_cons.mp hnd).1
    simp only [scanMembers]
    cases hd : dictGet t dict with
    | none =>
      simp only [ih g (List.nodup_cons.mp hnd).2 hts]
      congr 1
      apply List.map_congr_left
      intro k _
      by_cases hk : k = t
      · subst hk; simp [htn, hd]
      · simp [hk]
    | some v =>
      simp only [insertOuter_map t a v g M ht hM, Option.bind_some,
        ih (fun k => if k = t then dictInsert a v (g k) else g k) (List.nodup_cons.mp hnd).2 hts]
      congr 1
      apply List.map_congr_left
      intro k _
      by_cases hk : k = t
      · subst hk; simp [htn, hd]
      · simp [hk]

/-- the whole scan, for every enum and every view without a raising visible member: one inner dict per member,
    in member order, built by `d[a] = v` over the contributing attributes -/
theorem scanView_eq (M : List Key) (hM : M.Nodup) :
    ∀ (es : List (Name × Got)) (g : Key → List (Attr × Val)), noRaise es → hashOk M es →
      scanView M es (M.map fun k => (k, g k)) = .ok (M.map fun k => (k, rowFold k es (g k))) := by
  intro es
  induction es with
  | nil => intro g _ _; simp [scanView, rowFold]
  | cons e r ih =>
    intro g hnr hho
    obtain ⟨n, got⟩ := e
    have hr : noRaise r := fun e he => hnr e (List.mem_cons_of_mem _ he)
    have hh : hashOk M r := fun e he => hho e (List.mem_cons_of_mem _ he)
    simp only [scanView]
    by_cases hs : skipName n = true
    · simp only [hs, ↓reduceIte, ih g hr hh]
      congr 1
      apply List.map_congr_left
      intro k _
      simp [rowFold, contrib, hs]
    · have hs' : skipName n = false := by simpa using hs
      simp only [hs', Bool.false_eq_true, ↓reduceIte]
      cases got with
      | raises x => exact absurd rfl (hnr (n, .raises x) (List.mem_cons_self ..) hs' x)
      | value a dict =>
        have hkey : (!a.hashable && M.any fun k => (dictGet k dict).isSome) = false := by
          cases hany : M.any fun k => (dictGet k dict).isSome with
          | false => simp
          | true =>
            rcases List.any_eq_true.mp hany with ⟨k, hk, hkd⟩
            have := hho (n, .value a dict) (List.mem_cons_self ..) hs' a dict rfl ⟨k, hk, hkd⟩
            simp [this]
        simp only [scanValueIsGetattrOfAttribute, scanKeyIsAttribute, Bool.not_true, Bool.false_eq_true, ↓reduceIte, hkey,
          scanMembers_map a dict M hM M g hM (fun k hk => hk)]
        rw [ih _ hr hh]
        congr 1
        apply List.map_congr_left
        intro k hk
        simp only [hk, ↓reduceIte, rowFold, List.foldl_cons, contrib, hs', Bool.false_eq_true]
        cases dictGet k dict <;> rfl

theorem rowFold_eq : ∀ (k : Key) (es : List (Name × Got)) (acc : List (Attr × Val)),
    ((acc ++ rowOf k es).map Prod.fst).Nodup → rowFold k es acc = acc ++ rowOf k es := by
  intro k es
  induction es with
  | nil => intro acc _; simp [rowFold, rowOf]
  | cons e r ih =>
    intro acc h
    simp only [rowFold, List.foldl_cons, rowOf, List.filterMap_cons]
    cases hc : contrib k e with
    | none => simpa [rowFold, rowOf, hc] using ih acc (by simpa [rowOf, hc] using h)
    | some av =>
      have hx : av.1 ∉ acc.map Prod.fst := by
        intro hm
        simp only [rowOf, List.filterMap_cons, hc, List.map_append, List.map_cons] at h
        exact (List.nodup_append.mp h).2.2 av.1 hm av.1 (List.mem_cons_self ..) rfl
      simp only [dictInsert_fresh _ _ _ hx]
      have := ih (acc ++ [(av.1, av.2)]) (by simpa [rowOf, hc] using h)
      simpa [rowFold, rowOf] using this

/-! ## `dir(self)` / `getattr(self, name)` against the declarations -/

theorem mem_dedup : ∀ (l : List Name) (x : Name), x ∈ dedup l ↔ x ∈ l := by
  intro l
  induction l with
  | nil => intro x; simp [dedup]
  | cons y r ih =>
    intro x
    simp only [dedup, List.mem_cons, List.mem_filter, ih, decide_eq_true_eq]
    constructor
    · rintro (h | ⟨h, _⟩)
      · exact Or.inl h
      · exact Or.inr h
    · intro h
      by_cases hx : x = y
      · exact Or.inl hx
      · rcases h with h | h
        · exact Or.inl h
        · exact Or.inr ⟨h, hx⟩

theorem nodup_dedup : ∀ (l : List Name), (dedup l).Nodup := by
  intro l
  induction l with
  | nil => simp [dedup]
  | cons y r ih =>
    simp only [dedup]
    refine List.nodup_cons.mpr ⟨?_, List.Nodup.sublist List.filter_sublist ih⟩
    simp [List.mem_filter]

theorem find_of_mem_nodup (n : Name) (m : MemberDef) : ∀ (l : List (Name × MemberDef)), (l.map (·.1)).Nodup →
    (n, m) ∈ l → l.find? (fun p => p.1 = n) = some (n, m) := by
  intro l
  induction l with
  | nil => intro _ h; simp at h
  | cons y r ih =>
    intro hnd hm
    simp only [List.map_cons] at hnd
    rcases List.mem_cons.mp hm with h | h
    · subst h; simp
    · have hne : y.1 ≠ n := by
        intro e
        apply (List.nodup_cons.mp hnd).1
        rw [e]
        exact List.mem_map.mpr ⟨(n, m), h, rfl⟩
      simp only [List.find?_cons, hne, decide_false]
      exact ih (List.nodup_cons.mp hnd).2 h

theorem definesName_false {t : Table} {n : Name} {c : Nat} :
    definesName t n c = false ↔ (nsOf t c).find? (fun p => p.1 = n) = none := by
  simp [definesName, List.find?_eq_none]

theorem resolve_some {t : Table} {mro : List Nat} {n : Name} {c : Nat} {m : MemberDef}
    (h : resolve t mro n = some (c, m)) :
    ∃ p1 post, mro = p1 ++ c :: post ∧ (∀ c' ∈ p1, definesName t n c' = false) ∧ (n, m) ∈ nsOf t c := by
  rcases List.findSome?_eq_some_iff.mp h with ⟨l1, a, l2, hm, hf, hpre⟩
  cases hfind : (nsOf t a).find? (fun p => p.1 = n) with
  | none => simp [hfind] at hf
  | some p =>
    simp only [hfind, Option.map_some, Option.some.injEq, Prod.mk.injEq] at hf
    obtain ⟨rfl, rfl⟩ := hf
    have hp1 : p.1 = n := by simpa using List.find?_some hfind
    refine ⟨l1, l2, hm, ?_, ?_⟩
    · intro c' hc'
      have := hpre c' hc'
      apply definesName_false.mpr
      cases hq : (nsOf t c').find? (fun p => p.1 = n) with
      | none => rfl
      | some q => simp [hq] at this
    · have := List.mem_of_find?_eq_some hfind
      rw [← hp1]; exact this

theorem resolve_of {t : Table} {mro : List Nat} {n : Name} {c : Nat} {m : MemberDef} {p1 post : List Nat}
    (hm : mro = p1 ++ c :: post) (hpre : ∀ c' ∈ p1, definesName t n c' = false) (hmem : (n, m) ∈ nsOf t c)
    (hnd : ((nsOf t c).map (·.1)).Nodup) : resolve t mro n = some (c, m) := by
  apply List.findSome?_eq_some_iff.mpr
  refine ⟨p1, c, post, hm, ?_, ?_⟩
  · simp [find_of_mem_nodup n m _ hnd hmem]
  · intro c' hc'
    simp [definesName_false.mp (hpre c' hc')]

theorem mem_dirNames_of_resolve {t : Table} {mro : List Nat} {n : Name} {c : Nat} {m : MemberDef} (inst : InstNs)
    (h : resolve t mro n = some (c, m)) : n ∈ dirNames t mro inst := by
  rcases resolve_some h with ⟨p1, post, hm, _, hmem⟩
  apply (mem_dedup _ _).mpr
  apply List.mem_append_right
  apply List.mem_flatMap.mpr
  exact ⟨c, by simp [hm], List.mem_map.mpr ⟨(n, m), hmem, rfl⟩⟩

/-- what the scan sees behind the name `n` of the instance -/
def seenSelf (t : Table) (mro : List Nat) (x : TArg) (ia : Intr) (inst : InstNs) (n : Name) : Option Got :=
  (rawSelf t mro inst n).bind (seen n x ia)

theorem mem_view {t : Table} {mro : List Nat} {x : TArg} {ia : Intr} {inst : InstNs} {e : Name × Got} :
    e ∈ view t mro x ia inst ↔ e.1 ∈ dirNames t mro inst ∧ seenSelf t mro x ia inst e.1 = some e.2 := by
  obtain ⟨n, g⟩ := e
  simp only [view, List.mem_filterMap, seenSelf]
  constructor
  · rintro ⟨n', hn', h⟩
    cases hs : (rawSelf t mro inst n').bind (seen n' x ia) with
    | none => simp [hs] at h
    | some g' =>
      simp only [hs, Option.map_some, Option.some.injEq, Prod.mk.injEq] at h
      obtain ⟨rfl, rfl⟩ := h
      exact ⟨hn', hs⟩
  · rintro ⟨hn, hs⟩
    exact ⟨n, hn, by simp [hs]⟩

theorem mem_rowOf_view {t : Table} {mro : List Nat} {x : TArg} {ia : Intr} {inst : InstNs} {k : Key} {a : Attr} {v : Val} :
    (a, v) ∈ rowOf k (view t mro x ia inst) ↔
      ∃ n dict, n ∈ dirNames t mro inst ∧ skipName n = false ∧
        seenSelf t mro x ia inst n = some (.value a dict) ∧ dictGet k dict = some v := by
  simp only [rowOf, List.mem_filterMap]
  constructor
  · rintro ⟨e, he, hc⟩
    obtain ⟨n, g⟩ := e
    rcases mem_view.mp he with ⟨hnd, hr⟩
    cases g with
    | raises e => simp [contrib] at hc
    | value a' dict =>
      by_cases hs : skipName n = true
      · simp [contrib, hs] at hc
      · cases hd : dictGet k dict with
        | none => simp [contrib, hs, hd] at hc
        | some v' =>
          simp only [contrib, hs, hd, Bool.false_eq_true, ↓reduceIte, Option.map_some, Option.some.injEq, Prod.mk.injEq] at hc
          obtain ⟨rfl, rfl⟩ := hc
          exact ⟨n, dict, hnd, by simpa using hs, hr, hd⟩
  · rintro ⟨n, dict, hnd, hs, hg, hd⟩
    refine ⟨(n, .value a dict), mem_view.mpr ⟨hnd, hg⟩, ?_⟩
    simp [contrib, hs, hd]

/-! ### the spec, unfolded -/

theorem mem_decoratedIn {t : Table} {k : Key} {pre : List Nat} {c0 c : Nat} {n : Name} {v : Val} :
    ((c, n), v) ∈ decoratedIn t k pre c0 ↔
      c = c0 ∧ ∃ kind apps, (n, MemberDef.func kind apps) ∈ nsOf t c0 ∧ (∀ c' ∈ pre, definesName t n c' = false) ∧
        outermost k apps = some v := by
  simp only [decoratedIn, List.mem_filterMap]
  constructor
  · rintro ⟨p, hp, hf⟩
    obtain ⟨n', m⟩ := p
    cases m with
    | func kind apps =>
      simp only at hf
      split at hf
      · simp at hf
      · rename_i hpre
        cases ho : outermost k apps with
        | none => simp [ho] at hf
        | some v' =>
          simp only [ho, Option.map_some, Option.some.injEq, Prod.mk.injEq] at hf
          obtain ⟨⟨rfl, rfl⟩, rfl⟩ := hf
          refine ⟨rfl, kind, apps, hp, ?_, ho⟩
          intro c' hc'
          have : ¬ (pre.any (definesName t n') = true) := hpre
          simp only [List.any_eq_true, not_exists, not_and, Bool.not_eq_true] at this
          exact this c' hc'
    | other o at' => simp at hf
    | raising e => simp at hf
    | typeVarProp => simp at hf
    | typeVarsProp => simp at hf
    | classNameProp => simp at hf
  · rintro ⟨rfl, kind, apps, hmem, hpre, ho⟩
    refine ⟨(n, .func kind apps), hmem, ?_⟩
    have : ¬ (pre.any (definesName t n) = true) := by
      simp only [List.any_eq_true, not_exists, not_and, Bool.not_eq_true]
      exact hpre
    simp [this, ho]

theorem mem_decoratedAlong {t : Table} {k : Key} : ∀ (mro pre : List Nat) (c : Nat) (n : Name) (v : Val),
    ((c, n), v) ∈ decoratedAlong t k pre mro ↔
      ∃ p1 post kind apps, mro = p1 ++ c :: post ∧ (n, MemberDef.func kind apps) ∈ nsOf t c ∧
        (∀ c' ∈ pre ++ p1, definesName t n c' = false) ∧ outermost k apps = some v := by
  intro mro
  induction mro with
  | nil => intro pre c n v; simp [decoratedAlong]
  | cons c0 rest ih =>
    intro pre c n v
    simp only [decoratedAlong, List.mem_append, mem_decoratedIn, ih]
    constructor
    · rintro (⟨rfl, kind, apps, hmem, hpre, ho⟩ | ⟨p1, post, kind, apps, hm, hmem, hpre, ho⟩)
      · exact ⟨[], rest, kind, apps, rfl, hmem, by simpa using hpre, ho⟩
      · refine ⟨c0 :: p1, post, kind, apps, by simp [hm], hmem, ?_, ho⟩
        intro c' hc'
        apply hpre
        rcases hc' with h | h
        · exact Or.inl (Or.inl h)
        · rcases List.mem_cons.mp h with h | h
          · exact Or.inl (Or.inr (by simp [h]))
          · exact Or.inr h
    · rintro ⟨p1, post, kind, apps, hm, hmem, hpre, ho⟩
      cases p1 with
      | nil =>
        simp only [List.nil_append, List.cons.injEq] at hm
        obtain ⟨rfl, rfl⟩ := hm
        exact Or.inl ⟨rfl, kind, apps, hmem, by simpa using hpre, ho⟩
      | cons y p1' =>
        simp only [List.cons_append, List.cons.injEq] at hm
        obtain ⟨rfl, rfl⟩ := hm
        refine Or.inr ⟨p1', post, kind, apps, rfl, hmem, ?_, ho⟩
        intro c' hc'
        apply hpre
        rcases hc' with (h | h) | h
        · exact Or.inl h
        · exact Or.inr (by simp at h; simp [h])
        · exact Or.inr (List.mem_cons_of_mem _ h)

/-! ### what the scan sees (the generated facts of the current source) -/

theorem dictGet_some_mem {κ ν : Type} [DecidableEq κ] (k : κ) (v : ν) :
    ∀ (d : List (κ × ν)), dictGet k d = some v → (k, v) ∈ d := by
  intro d
  induction d with
  | nil => intro h; simp [dictGet] at h
  | cons x r ih =>
    obtain ⟨k0, v0⟩ := x
    intro h
    simp only [dictGet] at h
    split at h
    · rename_i e; subst e; injection h with h; subst h; exact List.mem_cons_self ..
    · exact List.mem_cons_of_mem _ (ih h)

theorem outermost_some_mem (k : Key) : ∀ (apps : List App) (v : Val), outermost k apps = some v → ∃ a ∈ apps, a.ty = k := by
  intro apps
  induction apps with
  | nil => intro v h; simp [outermost] at h
  | cons a r ih =>
    intro v h
    simp only [outermost] at h
    cases ho : outermost k r with
    | some v' =>
      rcases ih v' ho with ⟨b, hb, hbk⟩
      exact ⟨b, List.mem_cons_of_mem _ hb, hbk⟩
    | none =>
      simp only [ho] at h
      split at h
      · rename_i e; exact ⟨a, List.mem_cons_self .., e⟩
      · simp at h

theorem guard_unpack {t : Table} {mro : List Nat} {members : List Key} {ia : Intr} {inst : InstNs}
    (hg : decoGuard t mro members ia inst = true) :
    members.Nodup ∧ (∀ c ∈ mro, ((nsOf t c).map (·.1)).Nodup ∧
      ∀ p ∈ nsOf t c, memberOk members ia p.1 p.2 = true) ∧
    (inst.map (·.1)).Nodup := by
  simp only [decoGuard, Bool.and_eq_true, decide_eq_true_eq, List.all_eq_true] at hg
  exact ⟨hg.1.1, fun c hc => ⟨(hg.1.2 c hc).1, (hg.1.2 c hc).2⟩, hg.2⟩

theorem keyFree_absent {members : List Key} {attrs : List (Key × Val)} {k : Key} (hk : k ∈ members)
    (hf : keyFree members attrs = true) : dictGet k attrs = none := by
  cases hd : dictGet k attrs with
  | none => rfl
  | some v =>
    have hm := dictGet_some_mem k v attrs hd
    have := (List.all_eq_true.mp hf) (k, v) hm
    simp [hk] at this

/-- a filter that decides by the key alone and keeps the key `k` does not change what is found under `k` -/
theorem dictGet_filter_key {κ ν : Type} [DecidableEq κ] (k : κ) (p : κ → Bool) (hp : p k = true) : ∀ (d : List (κ × ν)),
    dictGet k (d.filter fun kv => p kv.1) = dictGet k d := by
  intro d
  induction d with
  | nil => rfl
  | cons x r ih =>
    obtain ⟨k0, v0⟩ := x
    by_cases hk : k0 = k
    · subst hk; simp [List.filter, hp, dictGet]
    · cases hp0 : p k0 with
      | true => simp [List.filter, hp0, dictGet, hk, ih]
      | false => simp [List.filter, hp0, dictGet, hk, ih]

/-- a filter that decides by the key alone and drops the key `k` leaves nothing under `k` -/
theorem dictGet_filter_dropped {κ ν : Type} [DecidableEq κ] (k : κ) (p : κ → Bool) (hp : p k = false) : ∀ (d : List (κ × ν)),
    dictGet k (d.filter fun kv => p kv.1) = none := by
  intro d
  induction d with
  | nil => rfl
  | cons x r ih =>
    obtain ⟨k0, v0⟩ := x
    by_cases hk : k0 = k
    · subst hk; simp [List.filter, hp, ih]
    · cases hp0 : p k0 with
      | true => simp [List.filter, hp0, dictGet, hk, ih]
      | false => simp [List.filter, hp0, ih]

/-- the marks of a function, under a name that functions do not define by themselves: what `create_decorator` wrote -/
theorem marksOf_get {ia : Intr} {k : Key} (hfree : dictGet k ia.fn = none) (dict : List (Key × Val)) :
    dictGet k (marksOf ia dict) = dictGet k dict := by
  simp only [marksOf, scanReadsMarksFromFunctionDict, ↓reduceIte]
  exact dictGet_filter_key k (fun k' => (dictGet k' ia.fn).isNone) (by simp [hfree]) dict

theorem unwrapped_all (k : FKind) : unwrapped k = true := by cases k <;> decide

/-- **only functions defined in a class are looked at**: whatever stands behind a name, the scan goes on only with a plain, static or
    class method of a class, and sees the method as the instance sees it with the marks of its function — never a property (raising
    or not), never another object, never an entry of the instance `__dict__` -/
theorem seen_some {n : Name} {x : TArg} {ia : Intr} {r : Raw} {g : Got} (h : seen n x ia r = some g) :
    ∃ c kind apps, r = .cls c (.func kind apps) ∧
      g = .value (methodAttr kind c n (applyApps apps).gen) (marksOf ia (applyApps apps).dict) := by
  simp only [seen, scanLooksAtRawAttribute, Bool.not_true, Bool.false_eq_true, ↓reduceIte] at h
  split at h
  · rename_i c kind apps
    simp only [unwrapped_all, ↓reduceIte, Option.some.injEq] at h
    exact ⟨c, kind, apps, rfl, by rw [← h]; rfl⟩
  · simp [scanRequiresMethodOfInstance] at h
  · simp at h

theorem seen_func (n : Name) (x : TArg) (ia : Intr) (c : Nat) (kind : FKind) (apps : List App) :
    seen n x ia (.cls c (.func kind apps)) =
      some (.value (methodAttr kind c n (applyApps apps).gen) (marksOf ia (applyApps apps).dict)) := by
  simp [seen, scanLooksAtRawAttribute, unwrapped_all, getattrMember]

/-- … and behind the name stands the class attribute the MRO resolves it to, not shadowed by the instance `__dict__` -/
theorem seenSelf_some {t : Table} {mro : List Nat} {x : TArg} {ia : Intr} {inst : InstNs} {n : Name} {g : Got}
    (h : seenSelf t mro x ia inst n = some g) :
    ∃ c kind apps, resolve t mro n = some (c, .func kind apps) ∧ n ∉ inst.map (·.1) ∧
      g = .value (methodAttr kind c n (applyApps apps).gen) (marksOf ia (applyApps apps).dict) := by
  simp only [seenSelf] at h
  cases hr : rawSelf t mro inst n with
  | none => simp [hr] at h
  | some r =>
    simp only [hr, Option.bind_some] at h
    rcases seen_some h with ⟨c, kind, apps, rfl, hg⟩
    simp only [rawSelf] at hr
    split at hr
    · rename_i cm p hres hf
      simp only [Option.some.injEq] at hr
      split at hr
      · rename_i hdd
        injection hr with h1 h2
        rw [h2] at hdd
        simp [MemberDef.isDataDescr] at hdd
      · simp at hr
    · rename_i cm hres hf
      simp only [Option.some.injEq, Raw.cls.injEq] at hr
      obtain ⟨cm1, cm2⟩ := cm
      simp only at hr
      obtain ⟨h1, h2⟩ := hr
      rw [h1, h2] at hres
      refine ⟨c, kind, apps, hres, ?_, hg⟩
      intro hmem'
      rcases List.mem_map.mp hmem' with ⟨p, hp, hpn⟩
      have := List.find?_eq_none.mp hf p hp
      simp [hpn] at this
    · simp at hr
    · simp at hr

theorem find_inst_none {inst : InstNs} {n : Name} (h : n ∉ inst.map (·.1)) : inst.find? (fun p => p.1 = n) = none := by
  apply List.find?_eq_none.mpr
  intro p hp hpn
  exact h (List.mem_map.mpr ⟨p, hp, by simpa using hpn⟩)

theorem seenSelf_of_resolve {t : Table} {mro : List Nat} {x : TArg} {ia : Intr} {inst : InstNs} {n : Name} {c : Nat}
    {kind : FKind} {apps : List App} (hr : resolve t mro n = some (c, .func kind apps)) (hsh : n ∉ inst.map (·.1)) :
    seenSelf t mro x ia inst n =
      some (.value (methodAttr kind c n (applyApps apps).gen) (marksOf ia (applyApps apps).dict)) := by
  simp only [seenSelf, rawSelf, hr, find_inst_none hsh, Option.bind_some, seen_func]

theorem methodAttr_name {k1 k2 : FKind} {c1 c2 : Nat} {n1 n2 : Name} {g1 g2 : Nat}
    (h : methodAttr k1 c1 n1 g1 = methodAttr k2 c2 n2 g2) : k1 = k2 ∧ c1 = c2 ∧ n1 = n2 := by
  cases k1 <;> cases k2 <;> simp [methodAttr] at h <;> exact ⟨rfl, h.1, h.2.1⟩

theorem methodAttr_hashable (k : FKind) (c : Nat) (n : Name) (g : Nat) : (methodAttr k c n g).hashable = true := by
  cases k <;> rfl

theorem filterMap_fst_sublist (f : Name → Option (Name × Got)) (hf : ∀ n e, f n = some e → e.1 = n) :
    ∀ (l : List Name), ((l.filterMap f).map Prod.fst).Sublist l := by
  intro l
  induction l with
  | nil => simp
  | cons y r ih =>
    simp only [List.filterMap_cons]
    cases hy : f y with
    | none => exact List.Sublist.cons _ ih
    | some e =>
      simp only [List.map_cons, hf y e hy]
      exact List.Sublist.cons_cons _ ih

theorem view_names_nodup (t : Table) (mro : List Nat) (x : TArg) (ia : Intr) (inst : InstNs) :
    ((view t mro x ia inst).map Prod.fst).Nodup := by
  apply List.Nodup.sublist (filterMap_fst_sublist _ _ _) (nodup_dedup _)
  intro n e he
  cases hr : (rawSelf t mro inst n).bind (seen n x ia) with
  | none => simp [hr] at he
  | some g => simp [hr] at he; rw [← he]

theorem rowKeys_nodup (k : Key) : ∀ (es : List (Name × Got)), (es.map Prod.fst).Nodup →
    (∀ e ∈ es, ∀ a v, contrib k e = some (a, v) → ∃ kind c g, a = methodAttr kind c e.1 g) →
    ((rowOf k es).map Prod.fst).Nodup := by
  intro es
  induction es with
  | nil => intro _ _; simp [rowOf]
  | cons e r ih =>
    intro hnd hb
    have hr := ih (List.nodup_cons.mp (by simpa using hnd)).2 (fun e' he' => hb e' (List.mem_cons_of_mem _ he'))
    simp only [rowOf, List.filterMap_cons]
    cases hc : contrib k e with
    | none => simpa [rowOf] using hr
    | some av =>
      obtain ⟨a, v⟩ := av
      simp only [List.map_cons]
      refine List.nodup_cons.mpr ⟨?_, by simpa [rowOf] using hr⟩
      intro hm
      rcases List.mem_map.mp hm with ⟨⟨a', v'⟩, hav, rfl⟩
      rcases List.mem_filterMap.mp hav with ⟨e', he', hc'⟩
      rcases hb e (List.mem_cons_self ..) a' v hc with ⟨k1, c1, g1, h1⟩
      rcases hb e' (List.mem_cons_of_mem _ he') a' v' hc' with ⟨k2, c2, g2, h2⟩
      rw [h1] at h2
      have hn := (methodAttr_name h2).2.2
      have : e.1 ∉ r.map Prod.fst := (List.nodup_cons.mp (by simpa using hnd)).1
      exact this (List.mem_map.mpr ⟨e', he', hn.symm⟩)

theorem mem_visibleDecorated {t : Table} {k : Key} {mro : List Nat} {shadow : List Name} {c : Nat} {n : Name} {v : Val} :
    ((c, n), v) ∈ visibleDecorated t k mro shadow ↔ ((c, n), v) ∈ decoratedAlong t k [] mro ∧ n ∉ shadow := by
  simp [visibleDecorated, List.mem_filter]

theorem skipName_false (n : Name) : skipName n = false := by simp [skipName, skipPrefixUnderscores]

/-- **no property is evaluated, nothing the scan meets raises** — whatever the program -/
theorem fixed_no_property_is_evaluated (t : Table) (mro : List Nat) (x : TArg) (ia : Intr) (inst : InstNs) :
    noRaise (view t mro x ia inst) := by
  intro e he _ xx hx
  rcases seenSelf_some (mem_view.mp he).2 with ⟨c, kind, apps, _, _, hg⟩
  rw [hx] at hg
  simp at hg

/-! ## property theorems: WithDecoratedMethods -/

/-- **get_decorated_functions returns, for every member of the enum, exactly the methods that were decorated through
    create_decorator, with the decorator argument** — for every class table, every MRO (any depth of inheritance, extra bases),
    every enum, every assignment of stacked applications with attribute-preserving transformations to plain, static and class
    methods with any names (dunder names included), whatever else lives in the classes (properties — raising or not —, objects that
    carry attributes named like enum values, enum values that are attribute names of `str` / `dict` / the enum class) and in the
    instance `__dict__`, inside `decoGuard`.  The scan succeeds; the result has one entry per member, in member order; every
    reported object is a method of a class of the MRO as the instance sees it (`methodAttr`: bound to the instance, bound to the
    class for a class method, the function for a static method) and of the kind it was declared with; a method (class, name) is
    reported with value `v` iff the spec lists it with `v` (nothing missing, nothing extra, `v` = argument of the outermost
    application of that member; a name the instance `__dict__` defines itself is no method of the instance); no method is
    reported twice. -/
theorem decorated_scan_exact (t : Table) (mro : List Nat) (x : TArg) (members : List Key) (ia : Intr) (inst : InstNs)
    (hg : decoGuard t mro members ia inst = true) :
    ∃ rows : Key → List (Attr × Val),
      scanView members (view t mro x ia inst) (initDict members) = .ok (members.map fun k => (k, rows k)) ∧
      ∀ k ∈ members,
        (∀ a v, (a, v) ∈ rows k → ∃ kind c n g apps, a = methodAttr kind c n g ∧ c ∈ mro ∧ (n, .func kind apps) ∈ nsOf t c) ∧
        (∀ c n v, (∃ kind g, (methodAttr kind c n g, v) ∈ rows k) ↔ ((c, n), v) ∈ visibleDecorated t k mro (inst.map (·.1))) ∧
        ((rows k).map Prod.fst).Nodup := by
  rcases guard_unpack hg with ⟨hM, hcls, _⟩
  -- every contribution to a member's row comes from a method of a class, found under its name, not shadowed by the instance
  have hmeth : ∀ k ∈ members, ∀ n a dict v, seenSelf t mro x ia inst n = some (.value a dict) → dictGet k dict = some v →
      ∃ c kind apps, resolve t mro n = some (c, .func kind apps) ∧ n ∉ inst.map (·.1) ∧
        a = methodAttr kind c n (applyApps apps).gen ∧ outermost k apps = some v := by
    intro k hk n a dict v hs hd
    rcases seenSelf_some hs with ⟨c, kind, apps, hr, hsh, hg'⟩
    simp only [Got.value.injEq] at hg'
    obtain ⟨rfl, rfl⟩ := hg'
    rcases resolve_some hr with ⟨p1, post, hm, _, hmem⟩
    have hok := (hcls c (by simp [hm])).2 (n, .func kind apps) hmem
    simp only [memberOk, Bool.and_eq_true, List.all_eq_true] at hok
    rw [marksOf_get (keyFree_absent hk hok.2)] at hd
    rw [applyApps_dict k apps (fun a ha => by simpa using hok.1 a ha)] at hd
    exact ⟨c, kind, apps, hr, hsh, rfl, hd⟩
  have hraise := fixed_no_property_is_evaluated t mro x ia inst
  have hbound : ∀ k ∈ members, ∀ e ∈ view t mro x ia inst, ∀ a v, contrib k e = some (a, v) →
      ∃ kind c g, a = methodAttr kind c e.1 g := by
    intro k hk e he a v hc
    obtain ⟨n, g⟩ := e
    have hga := (mem_view.mp he).2
    cases g with
    | raises xx => simp [contrib] at hc
    | value a' dict =>
      cases hd : dictGet k dict with
      | none => simp [contrib, skipName_false, hd] at hc
      | some v' =>
        simp only [contrib, skipName_false, hd, Bool.false_eq_true, ↓reduceIte, Option.map_some, Option.some.injEq,
          Prod.mk.injEq] at hc
        obtain ⟨rfl, rfl⟩ := hc
        rcases hmeth k hk n a' dict v' hga hd with ⟨c, kind, apps, _, _, ha, _⟩
        exact ⟨kind, c, _, ha⟩
  have hhash : hashOk members (view t mro x ia inst) := by
    intro e he _ a dict heq _
    have hga := (mem_view.mp he).2
    rw [heq] at hga
    rcases seenSelf_some hga with ⟨c, kind, apps, _, _, hg'⟩
    simp only [Got.value.injEq] at hg'
    rw [hg'.1]; exact methodAttr_hashable ..
  have hnd : ∀ k ∈ members, ((rowOf k (view t mro x ia inst)).map Prod.fst).Nodup :=
    fun k hk => rowKeys_nodup k _ (view_names_nodup t mro x ia inst) (hbound k hk)
  refine ⟨fun k => rowOf k (view t mro x ia inst), ?_, ?_⟩
  · have := scanView_eq members hM (view t mro x ia inst) (fun _ => []) hraise hhash
    simp only [initDict, initAllMembers, ↓reduceIte]
    rw [this]
    congr 1
    apply List.map_congr_left
    intro k hk
    rw [rowFold_eq k _ [] (by simpa using hnd k hk)]
    simp
  · intro k hk
    refine ⟨?_, ?_, hnd k hk⟩
    · intro a v hav
      rcases mem_rowOf_view.mp hav with ⟨n, dict, _, _, hga, hd⟩
      rcases hmeth k hk n a dict v hga hd with ⟨c, kind, apps, hr, _, ha, _⟩
      rcases resolve_some hr with ⟨p1, post, hm, _, hmem⟩
      exact ⟨kind, c, n, _, apps, ha, by simp [hm], hmem⟩
    · intro c n v
      rw [mem_visibleDecorated]
      constructor
      · rintro ⟨kind, g, hav⟩
        rcases mem_rowOf_view.mp hav with ⟨n', dict, _, _, hga, hd⟩
        rcases hmeth k hk n' _ dict v hga hd with ⟨c', kind', apps, hr, hsh, ha, ho⟩
        rcases methodAttr_name ha with ⟨_, hc, hn⟩
        subst hc; subst hn
        rcases resolve_some hr with ⟨p1, post, hm, hpre, hmem⟩
        exact ⟨(mem_decoratedAlong mro [] c n v).mpr ⟨p1, post, kind', apps, hm, hmem, by simpa using hpre, ho⟩, hsh⟩
      · rintro ⟨hspec, hsh⟩
        rcases (mem_decoratedAlong mro [] c n v).mp hspec with ⟨p1, post, kind, apps, hm, hmem, hpre, ho⟩
        have hc : c ∈ mro := by simp [hm]
        have hr := resolve_of hm (by simpa using hpre) hmem (hcls c hc).1
        have hok := (hcls c hc).2 (n, .func kind apps) hmem
        simp only [memberOk, Bool.and_eq_true, List.all_eq_true] at hok
        refine ⟨kind, (applyApps apps).gen, mem_rowOf_view.mpr ⟨n, _, mem_dirNames_of_resolve inst hr, skipName_false n,
          seenSelf_of_resolve hr hsh, ?_⟩⟩
        rw [marksOf_get (keyFree_absent hk hok.2), applyApps_dict k apps (fun a ha => by simpa using hok.1 a ha)]
        exact ho

/-- the same for `instance.get_decorated_functions()` end to end: an instance whose class binds the parameter of
    `WithDecoratedMethods` (or any supported shape with one type argument) to an enum -/
theorem decorated_exact {t : Table} (hwf : WF t) (d c : Nat) (orig : Option (List TArg)) (tk x : TArg)
    (enumOf : TArg → Option EnumDesc) (en : EnumDesc) (inst : InstNs)
    (hshape : expectedOutcome t d c orig = .ok [(tk, x)]) (hen : enumOf x = some en)
    (hg : decoGuard t (lin t d c) en.members en.intr inst = true) :
    ∃ rows : Key → List (Attr × Val),
      getDecorated t d c orig enumOf inst = .ok (en.members.map fun k => (k, rows k)) ∧
      ∀ k ∈ en.members,
        (∀ a v, (a, v) ∈ rows k → ∃ kind c' n g, a = methodAttr kind c' n g) ∧
        (∀ c' n v, (∃ kind g, (methodAttr kind c' n g, v) ∈ rows k) ↔
          ∃ row, (k, row) ∈ expectedDecorated t (lin t d c) en.members (inst.map (·.1)) ∧ ((c', n), v) ∈ row) ∧
        ((rows k).map Prod.fst).Nodup := by
  rcases decorated_scan_exact t (lin t d c) x en.members en.intr inst hg with ⟨rows, hscan, hrows⟩
  refine ⟨rows, ?_, ?_⟩
  · simp only [getDecorated, type_var_single hwf d c orig tk x hshape, hen, hscan]
  · intro k hk
    rcases hrows k hk with ⟨h1, h2, h3⟩
    refine ⟨fun a v hav => ?_, ?_, h3⟩
    · rcases h1 a v hav with ⟨kind, c', n, g, _, ha, _, _⟩
      exact ⟨kind, c', n, g, ha⟩
    intro c' n v
    rw [h2 c' n v]
    simp only [expectedDecorated, List.mem_map, Prod.mk.injEq]
    constructor
    · intro h; exact ⟨_, ⟨k, hk, rfl, rfl⟩, h⟩
    · rintro ⟨row, ⟨k', _, rfl, rfl⟩, h⟩; exact h

/-! ## the full statement, and why it needs the guard -/

/-- "exactly the decorated methods" without any restriction on transformations and enum values -/
def decorated_exact_full : Prop :=
  ∀ (t : Table) (mro : List Nat) (x : TArg) (members : List Key) (ia : Intr) (inst : InstNs),
    members.Nodup → (∀ c ∈ mro, ((nsOf t c).map (·.1)).Nodup) →
    ∃ rows : Key → List (Attr × Val),
      scanView members (view t mro x ia inst) (initDict members) = .ok (members.map fun k => (k, rows k)) ∧
      ∀ k ∈ members,
        (∀ c n v, (∃ kind g, (methodAttr kind c n g, v) ∈ rows k) ↔ ((c, n), v) ∈ visibleDecorated t k mro (inst.map (·.1)))

/-- one user class `class My(WithDecoratedMethods[D])` with the given namespace -/
def oneClass (ns : List (Name × MemberDef)) : Table := libTable ++ [⟨[.param 3 [.ty 50]], ns⟩]

/-- `decorated_exact_partial` is `decorated_scan_exact` above (guard `decoGuard`).  The code does violate the full statement: a
    transformation that returns a new function without the attributes loses the marks of the applications below it. -/
theorem decorated_exact_full_fails : ¬ decorated_exact_full := by
  intro h
  rcases h (oneClass [(⟨0, "m"⟩, .func .inst [⟨100, 1, .none⟩, ⟨101, 2, .fresh⟩])]) [4, 3, 2, 0, 1] (.ty 50) [100] {} []
    (by decide) (by decide) with ⟨rows, hscan, hrows⟩
  have hs : scanView [100] (view (oneClass [(⟨0, "m"⟩, .func .inst [⟨100, 1, .none⟩, ⟨101, 2, .fresh⟩])]) [4, 3, 2, 0, 1]
      (.ty 50) {} []) (initDict [100]) = .ok [(100, [])] := by decide
  rw [hs] at hscan
  simp only [List.map_cons, List.map_nil, Res.ok.injEq, List.cons.injEq, Prod.mk.injEq, true_and, and_true] at hscan
  rcases ((hrows 100 (by simp)) 4 ⟨0, "m"⟩ 1).mpr (by decide) with ⟨kind, g, hg⟩
  rw [← hscan] at hg
  simp at hg

/-! ### the two regions left outside the guard (finding ids of `known_findings.json`, named by `guardRegions`) -/

theorem memberOk_iff_no_region (members : List Key) (ia : Intr) (n : Name) (m : MemberDef) :
    memberOk members ia n m = true ↔ memberRegions members ia n m = [] := by
  cases m with
  | func kind apps => simp only [memberOk, memberRegions]; (repeat' split) <;> simp_all
  | other o attrs => simp [memberOk, memberRegions]
  | raising e => simp [memberOk, memberRegions]
  | typeVarProp => simp [memberOk, memberRegions]
  | typeVarsProp => simp [memberOk, memberRegions]
  | classNameProp => simp [memberOk, memberRegions]

/-- the guard holds iff the program lies in neither of the two named regions (names unique per namespace, members distinct) -/
theorem guard_iff_no_region (t : Table) (mro : List Nat) (members : List Key) (ia : Intr) (inst : InstNs)
    (hM : members.Nodup) (hns : ∀ c ∈ mro, ((nsOf t c).map (·.1)).Nodup) (hin : (inst.map (·.1)).Nodup) :
    decoGuard t mro members ia inst = true ↔ guardRegions t mro members ia = [] := by
  simp only [decoGuard, guardRegions, Bool.and_eq_true, decide_eq_true_eq, List.all_eq_true,
    List.flatMap_eq_nil_iff, memberOk_iff_no_region]
  constructor
  · rintro ⟨⟨_, h1⟩, _⟩
    exact fun c hc p hp => (h1 c hc).2 p hp
  · intro h1
    exact ⟨⟨hM, fun c hc => ⟨hns c hc, fun p hp => h1 c hc p hp⟩⟩, hin⟩

/-- **region `transformationDropsDecoratorAttribute`** — whatever stands below it: after an application whose transformation returns
    a new function without the attributes (`fresh`), the function object carries nothing, so the method is reported under no member
    although every application below it went through `create_decorator` -/
theorem fresh_transformation_drops_everything (ia : Intr) (apps : List App) (a : App) (h : a.tr = .fresh) (k : Key) :
    dictGet k (marksOf ia (applyApps (apps ++ [a])).dict) = none := by
  simp [applyApps, List.foldl_append, applyOne, h, marksOf, scanReadsMarksFromFunctionDict, dictGet]

/-- an attribute-dropping transformation loses the entries made by the applications below it -/
theorem fresh_transformation_loses_entry :
    scanView [100] (view (oneClass [(⟨0, "m"⟩, .func .inst [⟨100, 1, .none⟩, ⟨101, 2, .fresh⟩])]) [4, 3, 2, 0, 1] (.ty 50) {} [])
      (initDict [100]) = .ok [(100, [])] ∧
    ((4, ⟨0, "m"⟩), 1) ∈ visibleDecorated (oneClass [(⟨0, "m"⟩, .func .inst [⟨100, 1, .none⟩, ⟨101, 2, .fresh⟩])]) 100 [4, 3, 2, 0, 1] [] ∧
    guardRegions (oneClass [(⟨0, "m"⟩, .func .inst [⟨100, 1, .none⟩, ⟨101, 2, .fresh⟩])]) [4, 3, 2, 0, 1] [100] {}
      = ["transformationDropsDecoratorAttribute"] := by
  decide

/-- **region `enumValueNamesFunctionSlot`** — `class D(DecoratorType): DOC = '__doc__'`: a name that function objects define by
    themselves is a slot of the function, `create_decorator`'s `setattr` writes the slot and nothing shows up among the marks: whatever
    was applied, the method is reported under no such member -/
theorem function_slot_name_is_never_a_mark (ia : Intr) (k : Key) (v : Val) (h : dictGet k ia.fn = some v) (dict : List (Key × Val)) :
    dictGet k (marksOf ia dict) = none := by
  simp only [marksOf, scanReadsMarksFromFunctionDict, ↓reduceIte]
  exact dictGet_filter_dropped k (fun k' => (dictGet k' ia.fn).isNone) (by simp [h]) dict

theorem enum_value_naming_a_function_slot_loses_entry :
    scanView [100] (view (oneClass [(⟨0, "m"⟩, .func .inst [⟨100, 1, .none⟩])]) [4, 3, 2, 0, 1] (.ty 50) { fn := [(100, 3)] } [])
      (initDict [100]) = .ok [(100, [])] ∧
    ((4, ⟨0, "m"⟩), 1) ∈ visibleDecorated (oneClass [(⟨0, "m"⟩, .func .inst [⟨100, 1, .none⟩])]) 100 [4, 3, 2, 0, 1] [] ∧
    (guardRegions (oneClass [(⟨0, "m"⟩, .func .inst [⟨100, 1, .none⟩])]) [4, 3, 2, 0, 1] [100] { fn := [(100, 3)] }).eraseDups
      = ["enumValueNamesFunctionSlot"] := by
  decide

/-! ### what the repair of `get_decorated_functions` closed (former findings; the former failing inputs stay in the corpus)

Before the repair the scan asked `hasattr(getattr(self, name), <enum value>)` of every attribute whose name does not start with `__`.
Now it looks at the raw attribute, goes on only with functions (plain / static / class methods), reads the marks from the function's
`__dict__`, and reports what the instance sees as its method.  The statements below hold for the generated facts of the repaired
source; with the facts of the old source (the translator reads both shapes) every one of them fails. -/

/-- **fixed `enumValueCollidesWithAttributeName`**: whatever the enum class, the str that `class_name` returns and the dict that
    `type_vars` returns answer to by themselves (`upper`, `get`, `keys`, member names, …) is irrelevant: the guard does not mention
    `ia.cls` / `ia.str` / `ia.dict`, and the scan gives the same answer for all of them -/
theorem fixed_enum_values_may_name_attributes_of_str_dict_enum (t : Table) (mro : List Nat) (x : TArg) (members : List Key)
    (fn cls cls' str str' dict dict' : List (Key × Val)) (inst : InstNs) :
    view t mro x { cls := cls, str := str, dict := dict, fn := fn } inst =
      view t mro x { cls := cls', str := str', dict := dict', fn := fn } inst ∧
    decoGuard t mro members { cls := cls, str := str, dict := dict, fn := fn } inst =
      decoGuard t mro members { cls := cls', str := str', dict := dict', fn := fn } inst := by
  refine ⟨?_, by simp [decoGuard, memberOk]⟩
  simp only [view]
  congr 1

/-- `UP = 'upper'`: exactly the decorated method, neither the class name nor the enum class -/
theorem fixed_enum_value_upper :
    scanView [100] (view (oneClass [(⟨0, "m"⟩, .func .inst [⟨100, 1, .none⟩])]) [4, 3, 2, 0, 1] (.ty 50)
        { cls := [(100, 9999)], str := [(100, 9999)] } []) (initDict [100])
      = .ok [(100, [(.bound 4 ⟨0, "m"⟩ 0, 1)])] ∧
    decoGuard (oneClass [(⟨0, "m"⟩, .func .inst [⟨100, 1, .none⟩])]) [4, 3, 2, 0, 1] [100]
        { cls := [(100, 9999)], str := [(100, 9999)] } [] = true := by decide

/-- `GET = 'get'`: no TypeError from the dict that `type_vars` returns — it is never looked at -/
theorem fixed_enum_value_get :
    scanView [100] (view (oneClass [(⟨0, "m"⟩, .func .inst [⟨100, 1, .none⟩])]) [4, 3, 2, 0, 1] (.ty 50) { dict := [(100, 9999)] } [])
      (initDict [100]) = .ok [(100, [(.bound 4 ⟨0, "m"⟩ 0, 1)])] ∧
    decoGuard (oneClass [(⟨0, "m"⟩, .func .inst [⟨100, 1, .none⟩])]) [4, 3, 2, 0, 1] [100] { dict := [(100, 9999)] } [] = true := by
  decide

/-- **fixed `decoratedDunderMethodSkipped`**: no name is passed over -/
theorem fixed_no_name_is_skipped (n : Name) : skipName n = false := skipName_false n

theorem fixed_dunder_named_method_reported :
    scanView [100] (view (oneClass [(⟨2, "call__"⟩, .func .inst [⟨100, 1, .none⟩])]) [4, 3, 2, 0, 1] (.ty 50) {} []) (initDict [100])
      = .ok [(100, [(.bound 4 ⟨2, "call__"⟩ 0, 1)])] ∧
    decoGuard (oneClass [(⟨2, "call__"⟩, .func .inst [⟨100, 1, .none⟩])]) [4, 3, 2, 0, 1] [100] {} [] = true := by decide

/-- **fixed `decoratedStaticOrClassMethodReported`**: a decorated class method is reported as the method bound to the class, a decorated
    static method as the function — what `instance.name` is —, both are demanded by the spec and covered by `decorated_scan_exact` -/
theorem fixed_static_and_class_methods_are_methods :
    scanView [100] (view (oneClass [(⟨0, "s"⟩, .func .static [⟨100, 1, .none⟩]), (⟨0, "c"⟩, .func .cls [⟨100, 2, .none⟩])])
        [4, 3, 2, 0, 1] (.ty 50) {} []) (initDict [100])
      = .ok [(100, [(.plainFn 4 ⟨0, "s"⟩ 0, 1), (.clsBound 4 ⟨0, "c"⟩ 0, 2)])] ∧
    visibleDecorated (oneClass [(⟨0, "s"⟩, .func .static [⟨100, 1, .none⟩]), (⟨0, "c"⟩, .func .cls [⟨100, 2, .none⟩])]) 100
        [4, 3, 2, 0, 1] [] = [((4, ⟨0, "s"⟩), 1), ((4, ⟨0, "c"⟩), 2)] ∧
    decoGuard (oneClass [(⟨0, "s"⟩, .func .static [⟨100, 1, .none⟩]), (⟨0, "c"⟩, .func .cls [⟨100, 2, .none⟩])])
        [4, 3, 2, 0, 1] [100] {} [] = true := by decide

/-- **fixed `propertyEvaluatedByScan`**: a property that raises is not evaluated (`fixed_no_property_is_evaluated` for every program) -/
theorem fixed_raising_property_is_passed_over :
    scanView [100] (view (oneClass [(⟨0, "p"⟩, .raising "ValueError"), (⟨0, "m"⟩, .func .inst [⟨100, 1, .none⟩])])
        [4, 3, 2, 0, 1] (.ty 50) {} []) (initDict [100])
      = .ok [(100, [(.bound 4 ⟨0, "m"⟩ 0, 1)])] := by decide

/-- **fixed `foreignObjectWithDecoratorAttributeReported`**: whatever the instance `__dict__` and the class attributes hold — decorated
    functions, objects with attributes named like enum values — is not reported (`seen_some`: only functions defined in a class are
    looked at); a name the instance defines itself shadows the method -/
theorem fixed_instance_and_class_attributes_not_reported :
    scanView [100] (view (oneClass [(⟨0, "m"⟩, .func .inst [⟨100, 1, .none⟩]), (⟨0, "helper"⟩, .other 9 [(100, 5)]),
          (⟨0, "m2"⟩, .func .inst [⟨100, 3, .none⟩])]) [4, 3, 2, 0, 1] (.ty 50) {}
        [(⟨0, "cb"⟩, .fn 7 [⟨100, 2, .none⟩]), (⟨0, "m2"⟩, .obj 8 [(100, 4)])]) (initDict [100])
      = .ok [(100, [(.bound 4 ⟨0, "m"⟩ 0, 1)])] ∧
    decoGuard (oneClass [(⟨0, "m"⟩, .func .inst [⟨100, 1, .none⟩]), (⟨0, "helper"⟩, .other 9 [(100, 5)]),
          (⟨0, "m2"⟩, .func .inst [⟨100, 3, .none⟩])]) [4, 3, 2, 0, 1] [100] {}
        [(⟨0, "cb"⟩, .fn 7 [⟨100, 2, .none⟩]), (⟨0, "m2"⟩, .obj 8 [(100, 4)])] = true := by decide

/-! ## the facts taken from the source -/

/-- TRIPWIRES and premises.  `wdmBases` and the names of the library classes are premises: `libTable` is built from them.  The attribute
    names (`attrsRead`, `loopIterAttr`, `loopOriginAttr`, `loopArgsAttr`, `origClassArgsAttr`, `genericBaseArgsAttr`) are tripwires: the
    model reads `__orig_bases__` / `__origin__` / `__args__` / `__orig_class__` without branching on these names; a source that reads other
    attributes breaks this statement and asks for a look at the model (the correspondence run is what ties the model to such a source) -/
theorem mixins_source_shape :
    attrsRead = ["__args__", "__orig_bases__", "__orig_class__", "__origin__"] ∧
    loopIterAttr = "__orig_bases__" ∧ loopOriginAttr = "__origin__" ∧ loopArgsAttr = "__args__" ∧
    origClassArgsAttr = "__args__" ∧ genericBaseArgsAttr = "__args__" ∧
    wdmBases = ["ABC", "Generic[E]", "GenericMixin"] ∧
    (nsOf libTable 1).map (·.1) = [⟨0, "type_var"⟩, ⟨0, "type_vars"⟩, ⟨1, "get_types"⟩, ⟨0, "class_name"⟩] ∧
    (nsOf libTable 3).map (·.1) = [⟨0, "get_decorated_functions"⟩] := by decide

/-- the loop prefers the subscripted bases whose origin is a GenericMixin class (commit 2c5b09b), looks at all subscripted bases when
    there is none and passes over origins without `__orig_bases__` (commit 148d517) — `mixin_bases_win`, `no_mixin_base_all_subscripted`,
    `loop_foreign_select`, `kind_bound` fail without them (premises); and the helpers keep nothing between two queries (premise of
    `queries_leave_nothing_behind` through `leftBehind`): no decorator
    (`functools.lru_cache`, …) on `_get_types` and on `get_generic_base` — which receives the INSTANCE, so a cache there would be keyed by
    `__hash__` / `__eq__` of user objects — and only `property` on `type_var` / `type_vars` (module-level state is refused by the
    translator) -/
theorem helpers_keep_nothing :
    loopPrefersOriginsDerivedFrom = some "GenericMixin" ∧ loopFallsBackToAll = true ∧ loopSkipsOriginsWithoutOrigBases = true ∧
    getTypesDecorators = [] ∧ getGenericBaseDecorators = [] ∧
    typeVarDecorators = ["property"] ∧ typeVarsDecorators = ["property"] := by decide

/-- a configured decorator is a closure over its own argument: `value` is the parameter of the function `create_decorator` returns, `fun`
    is defined inside it, no captured name is assigned again, with_decorated_methods.py has no statement that writes into an object
    (`decorator.value = value`: one slot for all configured decorators of a factory) and no `global` / `nonlocal` — read from the source -/
theorem closures_keep_their_argument : closuresKeepTheirArgument = true := by decide

/-- **a configured decorator keeps its argument**: whatever factory calls are made afterwards (`later`: the same factory called again
    with other arguments, other factories), the k-th configured decorator applies what it was configured with — so a decorator that is
    stored (`get_index = route('/index')`) and applied after `route('/about')` was configured sets '/index' -/
theorem configured_decorator_keeps_its_argument (confs : Confs) (a : App) (later : List App) :
    configured (later.foldl configure (configure confs a)) confs.length = some a := by
  have h : ∀ (l : List App) (c : Confs), l.foldl configure c = c ++ l := by
    intro l
    induction l with
    | nil => intro c; simp
    | cons x r ih => intro c; simp [List.foldl_cons, ih, configure]
  simp [h, configured, configure, closures_keep_their_argument]

example : configured (([⟨100, 2, .none⟩, ⟨100, 3, .wraps⟩] : List App).foldl configure (configure [] ⟨100, 1, .none⟩)) 0 = some ⟨100, 1, .none⟩ := by
  decide

/-- (premises of `queries_leave_nothing_behind` / `closures_keep_their_argument`: `gmClassState`, `gmModuleState`, `gmAttributeStores`,
    `wdmAttributeStores`, `scopeEscapes`; TRIPWIRES, not consumed by the model: the dunder methods and class keywords of both classes, the
    class-level and module-level names of with_decorated_methods.py.)
    **the two mixins keep nothing and hook into nothing**: neither `GenericMixin` nor `WithDecoratedMethods` assigns a name at class level
    (no per-class cache such as `_generic_base`), defines a dunder method (`__init_subclass__`, `__class_getitem__`, `__new__`, `__init__`:
    hooks that another base earlier in the MRO can shadow, or cut off by not calling `super()`), or names a metaclass; the modules bind
    nothing at module level but the three TypeVars of with_decorated_methods.py; no statement stores into an attribute of a function or
    class (`decorator.value = value`: a slot shared by all configured decorators of one factory); no `global` / `nonlocal`.  So what
    `type_vars` answers is computed from `__orig_bases__` / `__orig_class__` at the time of the query, whatever other bases do while the
    class is created, and a configured decorator is a closure over its own argument -/
theorem mixins_keep_no_state :
    PedVerif.Gen.MixinsShape.gmClassState = [] ∧ PedVerif.Gen.MixinsShape.gmDunderMethods = [] ∧
    PedVerif.Gen.MixinsShape.gmClassKeywords = [] ∧
    PedVerif.Gen.MixinsShape.wdmClassState = [] ∧ PedVerif.Gen.MixinsShape.wdmDunderMethods = [] ∧
    PedVerif.Gen.MixinsShape.wdmClassKeywords = [] ∧
    PedVerif.Gen.MixinsShape.gmModuleState = [] ∧ PedVerif.Gen.MixinsShape.wdmModuleState = ["E", "T", "C"] ∧
    PedVerif.Gen.MixinsShape.gmAttributeStores = [] ∧ PedVerif.Gen.MixinsShape.wdmAttributeStores = [] ∧
    PedVerif.Gen.MixinsShape.scopeEscapes = 0 := by decide

/-- **a query leaves nothing behind**: generic_mixin.py has no statement that writes into an object — no `<anything>.<attr> = …`
    (`type(self)._resolved_type_vars = …` would be found through the MRO by the instances of every SUB class of the class that was
    asked; `self._types = …` by the next query on the same instance), no `<anything>[key] = …` on a container that outlives the call,
    no `del` of either —, uses none of `setattr` / `delattr` / `vars` / `globals` / `locals` / `.__dict__` / `.__setattr__` /
    `.__delattr__`, has no parameter default that is an object created once, assigns nothing at class or module level, has no
    `global` / `nonlocal`, and decorates the helpers with nothing but `property`.  (All of these are read from the source on every
    run: `Gen/MixinsShape.lean`, `Gen/Mixins.lean`.) -/
theorem queries_leave_nothing_behind : leftBehind = [] := by decide

/-- … so the world stays as it was, and the model answers (it abstains in a world in which the library has written something) -/
theorem query_in_untouched_world (t : Table) (d : Nat) (q : Nat × Option (List TArg)) :
    queryW t d [] q = (some (getTypes t d q.1 q.2), []) := by
  simp [queryW, queries_leave_nothing_behind]

theorem runQueriesW_eq (t : Table) (d : Nat) : ∀ (qs : List (Nat × Option (List TArg))),
    runQueriesW t d [] qs = qs.map fun q => some (getTypes t d q.1 q.2) := by
  intro qs
  induction qs with
  | nil => rfl
  | cons q r ih => simp only [runQueriesW, query_in_untouched_world, ih, List.map_cons]

/-- **every query is answered on its own**: in any history of queries on any instances — of the same class, of a parent class first
    and a sub class afterwards or the other way round, of unrelated classes, hashable or not, comparing equal or not — the answer to a
    query is the answer it would get as the only query.  Rests on `queries_leave_nothing_behind`: with a single writing statement in
    the source the model abstains from the second query on and this statement is no longer provable. -/
theorem query_independent_of_history (t : Table) (d : Nat) (pre post : List (Nat × Option (List TArg)))
    (q : Nat × Option (List TArg)) :
    (runQueriesW t d [] (pre ++ q :: post))[pre.length]? = some (some (getTypes t d q.1 q.2)) := by
  simp [runQueriesW_eq]

/-- … so every query of a history that lies in a supported shape gets exactly `{Ti: Xi}`, and every query for which the property
    demands a refusal gets an AssertionError, whatever was asked before -/
theorem history_exact {t : Table} (hwf : WF t) (d : Nat) (pre post : List (Nat × Option (List TArg)))
    (q : Nat × Option (List TArg)) :
    (∀ m, expectedOutcome t d q.1 q.2 = .ok m →
      (runQueriesW t d [] (pre ++ q :: post))[pre.length]? = some (some (.ok m))) ∧
    (expectedOutcome t d q.1 q.2 = .mustAssert →
      ∃ s, (runQueriesW t d [] (pre ++ q :: post))[pre.length]? = some (some (.raised s "AssertionError"))) := by
  rw [query_independent_of_history]
  refine ⟨fun m h => by rw [type_vars_exact hwf d q.1 q.2 m h], fun h => ?_⟩
  obtain ⟨s, hs⟩ := must_assert hwf d q.1 q.2 h
  exact ⟨s, by rw [hs]⟩

/-- `class Repo(Generic[T1], GenericMixin)` (4); `class UserRepo(Repo[User])` (5); `class CachedUserRepo(UserRepo, Generic[T4])` (6);
    `class Twice(CachedUserRepo[bytes])` (7); `class Again(Twice, Generic[T1])` (8) — T1 again, on purpose; `class Leaf(Again)` (9) -/
def exRepo : Table := libTable ++ [
  ⟨[.generic [1], .plain 1], []⟩,
  ⟨[.param 4 [.ty 12]], []⟩,
  ⟨[.plain 5, .generic [4]], []⟩,
  ⟨[.param 6 [.ty 4]], []⟩,
  ⟨[.plain 7, .generic [1]], []⟩,
  ⟨[.plain 8], []⟩]

example : wfB exRepo = true := by decide
example : kindOf exRepo 12 5 = .bound [(.tv 1, .ty 12)] ∧ kindOf exRepo 12 6 = .direct [4] ∧
    kindOf exRepo 12 7 = .bound [(.tv 4, .ty 4)] ∧ kindOf exRepo 12 8 = .direct [1] ∧ kindOf exRepo 12 9 = .direct [1] := by decide
example : lin exRepo 12 8 = [8, 7, 6, 5, 4, 0, 1] := by decide

/-- **the sub class of a binding subclass answers for itself, whoever was asked before**: for every history `pre` of earlier queries
    (on `UserRepo()`, on `Repo[int]()`, on anything) `CachedUserRepo[X]()` reports `{K: X}` — not the `{T: User}` of the class it is
    derived from —, `CachedUserRepo()` is refused with AssertionError, and two levels further down `Again[Y]()` reports `{T1: Y}` with
    the very type variable its root bound to `User` -/
theorem subclass_of_binding_subclass_answers_for_itself (pre post : List (Nat × Option (List TArg))) (x y : TArg) :
    (runQueriesW exRepo 12 [] (pre ++ (6, some [x]) :: post))[pre.length]? = some (some (.ok [(.tv 4, x)])) ∧
    (runQueriesW exRepo 12 [] (pre ++ (6, none) :: post))[pre.length]? = some (some (.raised .unparam "AssertionError")) ∧
    (runQueriesW exRepo 12 [] (pre ++ (8, some [y]) :: post))[pre.length]? = some (some (.ok [(.tv 1, y)])) ∧
    (runQueriesW exRepo 12 [] (pre ++ (5, none) :: post))[pre.length]? = some (some (.ok [(.tv 1, .ty 12)])) := by
  have hwf : WF exRepo := WF_of_wfB (by decide)
  refine ⟨?_, ?_, ?_, ?_⟩
  · have h : kindOf exRepo 12 6 = .direct [4] := by decide
    exact (history_exact hwf 12 pre post (6, some [x])).1 _ (by simp [expectedOutcome, h, pairUp])
  · rw [query_independent_of_history]
    have h : kindOf exRepo 12 6 = .direct [4] := by decide
    rw [unparametrised_asserts hwf 12 6 [4] h]
  · have h : kindOf exRepo 12 8 = .direct [1] := by decide
    exact (history_exact hwf 12 pre post (8, some [y])).1 _ (by simp [expectedOutcome, h, pairUp])
  · exact (history_exact hwf 12 pre post (5, none)).1 _ (by decide)

example : runQueriesW exRepo 12 [] [(5, none), (6, some [.ty 1]), (6, none), (4, some [.ty 0]), (8, some [.ty 2]), (9, none)] =
    [some (.ok [(.tv 1, .ty 12)]), some (.ok [(.tv 4, .ty 1)]), some (.raised .unparam "AssertionError"),
     some (.ok [(.tv 1, .ty 0)]), some (.ok [(.tv 1, .ty 2)]), some (.raised .unparam "AssertionError")] := by
  rw [runQueriesW_eq]; decide

/-- the table of a program with one user class `class My(WithDecoratedMethods[X])` -/
def wdmUser (x : Nat) (ns : List (Name × MemberDef)) : Table := libTable ++ [⟨[.param 3 [.ty x]], ns⟩]

theorem wdm_subclass_type_var (x : Nat) (ns : List (Name × MemberDef)) (d : Nat) :
    expectedOutcome (wdmUser x ns) (d + 3) 4 none = .ok [(.tv 0, .ty x)] := by
  have h4 : basesOf (wdmUser x ns) 4 = [.param 3 [.ty x]] := by simp [basesOf, wdmUser, libTable]
  have h3 : basesOf (wdmUser x ns) 3 = [.plain 2, .generic [0], .plain 1] := by
    simp [basesOf, wdmUser, libTable, wdmBases, libBase]
  have h2 : basesOf (wdmUser x ns) 2 = [] := by simp [basesOf, wdmUser, libTable]
  have h1 : basesOf (wdmUser x ns) 1 = [] := by simp [basesOf, wdmUser, libTable]
  have n2 : nonGeneric (wdmUser x ns) (d + 1) 2 = true := by rw [nonGeneric, h2]; rfl
  have n1 : nonGeneric (wdmUser x ns) (d + 1) 1 = true := by rw [nonGeneric, h1]; rfl
  have k3 : kindOf (wdmUser x ns) (d + 2) 3 = .direct [0] := by
    rw [kindOf, h3]
    have g : List.filterMap genericOf [BaseRef.plain 2, .generic [0], .plain 1] = [[0]] := rfl
    have p : List.filterMap paramOf [BaseRef.plain 2, .generic [0], .plain 1] = [] := rfl
    have q : List.filterMap plainOf [BaseRef.plain 2, .generic [0], .plain 1] = [2, 1] := rfl
    simp only [g, p, q, List.all_cons, List.all_nil, n1, n2]
    rfl
  rw [expectedOutcome, kindOf, h4]
  have g : List.filterMap genericOf [BaseRef.param 3 [TArg.ty x]] = [] := rfl
  have p : List.filterMap paramOf [BaseRef.param 3 [TArg.ty x]] = [(3, [.ty x])] := rfl
  have q : List.filterMap plainOf [BaseRef.param 3 [TArg.ty x]] = [] := rfl
  have u3 : usesMixin (wdmUser x ns) (d + 2) 3 = true := by rw [usesMixin, h3]; rfl
  simp only [g, p, q, List.filter_cons, u3, ↓reduceIte, List.filter_nil, k3, List.all_cons, List.all_nil, Bool.true_or]
  rfl

theorem wdmUser_wf (x : Nat) (ns : List (Name × MemberDef)) : WF (wdmUser x ns) := by
  apply WF_of_wfB
  rfl

/-- end to end for `class My(WithDecoratedMethods[D])` with an arbitrary namespace inside the guard -/
theorem decorated_exact_one_class (x : Nat) (ns : List (Name × MemberDef)) (d : Nat)
    (enumOf : TArg → Option EnumDesc) (en : EnumDesc) (inst : InstNs) (hen : enumOf (.ty x) = some en)
    (hg : decoGuard (wdmUser x ns) (lin (wdmUser x ns) (d + 3) 4) en.members en.intr inst = true) :
    ∃ rows : Key → List (Attr × Val),
      getDecorated (wdmUser x ns) (d + 3) 4 none enumOf inst = .ok (en.members.map fun k => (k, rows k)) ∧
      ∀ k ∈ en.members,
        (∀ a v, (a, v) ∈ rows k → ∃ kind c' n g, a = methodAttr kind c' n g) ∧
        (∀ c' n v, (∃ kind g, (methodAttr kind c' n g, v) ∈ rows k) ↔
          ∃ row, (k, row) ∈ expectedDecorated (wdmUser x ns) (lin (wdmUser x ns) (d + 3) 4) en.members (inst.map (·.1)) ∧
            ((c', n), v) ∈ row) ∧
        ((rows k).map Prod.fst).Nodup :=
  decorated_exact (wdmUser_wf x ns) (d + 3) 4 none (.tv 0) (.ty x) enumOf en inst (wdm_subclass_type_var x ns d) hen hg

/-! ## non-vacuity -/

def exT : Table := libTable ++ [
  ⟨[], []⟩,                                               -- 4: class P
  ⟨[.plain 4, .plain 1, .generic [1, 2]], []⟩,            -- 5: class A(P, GenericMixin, Generic[T1, T2])
  ⟨[], []⟩,                                               -- 6: class Q
  ⟨[.plain 6, .param 5 [.ty 7, .ty 8]], []⟩,              -- 7: class B(Q, A[X7, X8])
  ⟨[.plain 7], []⟩,                                       -- 8: class C(B)
  ⟨[.plain 1], []⟩ ]                                      -- 9: class N(GenericMixin)

example : wfB exT = true := by decide
example : expectedOutcome exT 10 5 (some [.ty 3, .ty 4]) = .ok [(.tv 1, .ty 3), (.tv 2, .ty 4)] := by decide
example : expectedOutcome exT 10 7 none = .ok [(.tv 1, .ty 7), (.tv 2, .ty 8)] := by decide
example : expectedOutcome exT 10 8 none = .ok [(.tv 1, .ty 7), (.tv 2, .ty 8)] := by decide
example : expectedOutcome exT 10 9 none = .mustAssert := by decide
example : expectedOutcome exT 10 5 none = .mustAssert := by decide
example : getTypes exT 10 8 none = .ok [(.tv 1, .ty 7), (.tv 2, .ty 8)] :=
  type_vars_exact (WF_of_wfB (by decide)) 10 8 none _ (by decide)
example : lin exT 10 8 = [8, 7, 6, 5, 4, 1, 0] := by decide
example : runQueries exT 10 [(5, some [.ty 3, .ty 4]), (7, none), (5, none), (8, none)] =
    [.ok [(.tv 1, .ty 3), (.tv 2, .ty 4)], .ok [(.tv 1, .ty 7), (.tv 2, .ty 8)], .raised .unparam "AssertionError",
     .ok [(.tv 1, .ty 7), (.tv 2, .ty 8)]] := by decide

/-- outside the supported shapes (reported only): a partially binding subclass `class G(A[T1, X7])` instantiated as
    `G[X3]()` answers `{T1: T1, T2: X7}` — the argument `X3` is lost -/
def exPartial : Table := libTable ++ [⟨[.generic [1, 2], .plain 1], []⟩, ⟨[.param 4 [.tv 1, .ty 7]], []⟩]
example : expectedOutcome exPartial 10 5 (some [.ty 3]) = .unsupported := by decide
example : getTypes exPartial 10 5 (some [.ty 3]) = .ok [(.tv 1, .tv 1), (.tv 2, .ty 7)] := by decide

/-- `class Labelled(Generic[T4])` (knows nothing about GenericMixin), `class Seq` (subscriptable, like `list`),
    `class Box(Labelled[X1], Generic[T1], GenericMixin)`, `class Pair(Generic[T1, T2], GenericMixin, Seq[T1], Labelled[X4])`,
    `class IntBox(Box[X0])`, `class Same(Labelled[X1], Generic[T4], GenericMixin)` (the mixin's own variable re-used) -/
def exBox : Table := libTable ++ [
  ⟨[.generic [4]], []⟩,                                                       -- 4: Labelled
  ⟨[], []⟩,                                                                   -- 5: Seq
  ⟨[.param 4 [.ty 1], .generic [1], .plain 1], []⟩,                           -- 6: Box
  ⟨[.generic [1, 2], .plain 1, .param 5 [.tv 1], .param 4 [.ty 4]], []⟩,      -- 7: Pair
  ⟨[.param 6 [.ty 0]], []⟩,                                                   -- 8: IntBox
  ⟨[.param 4 [.ty 1], .generic [4], .plain 1], []⟩,                           -- 9: Same
  ⟨[.param 4 [.ty 1], .param 6 [.ty 0]], []⟩,                                 -- 10: class Odd(Labelled[X1], Box[X0])
  ⟨[.param 6 [.ty 0], .param 4 [.ty 1]], []⟩ ]                                -- 11: class Odd2(Box[X0], Labelled[X1])

example : wfB exBox = true := by decide
example : kindOf exBox 12 6 = .direct [1] ∧ kindOf exBox 12 7 = .direct [1, 2] ∧ kindOf exBox 12 9 = .direct [4] := by decide
example : expectedOutcome exBox 12 6 (some [.ty 0]) = .ok [(.tv 1, .ty 0)] := by decide
example : expectedOutcome exBox 12 6 none = .mustAssert := by decide
example : expectedOutcome exBox 12 7 (some [.ty 0, .ty 6]) = .ok [(.tv 1, .ty 0), (.tv 2, .ty 6)] := by decide
example : expectedOutcome exBox 12 8 none = .ok [(.tv 1, .ty 0)] := by decide
example : expectedOutcome exBox 12 9 (some [.ty 0]) = .ok [(.tv 4, .ty 0)] := by decide
-- the hypotheses of `direct_with_parametrised_mixins` are met by Box and by Pair
example : getTypes exBox 12 6 (some [.ty 0]) = .ok [(.tv 1, .ty 0)] ∧ getTypes exBox 12 6 none = .raised .unparam "AssertionError" :=
  direct_with_parametrised_mixins (WF_of_wfB (by decide)) 11 6 [1] [.ty 0] (by decide) (by decide) (by decide) (by decide) rfl
example : getTypes exBox 12 7 (some [.ty 0, .ty 6]) = .ok [(.tv 1, .ty 0), (.tv 2, .ty 6)] ∧
    getTypes exBox 12 7 none = .raised .unparam "AssertionError" :=
  direct_with_parametrised_mixins (WF_of_wfB (by decide)) 11 7 [1, 2] [.ty 0, .ty 6] (by decide) (by decide) (by decide) (by decide) rfl
example : getTypes exBox 12 8 none = .ok [(.tv 1, .ty 0)] :=
  binding_subclass_of_direct_with_parametrised_mixins (WF_of_wfB (by decide)) 11 8 6 [1] [.ty 0] none (by decide) (by decide)
    (by decide) (by decide) (by decide) rfl (by decide)
example : lin exBox 12 6 = [6, 4, 0, 1] ∧ lin exBox 12 7 = [7, 1, 5, 4, 0] := by decide

-- a binding subclass with further subscripted bases that are foreign to GenericMixin: `class Odd(Labelled[X1], Box[X0])` and
-- `class Odd2(Box[X0], Labelled[X1])` answer alike, `{T1: X0}` — the hypotheses of `binding_subclass_foreign_bases_any_position`
-- are met by both (before commit 2c5b09b `Odd` answered with the type argument of the mixin, `{T4: X1}`)
example : expectedOutcome exBox 12 10 none = .ok [(.tv 1, .ty 0)] ∧ expectedOutcome exBox 12 11 none = .ok [(.tv 1, .ty 0)] := by decide
example : getTypes exBox 12 10 none = .ok [(.tv 1, .ty 0)] :=
  binding_subclass_foreign_bases_any_position (WF_of_wfB (by decide)) 11 10 6 [1] [.ty 0] none (by decide) (by decide) (by decide)
    (by decide) (by decide) rfl (by decide)
example : getTypes exBox 12 11 none = .ok [(.tv 1, .ty 0)] :=
  binding_subclass_foreign_bases_any_position (WF_of_wfB (by decide)) 11 11 6 [1] [.ty 0] none (by decide) (by decide) (by decide)
    (by decide) (by decide) rfl (by decide)
example : (basesOf exBox 10).Perm (basesOf exBox 11) := by decide
example : loopBases exBox 12 (loopCandidates exBox 12 (basesOf exBox 10)) = loopBases exBox 12 (loopCandidates exBox 12 (basesOf exBox 11)) := by
  decide
example : loopCandidates exBox 12 (basesOf exBox 10) = [.param 6 [.ty 0]] := by decide

/-- `class Seq` stands for a subscriptable class without `__orig_bases__` (`list`, `collections.abc.Sequence`):
    `class SeqBox(Seq[X0], Box[X0])`, `class BoxSeq(Box[X0], Seq[X0])`, `class Three(Labelled[X1], Box[X0], Seq[X3])`;
    GenericMixin added by the class itself: `class IntL(Labelled[X0], GenericMixin)`, `class IntL2(GenericMixin, Labelled[X0])`,
    `class X(Seq[X0], Labelled[X0], GenericMixin)`;
    outside the claimed shapes: `class Two(Box[X0], Box2[X1])` (two subscripted GenericMixin bases) and
    `class Both(Labelled[X0], Other[X1], GenericMixin)` (two subscripted generic-class bases, none a GenericMixin class) -/
def exSeq : Table := libTable ++ [
  ⟨[.generic [4]], []⟩,                                                       -- 4: Labelled
  ⟨[], []⟩,                                                                   -- 5: Seq
  ⟨[.generic [1], .plain 1], []⟩,                                             -- 6: Box
  ⟨[.param 5 [.ty 0], .param 6 [.ty 0]], []⟩,                                 -- 7: SeqBox
  ⟨[.param 6 [.ty 0], .param 5 [.ty 0]], []⟩,                                 -- 8: BoxSeq
  ⟨[.param 4 [.ty 1], .param 6 [.ty 0], .param 5 [.ty 3]], []⟩,               -- 9: Three
  ⟨[.param 4 [.ty 0], .plain 1], []⟩,                                         -- 10: IntL
  ⟨[.plain 1, .generic [2]], []⟩,                                             -- 11: Box2
  ⟨[.param 6 [.ty 0], .param 11 [.ty 1]], []⟩,                                -- 12: Two
  ⟨[.plain 1, .param 4 [.ty 0]], []⟩,                                         -- 13: IntL2
  ⟨[.param 5 [.ty 0], .param 4 [.ty 0], .plain 1], []⟩,                       -- 14: X
  ⟨[.generic [3]], []⟩,                                                       -- 15: Other
  ⟨[.param 4 [.ty 0], .param 15 [.ty 1], .plain 1], []⟩ ]                     -- 16: Both

example : wfB exSeq = true := by decide
example : expectedOutcome exSeq 18 7 none = .ok [(.tv 1, .ty 0)] ∧ expectedOutcome exSeq 18 8 none = .ok [(.tv 1, .ty 0)] ∧
    expectedOutcome exSeq 18 9 none = .ok [(.tv 1, .ty 0)] := by decide
example : getTypes exSeq 18 7 none = .ok [(.tv 1, .ty 0)] ∧ getTypes exSeq 18 9 none = .ok [(.tv 1, .ty 0)] := by decide
-- GenericMixin added by the class itself (lost its answer between commits 2c5b09b and 148d517)
example : expectedOutcome exSeq 18 10 none = .ok [(.tv 4, .ty 0)] ∧ expectedOutcome exSeq 18 13 none = .ok [(.tv 4, .ty 0)] ∧
    expectedOutcome exSeq 18 14 none = .ok [(.tv 4, .ty 0)] := by decide
example : getTypes exSeq 18 10 none = .ok [(.tv 4, .ty 0)] :=
  binding_of_foreign_generic_base (WF_of_wfB (by decide)) 17 10 4 [4] [.ty 0] none (by decide) (by decide) (by decide) (by decide)
    (by decide) (by decide) (by decide) rfl (by decide)
example : getTypes exSeq 18 14 none = .ok [(.tv 4, .ty 0)] :=
  binding_of_foreign_generic_base (WF_of_wfB (by decide)) 17 14 4 [4] [.ty 0] none (by decide) (by decide) (by decide) (by decide)
    (by decide) (by decide) (by decide) rfl (by decide)
example : mixinBases exSeq 18 "GenericMixin" (basesOf exSeq 9) = [.param 6 [.ty 0]] ∧
    mixinBases exSeq 18 "GenericMixin" (basesOf exSeq 14) = [] ∧
    loopCandidates exSeq 18 (basesOf exSeq 14) = [.param 5 [.ty 0], .param 4 [.ty 0]] := by decide

/-- outside the claimed shapes (reported only): with two subscripted GenericMixin bases — `class Two(Box[X0], Box2[X1])` — and with
    two subscripted generic-class bases none of which is a GenericMixin class — `class Both(Labelled[X0], Other[X1], GenericMixin)` —
    the first one is reported -/
theorem outside_the_claimed_binding_shapes :
    expectedOutcome exSeq 18 12 none = .unsupported ∧ getTypes exSeq 18 12 none = .ok [(.tv 1, .ty 0)] ∧
    expectedOutcome exSeq 18 16 none = .unsupported ∧ getTypes exSeq 18 16 none = .ok [(.tv 4, .ty 0)] := by decide

def exD : Table := libTable ++ [
  ⟨[.param 3 [.ty 50]],                                   -- 4: class Base(WithDecoratedMethods[D])
   [(⟨0, "m1"⟩, .func .inst [⟨100, 1, .none⟩, ⟨101, 2, .wraps⟩, ⟨100, 3, .ident⟩]),   -- @foo(3, ident) @bar(2, wraps) @foo(1)
    (⟨1, "h"⟩, .func .inst []),
    (⟨0, "m2"⟩, .func .inst [⟨101, 4, .none⟩])]⟩,
  ⟨[.plain 4],                                            -- 5: class Sub(Base)
   [(⟨0, "m2"⟩, .func .inst []),                          -- overrides m2 without decorator
    (⟨0, "m3"⟩, .func .inst [⟨100, 5, .none⟩])]⟩ ]

def exEnum : TArg → Option EnumDesc :=
  fun x => if x = .ty 50 then some ⟨[100, 101], { cls := [(200, 9000), (201, 9001)] }⟩ else none

example : wfB exD = true := by decide
example : expectedOutcome exD 10 5 none = .ok [(.tv 0, .ty 50)] := by decide
example : decoGuard exD (lin exD 10 5) [100, 101] { cls := [(200, 9000), (201, 9001)] } [(⟨0, "cb"⟩, .fn 0 [])] = true := by decide
example : getDecorated exD 10 5 none exEnum [(⟨0, "cb"⟩, .fn 0 [])] =
    .ok [(100, [(.bound 5 ⟨0, "m3"⟩ 0, 5), (.bound 4 ⟨0, "m1"⟩ 1, 3)]), (101, [(.bound 4 ⟨0, "m1"⟩ 1, 2)])] := by decide
example : expectedDecorated exD (lin exD 10 5) [100, 101] [⟨0, "cb"⟩] =
    [(100, [((5, ⟨0, "m3"⟩), 5), ((4, ⟨0, "m1"⟩), 3)]), (101, [((4, ⟨0, "m1"⟩), 2)])] := by decide
example : (applyApps [⟨100, 1, .none⟩, ⟨101, 2, .wraps⟩, ⟨100, 3, .ident⟩]).journal =
    [[.fn 0, .ty 101, .val 2], [.fn 1, .ty 100, .val 3]] := by decide

end PedVerif.Mixins
