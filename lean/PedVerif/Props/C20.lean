import PedVerif.Spec.Mixins
import PedVerif.Gen.MixinsShape
/-!
# C20 — mixins report type arguments and decorated methods exactly

Property theorems (the list audited in `Audit/C20.lean`):

* `type_vars_exact`, `type_var_single`, `type_var_multiple`, `non_generic_asserts`, `unparametrised_asserts`, `must_assert`
  — `GenericMixin`, for every class table the interpreter accepts (`WF`), every number of type parameters, every list
  of type arguments, every supported shape as recognised by the independent `expectedOutcome`;
* `transformation_receives_f_type_value`, `applyApps_dict` — `create_decorator`;
* `decorated_scan_exact` (= `decorated_exact_partial`, guard `decoGuard`), `decorated_exact`, `decorated_exact_one_class`
  — `get_decorated_functions`; `decorated_exact_full` is the unguarded statement, `decorated_exact_full_fails` and the
  witnesses next to it show where the code leaves it;
* `mixins_source_shape` — the remaining facts read from the source.

All of them are about the model instantiated with `PedVerif.Gen.Mixins` (regenerated from the source on every run):
a swapped `zip`, another index into `generic_bases`, a dropped `__origin__ == Generic` filter, another guard attribute
or exception class, another assertion in `type_var`, another `startswith` prefix, other `setattr` / transformation
arguments make the proofs fail.
-/
namespace PedVerif.Mixins
open PedVerif.Gen.Mixins

/-! ## C3 merge: the facts needed about the interpreter's MRO -/

theorem mem_c3pop {h x : Nat} {s : List Nat} (hx : x ∈ c3pop h s) : x ∈ s := by
  cases s with
  | nil => simp [c3pop] at hx
  | cons y r =>
    simp only [c3pop] at hx
    split at hx
    · exact List.mem_cons_of_mem _ hx
    · exact hx

theorem nodup_c3pop {h : Nat} {s : List Nat} (hs : s.Nodup) : (c3pop h s).Nodup := by
  cases s with
  | nil => simp [c3pop]
  | cons y r =>
    simp only [c3pop]
    split
    · exact (List.nodup_cons.mp hs).2
    · exact hs

/-- a candidate accepted by C3 does not occur in any sequence after it was popped -/
theorem not_mem_c3pop_of_good {live : List (List Nat)} {h : Nat} (hg : c3good live h = true)
    {s : List Nat} (hs : s ∈ live) : h ∉ c3pop h s := by
  have ht : h ∉ s.tail := by
    have := (List.all_eq_true.mp hg) s hs
    simpa using this
  cases s with
  | nil => simp [c3pop]
  | cons y r =>
    simp only [c3pop]
    split
    · simpa using ht
    · rename_i hne
      intro hm
      rcases List.mem_cons.mp hm with h1 | h1
      · exact hne h1.symm
      · exact ht (by simpa using h1)

theorem mem_c3merge : ∀ (f : Nat) (seqs : List (List Nat)) (x : Nat), x ∈ c3merge f seqs → ∃ s ∈ seqs, x ∈ s := by
  intro f
  induction f with
  | zero => intro seqs x hx; simp [c3merge] at hx
  | succ f ih =>
    intro seqs x hx
    simp only [c3merge] at hx
    split at hx
    · simp at hx
    · rename_i h hfind
      rcases List.mem_cons.mp hx with h1 | h1
      · subst h1
        have hm := List.mem_of_find?_eq_some hfind
        rcases List.mem_filterMap.mp hm with ⟨s, hs, hhead⟩
        refine ⟨s, (List.mem_filter.mp hs).1, ?_⟩
        cases s with
        | nil => simp at hhead
        | cons y r => simp at hhead; simp [hhead]
      · rcases ih _ x h1 with ⟨s', hs', hxs'⟩
        rcases List.mem_map.mp hs' with ⟨s, hs, rfl⟩
        exact ⟨s, (List.mem_filter.mp hs).1, mem_c3pop hxs'⟩

theorem nodup_c3merge : ∀ (f : Nat) (seqs : List (List Nat)), (∀ s ∈ seqs, s.Nodup) → (c3merge f seqs).Nodup := by
  intro f
  induction f with
  | zero => intro seqs _; simp [c3merge]
  | succ f ih =>
    intro seqs hnd
    simp only [c3merge]
    split
    · simp
    · rename_i h hfind
      have hgood : c3good (seqs.filter fun s => !s.isEmpty) h = true := by
        have := List.find?_some hfind
        simpa using this
      refine List.nodup_cons.mpr ⟨?_, ?_⟩
      · intro hm
        rcases mem_c3merge _ _ _ hm with ⟨s', hs', hxs'⟩
        rcases List.mem_map.mp hs' with ⟨s, hs, rfl⟩
        exact not_mem_c3pop_of_good hgood hs hxs'
      · apply ih
        intro s' hs'
        rcases List.mem_map.mp hs' with ⟨s, hs, rfl⟩
        exact nodup_c3pop (hnd s (List.mem_filter.mp hs).1)

/-- merging a single duplicate-free sequence gives the sequence -/
theorem c3merge_single : ∀ (A : List Nat) (f : Nat), A.Nodup → A.length < f → c3merge f [A] = A := by
  intro A
  induction A with
  | nil => intro f _ hf; cases f with
    | zero => omega
    | succ f => simp [c3merge]
  | cons a r ih =>
    intro f hnd hf
    cases f with
    | zero => omega
    | succ f =>
      have ha : a ∉ r := (List.nodup_cons.mp hnd).1
      have hg : c3good [a :: r] a = true := by simp [c3good, ha]
      simp only [c3merge, List.filter, List.isEmpty_cons, Bool.not_false, List.filterMap_cons, List.head?_cons,
        List.filterMap_nil, List.find?_cons, hg, List.map_cons, List.map_nil, c3pop, ↓reduceIte]
      rw [ih f (List.nodup_cons.mp hnd).2 (by simp at hf; omega)]

/-- single inheritance: merging the parent's linearisation with the list of bases `[b]` -/
theorem c3merge_chain (b : Nat) (A : List Nat) (f : Nat) (hb : b ∉ A) (hnd : A.Nodup) (hf : A.length + 1 < f) :
    c3merge f [b :: A, [b]] = b :: A := by
  cases f with
  | zero => omega
  | succ f =>
    have hg : c3good [b :: A, [b]] b = true := by simp [c3good, hb]
    simp only [c3merge, List.filter, List.isEmpty_cons, Bool.not_false, List.filterMap_cons, List.head?_cons,
      List.filterMap_nil, List.find?_cons, hg, List.map_cons, List.map_nil, c3pop, ↓reduceIte]
    congr 1
    cases f with
    | zero => omega
    | succ f =>
      have := c3merge_single A (f + 1) hnd (by omega)
      simp only [c3merge, List.filter, List.isEmpty_nil, Bool.not_true] at this ⊢
      exact this

/-! ## well-formed tables and the linearisation -/

/-- what the interpreter guarantees for every class it creates: bases exist before the class, no base twice -/
def WF (t : Table) : Prop := ∀ c, (parents t c).Nodup ∧ ∀ p ∈ parents t c, p < c

def wfB (t : Table) : Bool :=
  (List.range t.length).all fun c => decide (parents t c).Nodup && (parents t c).all fun p => decide (p < c)

theorem WF_of_wfB {t : Table} (h : wfB t = true) : WF t := by
  intro c
  by_cases hc : c < t.length
  · have := (List.all_eq_true.mp h) c (List.mem_range.mpr hc)
    simp only [Bool.and_eq_true, decide_eq_true_eq, List.all_eq_true] at this
    exact this
  · have : parents t c = [] := by
      simp [parents, basesOf, List.getElem?_eq_none (Nat.le_of_not_lt hc), parentsOfBases]
    simp [this]

theorem lin_head (t : Table) (d c : Nat) : ∃ A, lin t d c = c :: A := by
  cases d with
  | zero => exact ⟨[], rfl⟩
  | succ d => exact ⟨_, rfl⟩

theorem lin_le {t : Table} (hwf : WF t) : ∀ (d c x : Nat), x ∈ lin t d c → x ≤ c := by
  intro d
  induction d with
  | zero => intro c x hx; simp [lin] at hx; omega
  | succ d ih =>
    intro c x hx
    simp only [lin] at hx
    rcases List.mem_cons.mp hx with h1 | h1
    · omega
    · rcases mem_c3merge _ _ _ h1 with ⟨s, hs, hxs⟩
      rcases List.mem_append.mp hs with h2 | h2
      · rcases List.mem_map.mp h2 with ⟨p, hp, rfl⟩
        have := ih p x hxs
        have := (hwf c).2 p hp
        omega
      · simp at h2; subst h2
        have := (hwf c).2 x hxs
        omega

theorem lin_nodup {t : Table} (hwf : WF t) : ∀ (d c : Nat), (lin t d c).Nodup := by
  intro d
  induction d with
  | zero => intro c; simp [lin]
  | succ d ih =>
    intro c
    simp only [lin]
    refine List.nodup_cons.mpr ⟨?_, ?_⟩
    · intro h1
      rcases mem_c3merge _ _ _ h1 with ⟨s, hs, hxs⟩
      rcases List.mem_append.mp hs with h2 | h2
      · rcases List.mem_map.mp h2 with ⟨p, hp, rfl⟩
        have := lin_le hwf d p c hxs
        have := (hwf c).2 p hp
        omega
      · simp at h2; subst h2
        have := (hwf c).2 c hxs
        omega
    · apply nodup_c3merge
      intro s hs
      rcases List.mem_append.mp hs with h2 | h2
      · rcases List.mem_map.mp h2 with ⟨p, _, rfl⟩
        exact ih p
      · simp at h2; subst h2; exact (hwf c).1

/-- a class whose only base is the plain class `b` looks `__orig_bases__` up exactly where `b` does -/
theorem lookup_plain_single {t : Table} (hwf : WF t) (d c b : Nat) (hb : basesOf t c = [.plain b]) :
    lookupOrigBases t (d + 1) c = lookupOrigBases t d b := by
  have hp : parents t c = [b] := by simp [parents, hb, parentsOfBases]
  have hown : ownOrigBases t c = none := by simp [ownOrigBases, hb, BaseRef.isAlias]
  rcases lin_head t d b with ⟨A, hA⟩
  have hnd := lin_nodup hwf d b
  rw [hA] at hnd
  have hm : c3merge (((b :: A).length + ([b].length + 0)) + 1) [b :: A, [b]] = b :: A :=
    c3merge_chain b A _ (List.nodup_cons.mp hnd).1 (List.nodup_cons.mp hnd).2 (by simp)
  simp only [lookupOrigBases, lin, hp, List.map_cons, List.map_nil, List.cons_append, List.nil_append, hA,
    List.sum_cons, List.sum_nil, List.findSome?_cons, hown]
  rw [hm]
  simp [List.findSome?_cons]

/-! ## from the declared shape to what `_get_types` finds -/

theorem genericBases_eq (bs : List BaseRef) :
    genericBases bs = (bs.filterMap genericOf).map (fun tvs => tvs.map TArg.tv) := by
  induction bs with
  | nil => rfl
  | cons b r ih =>
    unfold genericBases at ih ⊢
    simp only [genericFilterChecksOrigin, ↓reduceIte] at ih ⊢
    cases b <;> simp [List.filterMap_cons, genericOf, ih]

theorem any_alias_of_generic {bs : List BaseRef} {tvs : List Nat} (h : tvs ∈ bs.filterMap genericOf) :
    bs.any BaseRef.isAlias = true := by
  rcases List.mem_filterMap.mp h with ⟨b, hb, hg⟩
  refine List.any_eq_true.mpr ⟨b, hb, ?_⟩
  cases b <;> simp [genericOf] at hg <;> rfl

theorem any_alias_of_param {bs : List BaseRef} {p : Nat × List TArg} (h : p ∈ bs.filterMap paramOf) :
    bs.any BaseRef.isAlias = true := by
  rcases List.mem_filterMap.mp h with ⟨b, hb, hg⟩
  refine List.any_eq_true.mpr ⟨b, hb, ?_⟩
  cases b <;> simp [paramOf] at hg <;> rfl

theorem all_plain {bs : List BaseRef} (hg : bs.filterMap genericOf = []) (hp : bs.filterMap paramOf = []) :
    ∀ b ∈ bs, ∃ p, b = .plain p := by
  intro b hb
  have h1 := (List.filterMap_eq_nil_iff.mp hg) b hb
  have h2 := (List.filterMap_eq_nil_iff.mp hp) b hb
  cases b with
  | generic tvs => simp [genericOf] at h1
  | param c a => simp [paramOf] at h2
  | plain p => exact ⟨p, rfl⟩

theorem lookup_own {t : Table} {c : Nat} {bs : List BaseRef} (h : ownOrigBases t c = some bs) (d : Nat) :
    lookupOrigBases t d c = some bs := by
  rcases lin_head t d c with ⟨A, hA⟩
  simp [lookupOrigBases, hA, h]

/-- a class of kind `direct tvs` finds bases whose only `Generic[…]` entry is `Generic[tvs]` -/
theorem kind_direct {t : Table} (hwf : WF t) : ∀ (d c : Nat) (tvs : List Nat), kindOf t d c = .direct tvs →
    tvs.Nodup ∧ ∃ bs, genericBases bs = [tvs.map TArg.tv] ∧ ∀ d', d ≤ d' → lookupOrigBases t d' c = some bs := by
  intro d
  induction d with
  | zero => intro c tvs h; simp [kindOf] at h
  | succ d ih =>
    intro c tvs h
    simp only [kindOf] at h
    split at h
    · rename_i ps tvs' hg
      split at h
      · rename_i hc
        injection h with h; subst h
        simp only [Bool.and_eq_true, decide_eq_true_eq] at hc
        refine ⟨hc.1.2, basesOf t c, ?_, ?_⟩
        · simp [genericBases_eq, hg]
        · intro d' _
          apply lookup_own
          have : (basesOf t c).any BaseRef.isAlias = true := any_alias_of_generic (tvs := tvs') (by simp [hg])
          simp [ownOrigBases, this]
      · simp at h
    · repeat' split at h
      all_goals simp at h
    · split at h
      · rename_i b hb
        rcases ih b tvs h with ⟨hnd, bs, hgb, hl⟩
        refine ⟨hnd, bs, hgb, ?_⟩
        intro d' hd'
        cases d' with
        | zero => omega
        | succ d'' =>
          rw [lookup_plain_single hwf d'' c b hb]
          exact hl d'' (by omega)
      · split at h <;> simp at h
    · simp at h

theorem nonGeneric_lookup {t : Table} : ∀ (d c : Nat), nonGeneric t d c = true →
    ∀ d' x, x ∈ lin t d' c → ownOrigBases t x = none := by
  intro d
  induction d with
  | zero => intro c h; simp [nonGeneric] at h
  | succ d ih =>
    intro c h d' x hx
    simp only [nonGeneric, List.all_eq_true] at h
    have hown : ownOrigBases t c = none := by
      have : (basesOf t c).any BaseRef.isAlias = false := by
        apply List.any_eq_false.mpr
        intro b hb
        have := h b hb
        cases b <;> simp at this <;> simp [BaseRef.isAlias]
      simp [ownOrigBases, this]
    have hpar : ∀ p ∈ parents t c, nonGeneric t d p = true := by
      intro p hp
      have key : ∀ (bs : List BaseRef), (∀ b ∈ bs, (match b with | .plain p => nonGeneric t d p | _ => false) = true) →
          p ∈ parentsOfBases bs → nonGeneric t d p = true := by
        intro bs
        induction bs with
        | nil => intro _ hp; simp [parentsOfBases] at hp
        | cons b r ihr =>
          intro hall hp
          have hb := hall b (List.mem_cons_self ..)
          cases b with
          | generic tvs => simp at hb
          | param c a => simp at hb
          | plain q =>
            simp only [parentsOfBases, List.mem_cons] at hp
            rcases hp with rfl | hp
            · simpa using hb
            · exact ihr (fun b hb => hall b (List.mem_cons_of_mem _ hb)) hp
      exact key _ h hp
    cases d' with
    | zero => simp [lin] at hx; subst hx; exact hown
    | succ d' =>
      simp only [lin] at hx
      rcases List.mem_cons.mp hx with h1 | h1
      · subst h1; exact hown
      · rcases mem_c3merge _ _ _ h1 with ⟨s, hs, hxs⟩
        rcases List.mem_append.mp hs with h2 | h2
        · rcases List.mem_map.mp h2 with ⟨p, hp, rfl⟩
          exact ih p (hpar p hp) d' x hxs
        · simp at h2; subst h2
          rcases lin_head t 0 x with ⟨A, hA⟩
          exact ih x (hpar x hxs) 0 x (by simp [hA])

theorem kind_nonGeneric {t : Table} : ∀ (d c : Nat), kindOf t d c = .nonGeneric → nonGeneric t d c = true := by
  intro d
  induction d with
  | zero => intro c h; simp [kindOf] at h
  | succ d ih =>
    intro c h
    simp only [kindOf] at h
    split at h
    · split at h <;> simp at h
    · repeat' split at h
      all_goals simp at h
    · rename_i hg hp
      have hpl := all_plain hg hp
      split at h
      · rename_i b hb
        simp [nonGeneric, hb, ih b h]
      · split at h
        · rename_i hc
          simp only [nonGeneric, List.all_eq_true]
          intro b hb
          rcases hpl b hb with ⟨p, rfl⟩
          have := (List.all_eq_true.mp hc) p (List.mem_filterMap.mpr ⟨_, hb, rfl⟩)
          simpa using this
        · simp at h
    · simp at h

/-! ### `issubclass(origin, GenericMixin)`: the model's reachability against the specification's reading of the declarations -/

theorem parents_zero {t : Table} (hwf : WF t) : parents t 0 = [] := by
  cases h : parents t 0 with
  | nil => rfl
  | cons p r => have := (hwf 0).2 p (by simp [h]); omega

theorem derives_zero {t : Table} (hwf : WF t) : ∀ d, derives t mixinId d 0 = false := by
  intro d
  cases d <;> simp [derives, mixinId, parents_zero hwf]

/-- every class among `__bases__` comes from a written base (or is `typing.Generic`) -/
theorem mem_parentsOfBases {p : Nat} : ∀ (bs : List BaseRef), p ∈ parentsOfBases bs →
    p = genericId ∨ (∃ a, BaseRef.param p a ∈ bs) ∨ BaseRef.plain p ∈ bs := by
  intro bs
  induction bs with
  | nil => intro h; simp [parentsOfBases] at h
  | cons b r ih =>
    intro h
    cases b with
    | generic tvs =>
      simp only [parentsOfBases] at h
      split at h
      · rcases ih h with h1 | ⟨a, h1⟩ | h1
        · exact .inl h1
        · exact .inr (.inl ⟨a, List.mem_cons_of_mem _ h1⟩)
        · exact .inr (.inr (List.mem_cons_of_mem _ h1))
      · rcases List.mem_cons.mp h with h1 | h1
        · exact .inl h1
        · rcases ih h1 with h2 | ⟨a, h2⟩ | h2
          · exact .inl h2
          · exact .inr (.inl ⟨a, List.mem_cons_of_mem _ h2⟩)
          · exact .inr (.inr (List.mem_cons_of_mem _ h2))
    | param c a =>
      simp only [parentsOfBases] at h
      rcases List.mem_cons.mp h with h1 | h1
      · subst h1; exact .inr (.inl ⟨a, List.mem_cons_self ..⟩)
      · rcases ih h1 with h2 | ⟨a', h2⟩ | h2
        · exact .inl h2
        · exact .inr (.inl ⟨a', List.mem_cons_of_mem _ h2⟩)
        · exact .inr (.inr (List.mem_cons_of_mem _ h2))
    | plain c =>
      simp only [parentsOfBases] at h
      rcases List.mem_cons.mp h with h1 | h1
      · subst h1; exact .inr (.inr (List.mem_cons_self ..))
      · rcases ih h1 with h2 | ⟨a', h2⟩ | h2
        · exact .inl h2
        · exact .inr (.inl ⟨a', List.mem_cons_of_mem _ h2⟩)
        · exact .inr (.inr (List.mem_cons_of_mem _ h2))

theorem param_mem_parentsOfBases {p : Nat} {a : List TArg} : ∀ (bs : List BaseRef), BaseRef.param p a ∈ bs → p ∈ parentsOfBases bs := by
  intro bs
  induction bs with
  | nil => intro h; simp at h
  | cons b r ih =>
    intro h
    rcases List.mem_cons.mp h with h1 | h1
    · subst h1; simp [parentsOfBases]
    · have := ih h1
      cases b with
      | generic tvs => simp only [parentsOfBases]; split <;> simp [this]
      | param c a' => simp [parentsOfBases, this]
      | plain c => simp [parentsOfBases, this]

theorem plain_mem_parentsOfBases {p : Nat} : ∀ (bs : List BaseRef), BaseRef.plain p ∈ bs → p ∈ parentsOfBases bs := by
  intro bs
  induction bs with
  | nil => intro h; simp at h
  | cons b r ih =>
    intro h
    rcases List.mem_cons.mp h with h1 | h1
    · subst h1; simp [parentsOfBases]
    · have := ih h1
      cases b with
      | generic tvs => simp only [parentsOfBases]; split <;> simp [this]
      | param c a' => simp [parentsOfBases, this]
      | plain c => simp [parentsOfBases, this]

/-- a class the declarations show to have nothing to do with GenericMixin is no subclass of it, whatever the depth searched -/
theorem foreign_not_derives {t : Table} (hwf : WF t) : ∀ (d c : Nat), foreign t d c = true → ∀ d', derives t mixinId d' c = false := by
  intro d
  induction d with
  | zero => intro c h; simp [foreign] at h
  | succ d ih =>
    intro c h d'
    simp only [foreign, Bool.and_eq_true, bne_iff_ne, ne_eq, List.all_eq_true] at h
    obtain ⟨hne, hall⟩ := h
    cases d' with
    | zero => simpa [derives] using hne
    | succ d'' =>
      simp only [derives, Bool.or_eq_false_iff, beq_eq_false_iff_ne, ne_eq, List.any_eq_false]
      refine ⟨hne, ?_⟩
      intro p hp
      rcases mem_parentsOfBases _ hp with h1 | ⟨a, h1⟩ | h1
      · subst h1; simp [genericId, derives_zero hwf]
      · have := hall _ h1; simp only at this; simp [ih p this d'']
      · have := hall _ h1; simp only at this; simp [ih p this d'']

/-- a class the declarations show to be a GenericMixin class is a subclass of it at every depth searched from there on -/
theorem usesMixin_derives {t : Table} : ∀ (d c : Nat), usesMixin t d c = true → ∀ d', d ≤ d' → derives t mixinId d' c = true := by
  intro d
  induction d with
  | zero => intro c h; simp [usesMixin] at h
  | succ d ih =>
    intro c h d' hd'
    cases d' with
    | zero => omega
    | succ d'' =>
      simp only [usesMixin, Bool.or_eq_true, beq_iff_eq, List.any_eq_true] at h
      simp only [derives, Bool.or_eq_true, beq_iff_eq, List.any_eq_true]
      rcases h with h | ⟨b, hb, hu⟩
      · exact .inl h
      · right
        cases b with
        | generic tvs => simp at hu
        | param p a => exact ⟨p, param_mem_parentsOfBases _ hb, ih p hu d'' (by omega)⟩
        | plain p => exact ⟨p, plain_mem_parentsOfBases _ hb, ih p hu d'' (by omega)⟩

/-! ### which bases the loop runs over -/

theorem subscripted_plain (q : Nat) (r : List BaseRef) : subscriptedBases (.plain q :: r) = subscriptedBases r := rfl

theorem subscripted_param (o : Nat) (a : List TArg) (r : List BaseRef) :
    subscriptedBases (.param o a :: r) = .param o a :: subscriptedBases r := rfl

theorem mixinBases_plain (t : Table) (d : Nat) (n : String) (q : Nat) (r : List BaseRef) :
    mixinBases t d n (.plain q :: r) = mixinBases t d n r := by
  simp [mixinBases, subscripted_plain]

theorem mixinBases_param (t : Table) (d : Nat) (n : String) (o : Nat) (a : List TArg) (r : List BaseRef) :
    mixinBases t d n (.param o a :: r) =
      if derives t (libClassId n) d o then .param o a :: mixinBases t d n r else mixinBases t d n r := by
  simp [mixinBases, subscripted_param, List.filter_cons, BaseRef.origin]

/-- no subscripted base is a GenericMixin class: `mixin_bases` is empty -/
theorem mixinBases_none {t : Table} (hwf : WF t) (d0 d' : Nat) : ∀ (bs : List BaseRef), bs.filterMap genericOf = [] →
    ((bs.filterMap paramOf).all fun q => foreign t d0 q.1) = true → mixinBases t d' "GenericMixin" bs = [] := by
  intro bs
  induction bs with
  | nil => intro _ _; rfl
  | cons x r ih =>
    intro hg hall
    cases x with
    | generic tvs => simp [genericOf] at hg
    | plain q =>
      rw [mixinBases_plain]
      exact ih (by simpa [genericOf, List.filterMap_cons] using hg) (by simpa [paramOf, List.filterMap_cons] using hall)
    | param o a =>
      simp only [paramOf, List.filterMap_cons, List.all_cons, Bool.and_eq_true] at hall
      have hnd : derives t (libClassId "GenericMixin") d' o = false := foreign_not_derives hwf d0 o hall.1 d'
      rw [mixinBases_param, hnd]
      exact ih (by simpa [genericOf, List.filterMap_cons] using hg) hall.2

/-- exactly one subscripted base is a GenericMixin class and the others are foreign to it: `mixin_bases` is that one base -/
theorem mixinBases_select {t : Table} (hwf : WF t) {d0 b : Nat} {args : List TArg} (d' : Nat) (hd : d0 ≤ d') :
    ∀ (bs : List BaseRef), bs.filterMap genericOf = [] →
      ((bs.filterMap paramOf).filter fun q => usesMixin t d0 q.1) = [(b, args)] →
      ((bs.filterMap paramOf).all fun q => usesMixin t d0 q.1 || foreign t d0 q.1) = true →
      mixinBases t d' "GenericMixin" bs = [.param b args] := by
  intro bs
  induction bs with
  | nil => intro _ hp; simp at hp
  | cons x r ih =>
    intro hg hsel hall
    cases x with
    | generic tvs => simp [genericOf] at hg
    | plain q =>
      rw [mixinBases_plain]
      exact ih (by simpa [genericOf, List.filterMap_cons] using hg) (by simpa [paramOf, List.filterMap_cons] using hsel)
        (by simpa [paramOf, List.filterMap_cons] using hall)
    | param o a =>
      have hg' : r.filterMap genericOf = [] := by simpa [genericOf, List.filterMap_cons] using hg
      simp only [paramOf, List.filterMap_cons, List.all_cons, Bool.and_eq_true] at hall
      simp only [paramOf, List.filterMap_cons, List.filter_cons] at hsel
      rw [mixinBases_param]
      by_cases hu : usesMixin t d0 o = true
      · simp only [hu, ↓reduceIte, List.cons.injEq, Prod.mk.injEq] at hsel
        obtain ⟨⟨rfl, rfl⟩, hrest⟩ := hsel
        have hder : derives t (libClassId "GenericMixin") d' o = true := usesMixin_derives d0 o hu d' hd
        have hfor : ((r.filterMap paramOf).all fun q => foreign t d0 q.1) = true := by
          rw [List.all_eq_true]
          intro q hq
          have h1 := (List.all_eq_true.mp hall.2) q hq
          have h2 : usesMixin t d0 q.1 = false := by
            have : q ∉ (r.filterMap paramOf).filter fun q => usesMixin t d0 q.1 := by rw [hrest]; simp
            simpa [List.mem_filter, hq] using this
          simpa [h2] using h1
        rw [hder, mixinBases_none hwf d0 d' r hg' hfor]; rfl
      · have hu' : usesMixin t d0 o = false := by simpa using hu
        have hf : foreign t d0 o = true := by simpa [hu'] using hall.1
        have hnd : derives t (libClassId "GenericMixin") d' o = false := foreign_not_derives hwf d0 o hf d'
        simp only [hu', Bool.false_eq_true, ↓reduceIte] at hsel
        rw [hnd]
        exact ih hg' hsel hall.2

/-- **mixin bases win over foreign ones**: as soon as one subscripted base is a GenericMixin class, the loop runs over the subscripted
    GenericMixin bases only — whatever other subscripted bases there are, generic or not, before or after them (commit 2c5b09b;
    without the preference the loop runs over all subscripted bases and this fails) -/
theorem mixin_bases_win (t : Table) (d : Nat) (bs : List BaseRef) (h : mixinBases t d "GenericMixin" bs ≠ []) :
    loopCandidates t d bs = mixinBases t d "GenericMixin" bs ∧
    ∀ b ∈ loopCandidates t d bs, derives t mixinId d b.origin = true := by
  have h1 : loopCandidates t d bs = mixinBases t d "GenericMixin" bs := by
    simp [loopCandidates, loopPrefersOriginsDerivedFrom, loopFallsBackToAll, h]
  refine ⟨h1, ?_⟩
  intro b hb
  rw [h1] at hb
  simpa [mixinBases, libClassId, mixinId] using (List.mem_filter.mp hb).2

/-- … and only when NO subscripted base is a GenericMixin class does it run over all of them (commit 148d517: `mixin_bases or
    subscripted_bases`; with `mixin_bases` alone the loop would find nothing) -/
theorem no_mixin_base_all_subscripted (t : Table) (d : Nat) (bs : List BaseRef) (h : mixinBases t d "GenericMixin" bs = []) :
    loopCandidates t d bs = subscriptedBases bs := by
  simp [loopCandidates, loopPrefersOriginsDerivedFrom, loopFallsBackToAll, h]

/-- **the loop selects the GenericMixin base, wherever it stands**: among bases without `Generic[…]`, with exactly one subscripted
    base `B[args]` that is a GenericMixin class (whose declarations show `Generic[g]`) and every other subscripted base foreign to
    GenericMixin, the loop answers `(g, args)` — the foreign bases are not even looked at -/
theorem loop_select {t : Table} (hwf : WF t) {d0 b : Nat} {args g : List TArg} {bs' : List BaseRef} (d' : Nat) (hd : d0 ≤ d')
    (hl : lookupOrigBases t d' b = some bs') (hgb : genericBases bs' = [g]) :
    ∀ (bs : List BaseRef), bs.filterMap genericOf = [] →
      ((bs.filterMap paramOf).filter fun q => usesMixin t d0 q.1) = [(b, args)] →
      ((bs.filterMap paramOf).all fun q => usesMixin t d0 q.1 || foreign t d0 q.1) = true →
      loopCandidates t d' bs = [.param b args] ∧ loopBases t d' (loopCandidates t d' bs) = .found g args := by
  intro bs hg hsel hall
  have hm := mixinBases_select hwf d' hd bs hg hsel hall
  have hc : loopCandidates t d' bs = [.param b args] := by
    rw [(mixin_bases_win t d' bs (by rw [hm]; simp)).1, hm]
  exact ⟨hc, by simp [hc, loopBases, hl, getGenericBase, hgb, pickIdx, genericBaseIndex]⟩

/-- **order independence**: the answer of the loop does not depend on where the subscripted bases that are foreign to GenericMixin
    (and the plain mixins) stand — any permutation of such a list of bases is answered alike -/
theorem loop_order_independent {t : Table} (hwf : WF t) {d0 b : Nat} {args g : List TArg} {bs' : List BaseRef} (d' : Nat) (hd : d0 ≤ d')
    (hl : lookupOrigBases t d' b = some bs') (hgb : genericBases bs' = [g]) (bs₁ bs₂ : List BaseRef) (hperm : bs₁.Perm bs₂)
    (hg : bs₁.filterMap genericOf = [])
    (hsel : ((bs₁.filterMap paramOf).filter fun q => usesMixin t d0 q.1) = [(b, args)])
    (hall : ((bs₁.filterMap paramOf).all fun q => usesMixin t d0 q.1 || foreign t d0 q.1) = true) :
    loopBases t d' (loopCandidates t d' bs₂) = loopBases t d' (loopCandidates t d' bs₁) ∧
    loopBases t d' (loopCandidates t d' bs₁) = .found g args := by
  have h1 := (loop_select hwf d' hd hl hgb bs₁ hg hsel hall).2
  have hg2 : bs₂.filterMap genericOf = [] := by
    have := (hperm.filterMap genericOf); rw [hg] at this; exact List.perm_nil.mp this.symm
  have hp := hperm.filterMap paramOf
  have hsel2 : ((bs₂.filterMap paramOf).filter fun q => usesMixin t d0 q.1) = [(b, args)] := by
    have := hp.filter (fun q => usesMixin t d0 q.1); rw [hsel] at this
    exact List.perm_singleton.mp this.symm
  have hall2 : ((bs₂.filterMap paramOf).all fun q => usesMixin t d0 q.1 || foreign t d0 q.1) = true := by
    rw [List.all_eq_true] at hall ⊢
    intro q hq; exact hall q (hp.mem_iff.mpr hq)
  exact ⟨(loop_select hwf d' hd hl hgb bs₂ hg2 hsel2 hall2).2.trans h1.symm, h1⟩

theorem lookup_nonGeneric {t : Table} {d0 o : Nat} (h : nonGeneric t d0 o = true) (d' : Nat) : lookupOrigBases t d' o = none := by
  simp only [lookupOrigBases]
  apply List.findSome?_eq_none_iff.mpr
  intro x hx
  exact nonGeneric_lookup d0 o h d' x hx

/-- **no GenericMixin base: the one subscripted base with a generic-class origin is selected**, wherever it stands — subscripted bases
    whose origin has no `__orig_bases__` (`Sequence[int]`, `list[int]`) are passed over instead of ending in AttributeError -/
theorem loop_foreign_select {t : Table} {d0 b : Nat} {args g : List TArg} {bs' : List BaseRef} (d' : Nat)
    (hl : lookupOrigBases t d' b = some bs') (hgb : genericBases bs' = [g]) :
    ∀ (bs : List BaseRef), bs.filterMap genericOf = [] →
      ((bs.filterMap paramOf).filter fun q => !nonGeneric t d0 q.1) = [(b, args)] →
      loopBases t d' (subscriptedBases bs) = .found g args := by
  intro bs
  induction bs with
  | nil => intro _ hp; simp at hp
  | cons x r ih =>
    intro hg hsel
    cases x with
    | generic tvs => simp [genericOf] at hg
    | plain q =>
      rw [subscripted_plain]
      exact ih (by simpa [genericOf, List.filterMap_cons] using hg) (by simpa [paramOf, List.filterMap_cons] using hsel)
    | param o a =>
      simp only [paramOf, List.filterMap_cons, List.filter_cons] at hsel
      rw [subscripted_param]
      by_cases hn : nonGeneric t d0 o = true
      · simp only [hn, Bool.not_true, Bool.false_eq_true, ↓reduceIte] at hsel
        simp only [loopBases, loopSkipsOriginsWithoutOrigBases, lookup_nonGeneric hn d', Option.isNone_none, Bool.and_self, ↓reduceIte]
        exact ih (by simpa [genericOf, List.filterMap_cons] using hg) hsel
      · have hn' : nonGeneric t d0 o = false := by simpa using hn
        simp only [hn', Bool.not_false, ↓reduceIte, List.cons.injEq, Prod.mk.injEq] at hsel
        obtain ⟨⟨rfl, rfl⟩, _⟩ := hsel
        simp [loopBases, hl, getGenericBase, hgb, pickIdx, genericBaseIndex]

/-- a class of kind `bound` finds bases without `Generic[…]`, and the loop over them stops at `B[args]` -/
theorem kind_bound {t : Table} (hwf : WF t) : ∀ (d c : Nat) (m : List (TArg × TArg)), kindOf t d c = .bound m →
    ∃ bs tvs args, m = pairUp tvs args ∧ tvs.Nodup ∧ genericBases bs = [] ∧
      (∀ d', d ≤ d' → lookupOrigBases t d' c = some bs) ∧
      (∀ d', d ≤ d' → loopBases t d' (loopCandidates t d' bs) = .found (tvs.map TArg.tv) args) := by
  intro d
  induction d with
  | zero => intro c m h; simp [kindOf] at h
  | succ d ih =>
    intro c m h
    simp only [kindOf] at h
    split at h
    · split at h <;> simp at h
    · rename_i p ps' hg hp
      have hown : ∀ d', lookupOrigBases t d' c = some (basesOf t c) := by
        intro d'
        apply lookup_own
        have : (basesOf t c).any BaseRef.isAlias = true := any_alias_of_param (p := p) (by simp [hp])
        simp [ownOrigBases, this]
      split at h
      · -- exactly one subscripted GenericMixin base
        rename_i b args hsel
        split at h
        · rename_i tvs hk
          split at h
          · rename_i hc
            injection h with h; subst h
            simp only [Bool.and_eq_true, decide_eq_true_eq] at hc
            rcases kind_direct hwf d b tvs hk with ⟨hnd, bs', hgb, hl⟩
            refine ⟨basesOf t c, tvs, args, rfl, hnd, by simp [genericBases_eq, hg], fun d' _ => hown d', ?_⟩
            intro d' hd'
            exact (loop_select (d0 := d) hwf d' (by omega) (hl d' (by omega)) hgb _ hg (by rw [hp]; exact hsel)
              (by rw [hp]; exact hc.1.1.2)).2
          · simp at h
        · simp at h
      · -- no subscripted GenericMixin base: the one subscripted base with a generic-class origin
        rename_i hsel0
        split at h
        · rename_i b args hsel
          split at h
          · rename_i tvs hk
            split at h
            · rename_i hc
              injection h with h; subst h
              simp only [Bool.and_eq_true, decide_eq_true_eq] at hc
              rcases kind_direct hwf d b tvs hk with ⟨hnd, bs', hgb, hl⟩
              refine ⟨basesOf t c, tvs, args, rfl, hnd, by simp [genericBases_eq, hg], fun d' _ => hown d', ?_⟩
              intro d' hd'
              have hm := mixinBases_none hwf d d' (basesOf t c) hg (by rw [hp]; exact hc.1.1.2)
              rw [no_mixin_base_all_subscripted t d' _ hm]
              exact loop_foreign_select (d0 := d) d' (hl d' (by omega)) hgb _ hg (by rw [hp]; exact hsel)
            · simp at h
          · simp at h
        · simp at h
      · simp at h
    · split at h
      · rename_i b hb
        rcases ih b m h with ⟨bs, tvs, args, hm, hnd, hgb, hl, hloop⟩
        refine ⟨bs, tvs, args, hm, hnd, hgb, ?_, fun d' hd' => hloop d' (by omega)⟩
        intro d' hd'
        cases d' with
        | zero => omega
        | succ d'' =>
          rw [lookup_plain_single hwf d'' c b hb]
          exact hl d'' (by omega)
      · split at h <;> simp at h
    · simp at h

/-! ## the dictionary that is returned -/

theorem dictInsert_fresh {κ ν : Type} [DecidableEq κ] (k : κ) (v : ν) :
    ∀ (l : List (κ × ν)), k ∉ l.map Prod.fst → dictInsert k v l = l ++ [(k, v)] := by
  intro l
  induction l with
  | nil => intro _; rfl
  | cons x r ih =>
    intro h
    obtain ⟨k', v'⟩ := x
    simp only [List.map_cons, List.mem_cons, not_or] at h
    simp only [dictInsert]
    rw [if_neg (fun e => h.1 e.symm), ih h.2]
    rfl

theorem foldl_dictInsert {κ ν : Type} [DecidableEq κ] :
    ∀ (l acc : List (κ × ν)), ((acc ++ l).map Prod.fst).Nodup →
      l.foldl (fun d kv => dictInsert kv.1 kv.2 d) acc = acc ++ l := by
  intro l
  induction l with
  | nil => intro acc _; simp
  | cons x r ih =>
    intro acc h
    have hx : x.1 ∉ acc.map Prod.fst := by
      intro hm
      simp only [List.map_append, List.map_cons] at h
      have := (List.nodup_append.mp h).2.2 x.1 hm x.1 (List.mem_cons_self ..)
      exact this rfl
    simp only [List.foldl_cons]
    rw [dictInsert_fresh _ _ _ hx, ih]
    · simp
    · simpa using h

theorem dictOfPairs_nodup {κ ν : Type} [DecidableEq κ] (l : List (κ × ν)) (h : (l.map Prod.fst).Nodup) :
    dictOfPairs l = l := by
  simpa [dictOfPairs] using foldl_dictInsert l [] (by simpa using h)

theorem zip_eq_pairUp : ∀ (tvs : List Nat) (args : List TArg), (tvs.map TArg.tv).zip args = pairUp tvs args := by
  intro tvs
  induction tvs with
  | nil => intro args; simp [pairUp]
  | cons a r ih =>
    intro args
    cases args with
    | nil => simp [pairUp]
    | cons x xs => simp [pairUp, ih]

theorem mem_pairUp_keys : ∀ (tvs : List Nat) (args : List TArg) (k : TArg),
    k ∈ (pairUp tvs args).map Prod.fst → ∃ a ∈ tvs, k = .tv a := by
  intro tvs
  induction tvs with
  | nil => intro args k h; simp [pairUp] at h
  | cons a r ih =>
    intro args k h
    cases args with
    | nil => simp [pairUp] at h
    | cons x xs =>
      simp only [pairUp, List.map_cons, List.mem_cons] at h
      rcases h with rfl | h
      · exact ⟨a, List.mem_cons_self .., rfl⟩
      · rcases ih xs k h with ⟨b, hb, rfl⟩
        exact ⟨b, List.mem_cons_of_mem _ hb, rfl⟩

theorem pairUp_nodup : ∀ (tvs : List Nat) (args : List TArg), tvs.Nodup → ((pairUp tvs args).map Prod.fst).Nodup := by
  intro tvs
  induction tvs with
  | nil => intro args _; simp [pairUp]
  | cons a r ih =>
    intro args h
    cases args with
    | nil => simp [pairUp]
    | cons x xs =>
      simp only [pairUp, List.map_cons]
      refine List.nodup_cons.mpr ⟨?_, ih xs (List.nodup_cons.mp h).2⟩
      intro hm
      rcases mem_pairUp_keys r xs _ hm with ⟨b, hb, he⟩
      injection he with he
      subst he
      exact (List.nodup_cons.mp h).1 hb

/-- with distinct type variables the returned dict is the substitution `Ti ↦ Xi`, in order -/
theorem mkDict_eq (tvs : List Nat) (args : List TArg) (h : tvs.Nodup) :
    mkDict (tvs.map TArg.tv) args = pairUp tvs args := by
  simp only [mkDict, keysFromGenericBase, valsFromActualTypes, ↓reduceIte, zip_eq_pairUp]
  exact dictOfPairs_nodup _ (pairUp_nodup tvs args h)

/-! ## property theorems: GenericMixin -/

/-- **type_vars is exactly {Ti: Xi}** on every supported shape: whenever the declarations put the instance into a
    supported shape with expected mapping `m`, `_get_types` returns `m` — for every table, every number of type
    parameters, every list of type arguments, every depth of plain subclassing, extra mixin bases in any order. -/
theorem type_vars_exact {t : Table} (hwf : WF t) (d c : Nat) (orig : Option (List TArg)) (m : List (TArg × TArg))
    (h : expectedOutcome t d c orig = .ok m) : getTypes t d c orig = .ok m := by
  simp only [expectedOutcome] at h
  split at h
  · simp at h
  · rename_i tvs hk
    rcases kind_direct hwf d c tvs hk with ⟨hnd, bs, hgb, hl⟩
    split at h
    · simp at h
    · rename_i args
      split at h
      · injection h with h; subst h
        simp [getTypes, hl d (Nat.le_refl _), selfHas, nonGenericGuardAttr, unparamGuardAttr, getGenericBase, hgb,
          pickIdx, genericBaseIndex, mkDict_eq _ _ hnd]
      · simp at h
  · rename_i m' hk
    injection h with h; subst h
    rcases kind_bound hwf d c m' hk with ⟨bs, tvs, args, rfl, hnd, hgb, hl, hloop⟩
    simp [getTypes, hl d (Nat.le_refl _), selfHas, nonGenericGuardAttr, getGenericBase, hgb,
      hloop d (Nat.le_refl _), mkDict_eq _ _ hnd]
  · simp at h

/-- **use on a non-generic class raises AssertionError** (whatever `__orig_class__` says) -/
theorem non_generic_asserts {t : Table} (d c : Nat) (orig : Option (List TArg)) (h : kindOf t d c = .nonGeneric) :
    getTypes t d c orig = .raised .nonGeneric "AssertionError" := by
  have hn : lookupOrigBases t d c = none := by
    simp only [lookupOrigBases]
    apply List.findSome?_eq_none_iff.mpr
    intro x hx
    exact nonGeneric_lookup d c (kind_nonGeneric d c h) d x hx
  simp [getTypes, hn, selfHas, nonGenericGuardAttr, nonGenericExc]

/-- **an unparametrised instance of a generic class raises AssertionError** -/
theorem unparametrised_asserts {t : Table} (hwf : WF t) (d c : Nat) (tvs : List Nat) (h : kindOf t d c = .direct tvs) :
    getTypes t d c none = .raised .unparam "AssertionError" := by
  rcases kind_direct hwf d c tvs h with ⟨_, bs, hgb, hl⟩
  simp [getTypes, hl d (Nat.le_refl _), selfHas, nonGenericGuardAttr, unparamGuardAttr, unparamExc, getGenericBase, hgb,
    pickIdx, genericBaseIndex]

/-- both refusals in one statement: where the property demands an AssertionError, that is what is raised -/
theorem must_assert {t : Table} (hwf : WF t) (d c : Nat) (orig : Option (List TArg))
    (h : expectedOutcome t d c orig = .mustAssert) : ∃ s, getTypes t d c orig = .raised s "AssertionError" := by
  simp only [expectedOutcome] at h
  split at h
  · rename_i hk; exact ⟨_, non_generic_asserts d c orig hk⟩
  · rename_i tvs hk
    split at h
    · exact ⟨_, unparametrised_asserts hwf d c tvs hk⟩
    · split at h <;> simp at h
  · simp at h
  · simp at h

/-- **type_var is X1 when n = 1** -/
theorem type_var_single {t : Table} (hwf : WF t) (d c : Nat) (orig : Option (List TArg)) (k x : TArg)
    (h : expectedOutcome t d c orig = .ok [(k, x)]) : typeVar (getTypes t d c orig) = .ok x := by
  rw [type_vars_exact hwf d c orig _ h]
  simp [typeVar, typeVarLenOk, typeVarIndex]

/-- … and with any other number of parameters `type_var` refuses with AssertionError -/
theorem type_var_multiple {t : Table} (hwf : WF t) (d c : Nat) (orig : Option (List TArg)) (m : List (TArg × TArg))
    (h : expectedOutcome t d c orig = .ok m) (hn : m.length ≠ 1) :
    typeVar (getTypes t d c orig) = .raised .multiple "AssertionError" := by
  rw [type_vars_exact hwf d c orig _ h]
  simp [typeVar, typeVarLenOk, hn]

/-- **a directly generic class with extra parametrised mixin bases** — `class Box(Labelled[str], Generic[T], GenericMixin)`,
    `class Box(Generic[T1, T2], GenericMixin, Sequence[T1], Labelled[bytes])`, … — stated on the declarations themselves: the
    class lists exactly one `Generic[T1..Tn]` (distinct variables) at ANY position among its bases, its plain bases are
    non-generic, and its other subscripted bases — any number of them, before or after `Generic[…]`, with any arguments — are
    classes that know nothing about `GenericMixin`.  Then `Cls[X1..Xn]()` reports exactly `{Ti: Xi}` (never the type arguments
    of a mixin), and the unparametrised `Cls()` raises AssertionError instead of returning data. -/
theorem direct_with_parametrised_mixins {t : Table} (hwf : WF t) (d c : Nat) (tvs : List Nat) (args : List TArg)
    (hg : (basesOf t c).filterMap genericOf = [tvs]) (hnd : tvs.Nodup)
    (hpl : ((basesOf t c).filterMap plainOf).all (nonGeneric t d) = true)
    (hpar : ((basesOf t c).filterMap paramOf).all (fun p => foreign t d p.1) = true)
    (hlen : args.length = tvs.length) :
    getTypes t (d + 1) c (some args) = .ok (pairUp tvs args) ∧
    getTypes t (d + 1) c none = .raised .unparam "AssertionError" := by
  have hk : kindOf t (d + 1) c = .direct tvs := by simp [kindOf, hg, hnd, hpl, hpar]
  refine ⟨type_vars_exact hwf (d + 1) c (some args) _ ?_, unparametrised_asserts hwf (d + 1) c tvs hk⟩
  simp [expectedOutcome, hk, hlen]

/-- **a subclass that binds all parameters of its generic base, with further subscripted bases at any position** — stated on the
    declarations themselves: the class lists no `Generic[…]`; exactly one of its subscripted bases, `B[X1..Xn]`, is a GenericMixin
    class (`B` declares `Generic[T1..Tn]`, or is a plain subclass of such a class), with as many arguments as `B` has parameters, all
    of them types; every other subscripted base — `Labelled[str]`, `Sequence[int]`, `list[int]`, any number of them, BEFORE or AFTER
    `B[…]` — has nothing to do with GenericMixin; the plain bases are non-generic.  Then `type_vars` is exactly `{Ti: Xi}` of `B[…]`,
    however the instance was created.  The hypotheses speak about the bases through `filterMap` / `filter` / `all` only: they do not
    see the order of the bases, so the position of the foreign subscripted bases does not matter (`class Odd(Labelled[str], Box[int])`
    and `class Even(Box[int], Labelled[str])` alike). -/
theorem binding_subclass_foreign_bases_any_position {t : Table} (hwf : WF t) (d c b : Nat) (tvs : List Nat)
    (args : List TArg) (orig : Option (List TArg))
    (hb : kindOf t d b = .direct tvs)
    (hg : (basesOf t c).filterMap genericOf = [])
    (hsel : ((basesOf t c).filterMap paramOf).filter (fun q => usesMixin t d q.1) = [(b, args)])
    (hfor : ((basesOf t c).filterMap paramOf).all (fun q => usesMixin t d q.1 || foreign t d q.1) = true)
    (hpl : ((basesOf t c).filterMap plainOf).all (nonGeneric t d) = true)
    (hlen : args.length = tvs.length) (hty : args.all TArg.isTy = true) :
    getTypes t (d + 1) c orig = .ok (pairUp tvs args) := by
  apply type_vars_exact hwf
  cases hps : (basesOf t c).filterMap paramOf with
  | nil => rw [hps] at hsel; simp at hsel
  | cons p ps' =>
    rw [hps] at hsel hfor
    simp only [expectedOutcome, kindOf, hg, hps, hsel, hb, hpl, hfor, hlen, hty, Bool.and_self, decide_true, ↓reduceIte]

/-- **a class that binds all parameters of an ordinary generic class and adds GenericMixin itself** — `class IntL(Labelled[int],
    GenericMixin)`, `class IntL2(GenericMixin, Labelled[int])`, `class X(Sequence[int], Labelled[int], GenericMixin)` — stated on the
    declarations themselves: the class lists no `Generic[…]`; none of its subscripted bases is a GenericMixin class; GenericMixin is
    among its plain bases (directly or through a plain non-generic class), at any position; exactly one subscripted base, `B[X1..Xn]`,
    has an origin in whose ancestry something is subscripted — and `B` is a generic class (declares `Generic[T1..Tn]`, or is a plain
    subclass of such a class) with all parameters bound to types; every other subscripted base (`Sequence[int]`, `list[int]`, any
    number, before or after `B[…]`) has nothing subscripted in its ancestry.  Then `type_vars` is exactly `{Ti: Xi}` of `B[…]`.
    As above, the hypotheses do not see the order of the bases. -/
theorem binding_of_foreign_generic_base {t : Table} (hwf : WF t) (d c b : Nat) (tvs : List Nat)
    (args : List TArg) (orig : Option (List TArg))
    (hb : kindOf t d b = .direct tvs)
    (hg : (basesOf t c).filterMap genericOf = [])
    (hnomix : ((basesOf t c).filterMap paramOf).filter (fun q => usesMixin t d q.1) = [])
    (hsel : ((basesOf t c).filterMap paramOf).filter (fun q => !nonGeneric t d q.1) = [(b, args)])
    (hfor : ((basesOf t c).filterMap paramOf).all (fun q => foreign t d q.1) = true)
    (hpl : ((basesOf t c).filterMap plainOf).all (nonGeneric t d) = true)
    (hmix : ((basesOf t c).filterMap plainOf).any (usesMixin t d) = true)
    (hlen : args.length = tvs.length) (hty : args.all TArg.isTy = true) :
    getTypes t (d + 1) c orig = .ok (pairUp tvs args) := by
  apply type_vars_exact hwf
  cases hps : (basesOf t c).filterMap paramOf with
  | nil => rw [hps] at hsel; simp at hsel
  | cons p ps' =>
    rw [hps] at hsel hfor hnomix
    simp only [expectedOutcome, kindOf, hg, hps, hnomix, hsel, hb, hpl, hmix, hfor, hlen, hty, Bool.and_self, decide_true, ↓reduceIte]

/-- the same with `B[…]` as the only subscripted base: `class IntBox(Box[int])`, plain non-generic mixins around it -/
theorem binding_subclass_of_direct_with_parametrised_mixins {t : Table} (hwf : WF t) (d c b : Nat) (tvs : List Nat)
    (args : List TArg) (orig : Option (List TArg))
    (hb : kindOf t d b = .direct tvs) (hu : usesMixin t d b = true)
    (hg : (basesOf t c).filterMap genericOf = []) (hp : (basesOf t c).filterMap paramOf = [(b, args)])
    (hpl : ((basesOf t c).filterMap plainOf).all (nonGeneric t d) = true)
    (hlen : args.length = tvs.length) (hty : args.all TArg.isTy = true) :
    getTypes t (d + 1) c orig = .ok (pairUp tvs args) :=
  binding_subclass_foreign_bases_any_position hwf d c b tvs args orig hb hg (by simp [hp, hu]) (by simp [hp, hu]) hpl hlen hty

/-- **order independence, on whole class tables**: two tables that differ in nothing but the ORDER in which one binding subclass
    lists its bases (same classes everywhere else, the bases of that class a permutation) give the same `type_vars` — whenever the
    interpreter accepts both (`WF`) and the declarations of one of them are in the shape of the theorem above -/
theorem type_vars_order_independent {t₁ t₂ : Table} (hwf₁ : WF t₁) (hwf₂ : WF t₂) (d c b : Nat) (tvs : List Nat)
    (args : List TArg) (orig : Option (List TArg))
    (hperm : (basesOf t₁ c).Perm (basesOf t₂ c))
    (hb₁ : kindOf t₁ d b = .direct tvs) (hb₂ : kindOf t₂ d b = .direct tvs)
    (hu : ∀ q, usesMixin t₂ d q = usesMixin t₁ d q) (hf : ∀ q, foreign t₂ d q = foreign t₁ d q)
    (hn : ∀ q, nonGeneric t₂ d q = nonGeneric t₁ d q)
    (hg : (basesOf t₁ c).filterMap genericOf = [])
    (hsel : ((basesOf t₁ c).filterMap paramOf).filter (fun q => usesMixin t₁ d q.1) = [(b, args)])
    (hfor : ((basesOf t₁ c).filterMap paramOf).all (fun q => usesMixin t₁ d q.1 || foreign t₁ d q.1) = true)
    (hpl : ((basesOf t₁ c).filterMap plainOf).all (nonGeneric t₁ d) = true)
    (hlen : args.length = tvs.length) (hty : args.all TArg.isTy = true) :
    getTypes t₂ (d + 1) c orig = getTypes t₁ (d + 1) c orig := by
  rw [binding_subclass_foreign_bases_any_position hwf₁ d c b tvs args orig hb₁ hg hsel hfor hpl hlen hty]
  have hp := hperm.filterMap paramOf
  apply binding_subclass_foreign_bases_any_position hwf₂ d c b tvs args orig hb₂
  · have := hperm.filterMap genericOf; rw [hg] at this; exact List.perm_nil.mp this.symm
  · have := hp.filter (fun q => usesMixin t₁ d q.1); rw [hsel] at this
    simpa [hu] using List.perm_singleton.mp this.symm
  · rw [List.all_eq_true] at hfor ⊢
    intro q hq; simpa [hu, hf] using hfor q (hp.mem_iff.mpr hq)
  · have hq := hperm.filterMap plainOf
    rw [List.all_eq_true] at hpl ⊢
    intro q hq'; simpa [hn] using hpl q (hq.mem_iff.mpr hq')
  · exact hlen
  · exact hty

/-! ## create_decorator -/

theorem dictGet_insert {κ ν : Type} [DecidableEq κ] (k k' : κ) (v : ν) :
    ∀ (d : List (κ × ν)), dictGet k (dictInsert k' v d) = if k' = k then some v else dictGet k d := by
  intro d
  induction d with
  | nil => simp [dictInsert, dictGet]
  | cons x r ih =>
    obtain ⟨k0, v0⟩ := x
    simp only [dictInsert]
    by_cases h0 : k0 = k'
    · subst h0; simp only [↓reduceIte, dictGet]; split <;> rfl
    · simp only [h0, ↓reduceIte, dictGet, ih]
      by_cases h1 : k0 = k
      · subst h1; simp [Ne.symm h0]
      · simp [h1]

theorem applyApps_dict_aux (k : Key) : ∀ (apps : List App) (s : FState), (∀ a ∈ apps, a.tr ≠ Tr.fresh) →
    dictGet k (apps.foldl applyOne s).dict =
      (match outermost k apps with | some v => some v | none => dictGet k s.dict) := by
  intro apps
  induction apps with
  | nil => intro s _; simp [outermost]
  | cons a r ih =>
    intro s h
    have ha := h a (List.mem_cons_self ..)
    have hr : ∀ b ∈ r, b.tr ≠ Tr.fresh := fun b hb => h b (List.mem_cons_of_mem _ hb)
    simp only [List.foldl_cons, outermost]
    rw [ih _ hr]
    cases ho : outermost k r with
    | some v => rfl
    | none =>
      have hd : dictGet k (applyOne s a).dict = if a.ty = k then some a.val else dictGet k s.dict := by
        cases htr : a.tr <;> simp_all [applyOne, setattrKeyRole, setattrValRole, roleNat, dictGet_insert]
      simp only [hd]
      split <;> rfl

/-- with attribute-preserving transformations the function object that ends up in the class carries, for every key,
    the argument of the outermost application of that key — and nothing for keys never applied -/
theorem applyApps_dict (k : Key) (apps : List App) (h : ∀ a ∈ apps, a.tr ≠ Tr.fresh) :
    dictGet k (applyApps apps).dict = outermost k apps := by
  have := applyApps_dict_aux k apps ⟨0, [], []⟩ h
  simp only [applyApps, this]
  cases outermost k apps <;> rfl

theorem journal_aux : ∀ (apps : List App) (s : FState),
    (apps.foldl applyOne s).journal = s.journal ++ expectedCalls s.gen apps := by
  intro apps
  induction apps with
  | nil => intro s; simp [expectedCalls]
  | cons a r ih =>
    intro s
    simp only [List.foldl_cons, ih]
    cases htr : a.tr <;>
      simp [applyOne, htr, expectedCalls, transformationArgs, roleArg, List.append_assoc]

/-- **a custom transformation receives (function, type, value)**: for every stack of applications, every
    transformation is called exactly once, in application order, with the function object it has to wrap (the `def`
    or the wrapper returned by the previous transformation), the decorator type and the decorator argument -/
theorem transformation_receives_f_type_value (apps : List App) :
    (applyApps apps).journal = expectedCalls 0 apps := by
  simpa [applyApps] using journal_aux apps ⟨0, [], []⟩

/-! ## the scan of `get_decorated_functions` -/

/-- what one (name, getattr-result) contributes to the inner dict of key `k` -/
def contrib (k : Key) (e : Name × Got) : Option (Attr × Val) :=
  if skipName e.1 then none else
  match e.2 with
  | .value a dict => (dictGet k dict).map fun v => (a, v)
  | .raises _ => none

/-- the inner dict of key `k` as the code builds it: one `d[a] = v` per contributing attribute -/
def rowFold (k : Key) (es : List (Name × Got)) (acc : List (Attr × Val)) : List (Attr × Val) :=
  es.foldl (fun acc e => match contrib k e with | some av => dictInsert av.1 av.2 acc | none => acc) acc

def rowOf (k : Key) (es : List (Name × Got)) : List (Attr × Val) := es.filterMap (contrib k)

def noRaise (es : List (Name × Got)) : Prop := ∀ e ∈ es, skipName e.1 = false → ∀ x, e.2 ≠ .raises x

theorem insertOuter_map (t : Key) (a : Attr) (v : Val) (g : Key → List (Attr × Val)) :
    ∀ (M : List Key), t ∈ M → M.Nodup →
      insertOuter t a v (M.map fun k => (k, g k)) =
        some (M.map fun k => (k, if k = t then dictInsert a v (g k) else g k)) := by
  intro M
  induction M with
  | nil => intro h; simp at h
  | cons m r ih =>
    intro hm hnd
    by_cases h : m = t
    · subst h
      have hr : ∀ k ∈ r, (if k = m then dictInsert a v (g k) else g k) = g k := by
        intro k hk
        have : k ≠ m := fun e => (List.nodup_cons.mp hnd).1 (e ▸ hk)
        simp [this]
      simp only [List.map_cons, insertOuter, ↓reduceIte]
      congr 2
      apply List.map_congr_left
      intro k hk
      rw [hr k hk]
    · have hm' : t ∈ r := by
        rcases List.mem_cons.mp hm with h1 | h1
        · exact absurd h1.symm h
        · exact h1
      simp only [List.map_cons, insertOuter, h, ↓reduceIte, ih hm' (List.nodup_cons.mp hnd).2, Option.map_some]

theorem scanMembers_map (a : Attr) (dict : List (Key × Val)) (M : List Key) (hM : M.Nodup) :
    ∀ (ms : List Key) (g : Key → List (Attr × Val)), ms.Nodup → (∀ k ∈ ms, k ∈ M) →
      scanMembers a dict ms (M.map fun k => (k, g k)) =
        some (M.map fun k => (k, if k ∈ ms then (match dictGet k dict with
                                                  | some v => dictInsert a v (g k)
                                                  | none => g k) else g k)) := by
  intro ms
  induction ms with
  | nil => intro g _ _; simp [scanMembers]
  | cons t ts ih =>
    intro g hnd hsub
    have ht : t ∈ M := hsub t (List.mem_cons_self ..)
    have hts : ∀ k ∈ ts, k ∈ M := fun k hk => hsub k (List.mem_cons_of_mem _ hk)
    have htn : t ∉ ts := (List.nodup_cons.mp hnd).1
    simp only [scanMembers]
    cases hd : dictGet t dict with
    | none =>
      simp only [ih g (List.nodup_cons.mp hnd).2 hts]
      congr 1
      apply List.map_congr_left
      intro k _
      by_cases hk : k = t
      · subst hk; simp [htn, hd]
      · simp [hk]
    | some v =>
      simp only [insertOuter_map t a v g M ht hM, Option.bind_some,
        ih (fun k => if k = t then dictInsert a v (g k) else g k) (List.nodup_cons.mp hnd).2 hts]
      congr 1
      apply List.map_congr_left
      intro k _
      by_cases hk : k = t
      · subst hk; simp [htn, hd]
      · simp [hk]

/-- the whole scan, for every enum and every view without a raising visible member: one inner dict per member,
    in member order, built by `d[a] = v` over the contributing attributes -/
theorem scanView_eq (M : List Key) (hM : M.Nodup) :
    ∀ (es : List (Name × Got)) (g : Key → List (Attr × Val)), noRaise es →
      scanView M es (M.map fun k => (k, g k)) = .ok (M.map fun k => (k, rowFold k es (g k))) := by
  intro es
  induction es with
  | nil => intro g _; simp [scanView, rowFold]
  | cons e r ih =>
    intro g hnr
    obtain ⟨n, got⟩ := e
    have hr : noRaise r := fun e he => hnr e (List.mem_cons_of_mem _ he)
    simp only [scanView]
    by_cases hs : skipName n = true
    · simp only [hs, ↓reduceIte, ih g hr]
      congr 1
      apply List.map_congr_left
      intro k _
      simp [rowFold, contrib, hs]
    · have hs' : skipName n = false := by simpa using hs
      simp only [hs', Bool.false_eq_true, ↓reduceIte]
      cases got with
      | raises x => exact absurd rfl (hnr (n, .raises x) (List.mem_cons_self ..) hs' x)
      | value a dict =>
        simp only [scanMembers_map a dict M hM M g hM (fun k hk => hk)]
        rw [ih _ hr]
        congr 1
        apply List.map_congr_left
        intro k hk
        simp only [hk, ↓reduceIte, rowFold, List.foldl_cons, contrib, hs', Bool.false_eq_true]
        cases dictGet k dict <;> rfl

theorem rowFold_eq : ∀ (k : Key) (es : List (Name × Got)) (acc : List (Attr × Val)),
    ((acc ++ rowOf k es).map Prod.fst).Nodup → rowFold k es acc = acc ++ rowOf k es := by
  intro k es
  induction es with
  | nil => intro acc _; simp [rowFold, rowOf]
  | cons e r ih =>
    intro acc h
    simp only [rowFold, List.foldl_cons, rowOf, List.filterMap_cons]
    cases hc : contrib k e with
    | none => simpa [rowFold, rowOf, hc] using ih acc (by simpa [rowOf, hc] using h)
    | some av =>
      have hx : av.1 ∉ acc.map Prod.fst := by
        intro hm
        simp only [rowOf, List.filterMap_cons, hc, List.map_append, List.map_cons] at h
        exact (List.nodup_append.mp h).2.2 av.1 hm av.1 (List.mem_cons_self ..) rfl
      simp only [dictInsert_fresh _ _ _ hx]
      have := ih (acc ++ [(av.1, av.2)]) (by simpa [rowOf, hc] using h)
      simpa [rowFold, rowOf] using this

/-! ## `dir(self)` / `getattr(self, name)` against the declarations -/

theorem mem_dedup : ∀ (l : List Name) (x : Name), x ∈ dedup l ↔ x ∈ l := by
  intro l
  induction l with
  | nil => intro x; simp [dedup]
  | cons y r ih =>
    intro x
    simp only [dedup, List.mem_cons, List.mem_filter, ih, decide_eq_true_eq]
    constructor
    · rintro (h | ⟨h, _⟩)
      · exact Or.inl h
      · exact Or.inr h
    · intro h
      by_cases hx : x = y
      · exact Or.inl hx
      · rcases h with h | h
        · exact Or.inl h
        · exact Or.inr ⟨h, hx⟩

theorem nodup_dedup : ∀ (l : List Name), (dedup l).Nodup := by
  intro l
  induction l with
  | nil => simp [dedup]
  | cons y r ih =>
    simp only [dedup]
    refine List.nodup_cons.mpr ⟨?_, List.Nodup.sublist List.filter_sublist ih⟩
    simp [List.mem_filter]

theorem find_of_mem_nodup (n : Name) (m : MemberDef) : ∀ (l : List (Name × MemberDef)), (l.map (·.1)).Nodup →
    (n, m) ∈ l → l.find? (fun p => p.1 = n) = some (n, m) := by
  intro l
  induction l with
  | nil => intro _ h; simp at h
  | cons y r ih =>
    intro hnd hm
    simp only [List.map_cons] at hnd
    rcases List.mem_cons.mp hm with h | h
    · subst h; simp
    · have hne : y.1 ≠ n := by
        intro e
        apply (List.nodup_cons.mp hnd).1
        rw [e]
        exact List.mem_map.mpr ⟨(n, m), h, rfl⟩
      simp only [List.find?_cons, hne, decide_false]
      exact ih (List.nodup_cons.mp hnd).2 h

theorem definesName_false {t : Table} {n : Name} {c : Nat} :
    definesName t n c = false ↔ (nsOf t c).find? (fun p => p.1 = n) = none := by
  simp [definesName, List.find?_eq_none]

theorem resolve_some {t : Table} {mro : List Nat} {n : Name} {c : Nat} {m : MemberDef}
    (h : resolve t mro n = some (c, m)) :
    ∃ p1 post, mro = p1 ++ c :: post ∧ (∀ c' ∈ p1, definesName t n c' = false) ∧ (n, m) ∈ nsOf t c := by
  rcases List.findSome?_eq_some_iff.mp h with ⟨l1, a, l2, hm, hf, hpre⟩
  cases hfind : (nsOf t a).find? (fun p => p.1 = n) with
  | none => simp [hfind] at hf
  | some p =>
    simp only [hfind, Option.map_some, Option.some.injEq, Prod.mk.injEq] at hf
    obtain ⟨rfl, rfl⟩ := hf
    have hp1 : p.1 = n := by simpa using List.find?_some hfind
    refine ⟨l1, l2, hm, ?_, ?_⟩
    · intro c' hc'
      have := hpre c' hc'
      apply definesName_false.mpr
      cases hq : (nsOf t c').find? (fun p => p.1 = n) with
      | none => rfl
      | some q => simp [hq] at this
    · have := List.mem_of_find?_eq_some hfind
      rw [← hp1]; exact this

theorem resolve_of {t : Table} {mro : List Nat} {n : Name} {c : Nat} {m : MemberDef} {p1 post : List Nat}
    (hm : mro = p1 ++ c :: post) (hpre : ∀ c' ∈ p1, definesName t n c' = false) (hmem : (n, m) ∈ nsOf t c)
    (hnd : ((nsOf t c).map (·.1)).Nodup) : resolve t mro n = some (c, m) := by
  apply List.findSome?_eq_some_iff.mpr
  refine ⟨p1, c, post, hm, ?_, ?_⟩
  · simp [find_of_mem_nodup n m _ hnd hmem]
  · intro c' hc'
    simp [definesName_false.mp (hpre c' hc')]

theorem mem_dirNames_of_resolve {t : Table} {mro : List Nat} {n : Name} {c : Nat} {m : MemberDef}
    (h : resolve t mro n = some (c, m)) : n ∈ dirNames t mro := by
  rcases resolve_some h with ⟨p1, post, hm, _, hmem⟩
  apply (mem_dedup _ _).mpr
  apply List.mem_flatMap.mpr
  exact ⟨c, by simp [hm], List.mem_map.mpr ⟨(n, m), hmem, rfl⟩⟩

theorem mem_rowOf_view {t : Table} {mro : List Nat} {x : TArg} {ca : List (Key × Val)} {k : Key} {a : Attr} {v : Val} :
    (a, v) ∈ rowOf k (view t mro x ca) ↔
      ∃ n c m dict, resolve t mro n = some (c, m) ∧ skipName n = false ∧
        getattrMember c n x ca m = .value a dict ∧ dictGet k dict = some v := by
  simp only [rowOf, view, List.mem_filterMap]
  constructor
  · rintro ⟨e, ⟨n, _, hn⟩, hc⟩
    cases hr : resolve t mro n with
    | none => simp [hr] at hn
    | some cm =>
      obtain ⟨c, m⟩ := cm
      simp only [hr, Option.map_some, Option.some.injEq] at hn
      subst hn
      simp only [contrib] at hc
      split at hc
      · simp at hc
      · rename_i hs
        split at hc
        · rename_i a' dict heq
          cases hd : dictGet k dict with
          | none => simp [hd] at hc
          | some v' =>
            simp only [hd, Option.map_some, Option.some.injEq, Prod.mk.injEq] at hc
            obtain ⟨rfl, rfl⟩ := hc
            exact ⟨n, c, m, dict, hr, by simpa using hs, heq, hd⟩
        · simp at hc
  · rintro ⟨n, c, m, dict, hr, hs, hg, hd⟩
    refine ⟨(n, getattrMember c n x ca m), ⟨n, mem_dirNames_of_resolve hr, by simp [hr]⟩, ?_⟩
    simp [contrib, hs, hg, hd]

/-! ### the spec, unfolded -/

theorem mem_decoratedIn {t : Table} {k : Key} {pre : List Nat} {c0 c : Nat} {n : Name} {v : Val} :
    ((c, n), v) ∈ decoratedIn t k pre c0 ↔
      c = c0 ∧ ∃ apps, (n, MemberDef.func .inst apps) ∈ nsOf t c0 ∧ (∀ c' ∈ pre, definesName t n c' = false) ∧
        outermost k apps = some v := by
  simp only [decoratedIn, List.mem_filterMap]
  constructor
  · rintro ⟨p, hp, hf⟩
    obtain ⟨n', m⟩ := p
    cases m with
    | func kind apps =>
      cases kind with
      | inst =>
        simp only at hf
        split at hf
        · simp at hf
        · rename_i hpre
          cases ho : outermost k apps with
          | none => simp [ho] at hf
          | some v' =>
            simp only [ho, Option.map_some, Option.some.injEq, Prod.mk.injEq] at hf
            obtain ⟨⟨rfl, rfl⟩, rfl⟩ := hf
            refine ⟨rfl, apps, hp, ?_, ho⟩
            intro c' hc'
            have : ¬ (pre.any (definesName t n') = true) := hpre
            simp only [List.any_eq_true, not_exists, not_and, Bool.not_eq_true] at this
            exact this c' hc'
      | static => simp at hf
      | cls => simp at hf
    | other o at' => simp at hf
    | raising e => simp at hf
    | typeVarProp => simp at hf
  · rintro ⟨rfl, apps, hmem, hpre, ho⟩
    refine ⟨(n, .func .inst apps), hmem, ?_⟩
    have : ¬ (pre.any (definesName t n) = true) := by
      simp only [List.any_eq_true, not_exists, not_and, Bool.not_eq_true]
      exact hpre
    simp [this, ho]

theorem mem_decoratedAlong {t : Table} {k : Key} : ∀ (mro pre : List Nat) (c : Nat) (n : Name) (v : Val),
    ((c, n), v) ∈ decoratedAlong t k pre mro ↔
      ∃ p1 post apps, mro = p1 ++ c :: post ∧ (n, MemberDef.func .inst apps) ∈ nsOf t c ∧
        (∀ c' ∈ pre ++ p1, definesName t n c' = false) ∧ outermost k apps = some v := by
  intro mro
  induction mro with
  | nil => intro pre c n v; simp [decoratedAlong]
  | cons c0 rest ih =>
    intro pre c n v
    simp only [decoratedAlong, List.mem_append, mem_decoratedIn, ih]
    constructor
    · rintro (⟨rfl, apps, hmem, hpre, ho⟩ | ⟨p1, post, apps, hm, hmem, hpre, ho⟩)
      · exact ⟨[], rest, apps, rfl, hmem, by simpa using hpre, ho⟩
      · refine ⟨c0 :: p1, post, apps, by simp [hm], hmem, ?_, ho⟩
        intro c' hc'
        apply hpre
        rcases hc' with h | h
        · exact Or.inl (Or.inl h)
        · rcases List.mem_cons.mp h with h | h
          · exact Or.inl (Or.inr (by simp [h]))
          · exact Or.inr h
    · rintro ⟨p1, post, apps, hm, hmem, hpre, ho⟩
      cases p1 with
      | nil =>
        simp only [List.nil_append, List.cons.injEq] at hm
        obtain ⟨rfl, rfl⟩ := hm
        exact Or.inl ⟨rfl, apps, hmem, by simpa using hpre, ho⟩
      | cons y p1' =>
        simp only [List.cons_append, List.cons.injEq] at hm
        obtain ⟨rfl, rfl⟩ := hm
        refine Or.inr ⟨p1', post, apps, rfl, hmem, ?_, ho⟩
        intro c' hc'
        apply hpre
        rcases hc' with (h | h) | h
        · exact Or.inl h
        · exact Or.inr (by simp at h; simp [h])
        · exact Or.inr (List.mem_cons_of_mem _ h)

/-! ### inside the guard: what can contribute to the result -/

theorem dictGet_some_mem {κ ν : Type} [DecidableEq κ] (k : κ) (v : ν) :
    ∀ (d : List (κ × ν)), dictGet k d = some v → (k, v) ∈ d := by
  intro d
  induction d with
  | nil => intro h; simp [dictGet] at h
  | cons x r ih =>
    obtain ⟨k0, v0⟩ := x
    intro h
    simp only [dictGet] at h
    split at h
    · rename_i e; subst e; injection h with h; subst h; exact List.mem_cons_self ..
    · exact List.mem_cons_of_mem _ (ih h)

theorem outermost_some_mem (k : Key) : ∀ (apps : List App) (v : Val), outermost k apps = some v → ∃ a ∈ apps, a.ty = k := by
  intro apps
  induction apps with
  | nil => intro v h; simp [outermost] at h
  | cons a r ih =>
    intro v h
    simp only [outermost] at h
    cases ho : outermost k r with
    | some v' =>
      rcases ih v' ho with ⟨b, hb, hbk⟩
      exact ⟨b, List.mem_cons_of_mem _ hb, hbk⟩
    | none =>
      simp only [ho] at h
      split at h
      · rename_i e; exact ⟨a, List.mem_cons_self .., e⟩
      · simp at h

theorem applyApps_absent_aux (k : Key) : ∀ (apps : List App) (s : FState), (∀ a ∈ apps, a.ty ≠ k) →
    dictGet k s.dict = none → dictGet k (apps.foldl applyOne s).dict = none := by
  intro apps
  induction apps with
  | nil => intro s _ h; simpa using h
  | cons a r ih =>
    intro s hne h
    simp only [List.foldl_cons]
    apply ih _ (fun b hb => hne b (List.mem_cons_of_mem _ hb))
    have ha := hne a (List.mem_cons_self ..)
    cases htr : a.tr <;>
      simp [applyOne, htr, setattrKeyRole, setattrValRole, roleNat, dictGet_insert, ha, h, dictGet]

theorem guard_unpack {t : Table} {mro : List Nat} {members : List Key} {ca : List (Key × Val)}
    (hg : decoGuard t mro members ca = true) :
    members.Nodup ∧ ∀ c ∈ mro, ((nsOf t c).map (·.1)).Nodup ∧
      ∀ p ∈ nsOf t c, memberOk members ca p.1 p.2 = true := by
  simp only [decoGuard, Bool.and_eq_true, decide_eq_true_eq, List.all_eq_true] at hg
  exact ⟨hg.1, fun c hc => ⟨(hg.2 c hc).1, (hg.2 c hc).2⟩⟩

theorem keyFree_absent {members : List Key} {attrs : List (Key × Val)} {k : Key} (hk : k ∈ members)
    (hf : keyFree members attrs = true) : dictGet k attrs = none := by
  cases hd : dictGet k attrs with
  | none => rfl
  | some v =>
    have hm := dictGet_some_mem k v attrs hd
    have := (List.all_eq_true.mp hf) (k, v) hm
    simp [hk] at this

/-- inside the guard only plain methods contribute, with the argument of the outermost application -/
theorem contrib_is_method {members : List Key} {ca : List (Key × Val)} {k : Key} (hk : k ∈ members)
    {c : Nat} {n : Name} {x : TArg} {m : MemberDef} {a : Attr} {dict : List (Key × Val)} {v : Val}
    (hok : memberOk members ca n m = true)
    (hg : getattrMember c n x ca m = .value a dict) (hd : dictGet k dict = some v) :
    ∃ apps, m = .func .inst apps ∧ a = .bound c n (applyApps apps).gen ∧ outermost k apps = some v := by
  cases m with
  | func kind apps =>
    cases kind with
    | inst =>
      simp only [getattrMember, Got.value.injEq] at hg
      obtain ⟨rfl, rfl⟩ := hg
      simp only [memberOk, Bool.and_eq_true, List.all_eq_true] at hok
      refine ⟨apps, rfl, rfl, ?_⟩
      rw [← applyApps_dict k apps (fun a ha => by simpa using hok.1 a ha)]
      exact hd
    | static =>
      simp only [getattrMember, Got.value.injEq] at hg
      obtain ⟨_, rfl⟩ := hg
      simp only [memberOk, List.all_eq_true] at hok
      have : dictGet k (applyApps apps).dict = none :=
        applyApps_absent_aux k apps ⟨0, [], []⟩ (fun a ha e => by have := hok a ha; simp [e, hk] at this) rfl
      simp [this] at hd
    | cls =>
      simp only [getattrMember, Got.value.injEq] at hg
      obtain ⟨_, rfl⟩ := hg
      simp only [memberOk, List.all_eq_true] at hok
      have : dictGet k (applyApps apps).dict = none :=
        applyApps_absent_aux k apps ⟨0, [], []⟩ (fun a ha e => by have := hok a ha; simp [e, hk] at this) rfl
      simp [this] at hd
  | other o attrs =>
    simp only [getattrMember, Got.value.injEq] at hg
    obtain ⟨_, rfl⟩ := hg
    simp [keyFree_absent hk (by simpa [memberOk] using hok)] at hd
  | raising e => simp [getattrMember] at hg
  | typeVarProp =>
    simp only [getattrMember, Got.value.injEq] at hg
    obtain ⟨_, rfl⟩ := hg
    simp [keyFree_absent hk (by simpa [memberOk] using hok)] at hd

/-- … and every decorated plain method does contribute (its name is not skipped) -/
theorem method_contrib {members : List Key} {ca : List (Key × Val)} {k : Key} (hk : k ∈ members)
    {n : Name} {apps : List App} {v : Val}
    (hok : memberOk members ca n (.func .inst apps) = true) (ho : outermost k apps = some v) :
    skipName n = false ∧ dictGet k (applyApps apps).dict = some v := by
  simp only [memberOk, Bool.and_eq_true, List.all_eq_true, Bool.or_eq_true, Bool.not_eq_true'] at hok
  refine ⟨?_, ?_⟩
  · rcases hok.2 with h | h
    · have h' : ¬ (2 ≤ n.unders) := of_decide_eq_false (by simpa [isDunder] using h)
      simp only [skipName, skipPrefixUnderscores]
      exact decide_eq_false h'
    · rcases outermost_some_mem k apps v ho with ⟨a, ha, hak⟩
      have := h a ha
      simp [hak, hk] at this
  · rw [applyApps_dict k apps (fun a ha => by simpa using hok.1 a ha)]
    exact ho

theorem filterMap_fst_sublist (f : Name → Option (Name × Got)) (hf : ∀ n e, f n = some e → e.1 = n) :
    ∀ (l : List Name), ((l.filterMap f).map Prod.fst).Sublist l := by
  intro l
  induction l with
  | nil => simp
  | cons y r ih =>
    simp only [List.filterMap_cons]
    cases hy : f y with
    | none => exact List.Sublist.cons _ ih
    | some e =>
      simp only [List.map_cons, hf y e hy]
      exact List.Sublist.cons_cons _ ih

theorem view_names_nodup (t : Table) (mro : List Nat) (x : TArg) (ca : List (Key × Val)) :
    ((view t mro x ca).map Prod.fst).Nodup := by
  apply List.Nodup.sublist (filterMap_fst_sublist _ _ _) (nodup_dedup _)
  intro n e he
  cases hr : resolve t mro n with
  | none => simp [hr] at he
  | some cm => simp [hr] at he; rw [← he]

theorem rowKeys_nodup (k : Key) : ∀ (es : List (Name × Got)), (es.map Prod.fst).Nodup →
    (∀ e ∈ es, ∀ a v, contrib k e = some (a, v) → ∃ c g, a = Attr.bound c e.1 g) →
    ((rowOf k es).map Prod.fst).Nodup := by
  intro es
  induction es with
  | nil => intro _ _; simp [rowOf]
  | cons e r ih =>
    intro hnd hb
    have hr := ih (List.nodup_cons.mp (by simpa using hnd)).2 (fun e' he' => hb e' (List.mem_cons_of_mem _ he'))
    simp only [rowOf, List.filterMap_cons]
    cases hc : contrib k e with
    | none => simpa [rowOf] using hr
    | some av =>
      obtain ⟨a, v⟩ := av
      simp only [List.map_cons]
      refine List.nodup_cons.mpr ⟨?_, by simpa [rowOf] using hr⟩
      intro hm
      rcases List.mem_map.mp hm with ⟨⟨a', v'⟩, hav, rfl⟩
      rcases List.mem_filterMap.mp hav with ⟨e', he', hc'⟩
      rcases hb e (List.mem_cons_self ..) a' v hc with ⟨c1, g1, h1⟩
      rcases hb e' (List.mem_cons_of_mem _ he') a' v' hc' with ⟨c2, g2, h2⟩
      rw [h1] at h2
      injection h2 with _ hn _
      have : e.1 ∉ r.map Prod.fst := (List.nodup_cons.mp (by simpa using hnd)).1
      exact this (List.mem_map.mpr ⟨e', he', hn.symm⟩)

/-! ## property theorems: WithDecoratedMethods -/

/-- **get_decorated_functions returns, for every member of the enum, exactly the bound methods that were decorated
    through create_decorator, with the decorator argument** — for every class table, every MRO (any depth of
    inheritance, extra bases), every enum, every assignment of stacked applications with attribute-preserving
    transformations, inside `decoGuard`.  The scan succeeds; the result has one entry per member, in member order;
    every reported object is a method bound to the instance (nothing of another sort); a method (class, name) is
    reported with value `v` iff the spec lists it with `v` (nothing missing, nothing extra, `v` = argument of the
    outermost application of that member); no method is reported twice. -/
theorem decorated_scan_exact (t : Table) (mro : List Nat) (x : TArg) (members : List Key) (ca : List (Key × Val))
    (hg : decoGuard t mro members ca = true) :
    ∃ rows : Key → List (Attr × Val),
      scanView members (view t mro x ca) (initDict members) = .ok (members.map fun k => (k, rows k)) ∧
      ∀ k ∈ members,
        (∀ a v, (a, v) ∈ rows k → ∃ c n g, a = Attr.bound c n g) ∧
        (∀ c n v, (∃ g, (Attr.bound c n g, v) ∈ rows k) ↔ ((c, n), v) ∈ decoratedAlong t k [] mro) ∧
        ((rows k).map Prod.fst).Nodup := by
  rcases guard_unpack hg with ⟨hM, hcls⟩
  -- every contribution to a member's row comes from a plain method and carries the name it was found under
  have hmeth : ∀ k ∈ members, ∀ n c m a dict v, resolve t mro n = some (c, m) →
      getattrMember c n x ca m = .value a dict → dictGet k dict = some v →
      ∃ apps, m = .func .inst apps ∧ a = .bound c n (applyApps apps).gen ∧ outermost k apps = some v := by
    intro k hk n c m a dict v hr hga hd
    rcases resolve_some hr with ⟨p1, post, hm, _, hmem⟩
    have hc : c ∈ mro := by simp [hm]
    exact contrib_is_method hk ((hcls c hc).2 (n, m) hmem) hga hd
  have hraise : noRaise (view t mro x ca) := by
    intro e he hs xx hx
    simp only [view, List.mem_filterMap] at he
    rcases he with ⟨n, _, hn⟩
    cases hr : resolve t mro n with
    | none => simp [hr] at hn
    | some cm =>
      obtain ⟨c, m⟩ := cm
      simp only [hr, Option.map_some, Option.some.injEq] at hn
      subst hn
      rcases resolve_some hr with ⟨p1, post, hm, _, hmem⟩
      have hok := (hcls c (by simp [hm])).2 (n, m) hmem
      cases m with
      | raising e' =>
        simp only [memberOk, isDunder, decide_eq_true_eq] at hok
        have hs2 : decide (2 ≤ n.unders) = false := hs
        have hs' : ¬ (2 ≤ n.unders) := of_decide_eq_false hs2
        omega
      | func kind apps => simp [getattrMember] at hx
      | other o at' => simp [getattrMember] at hx
      | typeVarProp => simp [getattrMember] at hx
  have hbound : ∀ k ∈ members, ∀ e ∈ view t mro x ca, ∀ a v, contrib k e = some (a, v) → ∃ c g, a = Attr.bound c e.1 g := by
    intro k hk e he a v hc
    simp only [view, List.mem_filterMap] at he
    rcases he with ⟨n, _, hn⟩
    cases hr : resolve t mro n with
    | none => simp [hr] at hn
    | some cm =>
      obtain ⟨c, m⟩ := cm
      simp only [hr, Option.map_some, Option.some.injEq] at hn
      subst hn
      simp only [contrib] at hc
      split at hc
      · simp at hc
      · split at hc
        · rename_i a' dict heq
          cases hd : dictGet k dict with
          | none => simp [hd] at hc
          | some v' =>
            simp only [hd, Option.map_some, Option.some.injEq, Prod.mk.injEq] at hc
            obtain ⟨rfl, rfl⟩ := hc
            rcases hmeth k hk n c m a' dict v' hr heq hd with ⟨apps, _, ha, _⟩
            exact ⟨c, _, ha⟩
        · simp at hc
  have hnd : ∀ k ∈ members, ((rowOf k (view t mro x ca)).map Prod.fst).Nodup :=
    fun k hk => rowKeys_nodup k _ (view_names_nodup t mro x ca) (hbound k hk)
  refine ⟨fun k => rowOf k (view t mro x ca), ?_, ?_⟩
  · have := scanView_eq members hM (view t mro x ca) (fun _ => []) hraise
    simp only [initDict, initAllMembers, ↓reduceIte]
    rw [this]
    congr 1
    apply List.map_congr_left
    intro k hk
    rw [rowFold_eq k _ [] (by simpa using hnd k hk)]
    simp
  · intro k hk
    refine ⟨?_, ?_, hnd k hk⟩
    · intro a v hav
      rcases mem_rowOf_view.mp hav with ⟨n, c, m, dict, hr, _, hga, hd⟩
      rcases hmeth k hk n c m a dict v hr hga hd with ⟨apps, _, ha, _⟩
      exact ⟨c, n, _, ha⟩
    · intro c n v
      constructor
      · rintro ⟨g, hav⟩
        rcases mem_rowOf_view.mp hav with ⟨n', c', m, dict, hr, _, hga, hd⟩
        rcases hmeth k hk n' c' m _ dict v hr hga hd with ⟨apps, rfl, ha, ho⟩
        injection ha with hc hn _
        subst hc; subst hn
        rcases resolve_some hr with ⟨p1, post, hm, hpre, hmem⟩
        exact (mem_decoratedAlong mro [] c n v).mpr ⟨p1, post, apps, hm, hmem, by simpa using hpre, ho⟩
      · intro hspec
        rcases (mem_decoratedAlong mro [] c n v).mp hspec with ⟨p1, post, apps, hm, hmem, hpre, ho⟩
        have hc : c ∈ mro := by simp [hm]
        have hr := resolve_of hm (by simpa using hpre) hmem (hcls c hc).1
        rcases method_contrib hk ((hcls c hc).2 (n, .func .inst apps) hmem) ho with ⟨hs, hd⟩
        exact ⟨(applyApps apps).gen, mem_rowOf_view.mpr ⟨n, c, _, _, hr, hs, rfl, hd⟩⟩

/-- the same for `instance.get_decorated_functions()` end to end: an instance whose class binds the parameter of
    `WithDecoratedMethods` (or any supported shape with one type argument) to an enum -/
theorem decorated_exact {t : Table} (hwf : WF t) (d c : Nat) (orig : Option (List TArg)) (tk x : TArg)
    (enumOf : TArg → Option EnumDesc) (en : EnumDesc)
    (hshape : expectedOutcome t d c orig = .ok [(tk, x)]) (hen : enumOf x = some en)
    (hg : decoGuard t (lin t d c) en.members en.clsAttrs = true) :
    ∃ rows : Key → List (Attr × Val),
      getDecorated t d c orig enumOf = .ok (en.members.map fun k => (k, rows k)) ∧
      ∀ k ∈ en.members,
        (∀ a v, (a, v) ∈ rows k → ∃ c' n g, a = Attr.bound c' n g) ∧
        (∀ c' n v, (∃ g, (Attr.bound c' n g, v) ∈ rows k) ↔
          ∃ row, (k, row) ∈ expectedDecorated t (lin t d c) en.members ∧ ((c', n), v) ∈ row) ∧
        ((rows k).map Prod.fst).Nodup := by
  rcases decorated_scan_exact t (lin t d c) x en.members en.clsAttrs hg with ⟨rows, hscan, hrows⟩
  refine ⟨rows, ?_, ?_⟩
  · simp only [getDecorated, type_var_single hwf d c orig tk x hshape, hen, hscan]
  · intro k hk
    rcases hrows k hk with ⟨h1, h2, h3⟩
    refine ⟨h1, ?_, h3⟩
    intro c' n v
    rw [h2 c' n v]
    simp only [expectedDecorated, List.mem_map, Prod.mk.injEq]
    constructor
    · intro h; exact ⟨_, ⟨k, hk, rfl, rfl⟩, h⟩
    · rintro ⟨row, ⟨k', _, rfl, rfl⟩, h⟩; exact h

/-! ## the full statement, and why it needs the guard -/

/-- "exactly the decorated methods" without any restriction on what else lives in the class -/
def decorated_exact_full : Prop :=
  ∀ (t : Table) (mro : List Nat) (x : TArg) (members : List Key) (ca : List (Key × Val)),
    members.Nodup → (∀ c ∈ mro, ((nsOf t c).map (·.1)).Nodup) →
    ∃ rows : Key → List (Attr × Val),
      scanView members (view t mro x ca) (initDict members) = .ok (members.map fun k => (k, rows k)) ∧
      ∀ k ∈ members,
        (∀ a v, (a, v) ∈ rows k → ∃ c n g, a = Attr.bound c n g) ∧
        (∀ c n v, (∃ g, (Attr.bound c n g, v) ∈ rows k) ↔ ((c, n), v) ∈ decoratedAlong t k [] mro)

/-- one user class `class My(WithDecoratedMethods[D])` with the given namespace -/
def oneClass (ns : List (Name × MemberDef)) : Table := libTable ++ [⟨[.param 3 [.ty 50]], ns⟩]

/-- `decorated_exact_partial` is `decorated_scan_exact` above (guard `decoGuard`).  The code does violate the full
    statement: a decorated method with a dunder name (`__call__`) is skipped by the `startswith('__')` test. -/
theorem decorated_exact_full_fails : ¬ decorated_exact_full := by
  intro h
  rcases h (oneClass [(⟨2, "call__"⟩, .func .inst [⟨100, 1, .none⟩])]) [4, 3, 2, 0, 1] (.ty 50) [100] []
    (by decide) (by decide) with ⟨rows, hscan, hrows⟩
  have hs : scanView [100] (view (oneClass [(⟨2, "call__"⟩, .func .inst [⟨100, 1, .none⟩])]) [4, 3, 2, 0, 1] (.ty 50) [])
      (initDict [100]) = .ok [(100, [])] := by decide
  rw [hs] at hscan
  simp only [List.map_cons, List.map_nil, Res.ok.injEq, List.cons.injEq, Prod.mk.injEq, true_and, and_true] at hscan
  rcases ((hrows 100 (by simp)).2 4 ⟨2, "call__"⟩ 1).mpr (by decide) with ⟨g, hg⟩
  rw [← hscan] at hg
  simp at hg

/-- an attribute-dropping transformation loses the entries made by the applications below it -/
theorem fresh_transformation_loses_entry :
    scanView [100] (view (oneClass [(⟨0, "m"⟩, .func .inst [⟨100, 1, .none⟩, ⟨101, 2, .fresh⟩])]) [4, 3, 2, 0, 1] (.ty 50) [])
      (initDict [100]) = .ok [(100, [])] ∧
    ((4, ⟨0, "m"⟩), 1) ∈ decoratedAlong (oneClass [(⟨0, "m"⟩, .func .inst [⟨100, 1, .none⟩, ⟨101, 2, .fresh⟩])]) 100 [] [4, 3, 2, 0, 1] := by
  decide

/-- an enum value that is also the name of a member (`FOO = 'FOO'`): the enum class itself (the value of the
    property `type_var`, found by the scan of `dir(self)`) is reported -/
theorem enum_name_collision_reports_enum_class :
    scanView [100] (view (oneClass []) [4, 3, 2, 0, 1] (.ty 50) [(100, 9000)]) (initDict [100])
      = .ok [(100, [(.typeArg (.ty 50), 9000)])] := by decide

/-- a decorated staticmethod is reported as the plain function, not as a bound method -/
theorem staticmethod_reported_unbound :
    scanView [100] (view (oneClass [(⟨0, "s"⟩, .func .static [⟨100, 1, .none⟩])]) [4, 3, 2, 0, 1] (.ty 50) []) (initDict [100])
      = .ok [(100, [(.plainFn 4 ⟨0, "s"⟩ 0, 1)])] := by decide

/-- a property that raises makes `get_decorated_functions` raise -/
theorem raising_property_escapes :
    scanView [100] (view (oneClass [(⟨0, "p"⟩, .raising "ValueError")]) [4, 3, 2, 0, 1] (.ty 50) []) (initDict [100])
      = .raised .member "ValueError" := by decide

/-! ## the facts taken from the source -/

/-- the syntactic facts the model relies on without branching on them -/
theorem mixins_source_shape :
    attrsRead = ["__args__", "__orig_bases__", "__orig_class__", "__origin__"] ∧
    loopIterAttr = "__orig_bases__" ∧ loopOriginAttr = "__origin__" ∧ loopArgsAttr = "__args__" ∧
    origClassArgsAttr = "__args__" ∧ genericBaseArgsAttr = "__args__" ∧
    wdmBases = ["ABC", "Generic[E]", "GenericMixin"] ∧
    (nsOf libTable 1).map (·.1) = [⟨0, "type_var"⟩, ⟨0, "type_vars"⟩, ⟨1, "get_types"⟩, ⟨0, "class_name"⟩] ∧
    (nsOf libTable 3).map (·.1) = [⟨0, "get_decorated_functions"⟩] := by decide

/-- the loop prefers the subscripted bases whose origin is a GenericMixin class (commit 2c5b09b), looks at all subscripted bases when
    there is none and passes over origins without `__orig_bases__` (commit 148d517) — `mixin_bases_win`, `no_mixin_base_all_subscripted`,
    `loop_foreign_select`, `kind_bound` fail without them; and the helpers keep nothing between two queries: no decorator
    (`functools.lru_cache`, …) on `_get_types` and on `get_generic_base` — which receives the INSTANCE, so a cache there would be keyed by
    `__hash__` / `__eq__` of user objects — and only `property` on `type_var` / `type_vars` (module-level state is refused by the
    translator) -/
theorem helpers_keep_nothing :
    loopPrefersOriginsDerivedFrom = some "GenericMixin" ∧ loopFallsBackToAll = true ∧ loopSkipsOriginsWithoutOrigBases = true ∧
    getTypesDecorators = [] ∧ getGenericBaseDecorators = [] ∧
    typeVarDecorators = ["property"] ∧ typeVarsDecorators = ["property"] := by decide

/-- **a configured decorator keeps its argument**: whatever factory calls are made afterwards (`later`: the same factory called again
    with other arguments, other factories), the k-th configured decorator applies what it was configured with — so a decorator that is
    stored (`get_index = route('/index')`) and applied after `route('/about')` was configured sets '/index' -/
theorem configured_decorator_keeps_its_argument (confs : Confs) (a : App) (later : List App) :
    configured (later.foldl configure (configure confs a)) confs.length = some a := by
  have h : ∀ (l : List App) (c : Confs), l.foldl configure c = c ++ l := by
    intro l
    induction l with
    | nil => intro c; simp
    | cons x r ih => intro c; simp [List.foldl_cons, ih, configure]
  simp [h, configured, configure]

example : configured (([⟨100, 2, .none⟩, ⟨100, 3, .wraps⟩] : List App).foldl configure (configure [] ⟨100, 1, .none⟩)) 0 = some ⟨100, 1, .none⟩ := by
  decide

/-- **the two mixins keep nothing and hook into nothing**: neither `GenericMixin` nor `WithDecoratedMethods` assigns a name at class level
    (no per-class cache such as `_generic_base`), defines a dunder method (`__init_subclass__`, `__class_getitem__`, `__new__`, `__init__`:
    hooks that another base earlier in the MRO can shadow, or cut off by not calling `super()`), or names a metaclass; the modules bind
    nothing at module level but the three TypeVars of with_decorated_methods.py; no statement stores into an attribute of a function or
    class (`decorator.value = value`: a slot shared by all configured decorators of one factory); no `global` / `nonlocal`.  So what
    `type_vars` answers is computed from `__orig_bases__` / `__orig_class__` at the time of the query, whatever other bases do while the
    class is created, and a configured decorator is a closure over its own argument -/
theorem mixins_keep_no_state :
    PedVerif.Gen.MixinsShape.gmClassState = [] ∧ PedVerif.Gen.MixinsShape.gmDunderMethods = [] ∧
    PedVerif.Gen.MixinsShape.gmClassKeywords = [] ∧
    PedVerif.Gen.MixinsShape.wdmClassState = [] ∧ PedVerif.Gen.MixinsShape.wdmDunderMethods = [] ∧
    PedVerif.Gen.MixinsShape.wdmClassKeywords = [] ∧
    PedVerif.Gen.MixinsShape.gmModuleState = [] ∧ PedVerif.Gen.MixinsShape.wdmModuleState = ["E", "T", "C"] ∧
    PedVerif.Gen.MixinsShape.gmAttributeStores = [] ∧ PedVerif.Gen.MixinsShape.wdmAttributeStores = [] ∧
    PedVerif.Gen.MixinsShape.scopeEscapes = 0 := by decide

/-- **every query is answered on its own**: in any history of queries on any instances — of the same class or of different classes,
    hashable or not, comparing equal or not (the model has no place where that could enter) — the answer to a query is the answer
    it would get as the only query -/
theorem query_independent_of_history (t : Table) (d : Nat) (pre post : List (Nat × Option (List TArg)))
    (q : Nat × Option (List TArg)) :
    (runQueries t d (pre ++ q :: post))[pre.length]? = some (getTypes t d q.1 q.2) := by
  simp [runQueries]

/-- … so every query of a history that lies in a supported shape gets exactly `{Ti: Xi}`, and every query for which the property
    demands a refusal gets an AssertionError, whatever was asked before -/
theorem history_exact {t : Table} (hwf : WF t) (d : Nat) (pre post : List (Nat × Option (List TArg)))
    (q : Nat × Option (List TArg)) :
    (∀ m, expectedOutcome t d q.1 q.2 = .ok m → (runQueries t d (pre ++ q :: post))[pre.length]? = some (.ok m)) ∧
    (expectedOutcome t d q.1 q.2 = .mustAssert →
      ∃ s, (runQueries t d (pre ++ q :: post))[pre.length]? = some (.raised s "AssertionError")) := by
  rw [query_independent_of_history]
  refine ⟨fun m h => by rw [type_vars_exact hwf d q.1 q.2 m h], fun h => ?_⟩
  obtain ⟨s, hs⟩ := must_assert hwf d q.1 q.2 h
  exact ⟨s, by rw [hs]⟩

/-- the table of a program with one user class `class My(WithDecoratedMethods[X])` -/
def wdmUser (x : Nat) (ns : List (Name × MemberDef)) : Table := libTable ++ [⟨[.param 3 [.ty x]], ns⟩]

theorem wdm_subclass_type_var (x : Nat) (ns : List (Name × MemberDef)) (d : Nat) :
    expectedOutcome (wdmUser x ns) (d + 3) 4 none = .ok [(.tv 0, .ty x)] := by
  have h4 : basesOf (wdmUser x ns) 4 = [.param 3 [.ty x]] := by simp [basesOf, wdmUser, libTable]
  have h3 : basesOf (wdmUser x ns) 3 = [.plain 2, .generic [0], .plain 1] := by
    simp [basesOf, wdmUser, libTable, wdmBases, libBase]
  have h2 : basesOf (wdmUser x ns) 2 = [] := by simp [basesOf, wdmUser, libTable]
  have h1 : basesOf (wdmUser x ns) 1 = [] := by simp [basesOf, wdmUser, libTable]
  have n2 : nonGeneric (wdmUser x ns) (d + 1) 2 = true := by rw [nonGeneric, h2]; rfl
  have n1 : nonGeneric (wdmUser x ns) (d + 1) 1 = true := by rw [nonGeneric, h1]; rfl
  have k3 : kindOf (wdmUser x ns) (d + 2) 3 = .direct [0] := by
    rw [kindOf, h3]
    have g : List.filterMap genericOf [BaseRef.plain 2, .generic [0], .plain 1] = [[0]] := rfl
    have p : List.filterMap paramOf [BaseRef.plain 2, .generic [0], .plain 1] = [] := rfl
    have q : List.filterMap plainOf [BaseRef.plain 2, .generic [0], .plain 1] = [2, 1] := rfl
    simp only [g, p, q, List.all_cons, List.all_nil, n1, n2]
    rfl
  rw [expectedOutcome, kindOf, h4]
  have g : List.filterMap genericOf [BaseRef.param 3 [TArg.ty x]] = [] := rfl
  have p : List.filterMap paramOf [BaseRef.param 3 [TArg.ty x]] = [(3, [.ty x])] := rfl
  have q : List.filterMap plainOf [BaseRef.param 3 [TArg.ty x]] = [] := rfl
  have u3 : usesMixin (wdmUser x ns) (d + 2) 3 = true := by rw [usesMixin, h3]; rfl
  simp only [g, p, q, List.filter_cons, u3, ↓reduceIte, List.filter_nil, k3, List.all_cons, List.all_nil, Bool.true_or]
  rfl

theorem wdmUser_wf (x : Nat) (ns : List (Name × MemberDef)) : WF (wdmUser x ns) := by
  apply WF_of_wfB
  rfl

/-- end to end for `class My(WithDecoratedMethods[D])` with an arbitrary namespace inside the guard -/
theorem decorated_exact_one_class (x : Nat) (ns : List (Name × MemberDef)) (d : Nat)
    (enumOf : TArg → Option EnumDesc) (en : EnumDesc) (hen : enumOf (.ty x) = some en)
    (hg : decoGuard (wdmUser x ns) (lin (wdmUser x ns) (d + 3) 4) en.members en.clsAttrs = true) :
    ∃ rows : Key → List (Attr × Val),
      getDecorated (wdmUser x ns) (d + 3) 4 none enumOf = .ok (en.members.map fun k => (k, rows k)) ∧
      ∀ k ∈ en.members,
        (∀ a v, (a, v) ∈ rows k → ∃ c' n g, a = Attr.bound c' n g) ∧
        (∀ c' n v, (∃ g, (Attr.bound c' n g, v) ∈ rows k) ↔
          ∃ row, (k, row) ∈ expectedDecorated (wdmUser x ns) (lin (wdmUser x ns) (d + 3) 4) en.members ∧ ((c', n), v) ∈ row) ∧
        ((rows k).map Prod.fst).Nodup :=
  decorated_exact (wdmUser_wf x ns) (d + 3) 4 none (.tv 0) (.ty x) enumOf en (wdm_subclass_type_var x ns d) hen hg

/-! ## non-vacuity -/

def exT : Table := libTable ++ [
  ⟨[], []⟩,                                               -- 4: class P
  ⟨[.plain 4, .plain 1, .generic [1, 2]], []⟩,            -- 5: class A(P, GenericMixin, Generic[T1, T2])
  ⟨[], []⟩,                                               -- 6: class Q
  ⟨[.plain 6, .param 5 [.ty 7, .ty 8]], []⟩,              -- 7: class B(Q, A[X7, X8])
  ⟨[.plain 7], []⟩,                                       -- 8: class C(B)
  ⟨[.plain 1], []⟩ ]                                      -- 9: class N(GenericMixin)

example : wfB exT = true := by decide
example : expectedOutcome exT 10 5 (some [.ty 3, .ty 4]) = .ok [(.tv 1, .ty 3), (.tv 2, .ty 4)] := by decide
example : expectedOutcome exT 10 7 none = .ok [(.tv 1, .ty 7), (.tv 2, .ty 8)] := by decide
example : expectedOutcome exT 10 8 none = .ok [(.tv 1, .ty 7), (.tv 2, .ty 8)] := by decide
example : expectedOutcome exT 10 9 none = .mustAssert := by decide
example : expectedOutcome exT 10 5 none = .mustAssert := by decide
example : getTypes exT 10 8 none = .ok [(.tv 1, .ty 7), (.tv 2, .ty 8)] :=
  type_vars_exact (WF_of_wfB (by decide)) 10 8 none _ (by decide)
example : lin exT 10 8 = [8, 7, 6, 5, 4, 1, 0] := by decide
example : runQueries exT 10 [(5, some [.ty 3, .ty 4]), (7, none), (5, none), (8, none)] =
    [.ok [(.tv 1, .ty 3), (.tv 2, .ty 4)], .ok [(.tv 1, .ty 7), (.tv 2, .ty 8)], .raised .unparam "AssertionError",
     .ok [(.tv 1, .ty 7), (.tv 2, .ty 8)]] := by decide

/-- outside the supported shapes (reported only): a partially binding subclass `class G(A[T1, X7])` instantiated as
    `G[X3]()` answers `{T1: T1, T2: X7}` — the argument `X3` is lost -/
def exPartial : Table := libTable ++ [⟨[.generic [1, 2], .plain 1], []⟩, ⟨[.param 4 [.tv 1, .ty 7]], []⟩]
example : expectedOutcome exPartial 10 5 (some [.ty 3]) = .unsupported := by decide
example : getTypes exPartial 10 5 (some [.ty 3]) = .ok [(.tv 1, .tv 1), (.tv 2, .ty 7)] := by decide

/-- `class Labelled(Generic[T4])` (knows nothing about GenericMixin), `class Seq` (subscriptable, like `list`),
    `class Box(Labelled[X1], Generic[T1], GenericMixin)`, `class Pair(Generic[T1, T2], GenericMixin, Seq[T1], Labelled[X4])`,
    `class IntBox(Box[X0])`, `class Same(Labelled[X1], Generic[T4], GenericMixin)` (the mixin's own variable re-used) -/
def exBox : Table := libTable ++ [
  ⟨[.generic [4]], []⟩,                                                       -- 4: Labelled
  ⟨[], []⟩,                                                                   -- 5: Seq
  ⟨[.param 4 [.ty 1], .generic [1], .plain 1], []⟩,                           -- 6: Box
  ⟨[.generic [1, 2], .plain 1, .param 5 [.tv 1], .param 4 [.ty 4]], []⟩,      -- 7: Pair
  ⟨[.param 6 [.ty 0]], []⟩,                                                   -- 8: IntBox
  ⟨[.param 4 [.ty 1], .generic [4], .plain 1], []⟩,                           -- 9: Same
  ⟨[.param 4 [.ty 1], .param 6 [.ty 0]], []⟩,                                 -- 10: class Odd(Labelled[X1], Box[X0])
  ⟨[.param 6 [.ty 0], .param 4 [.ty 1]], []⟩ ]                                -- 11: class Odd2(Box[X0], Labelled[X1])

example : wfB exBox = true := by decide
example : kindOf exBox 12 6 = .direct [1] ∧ kindOf exBox 12 7 = .direct [1, 2] ∧ kindOf exBox 12 9 = .direct [4] := by decide
example : expectedOutcome exBox 12 6 (some [.ty 0]) = .ok [(.tv 1, .ty 0)] := by decide
example : expectedOutcome exBox 12 6 none = .mustAssert := by decide
example : expectedOutcome exBox 12 7 (some [.ty 0, .ty 6]) = .ok [(.tv 1, .ty 0), (.tv 2, .ty 6)] := by decide
example : expectedOutcome exBox 12 8 none = .ok [(.tv 1, .ty 0)] := by decide
example : expectedOutcome exBox 12 9 (some [.ty 0]) = .ok [(.tv 4, .ty 0)] := by decide
-- the hypotheses of `direct_with_parametrised_mixins` are met by Box and by Pair
example : getTypes exBox 12 6 (some [.ty 0]) = .ok [(.tv 1, .ty 0)] ∧ getTypes exBox 12 6 none = .raised .unparam "AssertionError" :=
  direct_with_parametrised_mixins (WF_of_wfB (by decide)) 11 6 [1] [.ty 0] (by decide) (by decide) (by decide) (by decide) rfl
example : getTypes exBox 12 7 (some [.ty 0, .ty 6]) = .ok [(.tv 1, .ty 0), (.tv 2, .ty 6)] ∧
    getTypes exBox 12 7 none = .raised .unparam "AssertionError" :=
  direct_with_parametrised_mixins (WF_of_wfB (by decide)) 11 7 [1, 2] [.ty 0, .ty 6] (by decide) (by decide) (by decide) (by decide) rfl
example : getTypes exBox 12 8 none = .ok [(.tv 1, .ty 0)] :=
  binding_subclass_of_direct_with_parametrised_mixins (WF_of_wfB (by decide)) 11 8 6 [1] [.ty 0] none (by decide) (by decide)
    (by decide) (by decide) (by decide) rfl (by decide)
example : lin exBox 12 6 = [6, 4, 0, 1] ∧ lin exBox 12 7 = [7, 1, 5, 4, 0] := by decide

-- a binding subclass with further subscripted bases that are foreign to GenericMixin: `class Odd(Labelled[X1], Box[X0])` and
-- `class Odd2(Box[X0], Labelled[X1])` answer alike, `{T1: X0}` — the hypotheses of `binding_subclass_foreign_bases_any_position`
-- are met by both (before commit 2c5b09b `Odd` answered with the type argument of the mixin, `{T4: X1}`)
example : expectedOutcome exBox 12 10 none = .ok [(.tv 1, .ty 0)] ∧ expectedOutcome exBox 12 11 none = .ok [(.tv 1, .ty 0)] := by decide
example : getTypes exBox 12 10 none = .ok [(.tv 1, .ty 0)] :=
  binding_subclass_foreign_bases_any_position (WF_of_wfB (by decide)) 11 10 6 [1] [.ty 0] none (by decide) (by decide) (by decide)
    (by decide) (by decide) rfl (by decide)
example : getTypes exBox 12 11 none = .ok [(.tv 1, .ty 0)] :=
  binding_subclass_foreign_bases_any_position (WF_of_wfB (by decide)) 11 11 6 [1] [.ty 0] none (by decide) (by decide) (by decide)
    (by decide) (by decide) rfl (by decide)
example : (basesOf exBox 10).Perm (basesOf exBox 11) := by decide
example : loopBases exBox 12 (loopCandidates exBox 12 (basesOf exBox 10)) = loopBases exBox 12 (loopCandidates exBox 12 (basesOf exBox 11)) := by
  decide
example : loopCandidates exBox 12 (basesOf exBox 10) = [.param 6 [.ty 0]] := by decide

/-- `class Seq` stands for a subscriptable class without `__orig_bases__` (`list`, `collections.abc.Sequence`):
    `class SeqBox(Seq[X0], Box[X0])`, `class BoxSeq(Box[X0], Seq[X0])`, `class Three(Labelled[X1], Box[X0], Seq[X3])`;
    GenericMixin added by the class itself: `class IntL(Labelled[X0], GenericMixin)`, `class IntL2(GenericMixin, Labelled[X0])`,
    `class X(Seq[X0], Labelled[X0], GenericMixin)`;
    outside the claimed shapes: `class Two(Box[X0], Box2[X1])` (two subscripted GenericMixin bases) and
    `class Both(Labelled[X0], Other[X1], GenericMixin)` (two subscripted generic-class bases, none a GenericMixin class) -/
def exSeq : Table := libTable ++ [
  ⟨[.generic [4]], []⟩,                                                       -- 4: Labelled
  ⟨[], []⟩,                                                                   -- 5: Seq
  ⟨[.generic [1], .plain 1], []⟩,                                             -- 6: Box
  ⟨[.param 5 [.ty 0], .param 6 [.ty 0]], []⟩,                                 -- 7: SeqBox
  ⟨[.param 6 [.ty 0], .param 5 [.ty 0]], []⟩,                                 -- 8: BoxSeq
  ⟨[.param 4 [.ty 1], .param 6 [.ty 0], .param 5 [.ty 3]], []⟩,               -- 9: Three
  ⟨[.param 4 [.ty 0], .plain 1], []⟩,                                         -- 10: IntL
  ⟨[.plain 1, .generic [2]], []⟩,                                             -- 11: Box2
  ⟨[.param 6 [.ty 0], .param 11 [.ty 1]], []⟩,                                -- 12: Two
  ⟨[.plain 1, .param 4 [.ty 0]], []⟩,                                         -- 13: IntL2
  ⟨[.param 5 [.ty 0], .param 4 [.ty 0], .plain 1], []⟩,                       -- 14: X
  ⟨[.generic [3]], []⟩,                                                       -- 15: Other
  ⟨[.param 4 [.ty 0], .param 15 [.ty 1], .plain 1], []⟩ ]                     -- 16: Both

example : wfB exSeq = true := by decide
example : expectedOutcome exSeq 18 7 none = .ok [(.tv 1, .ty 0)] ∧ expectedOutcome exSeq 18 8 none = .ok [(.tv 1, .ty 0)] ∧
    expectedOutcome exSeq 18 9 none = .ok [(.tv 1, .ty 0)] := by decide
example : getTypes exSeq 18 7 none = .ok [(.tv 1, .ty 0)] ∧ getTypes exSeq 18 9 none = .ok [(.tv 1, .ty 0)] := by decide
-- GenericMixin added by the class itself (lost its answer between commits 2c5b09b and 148d517)
example : expectedOutcome exSeq 18 10 none = .ok [(.tv 4, .ty 0)] ∧ expectedOutcome exSeq 18 13 none = .ok [(.tv 4, .ty 0)] ∧
    expectedOutcome exSeq 18 14 none = .ok [(.tv 4, .ty 0)] := by decide
example : getTypes exSeq 18 10 none = .ok [(.tv 4, .ty 0)] :=
  binding_of_foreign_generic_base (WF_of_wfB (by decide)) 17 10 4 [4] [.ty 0] none (by decide) (by decide) (by decide) (by decide)
    (by decide) (by decide) (by decide) rfl (by decide)
example : getTypes exSeq 18 14 none = .ok [(.tv 4, .ty 0)] :=
  binding_of_foreign_generic_base (WF_of_wfB (by decide)) 17 14 4 [4] [.ty 0] none (by decide) (by decide) (by decide) (by decide)
    (by decide) (by decide) (by decide) rfl (by decide)
example : mixinBases exSeq 18 "GenericMixin" (basesOf exSeq 9) = [.param 6 [.ty 0]] ∧
    mixinBases exSeq 18 "GenericMixin" (basesOf exSeq 14) = [] ∧
    loopCandidates exSeq 18 (basesOf exSeq 14) = [.param 5 [.ty 0], .param 4 [.ty 0]] := by decide

/-- outside the claimed shapes (reported only): with two subscripted GenericMixin bases — `class Two(Box[X0], Box2[X1])` — and with
    two subscripted generic-class bases none of which is a GenericMixin class — `class Both(Labelled[X0], Other[X1], GenericMixin)` —
    the first one is reported -/
theorem outside_the_claimed_binding_shapes :
    expectedOutcome exSeq 18 12 none = .unsupported ∧ getTypes exSeq 18 12 none = .ok [(.tv 1, .ty 0)] ∧
    expectedOutcome exSeq 18 16 none = .unsupported ∧ getTypes exSeq 18 16 none = .ok [(.tv 4, .ty 0)] := by decide

def exD : Table := libTable ++ [
  ⟨[.param 3 [.ty 50]],                                   -- 4: class Base(WithDecoratedMethods[D])
   [(⟨0, "m1"⟩, .func .inst [⟨100, 1, .none⟩, ⟨101, 2, .wraps⟩, ⟨100, 3, .ident⟩]),   -- @foo(3, ident) @bar(2, wraps) @foo(1)
    (⟨1, "h"⟩, .func .inst []),
    (⟨0, "m2"⟩, .func .inst [⟨101, 4, .none⟩])]⟩,
  ⟨[.plain 4],                                            -- 5: class Sub(Base)
   [(⟨0, "m2"⟩, .func .inst []),                          -- overrides m2 without decorator
    (⟨0, "m3"⟩, .func .inst [⟨100, 5, .none⟩])]⟩ ]

def exEnum : TArg → Option EnumDesc :=
  fun x => if x = .ty 50 then some ⟨[100, 101], [(200, 9000), (201, 9001)]⟩ else none

example : wfB exD = true := by decide
example : expectedOutcome exD 10 5 none = .ok [(.tv 0, .ty 50)] := by decide
example : decoGuard exD (lin exD 10 5) [100, 101] [(200, 9000), (201, 9001)] = true := by decide
example : getDecorated exD 10 5 none exEnum =
    .ok [(100, [(.bound 5 ⟨0, "m3"⟩ 0, 5), (.bound 4 ⟨0, "m1"⟩ 1, 3)]), (101, [(.bound 4 ⟨0, "m1"⟩ 1, 2)])] := by decide
example : expectedDecorated exD (lin exD 10 5) [100, 101] =
    [(100, [((5, ⟨0, "m3"⟩), 5), ((4, ⟨0, "m1"⟩), 3)]), (101, [((4, ⟨0, "m1"⟩), 2)])] := by decide
example : (applyApps [⟨100, 1, .none⟩, ⟨101, 2, .wraps⟩, ⟨100, 3, .ident⟩]).journal =
    [[.fn 0, .ty 101, .val 2], [.fn 1, .ty 100, .val 3]] := by decide

end PedVerif.Mixins
