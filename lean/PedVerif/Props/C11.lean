import PedVerif.Spec.Frozen
/-!
# C11 — frozen dataclass: immutability, copy_with / deep_copy_with, eq / hash / order
-/
namespace PedVerif.Frozen
open PedVerif.Gen.Frozen

/-! ## heap lemmas: `deepcopy` hands out fresh identities and preserves the value

The heap these lemmas quantify over has, besides lists / dicts / sets and tuples, **instances of plain user classes**
(`Kind.obj`: mutable, hashable by identity, `==` is identity), frozensets (`Kind.fset`) and **instances of `@frozen_dataclass`
classes** (`Kind.fz cid`, any number of classes: not changeable in place, but their fields hold arbitrary values — lists, dicts,
sets, objects, other frozen instances), at any depth and in any combination; `mutIds` collects lists, dicts, sets *and*
instances of plain classes, also those reachable only *through* frozen instances, tuples and frozensets.

`copy.deepcopy` duplicates an instance of a frozen dataclass only as long as the class does not customise the copy protocol:
`cfg_no_copy_hooks` is the generated fact that the decorator installs none of `__deepcopy__`, `__copy__`, `__reduce__`,
`__reduce_ex__`, `__getstate__`, `__setstate__`, `__getnewargs__`, `__getnewargs_ex__`, `__replace__` on the class; every heap
theorem below rests on it (through `fzRebuilt_true`), so a decorator that starts installing one breaks them. -/

/-- **generated fact**: the decorator leaves the copy protocol of the class alone -/
theorem cfg_no_copy_hooks : copyProtocolHooks = [] := by decide
/-- the `deepcopy(...)` of `deep_copy_with` is the bare `copy.deepcopy`, outside any `try`: what it raises for a value that cannot be
    deep-copied reaches the caller (re-read from the source on every run) -/
theorem cfg_deepcopy_bare : deepcopyBare = true := by decide

/-- … hence `copy.deepcopy` rebuilds instances of frozen dataclasses (`object.__reduce_ex__` / `copy._reconstruct`) -/
theorem fzRebuilt_true : fzRebuilt = true := by simp [fzRebuilt, cfg_no_copy_hooks]

theorem fz_hook_absurd {k : Kind} (h : (k.isFz && !fzRebuilt) = true) : False := by
  simp [fzRebuilt_true] at h

/-- all identities of mutable nodes of the copy — lists, dicts, sets, instances of plain classes, at any depth, also inside
    frozen-dataclass instances — lie in `[n, n')`: fresh w.r.t. everything allocated below `n` -/
theorem deepcopy_fresh :
    (∀ (o : Obj) (n : Nat), n ≤ (deepcopy o n).2 ∧ ∀ i ∈ (deepcopy o n).1.mutIds, n ≤ i ∧ i < (deepcopy o n).2) ∧
    (∀ (os : List Obj) (n : Nat), n ≤ (deepcopyL os n).2 ∧ ∀ i ∈ mutIdsL (deepcopyL os n).1, n ≤ i ∧ i < (deepcopyL os n).2) := by
  apply deepcopy.mutual_induct
    (motive_1 := fun o n => n ≤ (deepcopy o n).2 ∧ ∀ i ∈ (deepcopy o n).1.mutIds, n ≤ i ∧ i < (deepcopy o n).2)
    (motive_2 := fun os n => n ≤ (deepcopyL os n).2 ∧ ∀ i ∈ mutIdsL (deepcopyL os n).1, n ≤ i ∧ i < (deepcopyL os n).2)
  · intro a n; simp [deepcopy, Obj.mutIds]
  · intro id items n items' n' h hid ih
    simp only [deepcopy, h, hid, ↓reduceIte] at *
    simpa [Obj.mutIds] using ih
  · intro id items n items' n' h hid ih
    simp only [deepcopy, h, hid] at *
    obtain ⟨h1, h2⟩ := ih
    refine ⟨by simp; omega, ?_⟩
    intro i hi
    simp [Obj.mutIds] at hi ⊢
    have := h2 i hi; omega
  · intro k id items n hc; exact (fz_hook_absurd hc).elim
  · intro k id items n hc items' n' h ih
    simp only [deepcopy, hc, h, Bool.false_eq_true, ↓reduceIte] at *
    obtain ⟨h1, h2⟩ := ih
    refine ⟨by omega, ?_⟩
    intro i hi
    simp only [Obj.mutIds] at hi
    split at hi
    · simp only [List.mem_cons] at hi
      rcases hi with rfl | hi
      · omega
      · have := h2 i hi; omega
    · have := h2 i hi; omega
  · intro n; simp [deepcopyL, mutIdsL]
  · intro x xs n x' n1 hx xs' n2 hxs ih1 ih2
    simp only [deepcopyL, hx, hxs] at *
    obtain ⟨a1, a2⟩ := ih1
    obtain ⟨b1, b2⟩ := ih2
    refine ⟨by omega, ?_⟩
    intro i hi
    simp only [mutIdsL, List.mem_append] at hi
    rcases hi with hi | hi
    · have := a2 i hi; omega
    · have := b2 i hi; omega

/-- the deep copy is the same value (`Obj.seq`: same shape, same kinds / classes, same atoms) — objects included -/
theorem deepcopy_seq :
    (∀ (o : Obj) (n : Nat), o.seq (deepcopy o n).1 = true) ∧
    (∀ (os : List Obj) (n : Nat), seqL os (deepcopyL os n).1 = true) := by
  apply deepcopy.mutual_induct
    (motive_1 := fun o n => o.seq (deepcopy o n).1 = true)
    (motive_2 := fun os n => seqL os (deepcopyL os n).1 = true)
  · intro a n; simp [deepcopy, Obj.seq]
  · intro id items n items' n' h hid ih
    simp only [deepcopy, h, hid, ↓reduceIte] at *
    simpa [Obj.seq] using ih
  · intro id items n items' n' h hid ih
    simp only [deepcopy, h, hid] at *
    simpa [Obj.seq] using ih
  · intro k id items n hc; exact (fz_hook_absurd hc).elim
  · intro k id items n hc items' n' h ih
    simp only [deepcopy, hc, h, Bool.false_eq_true, ↓reduceIte] at *
    simpa [Obj.seq] using ih
  · intro n; simp [deepcopyL, seqL]
  · intro x xs n x' n1 hx xs' n2 hxs ih1 ih2
    simp only [deepcopyL, hx, hxs] at *
    simp [seqL, ih1, ih2]

/-- on values without instances of plain classes "the same value" implies Python's `==` -/
theorem seq_veq_of_noObj :
    (∀ o p : Obj, o.noObj = true → o.seq p = true → o.veq p = true) ∧
    (∀ os ps : List Obj, noObjL os = true → seqL os ps = true → veqL os ps = true) := by
  apply Obj.allIds.mutual_induct (motive_1 := fun o => ∀ p, o.noObj = true → o.seq p = true → o.veq p = true)
    (motive_2 := fun os => ∀ ps, noObjL os = true → seqL os ps = true → veqL os ps = true)
  · intro a p _ h; cases p <;> simp_all [Obj.seq, Obj.veq]
  · intro id items ih p hn h
    cases p <;> simp_all [Obj.seq, Obj.veq, Obj.noObj]
  · intro k id items ih p hn h
    cases p with
    | box k' j ys =>
      simp only [Obj.noObj, Bool.and_eq_true, bne_iff_ne, ne_eq] at hn
      simp only [Obj.seq, Bool.and_eq_true, beq_iff_eq] at h
      obtain ⟨rfl, h2⟩ := h
      have hk : (k == Kind.obj) = false := by simpa using hn.1
      simp [Obj.veq, hk, ih _ hn.2 h2]
    | _ => simp [Obj.seq] at h
  · intro ps _ h; cases ps <;> simp_all [seqL, veqL]
  · intro x xs ih1 ih2 ps hn h
    cases ps with
    | nil => simp [seqL] at h
    | cons y ys =>
      simp only [noObjL, Bool.and_eq_true] at hn
      simp only [seqL, Bool.and_eq_true] at h
      simp [veqL, ih1 _ hn.1 h.1, ih2 _ hn.2 h.2]

/-- Python's `==` between a value and its deep copy: the full statement, true on the guard "no instance of a plain class
    inside" (`deepcopy_veq`), false beyond it (`deepcopy_veq_fails_on_object`: `object.__eq__` is identity, and the copy is
    a new object) — which is why the copy contract is stated with `Obj.seq` -/
def deepcopy_veq_full : Prop := ∀ (o : Obj) (n : Nat), o.veq (deepcopy o n).1 = true

theorem deepcopy_veq (o : Obj) (n : Nat) (h : o.noObj = true) : o.veq (deepcopy o n).1 = true :=
  seq_veq_of_noObj.1 o _ h (deepcopy_seq.1 o n)

theorem deepcopy_veq_fails_on_object : ¬ deepcopy_veq_full := by
  intro h
  have := h (.box .obj 0 [.atom (.int 1)]) 5
  revert this; decide

example : (Obj.box .list 1 [.tup 2 [.box .set 3 []]]).noObj = true := by decide

/-- **heap lemma**: under the allocator invariant (every live identity of the value is below `n`) the deep copy shares no
    mutable node — list, dict, set or instance of a plain class, directly or inside tuples / frozensets / instances of frozen
    dataclasses / other nodes — with the original and is the same value — for values of any size and nesting -/
theorem deepcopy_no_shared_mutable (o : Obj) (n : Nat) (hwf : ∀ i ∈ o.mutIds, i < n) :
    (∀ i ∈ (deepcopy o n).1.mutIds, i ∉ o.mutIds) ∧ o.seq (deepcopy o n).1 = true := by
  refine ⟨?_, deepcopy_seq.1 o n⟩
  intro i hi hmem
  have := (deepcopy_fresh.1 o n).2 i hi
  have := hwf i hmem
  omega

/-- an instance of a plain class holding a list, inside a tuple inside a frozenset inside a dict value: hashable members,
    yet every object and list of the copy is new -/
def exObjVal : Obj :=
  .box .dict 1 [.atom (.str [107]), .box .fset 2 [.tup 3 [.box .obj 4 [.atom (.int 1), .box .list 5 []]]], .box .obj 6 []]

example : exObjVal.mutIds = [1, 4, 5, 6] ∧ (deepcopy exObjVal 10).1.mutIds = [10, 12, 13, 15] := by decide
example : ∀ i ∈ exObjVal.mutIds, i < 10 := by decide
example : (Obj.tup 3 [.box .obj 4 [.box .list 5 []]]).hashable = true ∧ (Obj.tup 3 [.box .obj 4 [.box .list 5 []]]).mutIds = [4, 5] := by decide

/-! ### instances of frozen dataclasses nested in values -/

/-- a frozen instance is not a mutable node itself, but everything mutable behind its fields is reachable through it -/
theorem fz_mutIds (c i : Nat) (items : List Obj) : (Obj.box (.fz c) i items).mutIds = mutIdsL items := by
  simp [Obj.mutIds, Kind.mutable]

/-- `==` of two frozen instances: same class ∧ equal field tuples (`_cmp_fn`); never equal to a node of another kind -/
theorem fz_eq_is_field_tuple_eq (c c' i j : Nat) (xs ys : List Obj) :
    (Obj.box (.fz c) i xs).veq (.box (.fz c') j ys) = (decide (c = c') && veqL xs ys) := by
  by_cases h : c = c' <;> simp [Obj.veq, Kind.eqKey, h]

/-- `hash` of a frozen instance exists iff the tuple of its fields is hashable (`_hash_add`) -/
theorem fz_hashable_iff_fields (c i : Nat) (items : List Obj) : (Obj.box (.fz c) i items).hashable = hashableL items := by
  simp [Obj.hashable, Kind.isFz]

/-- **`copy.deepcopy` rebuilds a frozen instance**: under the allocator invariant the copy of an instance of a
    `@frozen_dataclass` class is an instance of the same class with a *fresh identity* whose fields are the same values and
    share no mutable node (list / dict / set / object, at any depth) with the fields of the original.
    Rests on `cfg_no_copy_hooks`: a `__deepcopy__` (or `__reduce_ex__`, …) installed by the decorator voids it. -/
theorem deepcopy_rebuilds_frozen (c i : Nat) (items : List Obj) (n : Nat) (hid : i < n) (hlive : ∀ j ∈ mutIdsL items, j < n) :
    ∃ items' n', deepcopy (.box (.fz c) i items) n = (.box (.fz c) n items', n') ∧
      (Obj.box (.fz c) n items').ident (.box (.fz c) i items) = false ∧
      seqL items items' = true ∧ (∀ j ∈ mutIdsL items', j ∉ mutIdsL items) := by
  refine ⟨(deepcopyL items (n + 1)).1, (deepcopyL items (n + 1)).2, ?_, ?_, deepcopy_seq.2 items (n + 1), ?_⟩
  · simp [deepcopy, Kind.isFz, fzRebuilt_true]
  · simp [Obj.ident]; omega
  · intro j hj hm
    have := (deepcopy_fresh.2 items (n + 1)).2 j hj
    have := hlive j hm
    omega

/-- frozen instances of three classes (helper classes 10 and 11, and class 1 = the class under test itself) nested to depth 3,
    holding a set / a dict / a list / an object with a list: directly inside each other, inside a tuple, a list and a dict value -/
def exFzVal : Obj :=
  .tup 62 [.box (.fz 11) 63 [.box (.fz 10) 64 [.box .set 65 []], .atom .none],
           .box .list 66 [.box (.fz 10) 67 [.box .dict 68 []]],
           .box .dict 69 [.atom (.str [107]), .box (.fz 11) 70 [.box .list 71 [],
              .box (.fz 1) 72 [.atom (.int 3), .box .obj 73 [.box .list 74 []], .atom (.int 5)]]]]

example : exFzVal.mutIds = [65, 66, 68, 69, 71, 73, 74] ∧ ∀ i ∈ exFzVal.mutIds, i < 80 := by decide
-- every frozen instance of the copy is a new one (80, 81, 84, 87, 89), and so is every mutable node behind them
example : (deepcopy exFzVal 80).1.allIds = [92, 80, 81, 82, 83, 84, 85, 86, 87, 88, 89, 90, 91] ∧
    (deepcopy exFzVal 80).1.mutIds = [82, 83, 85, 86, 88, 90, 91] := by decide
example : ∀ i ∈ (deepcopy exFzVal 80).1.mutIds, i ∉ exFzVal.mutIds := (deepcopy_no_shared_mutable exFzVal 80 (by decide)).1
example : exFzVal.seq (deepcopy exFzVal 80).1 = true := by decide
-- Z10([1]) directly: the "copy" that a `__deepcopy__` returning `self` would hand out is the node itself and shares the list
example : (Obj.box (.fz 10) 60 [.box .list 61 [.atom (.int 1)]]).mutIds = [61] ∧
    (deepcopy (.box (.fz 10) 60 [.box .list 61 [.atom (.int 1)]]) 80).1.mutIds = [81] := by decide
-- eq / hash / < of frozen instances
example : Obj.veq (.box (.fz 10) 1 [.box .list 2 [.atom (.int 1)]]) (.box (.fz 10) 3 [.box .list 4 [.atom (.int 1)]]) = true ∧
    Obj.veq (.box (.fz 10) 1 [.atom (.int 1)]) (.box (.fz 12) 3 [.atom (.int 1)]) = false ∧
    Obj.veq (.box (.fz 10) 1 [.box .obj 2 []]) (.box (.fz 10) 3 [.box .obj 4 []]) = false ∧
    Obj.veq (.box (.fz 10) 1 [.box .obj 2 []]) (.box (.fz 10) 3 [.box .obj 2 []]) = true ∧
    Obj.vlt (.box (.fz 10) 1 [.atom (.int 1)]) (.box (.fz 10) 3 [.atom (.int 2)]) = none := by decide
example : (Obj.box (.fz 10) 1 [.box .list 2 []]).hashable = false ∧ (Obj.box (.fz 11) 1 [.atom (.int 1), .box (.fz 10) 2 [.atom .none]]).hashable = true ∧
    (Obj.box .fset 4 [.box (.fz 10) 5 [.box .obj 6 [.box .list 7 []]]]).hashable = true ∧
    (Obj.box .fset 4 [.box (.fz 10) 5 [.box .obj 6 [.box .list 7 []]]]).mutIds = [6, 7] := by decide

theorem seq_refl : (∀ o : Obj, o.seq o = true) ∧ (∀ os : List Obj, seqL os os = true) := by
  apply Obj.allIds.mutual_induct (motive_1 := fun o => o.seq o = true) (motive_2 := fun os => seqL os os = true)
  · intro a; simp [Obj.seq]
  · intro id items ih; simpa [Obj.seq] using ih
  · intro k id items ih; simpa [Obj.seq] using ih
  · simp [seqL]
  · intro x xs ih1 ih2; simp [seqL, ih1, ih2]

theorem seq_symm : (∀ o p : Obj, o.seq p = p.seq o) ∧ (∀ os ps : List Obj, seqL os ps = seqL ps os) := by
  apply Obj.allIds.mutual_induct (motive_1 := fun o => ∀ p, o.seq p = p.seq o) (motive_2 := fun os => ∀ ps, seqL os ps = seqL ps os)
  · intro a p; cases p <;> simp [Obj.seq]; exact Bool.beq_comm
  · intro id items ih p; cases p <;> simp [Obj.seq, ih]
  · intro k id items ih p; cases p <;> simp [Obj.seq, ih]
    rename_i k' _ _; rw [show (k == k') = (k' == k) from Bool.beq_comm]
  · intro ps; cases ps <;> simp [seqL]
  · intro x xs ih1 ih2 ps; cases ps <;> simp [seqL, ih1, ih2]

theorem seq_trans : (∀ o p q : Obj, o.seq p = true → p.seq q = true → o.seq q = true) ∧
    (∀ os ps qs : List Obj, seqL os ps = true → seqL ps qs = true → seqL os qs = true) := by
  apply Obj.allIds.mutual_induct (motive_1 := fun o => ∀ p q, o.seq p = true → p.seq q = true → o.seq q = true)
    (motive_2 := fun os => ∀ ps qs, seqL os ps = true → seqL ps qs = true → seqL os qs = true)
  · intro a p q; cases p <;> cases q <;> simp [Obj.seq]; intro h1 h2; exact h1.trans h2
  · intro id items ih p q; cases p <;> cases q <;> simp [Obj.seq]; exact ih _ _
  · intro k id items ih p q; cases p <;> cases q <;> simp [Obj.seq]
    intro h1 h2 h3 h4; exact ⟨h1.trans h3, ih _ _ h2 h4⟩
  · intro ps qs; cases ps <;> cases qs <;> simp [seqL]
  · intro x xs ih1 ih2 ps qs; cases ps <;> cases qs <;> simp [seqL]
    intro h1 h2 h3 h4; exact ⟨ih1 _ _ h1 h3, ih2 _ _ h2 h4⟩

/-- Python's `==` is reflexive (an object is equal to itself) and symmetric on this value universe -/
theorem veq_refl : (∀ o : Obj, o.veq o = true) ∧ (∀ os : List Obj, veqL os os = true) := by
  apply Obj.allIds.mutual_induct (motive_1 := fun o => o.veq o = true) (motive_2 := fun os => veqL os os = true)
  · intro a; simp [Obj.veq]
  · intro id items ih; simpa [Obj.veq] using ih
  · intro k id items ih; simp [Obj.veq, ih]
  · simp [veqL]
  · intro x xs ih1 ih2; simp [veqL, ih1, ih2]

theorem veq_symm : (∀ o p : Obj, o.veq p = p.veq o) ∧ (∀ os ps : List Obj, veqL os ps = veqL ps os) := by
  apply Obj.allIds.mutual_induct (motive_1 := fun o => ∀ p, o.veq p = p.veq o) (motive_2 := fun os => ∀ ps, veqL os ps = veqL ps os)
  · intro a p; cases p <;> simp [Obj.veq]; exact Bool.beq_comm
  · intro id items ih p; cases p <;> simp [Obj.veq, ih]
  · intro k id items ih p
    cases p with
    | box k' j ys =>
      simp only [Obj.veq, ih ys]
      rw [Bool.or_comm (k == Kind.obj), show (k == k') = (k' == k) from Bool.beq_comm, show (id == j) = (j == id) from Bool.beq_comm,
        show (k.eqKey == k'.eqKey) = (k'.eqKey == k.eqKey) from Bool.beq_comm]
    | _ => simp [Obj.veq]
  · intro ps; cases ps <;> simp [veqL]
  · intro x xs ih1 ih2 ps; cases ps <;> simp [veqL, ih1, ih2]


/-! ## what the decorator hands to `dataclass(...)` (generated definitions) -/

/-- `frozen=True` for every combination of decorator arguments; order / kw_only / slots are forwarded unchanged; the class
    returned is the dataclass, `copy_with` and `deep_copy_with` are attached to it and neither writes to `self` -/
theorem frozen_source_shape :
    (∀ t o k s, frozenArg t o k s = true) ∧ (∀ t o k s, orderArg t o k s = o) ∧ (∀ t o k s, kwOnlyArg t o k s = k) ∧
    (∀ t o k s, slotsArg t o k s = s) ∧ returnsDataclass = true ∧ "copy_with" ∈ methodsAdded ∧ "deep_copy_with" ∈ methodsAdded ∧
    copyBodiesWriteSelf = false := by
  refine ⟨by decide, by decide, by decide, by decide, by decide, by decide, by decide, by decide⟩

theorem layer_frozen (l : Layer) : l.frozen = true := frozen_source_shape.1 _ _ _ _
theorem layer_effOrder (l : Layer) : l.effOrder = l.order := frozen_source_shape.2.1 _ _ _ _
theorem layer_effSlots (l : Layer) : l.effSlots = l.slots := frozen_source_shape.2.2.2.1 _ _ _ _

/-- **a class that derives from an ordinary non-frozen `@dataclass` is never decorated**: whatever options are written at `@frozen_dataclass`,
    `dataclass()` receives `frozen=True` (`frozen_source_shape`) and refuses the definition — the decoration raises, no class exists whose
    instances could accept an assignment.  (With `frozen` dropped from the call the same definition would go through as a mutable class.) -/
theorem nonfrozen_dataclass_base_refused (l : Layer) : Hazard.nonFrozenDataclassBase.refused l = true := by
  simp [Hazard.refused, layer_frozen]

theorem defOkH_refused (l : Layer) (rest : Cls) (h : Hazard) (hs : List Hazard) (hd : l.decorated = true) (hr : h.refused l = true) :
    defOkH (l :: rest) (h :: hs) = false := by
  simp [defOkH, hd, hr]

/-- `order=True` next to a `__lt__` of the class body, `slots=True` next to a `__slots__` of the class body: refused exactly then -/
theorem own_lt_refused_iff (l : Layer) : Hazard.ownLt.refused l = l.order := by simp [Hazard.refused, layer_effOrder]
theorem own_slots_refused_iff (l : Layer) : Hazard.ownSlots.refused l = l.slots := by simp [Hazard.refused, layer_effSlots]

/-! ## immutability

What stands between an assignment / deletion and `object.__setattr__` / `object.__delattr__` is the `__setattr__` / `__delattr__` that
`dataclass(frozen=True)` generated — as long as the decorator installs no attribute-protocol hook of its own on the class:
`cfg_no_attr_hooks` is the generated fact that it installs none of `__setattr__`, `__delattr__`, `__getattribute__`, `__getattr__`,
`__set_name__`, `__set__`, `__delete__`, `__get__`, `__dir__`, `__init_subclass__`; every immutability theorem rests on it (through
`attrGate_std`), so a decorator that brings its own `__setattr__` breaks them.  Names are arbitrary: a field, a new name, the name of an
added method (`copy_with`, …), a special method name, `__class__` (`nameClass`), `__dict__` (`nameDict`). -/

/-- **generated fact**: the decorator leaves the attribute protocol of the class alone -/
theorem cfg_no_attr_hooks : attrProtocolHooks = [] := by decide

/-- … hence assignment and deletion go through the generated frozen `__setattr__` / `__delattr__` chain -/
theorem attrGate_std (name : Name) (c : Cls) : attrGate name c = frozenWalk name true c := by
  simp [attrGate, attrProtocolStd, cfg_no_attr_hooks]

def rejected (r : Except Exc Inst) : Bool := match r with | .ok _ => false | .error _ => true

/-- the generated `__setattr__` / `__delattr__` of a decorated head class always raises, and says which exception -/
theorem frozenWalk_head (name : Name) (l : Layer) (rest : Cls) (hdec : l.decorated = true) :
    frozenWalk name true (l :: rest) =
      some (if !l.slots || (fieldNames (l :: rest)).contains name then Exc.frozenInstance else Exc.typeError) := by
  simp only [frozenWalk, hdec, layer_frozen, layer_effSlots]
  cases l.slots <;> cases (fieldNames (l :: rest)).contains name <;> simp

/-- a field name is rejected by every class of the hierarchy, whoever the head is -/
theorem frozenWalk_field (name : Name) : ∀ (c : Cls) (isHead : Bool), name ∈ fieldNames c →
    frozenWalk name isHead c = some Exc.frozenInstance := by
  intro c
  induction c with
  | nil => intro _ h; simp [fieldNames, fieldsOf] at h
  | cons l rest ih =>
    intro isHead h
    by_cases hdec : l.decorated = true
    · simp only [frozenWalk, hdec, layer_frozen]
      simp [h]
    · have hdec' : l.decorated = false := by simpa using hdec
      have h' : name ∈ fieldNames rest := by simpa [fieldNames, fieldsOf, hdec'] using h
      simp [frozenWalk, hdec', ih false h']

/-- the full-strength statement: every instance whose class is, or inherits from, a `@frozen_dataclass` class rejects
    every assignment and deletion -/
def frozen_rejects_set_del_full : Prop :=
  ∀ (self : Inst) (name : Name) (v : Obj), rootDecorated self.cls = true →
    rejected (setattr self name v) = true ∧ rejected (delattr self name) = true

/-- under slots=True the generated method of the nearest decorated class raises for every name, whoever the head is -/
theorem frozenWalk_slots (name : Name) : ∀ (c : Cls) (isHead : Bool) (l : Layer) (rest : Cls),
    decoratedPart c = l :: rest → l.slots = true → ∃ e, frozenWalk name isHead c = some e := by
  intro c
  induction c with
  | nil => intro _ l rest h; simp [decoratedPart] at h
  | cons l0 r0 ih =>
    intro isHead l rest h hs
    by_cases hd : l0.decorated = true
    · simp only [decoratedPart, hd, ↓reduceIte] at h
      obtain ⟨rfl, rfl⟩ := List.cons.inj h
      simp only [frozenWalk, hd, layer_frozen, layer_effSlots, hs]
      cases (fieldNames (l0 :: r0)).contains name <;> simp
    · have hd' : l0.decorated = false := by simpa using hd
      simp only [decoratedPart, hd'] at h
      simp only [frozenWalk, hd']
      exact ih false l rest (by simpa using h) hs

def nearestSlots (c : Cls) : Bool := match decoratedPart c with | l :: _ => l.slots | [] => false

/-- the guard of the proved part: the instance's own class is decorated, or the name is a dataclass field, or the nearest
    decorated class has slots=True -/
def inFrozenGuard (self : Inst) (name : Name) : Bool :=
  (match self.cls with | l :: _ => l.decorated | [] => false) || (fieldNames self.cls).contains name || nearestSlots self.cls

/-- **C11, immutability (proved part).** Every assignment and every deletion on an instance of a decorated class — and of
    a field on an instance of any subclass, and of anything below a slots=True class — raises; nothing is stored. -/
theorem frozen_rejects_set_del_partial (self : Inst) (name : Name) (v : Obj) (hg : inFrozenGuard self name = true) :
    rejected (setattr self name v) = true ∧ rejected (delattr self name) = true := by
  have hw : ∃ e, frozenWalk name true self.cls = some e := by
    by_cases hf : (fieldNames self.cls).contains name = true
    · exact ⟨_, frozenWalk_field name self.cls true (by simpa using hf)⟩
    · by_cases hns : nearestSlots self.cls = true
      · unfold nearestSlots at hns
        cases hdp : decoratedPart self.cls with
        | nil => simp [hdp] at hns
        | cons l rest => exact frozenWalk_slots name self.cls true l rest hdp (by simpa [hdp] using hns)
      · cases hc : self.cls with
        | nil =>
          simp only [inFrozenGuard, hc, Bool.or_eq_true] at hg
          rcases hg with (hg | hg) | hg
          · cases hg
          · simp [fieldNames, fieldsOf] at hg
          · simp [nearestSlots, decoratedPart] at hg
        | cons l rest =>
          have hdec : l.decorated = true := by
            simp only [inFrozenGuard, hc, Bool.or_eq_true] at hg
            rw [hc] at hf hns
            rcases hg with (hg | hg) | hg
            · exact hg
            · exact absurd hg hf
            · exact absurd hg hns
          exact ⟨_, frozenWalk_head name l rest hdec⟩
  obtain ⟨e, he⟩ := hw
  simp [setattr, delattr, attrGate_std, he, rejected]

/-- … and the exception is `FrozenInstanceError`, except for a name that is not a field on a class with slots=True
    (there `super(cls, self)` of the generated method refers to the class that `_add_slots` replaced: TypeError) -/
theorem frozen_error_class (self : Inst) (name : Name) (v : Obj) (l : Layer) (rest : Cls)
    (hc : self.cls = l :: rest) (hdec : l.decorated = true) :
    let e := if !l.slots || (fieldNames self.cls).contains name then Exc.frozenInstance else Exc.typeError
    setattr self name v = .error e ∧ delattr self name = .error e := by
  have := frozenWalk_head name l rest hdec
  simp only [setattr, delattr, attrGate_std, hc, this]
  simp

theorem mergeField_names (acc : List FieldR) (f : FieldR) (n : Name) (h : n ∈ acc.map (·.name)) :
    n ∈ (mergeField acc f).map (·.name) := by
  unfold mergeField
  split
  · simp only [List.map_map, List.mem_map, Function.comp] at h ⊢
    obtain ⟨g, hg, rfl⟩ := h
    refine ⟨g, hg, ?_⟩
    by_cases he : g.name = f.name
    · simp [he]
    · have : (g.name == f.name) = false := by simpa using he
      simp [this]
  · simp only [List.map_append, List.mem_append]; exact Or.inl h

theorem foldl_mergeField_names : ∀ (fs : List FieldR) (acc : List FieldR) (n : Name), n ∈ acc.map (·.name) →
    n ∈ (fs.foldl mergeField acc).map (·.name) := by
  intro fs
  induction fs with
  | nil => intro acc n h; exact h
  | cons f fs ih => intro acc n h; exact ih _ n (mergeField_names acc f n h)

/-- a subclass keeps the field names of its bases -/
theorem fieldNames_mono (l : Layer) (rest : Cls) (n : Name) (h : n ∈ fieldNames rest) : n ∈ fieldNames (l :: rest) := by
  unfold fieldNames at *
  simp only [fieldsOf]
  split
  · exact foldl_mergeField_names _ _ n h
  · exact h

theorem frozenWalk_none (name : Name) : ∀ (c : Cls), (∀ l ∈ c, l.slots = false) → name ∉ fieldNames c →
    frozenWalk name false c = none := by
  intro c
  induction c with
  | nil => intro _ _; rfl
  | cons l rest ih =>
    intro hs hn
    have hrest := ih (fun l' hl' => hs l' (by simp [hl'])) (fun h => hn (fieldNames_mono l rest name h))
    by_cases hd : l.decorated = true
    · simp [frozenWalk, hd, layer_frozen, layer_effSlots, hs l (by simp), hn, hrest]
    · have hd' : l.decorated = false := by simpa using hd
      simp [frozenWalk, hd', hrest]

/-- **the finding region, exactly for hierarchies without slots**: on an instance of an undecorated subclass every name that
    is not a field can be assigned -/
theorem frozen_allows_new_attribute_on_undecorated_subclass (self : Inst) (name : Name) (v : Obj) (l : Layer) (rest : Cls)
    (hc : self.cls = l :: rest) (hund : l.decorated = false) (hnf : name ∉ fieldNames self.cls)
    (hns : ∀ l' ∈ self.cls, l'.slots = false) : rejected (setattr self name v) = false := by
  have hw : frozenWalk name true self.cls = none := by
    rw [hc]
    simp only [frozenWalk, hund]
    have := frozenWalk_none name rest (fun l' hl' => hns l' (by simp [hc, hl']))
      (fun h => hnf (by rw [hc]; exact fieldNames_mono l rest name h))
    simpa using this
  have hd : hasDict self.cls = true := by
    rw [hc]; simp [hasDict, hund]
  simp only [setattr, attrGate_std, hw]
  simp only [List.contains_iff_mem, hnf, hd]
  simp only [Bool.false_eq_true, ↓reduceIte, Bool.not_true]
  split
  · simp [rejected]
  · split <;> simp [rejected]

/-- the instance of the undecorated subclass `class B(A): pass` used as witness: `A` has one field `f0` -/
def witnessSub : Inst :=
  ⟨[⟨1, false, false, false, true, false, false, []⟩, ⟨0, true, false, false, true, false, false, [⟨0, .none, true, true⟩]⟩],
   [(0, .atom (.int 1))], []⟩

/-- **negation witness** for the complement of the guard (finding `undecoratedSubclassAllowsNewAttributes`):
    on an undecorated subclass a new attribute can be assigned, and deleted again -/
theorem frozen_rejects_fails_on_undecorated_subclass : ¬ frozen_rejects_set_del_full := by
  intro h
  have := (h witnessSub 100 (.atom (.int 1)) (by decide)).1
  revert this
  decide

example : inFrozenGuard witnessSub 100 = false := by decide
example : inFrozenGuard witnessSub 0 = true ∧ rejected (setattr witnessSub 0 (.atom .none)) = true := by decide
example : rejected (setattr { witnessSub with cls := witnessSub.cls.drop 1 } 100 (.atom .none)) = true := by decide

/-- **every name** — a field, a new name, the name of an added method, a special method name, `__class__`, `__dict__` — is rejected, for
    assignment and for deletion, on an instance whose own class is decorated -/
theorem frozen_head_rejects_every_name (self : Inst) (l : Layer) (rest : Cls) (hc : self.cls = l :: rest) (hdec : l.decorated = true)
    (name : Name) (v : Obj) : rejected (setattr self name v) = true ∧ rejected (delattr self name) = true :=
  frozen_rejects_set_del_partial self name v (by simp [inFrozenGuard, hc, hdec])

example : rejected (setattr { witnessSub with cls := witnessSub.cls.drop 1 } nameClass (.atom .none)) = true ∧
    rejected (setattr { witnessSub with cls := witnessSub.cls.drop 1 } nameDict (.atom .none)) = true ∧
    rejected (delattr { witnessSub with cls := witnessSub.cls.drop 1 } nameDict) = true ∧
    rejected (setattr { witnessSub with cls := witnessSub.cls.drop 1 } 200 (.atom .none)) = true := by decide

def raisedBy (r : Except Exc Inst) : Option Exc := match r with | .ok _ => none | .error e => some e

/-- inside the finding region (undecorated subclass, no slots) the names `__class__` and `__dict__` are as assignable as a new name, with
    their own consequences: after `obj.__class__ = Other` nothing is frozen any more — the field itself can be assigned —, after
    `obj.__dict__ = {}` the fields are gone; `del obj.__class__` is a TypeError -/
theorem reclass_unfreezes_on_undecorated_subclass :
    (match setattr witnessSub nameClass (.atom .none) with
     | .ok s => rejected (setattr s 0 (.atom (.int 2))) || rejected (delattr s 0)
     | .error _ => true) = false ∧
    (match setattr witnessSub nameDict (.atom .none) with
     | .ok s => s.fields.isEmpty
     | .error _ => false) = true ∧
    raisedBy (delattr witnessSub nameClass) = some .typeError := by decide


/-! ### the guard, tight

`inFrozenGuard` looks at the nearest decorated class only; in a mixed hierarchy (an undecorated head above a slot-free decorated class above a
`slots=True` decorated class) it is false although the chain of generated methods does reject a new name (the walk reaches the slots class).
The tight guard is the walk itself; in closed form: the instance's own class is decorated, or the name is a field, or SOME decorated class of
the hierarchy has `slots=True`. -/

def frozenGuard (self : Inst) (name : Name) : Bool := (frozenWalk name true self.cls).isSome

def tightGuardB (h : Bool) (c : Cls) (name : Name) : Bool :=
  (h && (match c with | l :: _ => l.decorated && !l.slots | [] => false)) || (fieldNames c).contains name ||
    c.any (fun l => l.decorated && l.slots)

theorem frozenWalk_isSome (name : Name) : ∀ (c : Cls) (h : Bool), (frozenWalk name h c).isSome = tightGuardB h c name := by
  intro c
  induction c with
  | nil => intro h; simp [frozenWalk, tightGuardB, fieldNames, fieldsOf]
  | cons l rest ih =>
    intro h
    by_cases hd : l.decorated = true
    · simp only [frozenWalk, hd, layer_frozen, layer_effSlots, Bool.not_true, Bool.false_or, Bool.false_eq_true, ↓reduceIte]
      by_cases h1 : ((h && !l.slots) || (fieldNames (l :: rest)).contains name) = true
      · simp only [h1, ↓reduceIte, Option.isSome_some, tightGuardB, hd, Bool.true_and, List.any_cons]
        simp only [Bool.or_eq_true, Bool.and_eq_true] at h1
        rcases h1 with ⟨a, b⟩ | b
        · simp [a, b]
        · simp [b]
      · have h1' : ((h && !l.slots) || (fieldNames (l :: rest)).contains name) = false := by simpa using h1
        simp only [h1', Bool.false_eq_true, ↓reduceIte]
        simp only [Bool.or_eq_false_iff] at h1'
        obtain ⟨ha, hb⟩ := h1'
        by_cases hs : l.slots = true
        · simp [hs, tightGuardB, hd]
        · have hs' : l.slots = false := by simpa using hs
          have hh : h = false := by simpa [hs'] using ha
          have hrest : (fieldNames rest).contains name = false := by
            cases hc : (fieldNames rest).contains name with
            | false => rfl
            | true =>
              have := fieldNames_mono l rest name (by simpa using hc)
              have : (fieldNames (l :: rest)).contains name = true := by simpa using this
              rw [hb] at this; cases this
          simp only [hs', Bool.false_eq_true, ↓reduceIte]
          rw [ih false]
          have hb' : decide (name ∈ fieldNames (l :: rest)) = false := by simpa using hb
          have hrest' : decide (name ∈ fieldNames rest) = false := by simpa using hrest
          simp [hs', tightGuardB, hd, hh, hb', hrest']
    · have hd' : l.decorated = false := by simpa using hd
      simp only [frozenWalk, hd', Bool.not_false, Bool.true_or, ↓reduceIte]
      rw [ih false]
      have hf : fieldNames (l :: rest) = fieldNames rest := by simp [fieldNames, fieldsOf, hd']
      simp [tightGuardB, hd', hf]

/-- the tight guard in closed form -/
theorem frozenGuard_iff (self : Inst) (name : Name) :
    frozenGuard self name = ((match self.cls with | l :: _ => l.decorated | [] => false) || (fieldNames self.cls).contains name ||
      self.cls.any (fun l => l.decorated && l.slots)) := by
  unfold frozenGuard
  rw [frozenWalk_isSome]
  unfold tightGuardB
  cases hc : self.cls with
  | nil => simp
  | cons l rest =>
    simp only [Bool.true_and, List.any_cons]
    cases l.decorated <;> cases l.slots <;> simp

/-- the old guard implies the tight one -/
theorem inFrozenGuard_imp (self : Inst) (name : Name) (h : inFrozenGuard self name = true) : frozenGuard self name = true := by
  rw [frozenGuard_iff]
  simp only [inFrozenGuard, nearestSlots, Bool.or_eq_true] at h
  simp only [Bool.or_eq_true]
  rcases h with (h | h) | h
  · exact Or.inl (Or.inl h)
  · exact Or.inl (Or.inr h)
  · have : self.cls.any (fun l => l.decorated && l.slots) = true := by
      revert h
      generalize self.cls = c
      induction c with
      | nil => simp [decoratedPart]
      | cons l rest ih =>
        by_cases hd : l.decorated = true
        · simp [decoratedPart, hd]; intro hs; simp [hs]
        · have hd' : l.decorated = false := by simpa using hd
          simp only [decoratedPart, hd', Bool.false_eq_true, ↓reduceIte, List.any_cons, Bool.false_and, Bool.false_or]
          exact ih
    exact Or.inr this

/-- **C11, immutability, under the tight guard**: whenever the chain of generated methods stops the operation — the instance's class is
    decorated, the name is a field, or any decorated class of the hierarchy has `slots=True` — assignment and deletion raise -/
theorem frozen_rejects_set_del (self : Inst) (name : Name) (v : Obj) (hg : frozenGuard self name = true) :
    rejected (setattr self name v) = true ∧ rejected (delattr self name) = true := by
  unfold frozenGuard at hg
  cases hw : frozenWalk name true self.cls with
  | none => simp [hw] at hg
  | some e => simp [setattr, delattr, attrGate_std, hw, rejected]

/-- **… and the guard is exact for assignment**: outside it (on a class hierarchy with at least one class) every assignment is accepted —
    the complement of the guard IS the region of the finding `undecoratedSubclassAllowsNewAttributes` -/
theorem setattr_rejected_iff_guard (self : Inst) (name : Name) (v : Obj) (hne : self.cls ≠ []) :
    rejected (setattr self name v) = frozenGuard self name := by
  cases hg : frozenGuard self name with
  | true => exact (frozen_rejects_set_del self name v hg).1
  | false =>
    have hw : frozenWalk name true self.cls = none := by
      unfold frozenGuard at hg
      cases h : frozenWalk name true self.cls with
      | none => rfl
      | some e => simp [h] at hg
    rw [frozenGuard_iff] at hg
    cases hc : self.cls with
    | nil => exact absurd hc hne
    | cons l rest =>
      simp only [hc, Bool.or_eq_false_iff] at hg
      obtain ⟨⟨hd, hf⟩, hs⟩ := hg
      have hdict : hasDict (l :: rest) = true := by simp [hasDict, hd]
      rw [hc] at hw
      simp only [setattr, attrGate_std, hc, hw, hf, Bool.false_eq_true, ↓reduceIte, hdict, Bool.not_true]
      repeat' split
      all_goals rfl

/-- deletion: rejected inside the guard; outside it the guard is not the whole story (`del inst.__class__` is a TypeError of `object`, a name
    that is not set an AttributeError) -/
example : frozenGuard witnessSub nameClass = false ∧ rejected (delattr witnessSub nameClass) = true := by decide

/-- the mixed hierarchy of the audit: undecorated head, slot-free decorated class, `slots=True` decorated base — the old guard is false, the
    tight one true, a new name is rejected (TypeError) -/
def witnessMixed : Inst :=
  ⟨[⟨3, false, false, false, true, false, false, []⟩, ⟨2, true, false, false, true, false, false, []⟩,
    ⟨0, true, false, false, true, true, false, [⟨0, .none, true, true⟩]⟩], [(0, .atom (.int 1))], []⟩
example : inFrozenGuard witnessMixed 100 = false ∧ frozenGuard witnessMixed 100 = true ∧
    raisedBy (setattr witnessMixed 100 (.atom .none)) = some .typeError := by decide

/-- **region `slotsNewAttributeRaisesTypeError`**: below a `slots=True` class an assignment to a name that is not a field is rejected — with
    TypeError (`super(cls, self)` of the generated method refers to the class that `_add_slots` replaced), not with FrozenInstanceError as
    the property's "observe at" says; fields raise FrozenInstanceError everywhere -/
def slotsWitness : Inst :=
  ⟨[⟨0, true, false, false, true, true, false, [⟨0, .none, true, true⟩]⟩], [(0, .atom (.int 1))], []⟩
theorem slots_new_name_raises_typeerror :
    raisedBy (setattr slotsWitness 100 (.atom .none)) = some .typeError ∧ raisedBy (delattr slotsWitness 100) = some .typeError ∧
    raisedBy (setattr slotsWitness 0 (.atom .none)) = some .frozenInstance := by decide

/-! ## the generated `__init__` -/

theorem lookup_cons_self' (k : Name) (v : Obj) (r : List (Name × Obj)) : List.lookup k ((k, v) :: r) = some v := by
  simp

theorem lookup_cons_ne' (a k : Name) (v : Obj) (r : List (Name × Obj)) (h : a ≠ k) :
    List.lookup a ((k, v) :: r) = List.lookup a r := by
  have : (a == k) = false := by simpa using h
  simp [List.lookup_cons, this]

/-- what a default contributes to an attribute -/
def DfltPost (d : Dflt) (r : Option Obj) : Prop :=
  match d with
  | .none => True
  | .value o => r = some o
  | .factory t => ∃ x, r = some x ∧ t.seq x = true

/-- the attribute `r` that `__init__` leaves for field `f` when called with the bindings `bound` -/
def FieldPostV (f : FieldR) (bound : List (Name × Obj)) (r : Option Obj) : Prop :=
  if f.init = true then
    match bound.lookup f.name with
    | some v => r = some v
    | none => DfltPost f.dflt r ∧ hasDefault f = true
  else DfltPost f.dflt r

theorem fieldValue_spec (f : FieldR) (bound : List (Name × Obj)) (n n1 : Nat) (r : Option Obj)
    (h : fieldValue f bound n = .ok (r, n1)) : n ≤ n1 ∧ FieldPostV f bound r := by
  unfold fieldValue at h
  unfold FieldPostV
  by_cases hi : f.init = true
  · simp only [hi, ↓reduceIte] at h ⊢
    cases hb : bound.lookup f.name with
    | some v => simp only [hb] at h ⊢; cases h; exact ⟨Nat.le_refl _, rfl⟩
    | none =>
      simp only [hb] at h ⊢
      cases hd : f.dflt with
      | none => simp [hd] at h
      | value o => simp only [hd] at h; cases h; exact ⟨Nat.le_refl _, by simp [DfltPost], by simp [hasDefault, hd]⟩
      | factory t =>
        simp only [hd] at h; cases h
        exact ⟨(deepcopy_fresh.1 t n).1, ⟨_, rfl, deepcopy_seq.1 t n⟩, by simp [hasDefault, hd]⟩
  · simp only [hi] at h ⊢
    cases hd : f.dflt with
    | none => simp only [hd] at h; cases h; exact ⟨Nat.le_refl _, by simp [DfltPost]⟩
    | value o => simp only [hd] at h; cases h; exact ⟨Nat.le_refl _, by simp [DfltPost]⟩
    | factory t =>
      simp only [hd] at h; cases h
      exact ⟨(deepcopy_fresh.1 t n).1, ⟨_, rfl, deepcopy_seq.1 t n⟩⟩

theorem initFields_spec : ∀ (fs : List FieldR) (bound : List (Name × Obj)) (n n' : Nat) (vals : List (Name × Obj)),
    (fs.map (·.name)).Nodup → initFields fs bound n = .ok (vals, n') →
    n ≤ n' ∧ (∀ k, (vals.lookup k).isSome = true → k ∈ fs.map (·.name)) ∧
      ∀ f ∈ fs, FieldPostV f bound (vals.lookup f.name) := by
  intro fs
  induction fs with
  | nil => intro bound n n' vals _ h; simp [initFields] at h; obtain ⟨rfl, rfl⟩ := h; simp
  | cons f fs ih =>
    intro bound n n' vals hnd h
    have hnd' : f.name ∉ fs.map (·.name) ∧ (fs.map (·.name)).Nodup := List.nodup_cons.mp hnd
    simp only [initFields] at h
    cases hv : fieldValue f bound n with
    | error e => simp [hv] at h
    | ok p =>
      obtain ⟨r, n1⟩ := p
      obtain ⟨hle, hpost⟩ := fieldValue_spec f bound n n1 r hv
      cases r with
      | none =>
        simp only [hv] at h
        obtain ⟨h1, h2, h3⟩ := ih bound n1 n' vals hnd'.2 h
        refine ⟨by omega, fun k hk => by simp [h2 k hk], ?_⟩
        intro g hg
        simp only [List.mem_cons] at hg
        rcases hg with rfl | hg
        · have : vals.lookup g.name = none := by
            cases hl : vals.lookup g.name with
            | none => rfl
            | some x => exact absurd (h2 g.name (by simp [hl])) hnd'.1
          rw [this]; exact hpost
        · exact h3 g hg
      | some v =>
        simp only [hv] at h
        cases hr : initFields fs bound n1 with
        | error e => simp [hr] at h
        | ok q =>
          obtain ⟨rr, n2⟩ := q
          simp only [hr] at h
          cases h
          obtain ⟨h1, h2, h3⟩ := ih bound n1 n' rr hnd'.2 hr
          refine ⟨by omega, ?_, ?_⟩
          · intro k hk
            by_cases hkf : k = f.name
            · simp [hkf]
            · rw [lookup_cons_ne' _ _ _ _ hkf] at hk; simp [h2 k hk]
          · intro g hg
            simp only [List.mem_cons] at hg
            rcases hg with rfl | hg
            · rw [lookup_cons_self']; exact hpost
            · have hne : g.name ≠ f.name := by
                intro he; exact hnd'.1 (he ▸ List.mem_map.mpr ⟨g, hg, rfl⟩)
              rw [lookup_cons_ne' _ _ _ _ hne]; exact h3 g hg

theorem initFields_exists : ∀ (fs : List FieldR) (bound : List (Name × Obj)) (n : Nat),
    (∀ f ∈ fs, f.init = true → (bound.lookup f.name).isSome = true ∨ hasDefault f = true) →
    ∃ vals n', initFields fs bound n = .ok (vals, n') := by
  intro fs
  induction fs with
  | nil => intro bound n _; exact ⟨[], n, rfl⟩
  | cons f fs ih =>
    intro bound n h
    have hv : ∃ r n1, fieldValue f bound n = .ok (r, n1) := by
      unfold fieldValue
      by_cases hi : f.init = true
      · simp only [hi, ↓reduceIte]
        rcases h f (by simp) hi with hb | hb
        · cases hl : bound.lookup f.name with
          | none => simp [hl] at hb
          | some v => exact ⟨_, _, rfl⟩
        · cases hl : bound.lookup f.name with
          | some v => exact ⟨_, _, rfl⟩
          | none =>
            cases hd : f.dflt with
            | none => simp [hasDefault, hd] at hb
            | value o => exact ⟨_, _, rfl⟩
            | factory t => exact ⟨_, _, rfl⟩
      · simp only [hi]
        cases hd : f.dflt <;> exact ⟨_, _, rfl⟩
    obtain ⟨r, n1, hv⟩ := hv
    obtain ⟨vals, n', hr⟩ := ih bound n1 (fun g hg => h g (by simp [hg]))
    simp only [initFields, hv]
    cases r with
    | none => exact ⟨vals, n', hr⟩
    | some v => simp only [hr]; exact ⟨_, _, rfl⟩

/-- `cls(**kw)` with keywords that name init fields and cover every required one: an instance of `cls` whose attributes
    are the keyword objects themselves, defaults elsewhere -/
theorem construct_kw (c : Cls) (kw : List (Name × Obj)) (n : Nat) (hnd : (fieldNames c).Nodup)
    (hkw : ∀ kv ∈ kw, kv.1 ∈ initNames (fieldsOf c))
    (hcov : ∀ f ∈ fieldsOf c, f.init = true → (kw.lookup f.name).isSome = true ∨ hasDefault f = true) :
    ∃ m, construct c [] kw n = .ok m ∧ m.inst.cls = c ∧ m.inst.extra = [] ∧ n ≤ m.next ∧ m.journal = postInitEvents c ∧
      ∀ f ∈ fieldsOf c, FieldPostV f kw (m.inst.fields.lookup f.name) := by
  obtain ⟨vals, n', hi⟩ := initFields_exists (fieldsOf c) kw n hcov
  obtain ⟨h1, _, h3⟩ := initFields_spec (fieldsOf c) kw n n' vals hnd hi
  have hbad : kw.any (badKw (fieldsOf c) []) = false := by
    rw [Bool.eq_false_iff]; intro h
    obtain ⟨kv, hm, hb⟩ := List.any_eq_true.mp h
    have := hkw kv hm
    simp [badKw, this] at hb
  refine ⟨⟨⟨c, vals, []⟩, n', postInitEvents c⟩, ?_, rfl, rfl, h1, rfl, h3⟩
  simp [construct, hbad, hi]


/-! ## `copy_with` -/

theorem initNames_cons (f : FieldR) (fs : List FieldR) :
    initNames (f :: fs) = if f.init = true then f.name :: initNames fs else initNames fs := by
  by_cases h : f.init = true <;> simp [initNames, h]

theorem lookup_snoc_ne (ch : List (Name × Obj)) (a k : Name) (v : Obj) (h : a ≠ k) :
    List.lookup a (ch ++ [(k, v)]) = List.lookup a ch := by
  rw [List.lookup_append, lookup_cons_ne' _ _ _ _ h]; simp

theorem lookup_snoc_self (ch : List (Name × Obj)) (k : Name) (v : Obj) (h : List.lookup k ch = none) :
    List.lookup k (ch ++ [(k, v)]) = some v := by
  rw [List.lookup_append, h, lookup_cons_self']; simp

/-- the loop of `dataclasses.replace` in closed form: keywords first, then the receiver's own objects for the init fields -/
theorem replaceChanges_spec (self : Inst) : ∀ (fs : List FieldR) (ch : List (Name × Obj)),
    (fs.map (·.name)).Nodup →
    (∀ f ∈ fs, f.init = false → ch.lookup f.name = none) →
    (∀ f ∈ fs, f.init = true → (self.fields.lookup f.name).isSome = true) →
    ∃ ch', replaceChanges self fs ch = .ok ch' ∧
      ∀ k, ch'.lookup k = (ch.lookup k).or (if k ∈ initNames fs then self.fields.lookup k else none) := by
  intro fs
  induction fs with
  | nil => intro ch _ _ _; exact ⟨ch, rfl, fun k => by simp [initNames]⟩
  | cons f fs ih =>
    intro ch hnd hni hset
    have hnd' : f.name ∉ fs.map (·.name) ∧ (fs.map (·.name)).Nodup := List.nodup_cons.mp hnd
    have hne : ∀ g ∈ fs, g.name ≠ f.name := fun g hg he => hnd'.1 (he ▸ List.mem_map.mpr ⟨g, hg, rfl⟩)
    have hnotin : f.name ∉ initNames fs := by
      intro hm
      simp only [initNames, List.mem_map, List.mem_filter] at hm
      obtain ⟨g, ⟨hg, _⟩, he⟩ := hm
      exact hne g hg he
    simp only [replaceChanges]
    by_cases hi : f.init = true
    · simp only [hi, Bool.not_true, Bool.false_eq_true, ↓reduceIte]
      cases hl : ch.lookup f.name with
      | some v0 =>
        simp only []
        obtain ⟨ch', h1, h2⟩ := ih ch hnd'.2 (fun g hg => hni g (by simp [hg])) (fun g hg => hset g (by simp [hg]))
        refine ⟨ch', h1, ?_⟩
        intro k
        rw [h2 k, initNames_cons]; simp only [hi, ↓reduceIte, List.mem_cons]
        by_cases hk : k = f.name
        · subst hk; simp [hl]
        · simp [hk]
      | none =>
        simp only []
        have hs := hset f (by simp) hi
        cases hsv : self.fields.lookup f.name with
        | none => simp [hsv] at hs
        | some v =>
          simp only []
          obtain ⟨ch', h1, h2⟩ := ih (ch ++ [(f.name, v)]) hnd'.2
            (fun g hg hgi => by rw [lookup_snoc_ne _ _ _ _ (hne g hg)]; exact hni g (by simp [hg]) hgi)
            (fun g hg => hset g (by simp [hg]))
          refine ⟨ch', h1, ?_⟩
          intro k
          rw [h2 k, initNames_cons]; simp only [hi, ↓reduceIte, List.mem_cons]
          by_cases hk : k = f.name
          · subst hk; rw [lookup_snoc_self _ _ _ hl]; simp [hl, hsv]
          · rw [lookup_snoc_ne _ _ _ _ hk]; simp [hk]
    · have hi' : f.init = false := by simpa using hi
      have := hni f (by simp) hi'
      simp only [hi', Bool.not_false, ↓reduceIte, this, Option.isSome_none, Bool.false_eq_true]
      obtain ⟨ch', h1, h2⟩ := ih ch hnd'.2 (fun g hg => hni g (by simp [hg])) (fun g hg => hset g (by simp [hg]))
      refine ⟨ch', h1, ?_⟩
      intro k
      rw [h2 k, initNames_cons]; simp [hi']


theorem nodupNames_nodup : ∀ (l : List Name), nodupNames l = true → l.Nodup := by
  intro l
  induction l with
  | nil => intro _; exact List.nodup_nil
  | cons a l ih =>
    intro h
    simp only [nodupNames, Bool.and_eq_true, Bool.not_eq_eq_eq_not, Bool.not_true] at h
    refine List.nodup_cons.mpr ⟨?_, ih h.2⟩
    intro hm; have := List.contains_iff_mem.mpr hm; rw [h.1] at this; cases this

theorem wf_nodup (c : Cls) (h : wfCls c = true) : (fieldNames c).Nodup := by
  simp only [wfCls, Bool.and_eq_true] at h
  exact nodupNames_nodup _ h.1.1.2

theorem wf_initFalse_default (c : Cls) (h : wfCls c = true) : ∀ f ∈ fieldsOf c, f.init = false → hasDefault f = true := by
  intro f hf hi
  simp only [wfCls, Bool.and_eq_true] at h
  have h2 := h.1.2
  simp only [Bool.not_eq_eq_eq_not, Bool.not_true] at h2
  cases hd : hasDefault f with
  | true => rfl
  | false =>
    have : (fieldsOf c).any initFalseNoDefault = true :=
      List.any_eq_true.mpr ⟨f, hf, by simp [initFalseNoDefault, hi, hd]⟩
    simp [this] at h2

theorem name_inj (fs : List FieldR) (hnd : (fs.map (·.name)).Nodup) :
    ∀ f ∈ fs, ∀ g ∈ fs, f.name = g.name → f = g := by
  induction fs with
  | nil => intro f hf; simp at hf
  | cons a fs ih =>
    have hnd' : a.name ∉ fs.map (·.name) ∧ (fs.map (·.name)).Nodup := List.nodup_cons.mp hnd
    intro f hf g hg he
    simp only [List.mem_cons] at hf hg
    rcases hf with rfl | hf <;> rcases hg with rfl | hg
    · rfl
    · exact absurd (he ▸ List.mem_map.mpr ⟨g, hg, rfl⟩) hnd'.1
    · exact absurd (he ▸ List.mem_map.mpr ⟨f, hf, rfl⟩) hnd'.1
    · exact ih hnd'.2 f hf g hg he

theorem mem_initNames (fs : List FieldR) (hnd : (fs.map (·.name)).Nodup) (f : FieldR) (hf : f ∈ fs) :
    f.name ∈ initNames fs ↔ f.init = true := by
  constructor
  · intro hm
    simp only [initNames, List.mem_map, List.mem_filter] at hm
    obtain ⟨g, ⟨hg, hgi⟩, he⟩ := hm
    have := name_inj fs hnd g hg f hf he
    subst this; exact hgi
  · intro hi
    simp only [initNames, List.mem_map, List.mem_filter]
    exact ⟨f, ⟨hf, hi⟩, rfl⟩

theorem lookup_isSome_of_mem : ∀ (l : List (Name × Obj)) (kv : Name × Obj), kv ∈ l → (l.lookup kv.1).isSome = true := by
  intro l
  induction l with
  | nil => intro kv h; simp at h
  | cons a l ih =>
    intro kv h
    obtain ⟨k, v⟩ := a
    by_cases hk : kv.1 = k
    · rw [hk, lookup_cons_self']; rfl
    · rw [lookup_cons_ne' _ _ _ _ hk]
      simp only [List.mem_cons] at h
      rcases h with rfl | h
      · exact absurd rfl hk
      · exact ih kv h

theorem mem_of_lookup_isSome : ∀ (l : List (Name × Obj)) (k : Name), (l.lookup k).isSome = true → ∃ kv ∈ l, kv.1 = k := by
  intro l
  induction l with
  | nil => intro k h; simp at h
  | cons a l ih =>
    intro k h
    obtain ⟨k0, v⟩ := a
    by_cases hk : k = k0
    · exact ⟨(k0, v), by simp, hk.symm⟩
    · rw [lookup_cons_ne' _ _ _ _ hk] at h
      obtain ⟨kv, hm, he⟩ := ih k h
      exact ⟨kv, by simp [hm], he⟩

/-- the receiver is an instance as `__init__` leaves it: every init field is set, every `init=False` field holds its default -/
def InstOk (self : Inst) : Prop :=
  ∀ f ∈ fieldsOf self.cls, (f.init = true → (self.fields.lookup f.name).isSome = true) ∧
    (f.init = false → DfltPost f.dflt (self.fields.lookup f.name))

/-- instances made by the constructor are such instances -/
theorem construct_instOk (c : Cls) (pos : List Obj) (kw : List (Name × Obj)) (n : Nat) (m : Made)
    (hwf : wfCls c = true) (h : construct c pos kw n = .ok m) : InstOk m.inst ∧ m.inst.cls = c ∧ n ≤ m.next := by
  simp only [construct] at h
  split at h
  · cases h
  · split at h
    · cases h
    · split at h
      · cases h
      · rename_i vals n' hi
        cases h
        obtain ⟨h1, _, h3⟩ := initFields_spec _ _ _ _ _ (wf_nodup c hwf) hi
        refine ⟨?_, rfl, h1⟩
        intro f hf
        have hp := h3 f hf
        unfold FieldPostV at hp
        constructor
        · intro hinit
          simp only [hinit, ↓reduceIte] at hp
          split at hp
          · simp [hp]
          · obtain ⟨hd, hh⟩ := hp
            unfold DfltPost at hd
            cases hdf : f.dflt with
            | none => simp [hasDefault, hdf] at hh
            | value o => simp only [hdf] at hd; simp [hd]
            | factory t => simp only [hdf] at hd; obtain ⟨x, hx, _⟩ := hd; simp [hx]
        · intro hinit
          simpa [hinit] using hp

theorem dfltPost_seq (f : FieldR) (a b : Option Obj) (hd : hasDefault f = true)
    (ha : DfltPost f.dflt a) (hb : DfltPost f.dflt b) : ∃ s r, a = some s ∧ b = some r ∧ s.seq r = true := by
  unfold hasDefault at hd
  cases hdf : f.dflt with
  | none => simp [hdf] at hd
  | value o => rw [hdf] at ha hb; exact ⟨o, o, ha, hb, seq_refl.1 o⟩
  | factory t =>
    rw [hdf] at ha hb
    obtain ⟨x, hx, hxe⟩ := ha
    obtain ⟨y, hy, hye⟩ := hb
    exact ⟨x, y, hx, hy, seq_trans.1 x t y (by rw [seq_symm.1]; exact hxe) hye⟩

theorem kwValid_mem (c : Cls) (kw : List (Name × Obj)) (h : specKwValid c kw = true) :
    ∀ kv ∈ kw, kv.1 ∈ initNames (fieldsOf c) := by
  intro kv hkv
  have := List.all_eq_true.mp h kv hkv
  simpa using this

/-- **C11, copy_with.** For every well-formed class, every instance as the constructor leaves it, and every set of keyword
    arguments naming init fields: `copy_with` returns an instance of the *same class*; a replaced field holds the very object
    passed; every other init field holds the very object the original holds (same identity — shallow); `init=False` fields
    are recomputed by `__init__` and equal; the receiver is what it was; `__init__`/`__post_init__` ran once. -/
theorem copy_with_meets_spec (self : Inst) (kw : List (Name × Obj)) (n : Nat)
    (hwf : wfCls self.cls = true) (hself : InstOk self) (hkw : specKwValid self.cls kw = true) :
    ∃ out, copyWith self kw n = .ok out ∧ CopyMeets false self kw out.result ∧ out.selfAfter = some self ∧
      out.journal = postInitEvents self.cls ∧ n ≤ out.next := by
  have hnd := wf_nodup _ hwf
  have hkwm := kwValid_mem _ _ hkw
  have hinit_of_kw : ∀ f ∈ fieldsOf self.cls, (kw.lookup f.name).isSome = true → f.init = true := by
    intro f hf hs
    obtain ⟨kv, hm, he⟩ := mem_of_lookup_isSome _ _ hs
    exact (mem_initNames _ hnd f hf).mp (he ▸ hkwm kv hm)
  obtain ⟨ch', hch, hlook⟩ := replaceChanges_spec self (fieldsOf self.cls) kw hnd
    (fun f hf hi => by
      cases hl : kw.lookup f.name with
      | none => rfl
      | some v => have := hinit_of_kw f hf (by simp [hl]); simp [hi] at this)
    (fun f hf hi => (hself f hf).1 hi)
  obtain ⟨m, hm, hcls, _, hnext, hj, hfields⟩ := construct_kw self.cls ch' n hnd
    (fun kv hkv => by
      have hs := lookup_isSome_of_mem ch' kv hkv
      rw [hlook kv.1] at hs
      cases hl : kw.lookup kv.1 with
      | some v =>
        obtain ⟨kv', hm', he⟩ := mem_of_lookup_isSome kw kv.1 (by simp [hl])
        exact he ▸ hkwm kv' hm'
      | none =>
        simp only [hl, Option.none_or] at hs
        by_cases hin : kv.1 ∈ initNames (fieldsOf self.cls)
        · exact hin
        · simp [hin] at hs)
    (fun f hf hi => by
      left
      rw [hlook f.name]
      have hin := (mem_initNames _ hnd f hf).mpr hi
      have := (hself f hf).1 hi
      cases hl : kw.lookup f.name <;> simp [hin, this])
  refine ⟨⟨selfAfterOf self, m.inst, m.next, m.journal⟩, ?_, ⟨hcls, ?_⟩, ?_, hj, hnext⟩
  · simp [copyWith, runCopy, copyWithBody, hch, hm, finishCopy]
  · intro f hf
    have hp := hfields f hf
    unfold FieldPostV at hp
    unfold FieldMeets specExpect
    cases hl : kw.lookup f.name with
    | some v =>
      have hi := hinit_of_kw f hf (by simp [hl])
      have hc : ch'.lookup f.name = some v := by rw [hlook, hl]; rfl
      simp only [hi, ↓reduceIte, hc] at hp
      simp [hp]
    | none =>
      simp only [Option.isSome_none, Bool.false_eq_true, ↓reduceIte]
      by_cases hi : f.init = true
      · have hin := (mem_initNames _ hnd f hf).mpr hi
        have hs := (hself f hf).1 hi
        have hc : ch'.lookup f.name = self.fields.lookup f.name := by rw [hlook, hl]; simp [hin]
        cases hsv : self.fields.lookup f.name with
        | none => simp [hsv] at hs
        | some sv =>
          simp only [hi, ↓reduceIte, hc, hsv] at hp
          simp [hi, hp]
      · have hi' : f.init = false := by simpa using hi
        simp only [hi', Bool.false_eq_true, ↓reduceIte] at hp
        simp only [hi', Bool.not_false, ↓reduceIte]
        have hd := wf_initFalse_default _ hwf f hf hi'
        exact dfltPost_seq f _ _ hd ((hself f hf).2 hi') hp
  · simp [selfAfterOf, frozen_source_shape.2.2.2.2.2.2.2]


/-! ## `deep_copy_with` -/

theorem deepCopyable_init (self : Inst) (h : specDeepCopyable self = true) :
    ∀ f ∈ fieldsOf self.cls, f.init = true → ∀ v, self.fields.lookup f.name = some v → v.copyable = true := by
  intro f hf hi v hv
  have := List.all_eq_true.mp h f hf
  simpa [hi, hv] using this

/-- the dict comprehension of `deep_copy_with` in closed form: one deep copy per init field, allocator threaded through -/
theorem readCur_spec (self : Inst) : ∀ (fs : List FieldR) (n : Nat),
    (fs.map (·.name)).Nodup → (∀ f ∈ fs, f.init = true → (self.fields.lookup f.name).isSome = true) →
    (∀ f ∈ fs, f.init = true → ∀ v, self.fields.lookup f.name = some v → v.copyable = true) →
    ∃ cur n', readCur true true self fs n = .ok (cur, n') ∧ n ≤ n' ∧
      (∀ k, (cur.lookup k).isSome = true → k ∈ initNames fs) ∧
      (∀ f ∈ fs, f.init = true → ∃ s m, self.fields.lookup f.name = some s ∧ n ≤ m ∧
          cur.lookup f.name = some (deepcopy s m).1) := by
  intro fs
  induction fs with
  | nil => intro n _ _ _; exact ⟨[], n, rfl, Nat.le_refl _, by simp, by simp⟩
  | cons f fs ih =>
    intro n hnd hset hcp
    have hnd' : f.name ∉ fs.map (·.name) ∧ (fs.map (·.name)).Nodup := List.nodup_cons.mp hnd
    have hne : ∀ g ∈ fs, g.name ≠ f.name := fun g hg he => hnd'.1 (he ▸ List.mem_map.mpr ⟨g, hg, rfl⟩)
    simp only [readCur, Bool.true_and]
    by_cases hi : f.init = true
    · have hs := hset f (by simp) hi
      cases hsv : self.fields.lookup f.name with
      | none => simp [hsv] at hs
      | some v =>
        obtain ⟨r, n2, hr, hle, hkeys, hvals⟩ := ih (deepcopy v n).2 hnd'.2 (fun g hg => hset g (by simp [hg]))
          (fun g hg => hcp g (by simp [hg]))
        have hcv : v.copyable = true := hcp f (by simp) hi v hsv
        have hle1 := (deepcopy_fresh.1 v n).1
        refine ⟨(f.name, (deepcopy v n).1) :: r, n2, ?_, by omega, ?_, ?_⟩
        · simp [hi, hr, hcv, deepcopyRaises]
        · intro k hk
          rw [initNames_cons]; simp only [hi, ↓reduceIte, List.mem_cons]
          by_cases hkf : k = f.name
          · exact Or.inl hkf
          · rw [lookup_cons_ne' _ _ _ _ hkf] at hk; exact Or.inr (hkeys k hk)
        · intro g hg hgi
          simp only [List.mem_cons] at hg
          rcases hg with rfl | hg
          · exact ⟨v, n, hsv, Nat.le_refl _, lookup_cons_self' _ _ _⟩
          · obtain ⟨s, m, h1, h2, h3⟩ := hvals g hg hgi
            exact ⟨s, m, h1, by omega, by rw [lookup_cons_ne' _ _ _ _ (hne g hg)]; exact h3⟩
    · have hi' : f.init = false := by simpa using hi
      obtain ⟨r, n2, hr, hle, hkeys, hvals⟩ := ih n hnd'.2 (fun g hg => hset g (by simp [hg])) (fun g hg => hcp g (by simp [hg]))
      refine ⟨r, n2, by simp [hi', hr], hle, ?_, ?_⟩
      · intro k hk; rw [initNames_cons]; simp [hi', hkeys k hk]
      · intro g hg hgi
        simp only [List.mem_cons] at hg
        rcases hg with rfl | hg
        · simp [hi'] at hgi
        · exact hvals g hg hgi

theorem lookup_filter_keys (p : Name → Bool) : ∀ (l : List (Name × Obj)) (k : Name),
    List.lookup k (l.filter (fun kv => p kv.1)) = if p k = true then l.lookup k else none := by
  intro l
  induction l with
  | nil => intro k; simp
  | cons a l ih =>
    intro k
    obtain ⟨k0, v⟩ := a
    by_cases hp : p k0 = true
    · simp only [List.filter_cons, hp, ↓reduceIte]
      by_cases hk : k = k0
      · subst hk; simp [hp]
      · rw [lookup_cons_ne' _ _ _ _ hk, lookup_cons_ne' _ _ _ _ hk]; exact ih k
    · simp only [List.filter_cons, hp, Bool.false_eq_true, ↓reduceIte]
      by_cases hk : k = k0
      · subst hk; rw [ih k]; simp [hp]
      · rw [lookup_cons_ne' _ _ _ _ hk]; exact ih k

/-- `{**a, **b}`: `b` wins -/
theorem mergeDict_lookup (a b : List (Name × Obj)) (k : Name) :
    (mergeDict a b).lookup k = (b.lookup k).or (a.lookup k) := by
  unfold mergeDict
  rw [List.lookup_append, lookup_filter_keys (fun k => (b.lookup k).isNone)]
  cases b.lookup k <;> simp

/-- **C11, deep_copy_with.** Same class; replaced fields hold the objects passed; every other init field holds a value that
    is structurally equal to the original's and shares **no mutable node with the original instance** (for values of any
    size and nesting — including the lists / dicts / sets / objects held by `@frozen_dataclass` instances nested in the field
    value, which `deepcopy` duplicates because the decorator installs no copy-protocol hook: `cfg_no_copy_hooks`), under the
    allocator invariant "every live identity of the receiver is below `n`"; the receiver is what it was. -/
theorem deep_copy_with_meets_spec_fresh (self : Inst) (kw : List (Name × Obj)) (n : Nat)
    (hwf : wfCls self.cls = true) (hself : InstOk self) (hkw : specKwValid self.cls kw = true)
    (hlive : ∀ i ∈ self.mutIds, i < n) (hcp : specDeepCopyable self = true) :
    ∃ out, deepCopyWith self kw n = .ok out ∧ CopyMeets true self kw out.result ∧ out.selfAfter = some self ∧
      out.journal = postInitEvents self.cls ∧ n ≤ out.next ∧
      (∀ f ∈ fieldsOf self.cls, f.init = true → kw.lookup f.name = none →
        ∃ r, out.result.fields.lookup f.name = some r ∧ ∀ i ∈ r.mutIds, n ≤ i) := by
  have hnd := wf_nodup _ hwf
  have hkwm := kwValid_mem _ _ hkw
  have hinit_of_kw : ∀ f ∈ fieldsOf self.cls, (kw.lookup f.name).isSome = true → f.init = true := by
    intro f hf hs
    obtain ⟨kv, hm, he⟩ := mem_of_lookup_isSome _ _ hs
    exact (mem_initNames _ hnd f hf).mp (he ▸ hkwm kv hm)
  obtain ⟨cur, n1, hread, hle1, hkeys, hvals⟩ := readCur_spec self (fieldsOf self.cls) n hnd (fun f hf hi => (hself f hf).1 hi)
    (deepCopyable_init self hcp)
  obtain ⟨m, hm, hcls, _, hnext, hj, hfields⟩ := construct_kw self.cls (mergeDict cur kw) n1 hnd
    (fun kv hkv => by
      have hs := lookup_isSome_of_mem _ kv hkv
      rw [mergeDict_lookup] at hs
      cases hl : kw.lookup kv.1 with
      | some v =>
        obtain ⟨kv', hm', he⟩ := mem_of_lookup_isSome kw kv.1 (by simp [hl])
        exact he ▸ hkwm kv' hm'
      | none => simp only [hl, Option.none_or] at hs; exact hkeys _ hs)
    (fun f hf hi => by
      left
      rw [mergeDict_lookup]
      obtain ⟨s, m, _, _, h3⟩ := hvals f hf hi
      cases hl : kw.lookup f.name <;> simp [h3])
  refine ⟨⟨selfAfterOf self, m.inst, m.next, m.journal⟩, ?_, ⟨hcls, ?_⟩, ?_, hj, Nat.le_trans hle1 hnext, ?_⟩
  · simp [deepCopyWith, runCopy, deepCopyWithBody, hread, instCls, hm, finishCopy]
  · intro f hf
    have hp := hfields f hf
    unfold FieldPostV at hp
    unfold FieldMeets specExpect
    cases hl : kw.lookup f.name with
    | some v =>
      have hi := hinit_of_kw f hf (by simp [hl])
      have hc : (mergeDict cur kw).lookup f.name = some v := by rw [mergeDict_lookup, hl]; rfl
      simp only [hi, ↓reduceIte, hc] at hp
      simp [hp]
    | none =>
      simp only [Option.isSome_none, Bool.false_eq_true, ↓reduceIte]
      by_cases hi : f.init = true
      · obtain ⟨s, m0, h1, h2, h3⟩ := hvals f hf hi
        have hc : (mergeDict cur kw).lookup f.name = some (deepcopy s m0).1 := by rw [mergeDict_lookup, hl, h3]; rfl
        simp only [hi, ↓reduceIte, hc] at hp
        simp only [hi, Bool.not_true, Bool.false_eq_true, ↓reduceIte]
        refine ⟨s, (deepcopy s m0).1, h1, hp, deepcopy_seq.1 s m0, ?_⟩
        intro i hi1 hi2
        have := (deepcopy_fresh.1 s m0).2 i hi1
        have := hlive i hi2
        omega
      · have hi' : f.init = false := by simpa using hi
        simp only [hi', Bool.false_eq_true, ↓reduceIte] at hp
        simp only [hi', Bool.not_false, ↓reduceIte]
        have hd := wf_initFalse_default _ hwf f hf hi'
        exact dfltPost_seq f _ _ hd ((hself f hf).2 hi') hp
  · simp [selfAfterOf, frozen_source_shape.2.2.2.2.2.2.2]
  · intro f hf hi hl
    obtain ⟨s, m0, h1, h2, h3⟩ := hvals f hf hi
    have hc : (mergeDict cur kw).lookup f.name = some (deepcopy s m0).1 := by rw [mergeDict_lookup, hl, h3]; rfl
    have hp := hfields f hf
    unfold FieldPostV at hp
    simp only [hi, ↓reduceIte, hc] at hp
    refine ⟨(deepcopy s m0).1, hp, ?_⟩
    intro i hi1
    have := (deepcopy_fresh.1 s m0).2 i hi1
    omega

/-- **C11, deep_copy_with.** Same class; replaced fields hold the objects passed; every other init field holds a value that
    is structurally equal to the original's and shares **no mutable node with the original instance** (for values of any
    size and nesting — including what nested `@frozen_dataclass` instances hold), under the allocator invariant "every live
    identity of the receiver is below `n`"; the receiver is what it was.  (`deep_copy_with_meets_spec_fresh` adds: the mutable
    nodes of those fields are *new* — above the allocator — hence shared with nothing that existed before the call.) -/
theorem deep_copy_with_meets_spec (self : Inst) (kw : List (Name × Obj)) (n : Nat)
    (hwf : wfCls self.cls = true) (hself : InstOk self) (hkw : specKwValid self.cls kw = true)
    (hlive : ∀ i ∈ self.mutIds, i < n) (hcp : specDeepCopyable self = true) :
    ∃ out, deepCopyWith self kw n = .ok out ∧ CopyMeets true self kw out.result ∧ out.selfAfter = some self ∧
      out.journal = postInitEvents self.cls ∧ n ≤ out.next := by
  obtain ⟨out, a, b, c, d, e, _⟩ := deep_copy_with_meets_spec_fresh self kw n hwf hself hkw hlive hcp
  exact ⟨out, a, b, c, d, e⟩


/-- a value that cannot be deep-copied in some init field: the comprehension of `deep_copy_with` raises the TypeError of `deepcopy` -/
theorem readCur_uncopyable (self : Inst) : ∀ (fs : List FieldR) (n : Nat),
    (∀ f ∈ fs, f.init = true → (self.fields.lookup f.name).isSome = true) →
    (∃ f ∈ fs, f.init = true ∧ ∃ v, self.fields.lookup f.name = some v ∧ v.copyable = false) →
    readCur true true self fs n = .error .typeError := by
  intro fs
  induction fs with
  | nil => intro n _ h; obtain ⟨f, hf, _⟩ := h; simp at hf
  | cons f fs ih =>
    intro n hset hex
    simp only [readCur, Bool.true_and]
    by_cases hi : f.init = true
    · have hs := hset f (by simp) hi
      cases hsv : self.fields.lookup f.name with
      | none => simp [hsv] at hs
      | some v =>
        by_cases hcv : v.copyable = true
        · have hrest : ∃ g ∈ fs, g.init = true ∧ ∃ w, self.fields.lookup g.name = some w ∧ w.copyable = false := by
            obtain ⟨g, hg, hgi, w, hw, hwc⟩ := hex
            simp only [List.mem_cons] at hg
            rcases hg with rfl | hg
            · rw [hsv] at hw; cases hw; simp [hcv] at hwc
            · exact ⟨g, hg, hgi, w, hw, hwc⟩
          have := ih (deepcopy v n).2 (fun g hg => hset g (by simp [hg])) hrest
          simp [hi, hcv, deepcopyRaises, this]
        · simp [hi, hcv, deepcopyRaises, cfg_deepcopy_bare]
    · have hi' : f.init = false := by simpa using hi
      have hrest : ∃ g ∈ fs, g.init = true ∧ ∃ w, self.fields.lookup g.name = some w ∧ w.copyable = false := by
        obtain ⟨g, hg, hgi, w, hw, hwc⟩ := hex
        simp only [List.mem_cons] at hg
        rcases hg with rfl | hg
        · simp [hi'] at hgi
        · exact ⟨g, hg, hgi, w, hw, hwc⟩
      simpa [hi'] using ih n (fun g hg => hset g (by simp [hg])) hrest

/-- **no deep copy of what cannot be deep-copied.**  If an init field of the receiver holds — anywhere inside its value, next to whatever
    ordinary lists and dicts — an object that `copy.deepcopy` cannot duplicate, `deep_copy_with` raises TypeError, **whatever the keywords**
    (also when that very field is replaced: every init field is deep-copied before the keywords are merged in): no instance is returned,
    so nothing is shared.  Rests on `cfg_deepcopy_bare` (the call is the bare `copy.deepcopy`, outside any `try`). -/
theorem deep_copy_with_uncopyable_raises (self : Inst) (kw : List (Name × Obj)) (n : Nat) (hself : InstOk self)
    (h : specDeepCopyable self = false) : deepCopyWith self kw n = .error .typeError := by
  have hex : ∃ f ∈ fieldsOf self.cls, f.init = true ∧ ∃ v, self.fields.lookup f.name = some v ∧ v.copyable = false := by
    obtain ⟨f, hf, hn⟩ := List.all_eq_false.mp h
    cases hi : f.init with
    | false => simp [hi] at hn
    | true =>
      cases hv : self.fields.lookup f.name with
      | none => simp [hi, hv] at hn
      | some v => exact ⟨f, hf, hi, v, hv, by simpa [hi, hv] using hn⟩
  have := readCur_uncopyable self (fieldsOf self.cls) n (fun f hf hi => (hself f hf).1 hi) hex
  simp [deepCopyWith, runCopy, deepCopyWithBody, this]

/-- **C11, deep_copy_with, for every instance that is returned.**  Whatever the field values hold — also objects that cannot be
    deep-copied —: IF `deep_copy_with` returns an instance, that instance is of the same class, its replaced fields hold the objects
    passed, and every other init field holds a structurally equal value whose mutable nodes are all new (shared with nothing that
    existed before the call); the receiver is what it was.  (No hypothesis about copyability: a receiver that cannot be deep-copied
    yields no instance at all, `deep_copy_with_uncopyable_raises`.) -/
theorem deep_copy_with_returned_instance_meets_spec (self : Inst) (kw : List (Name × Obj)) (n : Nat) (out : CopyOut)
    (hwf : wfCls self.cls = true) (hself : InstOk self) (hkw : specKwValid self.cls kw = true)
    (hlive : ∀ i ∈ self.mutIds, i < n) (h : deepCopyWith self kw n = .ok out) :
    CopyMeets true self kw out.result ∧ out.selfAfter = some self ∧
      (∀ f ∈ fieldsOf self.cls, f.init = true → kw.lookup f.name = none →
        ∃ r, out.result.fields.lookup f.name = some r ∧ ∀ i ∈ r.mutIds, n ≤ i) := by
  by_cases hcp : specDeepCopyable self = true
  · obtain ⟨out', h1, h2, h3, _, _, h6⟩ := deep_copy_with_meets_spec_fresh self kw n hwf hself hkw hlive hcp
    rw [h] at h1; cases h1
    exact ⟨h2, h3, h6⟩
  · have := deep_copy_with_uncopyable_raises self kw n hself (by simpa using hcp)
    rw [this] at h; cases h

/-- the deep clause of the property text read literally, for EVERY field that is not replaced — `init=False` fields included -/
def deep_copy_shares_nothing_full : Prop :=
  ∀ (self : Inst) (kw : List (Name × Obj)) (n : Nat) (out : CopyOut), wfCls self.cls = true → InstOk self → specKwValid self.cls kw = true →
    (∀ i ∈ self.mutIds, i < n) → deepCopyWith self kw n = .ok out →
    ∀ f ∈ fieldsOf self.cls, kw.lookup f.name = none → ∃ r, out.result.fields.lookup f.name = some r ∧ ∀ i ∈ r.mutIds, i ∉ self.mutIds

/-- `@frozen_dataclass class S: f0: Any; f1: Any = field(default=<object holding a list>, init=False)` -/
def exSharedCls : Cls :=
  [⟨0, true, false, false, true, false, false, [⟨0, .none, true, true⟩, ⟨1, .value (.box .obj 5 [.box .list 6 []]), false, true⟩]⟩]
def exSharedInst : Inst := ⟨exSharedCls, [(0, .box .list 10 []), (1, .box .obj 5 [.box .list 6 []])], []⟩
theorem exSharedInst_constructed : construct exSharedCls [] [(0, .box .list 10 [])] 20 = .ok ⟨exSharedInst, 20, []⟩ := by rfl

/-- **witness (region `deepCopySharesInitFalseDefault`).**  The "deep" copy of an instance whose `init=False` field has a plain default holds, in
    that field, the very object the original holds — the default is one object that the generated `__init__` assigns to every instance; whatever
    mutable it holds (here an object with a list: identities 5 and 6) is shared between original and deep copy.  `CopyMeets true` holds all
    the same (`specExpect` reads such a field as `equalOnly`); the literal reading `deep_copy_shares_nothing_full` does not. -/
theorem deep_copy_shares_initFalse_default : ¬ deep_copy_shares_nothing_full := by
  intro h
  have hok : InstOk exSharedInst := (construct_instOk _ _ _ _ _ (by decide) exSharedInst_constructed).1
  obtain ⟨out, hout⟩ : ∃ out, deepCopyWith exSharedInst [] 20 = .ok out := by
    obtain ⟨o, h1, _⟩ := deep_copy_with_meets_spec exSharedInst [] 20 (by decide) hok (by decide) (by decide) (by decide)
    exact ⟨o, h1⟩
  have hdec : (match deepCopyWith exSharedInst [] 20 with
      | .ok o => (o.result.fields.lookup 1).map (·.mutIds) | .error _ => none) = some [5, 6] := by decide
  rw [hout] at hdec
  have hf : fieldsOf exSharedInst.cls =
      [⟨0, .none, true, true, true⟩, ⟨1, .value (.box .obj 5 [.box .list 6 []]), false, true, true⟩] := rfl
  obtain ⟨r, hr, hdis⟩ := h exSharedInst [] 20 out (by decide) hok (by decide) (by decide) hout ⟨1, .value (.box .obj 5 [.box .list 6 []]), false, true, true⟩
    (by rw [hf]; exact List.mem_cons_of_mem _ (List.mem_cons_self ..)) (by decide)
  simp only [hr, Option.map] at hdec
  have h5 : 5 ∈ r.mutIds := by rw [Option.some.inj hdec]; simp
  exact hdis 5 h5 (by decide)

-- the region, and what the proved contract says there
example : specSharedDefaultFields exSharedCls = [1] := by decide
example : specExpect true [] ⟨1, .value (.box .obj 5 [.box .list 6 []]), false, true, true⟩ = .equalOnly := by decide

/-! ## `==`, `hash`, `<` are those of the tuple of fields -/

theorem tupleOf_ok (i : Inst) : ∀ (fs : List FieldR), (∀ f ∈ fs, (i.fields.lookup f.name).isSome = true) →
    tupleOf i fs = .ok (fs.filterMap (fun f => i.fields.lookup f.name)) := by
  intro fs
  induction fs with
  | nil => intro _; rfl
  | cons f fs ih =>
    intro h
    have hf := h f (by simp)
    cases hl : i.fields.lookup f.name with
    | none => simp [hl] at hf
    | some v => simp [tupleOf, hl, ih (fun g hg => h g (by simp [hg]))]

theorem instOk_allSet (a : Inst) (hwf : wfCls a.cls = true) (ha : InstOk a) :
    ∀ f ∈ fieldsOf a.cls, (a.fields.lookup f.name).isSome = true := by
  intro f hf
  by_cases hi : f.init = true
  · exact (ha f hf).1 hi
  · have hi' : f.init = false := by simpa using hi
    obtain ⟨s, r, h1, _, _⟩ := dfltPost_seq f _ _ (wf_initFalse_default _ hwf f hf hi') ((ha f hf).2 hi') ((ha f hf).2 hi')
    simp [h1]

theorem tupleOf_cmp (a : Inst) (hwf : wfCls a.cls = true) (ha : InstOk a) :
    tupleOf a (cmpFields a.cls) = .ok (specTuple a) := by
  unfold specTuple
  apply tupleOf_ok
  intro f hf
  exact instOk_allSet a hwf ha f (List.mem_filter.mp hf).1

/-- **C11, equality.** `a == b` ⇔ same class ∧ the field tuples are equal (class identifiers name classes: `hcoh`) -/
theorem eq_is_tuple_eq (a b : Inst) (hwfa : wfCls a.cls = true) (ha : InstOk a) (hb : InstOk b)
    (hcoh : headCid a.cls = headCid b.cls → a.cls = b.cls) : eqOp a b = .ok (specEq a b) := by
  unfold eqOp specEq
  by_cases hc : headCid a.cls = headCid b.cls
  · have hcls := hcoh hc
    have hta := tupleOf_cmp a hwfa ha
    have htb := tupleOf_cmp b (hcls ▸ hwfa) hb
    rw [← hcls] at htb
    simp [hc, hta, htb]
  · simp [hc]

theorem decoratedPart_of_root : ∀ (c : Cls), rootDecorated c = true →
    ∃ l rest, decoratedPart c = l :: rest ∧ l.decorated = true ∧ fieldsOf (l :: rest) = fieldsOf c := by
  intro c
  induction c with
  | nil => intro h; simp [rootDecorated] at h
  | cons l rest ih =>
    intro h
    by_cases hd : l.decorated = true
    · exact ⟨l, rest, by simp [decoratedPart, hd], hd, rfl⟩
    · have hd' : l.decorated = false := by simpa using hd
      have hr : rootDecorated rest = true := by
        cases rest with
        | nil => simp [rootDecorated, hd'] at h
        | cons l2 r2 => simpa [rootDecorated] using h
      obtain ⟨l0, r0, h1, h2, h3⟩ := ih hr
      have hfo : fieldsOf (l :: rest) = fieldsOf rest := by simp [fieldsOf, hd']
      exact ⟨l0, r0, by simp [decoratedPart, hd', h1], h2, by rw [hfo, h3]⟩

theorem wf_root (c : Cls) (h : wfCls c = true) : rootDecorated c = true := by
  simp only [wfCls, Bool.and_eq_true] at h
  exact h.1.1.1.1.1

/-- **C11, hash.** `hash(a)` is the hash of the field tuple; it exists iff that tuple is hashable (no list / dict / set,
    directly or inside tuples; an instance of a plain class is hashable although it is mutable) -/
theorem hash_is_tuple_hash (a : Inst) (hwf : wfCls a.cls = true) (ha : InstOk a) :
    hashOp a = if specHashable a = true then .ok (specTuple a) else .error .typeError := by
  obtain ⟨l, rest, h1, _, _⟩ := decoratedPart_of_root a.cls (wf_root _ hwf)
  have hfr : isFrozenCls a.cls = true := by simp [isFrozenCls, h1, layer_frozen]
  simp only [hashOp, hfr, tupleOf_cmp a hwf ha, specHashable, Bool.not_true, Bool.false_eq_true, ↓reduceIte]
  split <;> simp_all

/-- equal instances hash equal tuples -/
theorem eq_implies_same_hash_key (a b : Inst) (hwfa : wfCls a.cls = true) (hwfb : wfCls b.cls = true) (ha : InstOk a) (hb : InstOk b)
    (heq : specEq a b = true) (ta tb : List Obj) (hta : hashOp a = .ok ta) (htb : hashOp b = .ok tb) : veqL ta tb = true := by
  rw [hash_is_tuple_hash a hwfa ha] at hta
  rw [hash_is_tuple_hash b hwfb hb] at htb
  split at hta <;> split at htb <;> simp at hta htb
  subst hta; subst htb
  simp only [specEq, Bool.and_eq_true] at heq
  exact heq.2

theorem orderPart_of_declared : ∀ (c : Cls), declaredOrder c = true →
    ∃ oc, orderPart c = some oc ∧ fieldsOf oc = fieldsOf c := by
  intro c
  induction c with
  | nil => intro h; simp [declaredOrder, decoratedPart] at h
  | cons l rest ih =>
    intro h
    by_cases hd : l.decorated = true
    · have ho : l.order = true := by simpa [declaredOrder, decoratedPart, hd] using h
      exact ⟨l :: rest, by simp [orderPart, hd, layer_effOrder, ho], rfl⟩
    · have hd' : l.decorated = false := by simpa using hd
      have hr : declaredOrder rest = true := by simpa [declaredOrder, decoratedPart, hd'] using h
      obtain ⟨oc, h1, h2⟩ := ih hr
      have hfo : fieldsOf (l :: rest) = fieldsOf rest := by simp [fieldsOf, hd']
      exact ⟨oc, by simp [orderPart, hd', h1], by rw [hfo, h2]⟩

/-- **C11, order.** With `order=True` at the instance's class, `a < b` on two instances of that class is the lexicographic
    comparison of the field tuples (`lexLt`), TypeError where the tuples are not comparable -/
theorem lt_is_tuple_lex (a b : Inst) (hwf : wfCls a.cls = true) (ha : InstOk a) (hb : InstOk b) (hcls : a.cls = b.cls)
    (hord : declaredOrder a.cls = true) :
    ltOp a b = match lexLt (specTuple a) (specTuple b) with | some r => .ok r | none => .error .typeError := by
  obtain ⟨oc, h1, h2⟩ := orderPart_of_declared a.cls hord
  have hcf : cmpFields oc = cmpFields a.cls := by simp [cmpFields, h2]
  have hta := tupleOf_cmp a hwf ha
  have htb := tupleOf_cmp b (hcls ▸ hwf) hb
  rw [← hcls] at htb
  unfold ltOp
  rw [if_pos (by rw [hcls]; simp)]
  simp only [h1]
  rw [hcf, hta, htb]
  cases hl : lexLt (specTuple a) (specTuple b) <;> simp [hl]

/-- **`<=` (and with the sides exchanged `>=`) is the tuple comparison too**: smaller, or equal, field tuples — whenever `<` is defined at all -/
theorem le_is_lt_or_eq (a b : Inst) (hwf : wfCls a.cls = true) (ha : InstOk a) (hb : InstOk b) (hcls : a.cls = b.cls)
    (hord : declaredOrder a.cls = true) :
    leOp a b = (match lexLt (specTuple a) (specTuple b) with
      | some true => .ok true | some false => .ok (veqL (specTuple a) (specTuple b)) | none => .error .typeError) := by
  have hlt := lt_is_tuple_lex a b hwf ha hb hcls hord
  obtain ⟨oc, h1, h2⟩ := orderPart_of_declared a.cls hord
  have hcf : cmpFields oc = cmpFields a.cls := by simp [cmpFields, h2]
  have hta := tupleOf_cmp a hwf ha
  have htb := tupleOf_cmp b (hcls ▸ hwf) hb
  rw [← hcls] at htb
  unfold leOp
  rw [hlt]
  cases hl : lexLt (specTuple a) (specTuple b) with
  | none => rfl
  | some r =>
    cases r with
    | true => rfl
    | false =>
      simp only [h1]
      rw [hcf, hta, htb]

/-- … and TypeError when no class of the hierarchy was decorated with order=True, or when the classes differ -/
theorem lt_typeerror_without_order (a b : Inst) (h : ∀ l ∈ a.cls, l.decorated = true → l.order = false) :
    ltOp a b = .error .typeError := by
  have : ∀ c : Cls, (∀ l ∈ c, l.decorated = true → l.order = false) → orderPart c = none := by
    intro c
    induction c with
    | nil => intro _; rfl
    | cons l rest ih =>
      intro hc
      by_cases hd : l.decorated = true
      · simp [orderPart, hd, layer_effOrder, hc l (by simp) hd, ih (fun l' hl' => hc l' (by simp [hl']))]
      · have hd' : l.decorated = false := by simpa using hd
        simp [orderPart, hd', ih (fun l' hl' => hc l' (by simp [hl']))]
  simp only [ltOp, this a.cls h]
  split <;> rfl

theorem lt_typeerror_other_class (a b : Inst) (h : headCid a.cls ≠ headCid b.cls) : ltOp a b = .error .typeError := by
  simp [ltOp, h]

/-- `lexLt` is the lexicographic order: equal prefixes are skipped, the first differing pair decides with its own `<`,
    a proper prefix is smaller, equal sequences are not smaller -/
theorem lexLt_first_difference : ∀ (p q : List Obj) (x y : Obj) (xs ys : List Obj), veqL p q = true → x.veq y = false →
    lexLt (p ++ x :: xs) (q ++ y :: ys) = x.vlt y := by
  intro p
  induction p with
  | nil => intro q x y xs ys h hxy; cases q <;> simp_all [veqL, lexLt]
  | cons a p ih =>
    intro q x y xs ys h hxy
    cases q with
    | nil => simp [veqL] at h
    | cons b q =>
      simp only [veqL, Bool.and_eq_true] at h
      simp [lexLt, h.1, ih q x y xs ys h.2 hxy]

theorem lexLt_proper_prefix : ∀ (p q : List Obj) (y : Obj) (ys : List Obj), veqL p q = true →
    lexLt p (q ++ y :: ys) = some true ∧ lexLt (q ++ y :: ys) p = some false := by
  intro p
  induction p with
  | nil => intro q y ys h; cases q <;> simp_all [veqL, lexLt]
  | cons a p ih =>
    intro q y ys h
    cases q with
    | nil => simp [veqL] at h
    | cons b q =>
      simp only [veqL, Bool.and_eq_true] at h
      have hba : b.veq a = true := by rw [veq_symm.1]; exact h.1
      simp [lexLt, h.1, hba, ih q y ys h.2]

theorem lexLt_equal : ∀ (p q : List Obj), veqL p q = true → lexLt p q = some false := by
  intro p
  induction p with
  | nil => intro q h; cases q <;> simp_all [veqL, lexLt]
  | cons a p ih =>
    intro q h
    cases q with
    | nil => simp [veqL] at h
    | cons b q =>
      simp only [veqL, Bool.and_eq_true] at h
      simp [lexLt, h.1, ih q h.2]


/-! ## the clauses of C11 one by one (corollaries of the two `…_meets_spec` theorems) -/

theorem mutIds_field_subset : ∀ (l : List (Name × Obj)) (k : Name) (s : Obj), l.lookup k = some s →
    ∀ i ∈ s.mutIds, i ∈ mutIdsL (l.map (·.2)) := by
  intro l
  induction l with
  | nil => intro k s h; simp at h
  | cons a l ih =>
    intro k s h i hi
    obtain ⟨k0, v⟩ := a
    simp only [List.map_cons, mutIdsL, List.mem_append]
    by_cases hk : k = k0
    · subst hk; rw [lookup_cons_self'] at h; cases h; exact Or.inl hi
    · rw [lookup_cons_ne' _ _ _ _ hk] at h; exact Or.inr (ih k s h i hi)

/-- result.class = self.class ∧ ∀ init field, result.f = kw f if given, else self.f — the *same object* -/
theorem copy_with_fields (self : Inst) (kw : List (Name × Obj)) (n : Nat)
    (hwf : wfCls self.cls = true) (hself : InstOk self) (hkw : specKwValid self.cls kw = true) :
    ∃ out, copyWith self kw n = .ok out ∧ out.result.cls = self.cls ∧
      ∀ f ∈ fieldsOf self.cls, f.init = true →
        out.result.fields.lookup f.name = (kw.lookup f.name).or (self.fields.lookup f.name) := by
  obtain ⟨out, h1, ⟨hc, hf⟩, _, _, _⟩ := copy_with_meets_spec self kw n hwf hself hkw
  refine ⟨out, h1, hc, ?_⟩
  intro f hfm hi
  have := hf f hfm
  unfold FieldMeets specExpect at this
  cases hl : kw.lookup f.name with
  | some v => simpa [hl] using this
  | none => simp only [hl, Option.isSome_none, Bool.false_eq_true, ↓reduceIte, hi, Bool.not_true] at this; simpa using this.1

theorem copy_with_original_unchanged (self : Inst) (kw : List (Name × Obj)) (n : Nat)
    (hwf : wfCls self.cls = true) (hself : InstOk self) (hkw : specKwValid self.cls kw = true) :
    ∃ out, copyWith self kw n = .ok out ∧ out.selfAfter = some self := by
  obtain ⟨out, h1, _, h2, _, _⟩ := copy_with_meets_spec self kw n hwf hself hkw
  exact ⟨out, h1, h2⟩

/-- same class; replaced fields are the objects passed; the others are the same value as the original's (and `==` to it
    wherever no instance of a plain class is involved: `deep_copy_with_fields_python_eq`) -/
theorem deep_copy_with_fields (self : Inst) (kw : List (Name × Obj)) (n : Nat)
    (hwf : wfCls self.cls = true) (hself : InstOk self) (hkw : specKwValid self.cls kw = true) (hlive : ∀ i ∈ self.mutIds, i < n)
    (hcp : specDeepCopyable self = true) :
    ∃ out, deepCopyWith self kw n = .ok out ∧ out.result.cls = self.cls ∧
      ∀ f ∈ fieldsOf self.cls,
        match kw.lookup f.name with
        | some v => out.result.fields.lookup f.name = some v
        | none => ∃ s r, self.fields.lookup f.name = some s ∧ out.result.fields.lookup f.name = some r ∧ s.seq r = true := by
  obtain ⟨out, h1, ⟨hc, hf⟩, _, _, _⟩ := deep_copy_with_meets_spec self kw n hwf hself hkw hlive hcp
  refine ⟨out, h1, hc, ?_⟩
  intro f hfm
  have := hf f hfm
  unfold FieldMeets specExpect at this
  cases hl : kw.lookup f.name with
  | some v => simpa [hl] using this
  | none =>
    simp only [hl, Option.isSome_none, Bool.false_eq_true, ↓reduceIte] at this
    by_cases hi : f.init = true
    · simp only [hi, Bool.not_true, Bool.false_eq_true, ↓reduceIte] at this
      obtain ⟨s, r, a, b, c, _⟩ := this; exact ⟨s, r, a, b, c⟩
    · have hi' : f.init = false := by simpa using hi
      simpa [hi'] using this

/-- **∀ un-replaced init field: mutableIds(result.f) ∩ mutableIds(self.f) = ∅ ∧ structEq** — and in fact disjoint from every
    mutable node of the original instance, where the mutable nodes are the lists, dicts, sets **and instances of plain
    classes** at any depth (also inside tuples, frozensets and nested frozen-dataclass instances, where hashability / being
    frozen says nothing about the mutability of what is held);
    Python's `==` holds too wherever the original value holds no instance of a class with identity equality -/
theorem deep_copy_no_shared_mutable (self : Inst) (kw : List (Name × Obj)) (n : Nat)
    (hwf : wfCls self.cls = true) (hself : InstOk self) (hkw : specKwValid self.cls kw = true) (hlive : ∀ i ∈ self.mutIds, i < n)
    (hcp : specDeepCopyable self = true) :
    ∃ out, deepCopyWith self kw n = .ok out ∧
      ∀ f ∈ fieldsOf self.cls, f.init = true → kw.lookup f.name = none →
        ∃ s r, self.fields.lookup f.name = some s ∧ out.result.fields.lookup f.name = some r ∧ s.seq r = true ∧
          (∀ i ∈ r.mutIds, i ∉ s.mutIds) ∧ (∀ i ∈ r.mutIds, i ∉ self.mutIds) ∧ (s.noObj = true → s.veq r = true) := by
  obtain ⟨out, h1, ⟨_, hf⟩, _, _, _⟩ := deep_copy_with_meets_spec self kw n hwf hself hkw hlive hcp
  refine ⟨out, h1, ?_⟩
  intro f hfm hi hl
  have := hf f hfm
  unfold FieldMeets specExpect at this
  simp only [hl, Option.isSome_none, Bool.false_eq_true, ↓reduceIte, hi, Bool.not_true] at this
  obtain ⟨s, r, a, b, c, d⟩ := this
  refine ⟨s, r, a, b, c, ?_, d, fun hn => seq_veq_of_noObj.1 s r hn c⟩
  intro i hir his
  exact d i hir (by simp only [Inst.mutIds, List.mem_append]; exact Or.inl (mutIds_field_subset _ _ _ a i his))

theorem deep_copy_original_unchanged (self : Inst) (kw : List (Name × Obj)) (n : Nat)
    (hwf : wfCls self.cls = true) (hself : InstOk self) (hkw : specKwValid self.cls kw = true) (hlive : ∀ i ∈ self.mutIds, i < n)
    (hcp : specDeepCopyable self = true) :
    ∃ out, deepCopyWith self kw n = .ok out ∧ out.selfAfter = some self := by
  obtain ⟨out, h1, _, h2, _, _⟩ := deep_copy_with_meets_spec self kw n hwf hself hkw hlive hcp
  exact ⟨out, h1, h2⟩

/-! ## keywords that do not name an init field are refused -/

theorem replaceChanges_prefix (self : Inst) : ∀ (fs : List FieldR) (ch ch' : List (Name × Obj)),
    replaceChanges self fs ch = .ok ch' → ∃ t, ch' = ch ++ t := by
  intro fs
  induction fs with
  | nil => intro ch ch' h; simp [replaceChanges] at h; exact ⟨[], by simp [h]⟩
  | cons f fs ih =>
    intro ch ch' h
    simp only [replaceChanges] at h
    split at h
    · split at h
      · cases h
      · exact ih ch ch' h
    · split at h
      · exact ih ch ch' h
      · split at h
        · cases h
        · rename_i v _
          obtain ⟨t, ht⟩ := ih _ ch' h
          exact ⟨(f.name, v) :: t, by simp [ht]⟩

theorem construct_bad_kw (c : Cls) (kw : List (Name × Obj)) (n : Nat) (kv : Name × Obj) (hm : kv ∈ kw)
    (hbad : kv.1 ∉ initNames (fieldsOf c)) : construct c [] kw n = .error .typeError := by
  have : kw.any (badKw (fieldsOf c) []) = true :=
    List.any_eq_true.mpr ⟨kv, hm, by simp [badKw, hbad]⟩
  simp [construct, this]

theorem bad_kw_witness (c : Cls) : ∀ (kw : List (Name × Obj)), specKwValid c kw = false →
    ∃ kv ∈ kw, kv.1 ∉ initNames (fieldsOf c) := by
  intro kw
  induction kw with
  | nil => intro h; simp [specKwValid] at h
  | cons a kw ih =>
    intro h
    by_cases ha : a.1 ∈ initNames (fieldsOf c)
    · have : specKwValid c kw = false := by
        simp only [specKwValid, List.all_cons, List.contains_iff_mem.mpr ha, Bool.true_and] at h
        exact h
      obtain ⟨kv, hm, hb⟩ := ih this
      exact ⟨kv, by simp [hm], hb⟩
    · exact ⟨a, by simp, ha⟩

/-- a keyword outside the init fields makes `copy_with` raise (ValueError for an `init=False` field, else TypeError) … -/
theorem copy_with_rejects_bad_kw (self : Inst) (kw : List (Name × Obj)) (n : Nat) (h : specKwValid self.cls kw = false) :
    ∃ e, copyWith self kw n = .error e := by
  obtain ⟨kv, hm, hb⟩ := bad_kw_witness _ _ h
  simp only [copyWith, runCopy, copyWithBody]
  cases hr : replaceChanges self (fieldsOf self.cls) kw with
  | error e => exact ⟨e, by simp [hr]⟩
  | ok ch' =>
    obtain ⟨t, ht⟩ := replaceChanges_prefix self _ _ _ hr
    have := construct_bad_kw self.cls ch' n kv (by simp [ht, hm]) hb
    exact ⟨Exc.typeError, by simp [hr, this, finishCopy]⟩

/-- … and `deep_copy_with` too -/
theorem deep_copy_with_rejects_bad_kw (self : Inst) (kw : List (Name × Obj)) (n : Nat) (h : specKwValid self.cls kw = false) :
    ∃ e, deepCopyWith self kw n = .error e := by
  obtain ⟨kv, hm, hb⟩ := bad_kw_witness _ _ h
  simp only [deepCopyWith, runCopy, deepCopyWithBody]
  cases hr : readCur true true self (fieldsOf self.cls) n with
  | error e => exact ⟨e, by simp⟩
  | ok p =>
    obtain ⟨cur, n1⟩ := p
    have := construct_bad_kw self.cls (mergeDict cur kw) n1 kv (by simp [mergeDict, hm]) hb
    exact ⟨Exc.typeError, by simp [instCls, this, finishCopy]⟩


/-! ## the allocator invariant is preserved: the hypothesis `hlive` of the deep-copy theorems can be re-established after every
    construction and copy, so the theorems apply along every history of operations -/

theorem mutIds_subset_allIds : (∀ (o : Obj) (i : Nat), i ∈ o.mutIds → i ∈ o.allIds) ∧
    (∀ (os : List Obj) (i : Nat), i ∈ mutIdsL os → i ∈ allIdsL os) := by
  apply Obj.allIds.mutual_induct (motive_1 := fun o => ∀ i, i ∈ o.mutIds → i ∈ o.allIds)
    (motive_2 := fun os => ∀ i, i ∈ mutIdsL os → i ∈ allIdsL os)
  · intro a i h; simp [Obj.mutIds] at h
  · intro id items ih i h; simp only [Obj.mutIds] at h; simp [Obj.allIds, ih i h]
  · intro k id items ih i h
    simp only [Obj.mutIds] at h
    split at h
    · simp only [List.mem_cons] at h
      rcases h with rfl | h
      · simp [Obj.allIds]
      · simp [Obj.allIds, ih i h]
    · simp [Obj.allIds, ih i h]
  · intro i h; simp [mutIdsL] at h
  · intro x xs ih1 ih2 i h
    simp only [mutIdsL, List.mem_append] at h
    simp only [allIdsL, List.mem_append]
    rcases h with h | h
    · exact Or.inl (ih1 i h)
    · exact Or.inr (ih2 i h)

theorem deepcopy_live :
    (∀ (o : Obj) (n : Nat), (∀ i ∈ o.allIds, i < n) → ∀ i ∈ (deepcopy o n).1.allIds, i < (deepcopy o n).2) ∧
    (∀ (os : List Obj) (n : Nat), (∀ i ∈ allIdsL os, i < n) → ∀ i ∈ allIdsL (deepcopyL os n).1, i < (deepcopyL os n).2) := by
  apply deepcopy.mutual_induct
    (motive_1 := fun o n => (∀ i ∈ o.allIds, i < n) → ∀ i ∈ (deepcopy o n).1.allIds, i < (deepcopy o n).2)
    (motive_2 := fun os n => (∀ i ∈ allIdsL os, i < n) → ∀ i ∈ allIdsL (deepcopyL os n).1, i < (deepcopyL os n).2)
  · intro a n _ i h; simp [deepcopy, Obj.allIds] at h
  · intro id items n items' n' h hid ih hl i hi
    have hmono := (deepcopy_fresh.2 items n).1
    simp only [deepcopy, h, hid, ↓reduceIte] at *
    simp only [Obj.allIds, List.mem_cons] at hi
    rcases hi with rfl | hi
    · have := hl i (by simp [Obj.allIds]); omega
    · exact ih (fun j hj => hl j (by simp [Obj.allIds, hj])) i hi
  · intro id items n items' n' h hid ih hl i hi
    simp only [deepcopy, h, hid] at *
    simp only [Bool.false_eq_true, ↓reduceIte, Obj.allIds, List.mem_cons] at hi ⊢
    rcases hi with rfl | hi
    · omega
    · have := ih (fun j hj => hl j (by simp [Obj.allIds, hj])) i hi
      omega
  · intro k id items n hc; exact (fz_hook_absurd hc).elim
  · intro k id items n hc items' n' h ih hl i hi
    have hmono := (deepcopy_fresh.2 items (n + 1)).1
    simp only [deepcopy, hc, h, Bool.false_eq_true, ↓reduceIte] at *
    simp only [Obj.allIds, List.mem_cons] at hi
    rcases hi with rfl | hi
    · omega
    · exact ih (fun j hj => by have := hl j (by simp [Obj.allIds, hj]); omega) i hi
  · intro n _ i h; simp [deepcopyL, allIdsL] at h
  · intro x xs n x' n1 hx xs' n2 hxs ih1 ih2 hl i hi
    have hm1 := (deepcopy_fresh.1 x n).1
    have hm2 := (deepcopy_fresh.2 xs n1).1
    simp only [deepcopyL, hx, hxs] at *
    simp only [allIdsL, List.mem_append] at hi
    rcases hi with hi | hi
    · have := ih1 (fun j hj => hl j (by simp [allIdsL, hj])) i hi; omega
    · exact ih2 (fun j hj => by have := hl j (by simp [allIdsL, hj]); omega) i hi

/-- every identity reachable from the listed attributes is below `n` -/
def ValsBelow (l : List (Name × Obj)) (n : Nat) : Prop := ∀ kv ∈ l, ∀ i ∈ kv.2.allIds, i < n

theorem ValsBelow.mono {l : List (Name × Obj)} {n m : Nat} (h : ValsBelow l n) (hnm : n ≤ m) : ValsBelow l m :=
  fun kv hkv i hi => Nat.lt_of_lt_of_le (h kv hkv i hi) hnm

theorem lookup_mem : ∀ (l : List (Name × Obj)) (k : Name) (v : Obj), l.lookup k = some v → (k, v) ∈ l := by
  intro l
  induction l with
  | nil => intro k v h; simp at h
  | cons a l ih =>
    intro k v h
    obtain ⟨k0, v0⟩ := a
    by_cases hk : k = k0
    · subst hk; rw [lookup_cons_self'] at h; cases h; simp
    · rw [lookup_cons_ne' _ _ _ _ hk] at h; simp [ih k v h]

theorem fieldValue_live (f : FieldR) (bound : List (Name × Obj)) (n n1 : Nat) (v : Obj)
    (h : fieldValue f bound n = .ok (some v, n1)) (hb : ValsBelow bound n) (hd : ∀ i ∈ dfltIds f.dflt, i < n) :
    ∀ i ∈ v.allIds, i < n1 := by
  unfold fieldValue at h
  by_cases hi : f.init = true
  · simp only [hi, ↓reduceIte] at h
    cases hl : bound.lookup f.name with
    | some w =>
      simp only [hl] at h; cases h
      exact hb _ (lookup_mem _ _ _ hl)
    | none =>
      simp only [hl] at h
      cases hdf : f.dflt with
      | none => simp [hdf] at h
      | value o => simp only [hdf] at h; cases h; intro i hi'; exact hd i (by simp [hdf, dfltIds, hi'])
      | factory t =>
        simp only [hdf] at h; cases h
        exact deepcopy_live.1 t n (fun i hi' => hd i (by simp [hdf, dfltIds, hi']))
  · simp only [hi] at h
    cases hdf : f.dflt with
    | none => simp [hdf] at h
    | value o => simp only [hdf] at h; cases h; intro i hi'; exact hd i (by simp [hdf, dfltIds, hi'])
    | factory t =>
      simp only [hdf] at h; cases h
      exact deepcopy_live.1 t n (fun i hi' => hd i (by simp [hdf, dfltIds, hi']))

theorem initFields_live : ∀ (fs : List FieldR) (bound : List (Name × Obj)) (n n' : Nat) (vals : List (Name × Obj)),
    initFields fs bound n = .ok (vals, n') → ValsBelow bound n → (∀ f ∈ fs, ∀ i ∈ dfltIds f.dflt, i < n) →
    n ≤ n' ∧ ValsBelow vals n' := by
  intro fs
  induction fs with
  | nil => intro bound n n' vals h _ _; simp [initFields] at h; obtain ⟨rfl, rfl⟩ := h; exact ⟨Nat.le_refl _, by simp [ValsBelow]⟩
  | cons f fs ih =>
    intro bound n n' vals h hb hd
    simp only [initFields] at h
    cases hv : fieldValue f bound n with
    | error e => simp [hv] at h
    | ok p =>
      obtain ⟨r, n1⟩ := p
      have hle := (fieldValue_spec f bound n n1 r hv).1
      have hd' : ∀ g ∈ fs, ∀ i ∈ dfltIds g.dflt, i < n1 := fun g hg i hi => Nat.lt_of_lt_of_le (hd g (by simp [hg]) i hi) hle
      cases r with
      | none =>
        simp only [hv] at h
        obtain ⟨h1, h2⟩ := ih bound n1 n' vals h (hb.mono hle) hd'
        exact ⟨by omega, h2⟩
      | some v =>
        simp only [hv] at h
        cases hr : initFields fs bound n1 with
        | error e => simp [hr] at h
        | ok q =>
          obtain ⟨rr, n2⟩ := q
          simp only [hr] at h
          cases h
          obtain ⟨h1, h2⟩ := ih bound n1 n' rr hr (hb.mono hle) hd'
          have hvl := fieldValue_live f bound n n1 v hv hb (hd f (by simp))
          refine ⟨by omega, ?_⟩
          intro kv hkv i hi
          simp only [List.mem_cons] at hkv
          rcases hkv with rfl | hkv
          · have := hvl i hi; omega
          · exact h2 kv hkv i hi

theorem mem_allIdsL : ∀ (os : List Obj) (o : Obj), o ∈ os → ∀ i ∈ o.allIds, i ∈ allIdsL os := by
  intro os
  induction os with
  | nil => intro o h; simp at h
  | cons x xs ih =>
    intro o h i hi
    simp only [List.mem_cons] at h
    simp only [allIdsL, List.mem_append]
    rcases h with rfl | h
    · exact Or.inl hi
    · exact Or.inr (ih o h i hi)

theorem clsIds_mem (c : Cls) (f : FieldR) (hf : f ∈ fieldsOf c) : ∀ i ∈ dfltIds f.dflt, i ∈ clsIds c := by
  intro i hi
  exact List.mem_flatMap.mpr ⟨f, hf, hi⟩

/-- **construction preserves the allocator invariant** -/
theorem construct_live (c : Cls) (pos : List Obj) (kw : List (Name × Obj)) (n : Nat) (m : Made)
    (h : construct c pos kw n = .ok m) (hc : ∀ i ∈ clsIds c, i < n) (hkw : ValsBelow kw n) (hpos : ∀ i ∈ allIdsL pos, i < n) :
    n ≤ m.next ∧ ValsBelow m.inst.fields m.next ∧ m.inst.extra = [] := by
  simp only [construct] at h
  split at h
  · cases h
  · split at h
    · cases h
    · split at h
      · cases h
      · rename_i vals n' hi
        cases h
        have hb : ValsBelow ((((fieldsOf c).filter isStd).map (·.name)).zip pos ++ kw) n := by
          intro kv hkv i hi'
          simp only [List.mem_append] at hkv
          rcases hkv with hkv | hkv
          · obtain ⟨k, v⟩ := kv
            exact hpos i (mem_allIdsL pos v (List.of_mem_zip hkv).2 i hi')
          · exact hkw kv hkv i hi'
        obtain ⟨h1, h2⟩ := initFields_live _ _ _ _ _ hi hb (fun f hf i hi' => hc i (clsIds_mem c f hf i hi'))
        exact ⟨h1, h2, rfl⟩

theorem replaceChanges_mem (self : Inst) : ∀ (fs : List FieldR) (ch ch' : List (Name × Obj)),
    replaceChanges self fs ch = .ok ch' → ∀ kv ∈ ch', kv ∈ ch ∨ kv ∈ self.fields := by
  intro fs
  induction fs with
  | nil => intro ch ch' h kv hkv; simp [replaceChanges] at h; exact Or.inl (h ▸ hkv)
  | cons f fs ih =>
    intro ch ch' h kv hkv
    simp only [replaceChanges] at h
    split at h
    · split at h
      · cases h
      · exact ih ch ch' h kv hkv
    · split at h
      · exact ih ch ch' h kv hkv
      · split at h
        · cases h
        · rename_i v hv
          rcases ih _ ch' h kv hkv with h1 | h1
          · simp only [List.mem_append, List.mem_singleton] at h1
            rcases h1 with h1 | rfl
            · exact Or.inl h1
            · exact Or.inr (lookup_mem _ _ _ hv)
          · exact Or.inr h1

theorem readCur_live (self : Inst) : ∀ (fs : List FieldR) (n n' : Nat) (cur : List (Name × Obj)),
    readCur true true self fs n = .ok (cur, n') → ValsBelow self.fields n → n ≤ n' ∧ ValsBelow cur n' := by
  intro fs
  induction fs with
  | nil => intro n n' cur h _; simp [readCur] at h; obtain ⟨rfl, rfl⟩ := h; exact ⟨Nat.le_refl _, by simp [ValsBelow]⟩
  | cons f fs ih =>
    intro n n' cur h hs
    simp only [readCur, Bool.true_and] at h
    split at h
    · exact ih n n' cur h hs
    · split at h
      · cases h
      · rename_i v hv
        by_cases hcv : v.copyable = true
        · simp only [deepcopyRaises, hcv, Bool.not_true, Bool.false_and, Bool.false_eq_true, ↓reduceIte] at h
          have hm := (deepcopy_fresh.1 v n).1
          cases hr : readCur true true self fs (deepcopy v n).2 with
          | error e => simp [hr] at h
          | ok q =>
            obtain ⟨r, n2⟩ := q
            simp only [hr] at h
            cases h
            obtain ⟨h1, h2⟩ := ih _ _ _ hr (hs.mono hm)
            refine ⟨by omega, ?_⟩
            intro kv hkv i hi
            simp only [List.mem_cons] at hkv
            rcases hkv with rfl | hkv
            · have := deepcopy_live.1 v n (hs _ (lookup_mem _ _ _ hv)) i hi; omega
            · exact h2 kv hkv i hi
        · simp [deepcopyRaises, hcv, cfg_deepcopy_bare] at h

/-- **both copy methods preserve the allocator invariant**: if the class defaults, the receiver and the keyword objects are
    below `n`, then the copy (and still the receiver) is below the returned allocator -/
theorem copy_with_live (self : Inst) (kw : List (Name × Obj)) (n : Nat) (out : CopyOut)
    (h : copyWith self kw n = .ok out) (hc : ∀ i ∈ clsIds self.cls, i < n) (hs : ValsBelow self.fields n) (hkw : ValsBelow kw n) :
    n ≤ out.next ∧ ValsBelow out.result.fields out.next := by
  simp only [copyWith, runCopy, copyWithBody] at h
  cases hr : replaceChanges self (fieldsOf self.cls) kw with
  | error e => simp [hr] at h
  | ok ch' =>
    cases hcon : construct self.cls [] ch' n with
    | error e => simp [hr, hcon, finishCopy] at h
    | ok m =>
      simp [hr, hcon, finishCopy] at h
      subst h
      have hch : ValsBelow ch' n := by
        intro kv hkv
        rcases replaceChanges_mem self _ _ _ hr kv hkv with h1 | h1
        · exact hkw kv h1
        · exact hs kv h1
      obtain ⟨h1, h2, _⟩ := construct_live _ _ _ _ _ hcon hc hch (by simp [allIdsL])
      exact ⟨h1, h2⟩

theorem deep_copy_with_live (self : Inst) (kw : List (Name × Obj)) (n : Nat) (out : CopyOut)
    (h : deepCopyWith self kw n = .ok out) (hc : ∀ i ∈ clsIds self.cls, i < n) (hs : ValsBelow self.fields n) (hkw : ValsBelow kw n) :
    n ≤ out.next ∧ ValsBelow out.result.fields out.next := by
  simp only [deepCopyWith, runCopy, deepCopyWithBody] at h
  cases hr : readCur true true self (fieldsOf self.cls) n with
  | error e => simp [hr] at h
  | ok p =>
    obtain ⟨cur, n1⟩ := p
    cases hcon : construct self.cls [] (mergeDict cur kw) n1 with
    | error e => simp [hr, hcon, finishCopy, instCls] at h
    | ok m =>
      simp [hr, hcon, finishCopy, instCls] at h
      subst h
      obtain ⟨hle, hcur⟩ := readCur_live self _ _ _ _ hr hs
      have hmg : ValsBelow (mergeDict cur kw) n1 := by
        intro kv hkv
        simp only [mergeDict, List.mem_append, List.mem_filter] at hkv
        rcases hkv with h1 | h1
        · exact (hkw.mono hle) kv h1
        · exact hcur kv h1.1
      obtain ⟨h1, h2, _⟩ := construct_live _ _ _ _ _ hcon (fun i hi => Nat.lt_of_lt_of_le (hc i hi) hle) hmg (by simp [allIdsL])
      exact ⟨by simp; omega, h2⟩

/-- the invariant in the form the deep-copy theorems use -/
theorem valsBelow_mutIds (self : Inst) (n : Nat) (hs : ValsBelow self.fields n) (he : self.extra = []) :
    ∀ i ∈ self.mutIds, i < n := by
  intro i hi
  simp only [Inst.mutIds, he, List.map_nil, mutIdsL, List.append_nil] at hi
  have : ∀ (l : List (Name × Obj)), ValsBelow l n → ∀ i ∈ mutIdsL (l.map (·.2)), i < n := by
    intro l
    induction l with
    | nil => intro _ i hi; simp [mutIdsL] at hi
    | cons a l ih =>
      intro hl i hi
      simp only [List.map_cons, mutIdsL, List.mem_append] at hi
      rcases hi with hi | hi
      · exact hl a (by simp) i (mutIds_subset_allIds.1 _ i hi)
      · exact ih (fun kv hkv => hl kv (by simp [hkv])) i hi
  exact this _ hs i hi

/-! ## histories: the copy contract holds for EVERY call, whatever was copied and changed in place before

A frozen instance cannot be re-bound, but the lists / dicts / sets / objects its fields refer to can be changed in place, a shallow copy
shares them, and the same original can be copied any number of times.  `Hist` / `stepH` / `runH` (Model) run such histories: an in-place
change is applied by identity to every live instance, a copy method to the receiver's current value.  `cfg_copy_helpers_stateless` is the
generated fact that no function reachable from `copy_with` / `deep_copy_with` keeps state between calls (no mutable default argument, no
`global` / `nonlocal`, no shared mutable read, no store outside its locals) — without it the model makes no prediction for a copy step
(`StepOut.unknown`) and `history_copies_meet_spec` cannot be proved. -/

/-- **generated fact**: the copy methods and the helpers they call keep no state between calls -/
theorem cfg_copy_helpers_stateless : copyHelpersStateless = true := by decide

theorem allIdsL_append : ∀ (xs ys : List Obj), allIdsL (xs ++ ys) = allIdsL xs ++ allIdsL ys := by
  intro xs
  induction xs with
  | nil => intro ys; simp [allIdsL]
  | cons x xs ih => intro ys; simp [allIdsL, ih]

theorem allIdsL_set : ∀ (xs : List Obj) (k : Nat) (v : Obj) (i : Nat), i ∈ allIdsL (xs.set k v) → i ∈ allIdsL xs ∨ i ∈ v.allIds := by
  intro xs
  induction xs with
  | nil => intro k v i h; simp [allIdsL] at h
  | cons x xs ih =>
    intro k v i h
    cases k with
    | zero =>
      simp only [List.set_cons_zero, allIdsL, List.mem_append] at h ⊢
      rcases h with h | h
      · exact Or.inr h
      · exact Or.inl (Or.inr h)
    | succ k =>
      simp only [List.set_cons_succ, allIdsL, List.mem_append] at h ⊢
      rcases h with h | h
      · exact Or.inl (Or.inl h)
      · rcases ih k v i h with h | h
        · exact Or.inl (Or.inr h)
        · exact Or.inr h

theorem apply_allIds (m : Mut) (xs : List Obj) (i : Nat) (h : i ∈ allIdsL (m.apply xs)) : i ∈ allIdsL xs ∨ i ∈ allIdsL m.vals := by
  cases m with
  | push ys => simpa [Mut.apply, Mut.vals, allIdsL_append] using h
  | setAt k v =>
    rcases allIdsL_set xs k v i (by simpa [Mut.apply] using h) with h | h
    · exact Or.inl h
    · exact Or.inr (by simp [Mut.vals, allIdsL, h])
  | clear => simp [Mut.apply, allIdsL] at h

/-- an in-place change brings no identity into a value but those of the objects it stores -/
theorem mutate_allIds (t : Nat) (m : Mut) :
    (∀ (o : Obj) (i : Nat), i ∈ (o.mutate t m).allIds → i ∈ o.allIds ∨ i ∈ allIdsL m.vals) ∧
    (∀ (os : List Obj) (i : Nat), i ∈ allIdsL (mutateL t m os) → i ∈ allIdsL os ∨ i ∈ allIdsL m.vals) := by
  apply Obj.allIds.mutual_induct (motive_1 := fun o => ∀ i, i ∈ (o.mutate t m).allIds → i ∈ o.allIds ∨ i ∈ allIdsL m.vals)
    (motive_2 := fun os => ∀ i, i ∈ allIdsL (mutateL t m os) → i ∈ allIdsL os ∨ i ∈ allIdsL m.vals)
  · intro a i h; simp [Obj.mutate, Obj.allIds] at h
  · intro id items ih i h
    simp only [Obj.mutate, Obj.allIds, List.mem_cons] at h ⊢
    rcases h with h | h
    · exact Or.inl (Or.inl h)
    · rcases ih i h with h | h
      · exact Or.inl (Or.inr h)
      · exact Or.inr h
  · intro k id items ih i h
    simp only [Obj.mutate] at h
    split at h
    · simp only [Obj.allIds, List.mem_cons] at h ⊢
      rcases h with h | h
      · exact Or.inl (Or.inl h)
      · rcases apply_allIds m _ i h with h | h
        · rcases ih i h with h | h
          · exact Or.inl (Or.inr h)
          · exact Or.inr h
        · exact Or.inr h
    · simp only [Obj.allIds, List.mem_cons] at h ⊢
      rcases h with h | h
      · exact Or.inl (Or.inl h)
      · rcases ih i h with h | h
        · exact Or.inl (Or.inr h)
        · exact Or.inr h
  · intro i h; simp [mutateL, allIdsL] at h
  · intro x xs ih1 ih2 i h
    simp only [mutateL, allIdsL, List.mem_append] at h ⊢
    rcases h with h | h
    · rcases ih1 i h with h | h
      · exact Or.inl (Or.inl h)
      · exact Or.inr h
    · rcases ih2 i h with h | h
      · exact Or.inl (Or.inr h)
      · exact Or.inr h

/-- a value that does not contain the object is not affected by its change -/
theorem mutate_of_not_mem (t : Nat) (m : Mut) :
    (∀ o : Obj, t ∉ o.allIds → o.mutate t m = o) ∧ (∀ os : List Obj, t ∉ allIdsL os → mutateL t m os = os) := by
  apply Obj.allIds.mutual_induct (motive_1 := fun o => t ∉ o.allIds → o.mutate t m = o)
    (motive_2 := fun os => t ∉ allIdsL os → mutateL t m os = os)
  · intro a _; simp [Obj.mutate]
  · intro id items ih h
    simp only [Obj.allIds, List.mem_cons, not_or] at h
    simp [Obj.mutate, ih h.2]
  · intro k id items ih h
    simp only [Obj.allIds, List.mem_cons, not_or] at h
    have : (id == t) = false := by simpa using fun e => h.1 e.symm
    simp [Obj.mutate, this, ih h.2]
  · intro _; simp [mutateL]
  · intro x xs ih1 ih2 h
    simp only [allIdsL, List.mem_append, not_or] at h
    simp [mutateL, ih1 h.1, ih2 h.2]

theorem lookup_mutFields (t : Nat) (m : Mut) : ∀ (l : List (Name × Obj)) (k : Name),
    (mutFields t m l).lookup k = (l.lookup k).map (Obj.mutate t m) := by
  intro l
  induction l with
  | nil => intro k; simp [mutFields]
  | cons a l ih =>
    intro k
    obtain ⟨k0, v⟩ := a
    by_cases hk : k = k0
    · subst hk; simp [mutFields]
    · have : (k == k0) = false := by simpa using hk
      have ih' := ih k
      simp only [mutFields] at ih' ⊢
      simp [List.lookup_cons, this, ih']

theorem valsBelow_mutFields (t : Nat) (m : Mut) (l : List (Name × Obj)) (n : Nat) (hl : ValsBelow l n)
    (hm : ∀ i ∈ allIdsL m.vals, i < n) : ValsBelow (mutFields t m l) n := by
  intro kv hkv i hi
  simp only [mutFields, List.mem_map] at hkv
  obtain ⟨kv0, hm0, rfl⟩ := hkv
  rcases (mutate_allIds t m).1 kv0.2 i hi with h | h
  · exact hl kv0 hm0 i h
  · exact hm i h

/-- the guard under which a history stays inside what the copy contract speaks about: the changed object is not (part of) the value of an
    `init=False` field — such a field is recomputed by `__init__`, a copy does not carry the change -/
def mutSafe (inst : Inst) (t : Nat) : Bool :=
  (fieldsOf inst.cls).all (fun f => f.init || (match inst.fields.lookup f.name with | some v => !(v.allIds.contains t) | none => true))

theorem instOk_mutate (inst : Inst) (t : Nat) (m : Mut) (hok : InstOk inst) (hs : mutSafe inst t = true) : InstOk (inst.mutate t m) := by
  intro f hf
  have hf' : f ∈ fieldsOf inst.cls := hf
  have hlk : (inst.mutate t m).fields.lookup f.name = (inst.fields.lookup f.name).map (Obj.mutate t m) := lookup_mutFields t m _ _
  constructor
  · intro hi
    rw [hlk]
    have := (hok f hf').1 hi
    cases hl : inst.fields.lookup f.name with
    | none => simp [hl] at this
    | some v => simp
  · intro hi
    rw [hlk]
    have hd := (hok f hf').2 hi
    have hsf := List.all_eq_true.mp hs f hf'
    simp only [hi, Bool.false_or] at hsf
    cases hl : inst.fields.lookup f.name with
    | none => simpa [hl] using hd
    | some v =>
      simp only [hl] at hsf hd ⊢
      have hnm : t ∉ v.allIds := by simpa using hsf
      simpa [(mutate_of_not_mem t m).1 v hnm] using hd

theorem construct_extra (c : Cls) (pos : List Obj) (kw : List (Name × Obj)) (n : Nat) (m : Made)
    (h : construct c pos kw n = .ok m) : m.inst.extra = [] := by
  simp only [construct] at h
  split at h
  · cases h
  · split at h
    · cases h
    · split at h
      · cases h
      · cases h; rfl

/-- what a copy method returns was made by the constructor of the receiver's class -/
theorem copyWith_constructed (self : Inst) (kw : List (Name × Obj)) (n : Nat) (out : CopyOut) (h : copyWith self kw n = .ok out) :
    ∃ ch n0, construct self.cls [] ch n0 = .ok ⟨out.result, out.next, out.journal⟩ := by
  simp only [copyWith, runCopy, copyWithBody] at h
  cases hr : replaceChanges self (fieldsOf self.cls) kw with
  | error e => simp [hr] at h
  | ok ch' =>
    cases hcon : construct self.cls [] ch' n with
    | error e => simp [hr, hcon, finishCopy] at h
    | ok m =>
      simp [hr, hcon, finishCopy] at h
      subst h
      exact ⟨ch', n, hcon⟩

theorem deepCopyWith_constructed (self : Inst) (kw : List (Name × Obj)) (n : Nat) (out : CopyOut) (h : deepCopyWith self kw n = .ok out) :
    ∃ ch n0, construct self.cls [] ch n0 = .ok ⟨out.result, out.next, out.journal⟩ := by
  simp only [deepCopyWith, runCopy, deepCopyWithBody] at h
  cases hr : readCur true true self (fieldsOf self.cls) n with
  | error e => simp [hr] at h
  | ok p =>
    obtain ⟨cur, n1⟩ := p
    cases hcon : construct self.cls [] (mergeDict cur kw) n1 with
    | error e => simp [hr, hcon, finishCopy, instCls] at h
    | ok m =>
      simp [hr, hcon, finishCopy, instCls] at h
      subst h
      exact ⟨_, n1, hcon⟩

/-- the invariant of a history: every live instance is a well-formed instance as `__init__` leaves it, and everything it refers to —
    and every default of its class — lies below the allocator -/
structure HistOk (h : Hist) : Prop where
  wf : ∀ inst ∈ h.insts, wfCls inst.cls = true
  ok : ∀ inst ∈ h.insts, InstOk inst
  below : ∀ inst ∈ h.insts, ValsBelow inst.fields h.next
  noExtra : ∀ inst ∈ h.insts, inst.extra = []
  clsBelow : ∀ inst ∈ h.insts, ∀ i ∈ clsIds inst.cls, i < h.next

/-- what a step may be: keyword objects and stored objects exist already (below the allocator); the changed object is not below an
    `init=False` field.  Nothing else: any receiver, any keywords (valid or not), any object, any change. -/
def StepValid (h : Hist) : Step → Prop
  | .copy _ kw _ => ValsBelow kw h.next
  | .change t m => (∀ i ∈ allIdsL m.vals, i < h.next) ∧ ∀ inst ∈ h.insts, mutSafe inst t = true

def HistValid : Hist → List Step → Prop
  | _, [] => True
  | h, s :: rest => StepValid h s ∧ HistValid (stepH h s).1 rest

/-- what the property demands of one step of a history, whatever happened before: a copy method applied to a live instance returns a
    copy that meets the copy contract **with respect to the receiver as it is at that moment**, leaves the receiver as it is, and — deep —
    its un-replaced fields share no mutable node with ANY instance alive at that moment (the original, every earlier copy);
    keywords that name no init field make it raise -/
def GoodStep (h : Hist) : Step → StepOut → Prop
  | .copy deep kw on, out =>
    match h.insts[on]? with
    | none => out = .noInst
    | some self =>
      if specKwValid self.cls kw = true then
        if (deep && !specDeepCopyable self) = true then out = .raised .typeError     -- nothing to deep-copy from: no instance
        else
        ∃ o, out = .copied self o ∧ CopyMeets deep self kw o.result ∧ o.selfAfter = some self ∧ o.journal = postInitEvents self.cls ∧
          (deep = true → ∀ f ∈ fieldsOf self.cls, f.init = true → kw.lookup f.name = none →
            ∃ r, o.result.fields.lookup f.name = some r ∧ ∀ i ∈ r.mutIds, i ∉ h.mutIds)
      else ∃ e, out = .raised e
  | .change _ _, out => out = .mutated

theorem hist_mutIds_below (h : Hist) (hok : HistOk h) : ∀ i ∈ h.mutIds, i < h.next := by
  intro i hi
  simp only [Hist.mutIds, List.mem_flatMap] at hi
  obtain ⟨inst, hm, hi⟩ := hi
  exact valsBelow_mutIds inst h.next (hok.below inst hm) (hok.noExtra inst hm) i hi

theorem histOk_append (h : Hist) (hok : HistOk h) (self : Inst) (hself : self ∈ h.insts) (out : CopyOut) (hle : h.next ≤ out.next)
    (hcon : ∃ ch n0, construct self.cls [] ch n0 = .ok ⟨out.result, out.next, out.journal⟩)
    (hb : ValsBelow out.result.fields out.next) : HistOk ⟨h.insts ++ [out.result], out.next⟩ := by
  obtain ⟨ch, n0, hcon⟩ := hcon
  have hwf := hok.wf self hself
  obtain ⟨hio, hcls, _⟩ := construct_instOk _ _ _ _ _ hwf hcon
  have hex := construct_extra _ _ _ _ _ hcon
  simp only at hio hcls hex
  constructor
  · intro inst hm
    simp only [List.mem_append, List.mem_singleton] at hm
    rcases hm with hm | rfl
    · exact hok.wf inst hm
    · rw [hcls]; exact hwf
  · intro inst hm
    simp only [List.mem_append, List.mem_singleton] at hm
    rcases hm with hm | rfl
    · exact hok.ok inst hm
    · exact hio
  · intro inst hm
    simp only [List.mem_append, List.mem_singleton] at hm
    rcases hm with hm | rfl
    · exact (hok.below inst hm).mono hle
    · exact hb
  · intro inst hm
    simp only [List.mem_append, List.mem_singleton] at hm
    rcases hm with hm | rfl
    · exact hok.noExtra inst hm
    · exact hex
  · intro inst hm i hi
    simp only [List.mem_append, List.mem_singleton] at hm
    rcases hm with hm | rfl
    · exact Nat.lt_of_lt_of_le (hok.clsBelow inst hm i hi) hle
    · rw [hcls] at hi; exact Nat.lt_of_lt_of_le (hok.clsBelow self hself i hi) hle

/-- one step: the property holds for it and the invariant is re-established -/
theorem stepH_good (h : Hist) (s : Step) (hok : HistOk h) (hv : StepValid h s) : GoodStep h s (stepH h s).2 ∧ HistOk (stepH h s).1 := by
  cases s with
  | change t m =>
    obtain ⟨hm, hsafe⟩ := hv
    refine ⟨rfl, ?_⟩
    simp only [stepH]
    constructor
    · intro inst hi
      obtain ⟨i0, h0, rfl⟩ := List.mem_map.mp hi
      exact hok.wf i0 h0
    · intro inst hi
      obtain ⟨i0, h0, rfl⟩ := List.mem_map.mp hi
      exact instOk_mutate i0 t m (hok.ok i0 h0) (hsafe i0 h0)
    · intro inst hi
      obtain ⟨i0, h0, rfl⟩ := List.mem_map.mp hi
      exact valsBelow_mutFields t m _ _ (hok.below i0 h0) hm
    · intro inst hi
      obtain ⟨i0, h0, rfl⟩ := List.mem_map.mp hi
      simp [Inst.mutate, mutFields, hok.noExtra i0 h0]
    · intro inst hi
      obtain ⟨i0, h0, rfl⟩ := List.mem_map.mp hi
      exact hok.clsBelow i0 h0
  | copy deep kw on =>
    have hkwb : ValsBelow kw h.next := hv
    cases hget : h.insts[on]? with
    | none => simp [stepH, GoodStep, hget, hok]
    | some self =>
      have hself : self ∈ h.insts := List.mem_of_getElem? hget
      have hwf := hok.wf self hself
      have hio := hok.ok self hself
      have hlive : ∀ i ∈ self.mutIds, i < h.next := valsBelow_mutIds self h.next (hok.below self hself) (hok.noExtra self hself)
      by_cases hvalid : specKwValid self.cls kw = true
      · cases deep with
        | true =>
          by_cases hcp : specDeepCopyable self = true
          case neg =>
            have hcp' : specDeepCopyable self = false := by simpa using hcp
            have he := deep_copy_with_uncopyable_raises self kw h.next hio hcp'
            have hst : stepH h (.copy true kw on) = (h, .raised .typeError) := by
              simp [stepH, hget, cfg_copy_helpers_stateless, he]
            rw [hst]
            exact ⟨by simp [GoodStep, hget, hvalid, hcp'], hok⟩
          obtain ⟨out, h1, h2, h3, h4, h5, h6⟩ := deep_copy_with_meets_spec_fresh self kw h.next hwf hio hvalid hlive hcp
          have hst : stepH h (.copy true kw on) = (⟨h.insts ++ [out.result], out.next⟩, .copied self out) := by
            simp [stepH, hget, cfg_copy_helpers_stateless, h1]
          rw [hst]
          refine ⟨?_, ?_⟩
          · simp only [GoodStep, hget, hvalid, ↓reduceIte, hcp, Bool.not_true, Bool.and_false, Bool.false_eq_true]
            refine ⟨out, rfl, h2, h3, h4, ?_⟩
            intro _ f hf hi hl
            obtain ⟨r, hr, hfresh⟩ := h6 f hf hi hl
            refine ⟨r, hr, ?_⟩
            intro i hir him
            have := hfresh i hir
            have := hist_mutIds_below h hok i him
            omega
          · exact histOk_append h hok self hself out h5 (deepCopyWith_constructed self kw h.next out h1)
              (deep_copy_with_live self kw h.next out h1 (hok.clsBelow self hself) (hok.below self hself) hkwb).2
        | false =>
          obtain ⟨out, h1, h2, h3, h4, h5⟩ := copy_with_meets_spec self kw h.next hwf hio hvalid
          have hst : stepH h (.copy false kw on) = (⟨h.insts ++ [out.result], out.next⟩, .copied self out) := by
            simp [stepH, hget, cfg_copy_helpers_stateless, h1]
          rw [hst]
          refine ⟨?_, ?_⟩
          · simp only [GoodStep, hget, hvalid, ↓reduceIte, Bool.false_and, Bool.false_eq_true]
            exact ⟨out, rfl, h2, h3, h4, by intro hd; cases hd⟩
          · exact histOk_append h hok self hself out h5 (copyWith_constructed self kw h.next out h1)
              (copy_with_live self kw h.next out h1 (hok.clsBelow self hself) (hok.below self hself) hkwb).2
      · have hvalid' : specKwValid self.cls kw = false := by simpa using hvalid
        cases deep with
        | true =>
          obtain ⟨e, he⟩ := deep_copy_with_rejects_bad_kw self kw h.next hvalid'
          have hst : stepH h (.copy true kw on) = (h, .raised e) := by
            simp [stepH, hget, cfg_copy_helpers_stateless, he]
          rw [hst]
          exact ⟨by simp only [GoodStep, hget, hvalid']; exact ⟨e, rfl⟩, hok⟩
        | false =>
          obtain ⟨e, he⟩ := copy_with_rejects_bad_kw self kw h.next hvalid'
          have hst : stepH h (.copy false kw on) = (h, .raised e) := by
            simp [stepH, hget, cfg_copy_helpers_stateless, he]
          rw [hst]
          exact ⟨by simp only [GoodStep, hget, hvalid']; exact ⟨e, rfl⟩, hok⟩

/-- **C11 along histories.**  Start from live instances that meet the invariant; run ANY sequence of `copy_with` / `deep_copy_with` calls
    (on the original or on any earlier copy, with any keywords) and in-place changes of the lists / dicts / sets / objects that the
    fields refer to (any object, any change, as long as it is not below an `init=False` field).  Then at EVERY copy step the copy
    contract holds w.r.t. the receiver's **current** value, the receiver is left as it is, and the un-replaced fields of a deep copy
    share no mutable node with any instance that is alive at that moment — the second, third, … deep copy of the same original is as
    fresh and as right as the first.  Rests on `cfg_copy_helpers_stateless` (the copy methods keep no state between calls). -/
theorem history_copies_meet_spec : ∀ (steps : List Step) (h : Hist), HistOk h → HistValid h steps →
    ∀ t ∈ runH h steps, GoodStep t.1 t.2.1 t.2.2 ∧ HistOk t.1 := by
  intro steps
  induction steps with
  | nil => intro h _ _ t ht; simp [runH] at ht
  | cons s rest ih =>
    intro h hok hv t ht
    obtain ⟨hv1, hv2⟩ := hv
    obtain ⟨hg, hok'⟩ := stepH_good h s hok hv1
    simp only [runH, List.mem_cons] at ht
    rcases ht with rfl | ht
    · exact ⟨hg, hok⟩
    · exact ih _ hok' hv2 t ht

instance (l : List (Name × Obj)) (n : Nat) : Decidable (ValsBelow l n) :=
  inferInstanceAs (Decidable (∀ kv ∈ l, ∀ i ∈ kv.2.allIds, i < n))

instance (h : Hist) : (s : Step) → Decidable (StepValid h s)
  | .copy _ kw _ => inferInstanceAs (Decidable (ValsBelow kw h.next))
  | .change t m => inferInstanceAs (Decidable ((∀ i ∈ allIdsL m.vals, i < h.next) ∧ ∀ inst ∈ h.insts, mutSafe inst t = true))

def HistValid.dec : (steps : List Step) → (h : Hist) → Decidable (HistValid h steps)
  | [], _ => isTrue trivial
  | s :: rest, h =>
    have := HistValid.dec rest (stepH h s).1
    inferInstanceAs (Decidable (StepValid h s ∧ HistValid (stepH h s).1 rest))

instance (h : Hist) (steps : List Step) : Decidable (HistValid h steps) := HistValid.dec steps h


/-! ## non-vacuity: a concrete hierarchy with nested mutable values meets the hypotheses; what the theorems say about it;
    and how the *other* shapes a copy method could have violate the contract on the model -/

/-- `@frozen_dataclass(order=True) class A: f0: Any; f1: Any = field(default_factory=lambda: [[]]); f2: Any = field(default=5, init=False)`
    and `class B(A): pass` -/
def exA : Layer :=
  ⟨0, true, false, true, true, false, false,
   [⟨0, .none, true, true⟩, ⟨1, .factory (.box .list 0 [.box .list 0 []]), true, true⟩, ⟨2, .value (.atom (.int 5)), false, true⟩]⟩
def exB : Layer := ⟨1, false, false, false, true, false, false, []⟩
/-- `[{'a': [1]}, (None, set())]` with identities 10..14 -/
def exVal : Obj :=
  .box .list 10 [.box .dict 11 [.atom (.str [97]), .box .list 12 [.atom (.int 1)]], .tup 13 [.atom .none, .box .set 14 []]]

def exInst : Inst := ⟨[exB, exA], [(0, exVal), (1, .box .list 20 [.box .list 21 []]), (2, .atom (.int 5))], []⟩

def fieldMutIds (r : Except Exc CopyOut) (k : Name) : Option (List Nat) :=
  match r with
  | .ok o => (o.result.fields.lookup k).map Obj.mutIds
  | .error _ => none
def resultCid (r : Except Exc CopyOut) : Option Nat :=
  match r with
  | .ok o => headCid o.result.cls
  | .error _ => none
def raisedExc (r : Except Exc CopyOut) : Option Exc :=
  match r with
  | .ok _ => none
  | .error e => some e

example : wfCls exInst.cls = true ∧ defOk exInst.cls = true := by decide
theorem exInst_constructed : construct [exB, exA] [] [(0, exVal)] 20 = .ok ⟨exInst, 22, []⟩ := by rfl
example : InstOk exInst := (construct_instOk _ _ _ _ _ (by decide) exInst_constructed).1
example : specKwValid exInst.cls [(1, .atom .none)] = true ∧ specKwValid exInst.cls [(2, .atom .none)] = false := by decide
example : ∀ i ∈ exInst.mutIds, i < 30 := by decide
-- the allocator invariant after the construction above is what `deep_copy_with_meets_spec` needs
example : ∀ i ∈ exInst.mutIds, i < 22 :=
  valsBelow_mutIds exInst 22 (construct_live _ _ _ _ _ exInst_constructed (by decide) (by unfold ValsBelow; decide) (by decide)).2.1 rfl
-- copy_with: same class (cid 1 = B), field 0 shares all its nodes, field 1 replaced
example : resultCid (copyWith exInst [(1, .atom .none)] 30) = some 1 := by decide
example : fieldMutIds (copyWith exInst [(1, .atom .none)] 30) 0 = some [10, 11, 12, 14] := by decide
example : fieldMutIds (copyWith exInst [(1, .atom .none)] 30) 1 = some [] := by decide
-- deep_copy_with: same class, every node of field 0 is new, field 1 replaced
example : resultCid (deepCopyWith exInst [(1, .atom .none)] 30) = some 1 := by decide
example : fieldMutIds (deepCopyWith exInst [(1, .atom .none)] 30) 0 = some [30, 31, 32, 33] := by decide
-- refused keywords
example : raisedExc (copyWith exInst [(2, .atom .none)] 30) = some .valueError := by decide
example : raisedExc (deepCopyWith exInst [(2, .atom .none)] 30) = some .typeError := by decide
example : raisedExc (copyWith exInst [(7, .atom .none)] 30) = some .typeError := by decide

/-- the bodies before commit 37ecc33 and other near misses, run on the same instance: each one violates a clause -/
example : resultCid (runCopy (.build true true .newClass true) exInst [] 30) = some 0 := by decide         -- wrong class (A, not B)
example : raisedExc (runCopy (.build true false .typeSelf true) exInst [] 30) = some .typeError := by decide  -- init=False field passed on
example : fieldMutIds (runCopy (.build false true .typeSelf true) exInst [] 30) 0 = some [10, 11, 12, 14] := by decide  -- "deep" copy shares
example : fieldMutIds (runCopy (.build true true .typeSelf false) exInst [(1, .atom .none)] 30) 1 = some [35, 36] := by decide  -- kwargs lose
example : fieldMutIds (runCopy (.replace true) exInst [] 30) 0 = some [30, 31, 32, 33] := by decide       -- "shallow" copy does not share

/-- the same with hashable-but-mutable field values: `Job(counter=Counter(1), workers=(Counter(10), Counter(20)))`-like instance —
    field 0 an instance of a plain class holding a list, field 1 a tuple of two such instances inside a frozenset-bearing tuple -/
def exObjInst : Inst :=
  ⟨[exB, exA], [(0, .box .obj 40 [.atom (.int 1), .box .list 41 []]),
                (1, .tup 42 [.box .obj 43 [.atom (.int 10)], .box .fset 44 [.box .obj 45 [.atom (.int 20)]]]), (2, .atom (.int 5))], []⟩

theorem exObjInst_constructed : construct [exB, exA] [] [(0, .box .obj 40 [.atom (.int 1), .box .list 41 []]),
    (1, .tup 42 [.box .obj 43 [.atom (.int 10)], .box .fset 44 [.box .obj 45 [.atom (.int 20)]]])] 50 = .ok ⟨exObjInst, 50, []⟩ := by rfl
example : InstOk exObjInst := (construct_instOk _ _ _ _ _ (by decide) exObjInst_constructed).1
example : exObjInst.mutIds = [40, 41, 43, 45] ∧ ∀ i ∈ exObjInst.mutIds, i < 50 := by decide
example : hashableL (exObjInst.fields.map (·.2)) = true := by decide          -- every field value is hashable …
-- … and still deep_copy_with re-creates every object (and the list inside), while copy_with shares them
example : fieldMutIds (deepCopyWith exObjInst [] 50) 0 = some [50, 51] ∧ fieldMutIds (deepCopyWith exObjInst [] 50) 1 = some [52, 54] := by decide
example : fieldMutIds (copyWith exObjInst [] 50) 0 = some [40, 41] ∧ fieldMutIds (copyWith exObjInst [] 50) 1 = some [43, 45] := by decide
-- a body that skips `deepcopy` (as a "hashable ⇒ immutable" shortcut would for these values) shares all of them
example : fieldMutIds (runCopy (.build false true .typeSelf true) exObjInst [] 50) 1 = some [43, 45] := by decide
-- Python's `==` between original and deep copy is False on such a field (identity equality), "the same value" holds
example : (match deepCopyWith exObjInst [] 50 with
    | .ok o => (o.result.fields.lookup 0).map (fun r => ((Obj.box .obj 40 [.atom (.int 1), .box .list 41 []]).veq r, (Obj.box .obj 40 [.atom (.int 1), .box .list 41 []]).seq r))
    | .error _ => none) = some (false, true) := by decide

/-- the same with **nested frozen-dataclass instances**: field 0 = `Z10(g0=[1])`, field 1 = `exFzVal` (frozen instances of three
    classes — one of them the class of the receiver itself — inside each other, a tuple, a list and a dict value) -/
def exFzInst : Inst := ⟨[exB, exA], [(0, .box (.fz 10) 60 [.box .list 61 [.atom (.int 1)]]), (1, exFzVal), (2, .atom (.int 5))], []⟩

theorem exFzInst_constructed :
    construct [exB, exA] [] [(0, .box (.fz 10) 60 [.box .list 61 [.atom (.int 1)]]), (1, exFzVal)] 80 = .ok ⟨exFzInst, 80, []⟩ := by rfl
example : InstOk exFzInst := (construct_instOk _ _ _ _ _ (by decide) exFzInst_constructed).1
example : exFzInst.mutIds = [61, 65, 66, 68, 69, 71, 73, 74] ∧ ∀ i ∈ exFzInst.mutIds, i < 80 := by decide
-- deep_copy_with duplicates every frozen instance and everything behind it; copy_with shares all of it
example : fieldMutIds (deepCopyWith exFzInst [] 80) 0 = some [81] ∧
    fieldMutIds (deepCopyWith exFzInst [] 80) 1 = some [84, 85, 87, 88, 90, 92, 93] := by decide
example : fieldMutIds (copyWith exFzInst [] 80) 0 = some [61] ∧
    fieldMutIds (copyWith exFzInst [] 80) 1 = some [65, 66, 68, 69, 71, 73, 74] := by decide
-- what the theorem gives for this instance
example : ∃ out, deepCopyWith exFzInst [] 80 = .ok out ∧ CopyMeets true exFzInst [] out.result :=
  let ⟨out, h1, h2, _⟩ := deep_copy_with_meets_spec exFzInst [] 80 (by decide)
    (construct_instOk _ _ _ _ _ (by decide) exFzInst_constructed).1 (by decide) (by decide) (by decide)
  ⟨out, h1, h2⟩

/-! a worker whose `state` dict holds a lock next to an ordinary list: `{'guard': <lock>, 'pending': [1, 2]}` -/
def exLockInst : Inst :=
  ⟨[exB, exA], [(0, .box .dict 100 [.atom (.str [103]), .atom (.unc 101), .atom (.str [112]), .box .list 102 [.atom (.int 1), .atom (.int 2)]]),
                (1, .box .list 103 []), (2, .atom (.int 5))], []⟩
theorem exLockInst_constructed : construct [exB, exA] []
    [(0, .box .dict 100 [.atom (.str [103]), .atom (.unc 101), .atom (.str [112]), .box .list 102 [.atom (.int 1), .atom (.int 2)]]),
     (1, .box .list 103 [])] 110 = .ok ⟨exLockInst, 110, []⟩ := by rfl
example : specDeepCopyable exLockInst = false ∧ specDeepCopyable exInst = true ∧ specDeepCopyable exFzInst = true := by decide
-- the unchanged code: the TypeError of deepcopy reaches the caller, whatever is replaced; copy_with is not affected
example : raisedExc (deepCopyWith exLockInst [] 110) = some .typeError ∧ raisedExc (deepCopyWith exLockInst [(0, .atom .none)] 110) = some .typeError := by decide
example : deepCopyWith exLockInst [(1, .atom .none)] 110 = .error .typeError :=
  deep_copy_with_uncopyable_raises _ _ _ (construct_instOk _ _ _ _ _ (by decide) exLockInst_constructed).1 (by decide)
example : fieldMutIds (copyWith exLockInst [(1, .atom .none)] 110) 0 = some [100, 102] := by decide
-- a `deepcopy` that falls back to the object itself when it cannot be copied (not bare: read pessimistically) would hand out an instance
-- that shares the dict and the list inside it with the original
example : fieldMutIds (runCopy (.build false true .typeSelf true) exLockInst [] 110) 0 = some [100, 102] := by decide
-- a body without `deepcopy` shares the list behind the frozen instance (as does a `deepcopy` that returns frozen instances as they are)
example : fieldMutIds (runCopy (.build false true .typeSelf true) exFzInst [] 80) 0 = some [61] := by decide
-- field 0 is unhashable (the list inside), so is the instance; Python's `==` between original and deep copy of field 0 holds
example : specHashable exFzInst = false := by decide
example : (match deepCopyWith exFzInst [] 80 with
    | .ok o => (o.result.fields.lookup 0).map (fun r => (Obj.box (.fz 10) 60 [.box .list 61 [.atom (.int 1)]]).veq r)
    | .error _ => none) = some true := by decide

-- order / eq / hash on the example
example : declaredOrder exInst.cls = true := by decide
example : specHashable exObjInst = true ∧ (ltOp exObjInst exObjInst).toOption = some false := by decide
example : Obj.veq (.box .set 1 [.atom (.int 1)]) (.box .fset 2 [.atom (.int 1)]) = true ∧
    Obj.vlt (.box .fset 1 [.atom (.int 1)]) (.box .set 2 [.atom (.int 1), .atom (.int 2)]) = some true ∧
    Obj.vlt (.box .obj 1 []) (.box .obj 2 []) = none ∧ Obj.veq (.box .obj 1 []) (.box .obj 2 []) = false := by decide
example : specHashable exInst = false ∧ specHashable { exInst with fields := [(0, .atom (.int 1)), (1, .atom .none), (2, .atom (.int 5))] } = true := by decide
example : lexLt [.atom (.int 1), .box .list 1 [.atom (.int 2)]] [.atom (.int 1), .box .list 2 [.atom (.int 2), .atom (.int 0)]] = some true := by decide
example : lexLt [.atom (.int 1)] [.atom .none] = none := by decide
/-- order is inherited: a subclass decorated with order=False still compares with the *base's* fields (no claim is made there) -/
example : (ltOp ⟨[⟨2, true, false, false, true, false, false, [⟨5, .none, true, true⟩]⟩, exA], [(0, .atom (.int 1)), (1, .atom .none), (2, .atom (.int 5)), (5, .atom (.int 9))], []⟩
                ⟨[⟨2, true, false, false, true, false, false, [⟨5, .none, true, true⟩]⟩, exA], [(0, .atom (.int 1)), (1, .atom .none), (2, .atom (.int 5)), (5, .atom (.int 0))], []⟩).toOption
    = some false := by decide

/-! ### non-vacuity: a history on `exInst` (field 0 = `[{'a': [1]}, (None, set())]`, identities 10..14) -/

/-- deep copy; append to the inner list 12 *of the original*; deep copy again (field 1 replaced); shallow copy; clear the outer list 10
    (shared by the original and the shallow copy); deep copy of the shallow copy; change the *first deep copy's* dict; deep copy the original again -/
def exHist : List Step :=
  [.copy true [] 0, .change 12 (.push [.atom (.int 9)]), .copy true [(1, .atom .none)] 0, .copy false [] 0, .change 10 .clear,
   .copy true [] 3, .change 31 (.push [.atom (.str [122]), .atom (.int 0)]), .copy true [] 0]

def endOf (h : Hist) (steps : List Step) : Hist := steps.foldl (fun h s => (stepH h s).1) h
def histField (h : Hist) (k : Nat) (f : Name) : Option Obj := (h.insts[k]?).bind (fun i => i.fields.lookup f)

theorem exHist_ok : HistOk ⟨[exInst], 30⟩ where
  wf := by intro inst hm; simp only [List.mem_singleton] at hm; subst hm; decide
  ok := by intro inst hm; simp only [List.mem_singleton] at hm; subst hm; exact (construct_instOk _ _ _ _ _ (by decide) exInst_constructed).1
  below := by intro inst hm; simp only [List.mem_singleton] at hm; subst hm; decide
  noExtra := by intro inst hm; simp only [List.mem_singleton] at hm; subst hm; rfl
  clsBelow := by intro inst hm; simp only [List.mem_singleton] at hm; subst hm; decide

theorem exHist_valid : HistValid ⟨[exInst], 30⟩ exHist := by decide
-- the theorem applies to it: every step is good, the invariant holds all along
example : ∀ t ∈ runH ⟨[exInst], 30⟩ exHist, GoodStep t.1 t.2.1 t.2.2 ∧ HistOk t.1 := history_copies_meet_spec exHist _ exHist_ok exHist_valid
-- what it looks like: six live instances at the end; the deep copies (1, 2, 4, 5) hold new nodes only, the shallow copy (3) the original's
example : (endOf ⟨[exInst], 30⟩ exHist).insts.map (fun i => i.fields.map (fun kv => (kv.1, kv.2.mutIds))) =
    [[(0, [10]), (1, [20, 21]), (2, [])], [(0, [30, 31, 32, 33]), (1, [35, 36]), (2, [])], [(0, [37, 38, 39, 40]), (1, []), (2, [])],
     [(0, [10]), (1, [20, 21]), (2, [])], [(0, [44]), (1, [45, 46]), (2, [])], [(0, [47]), (1, [48, 49]), (2, [])]] := by decide
-- the second deep copy (instance 2) carries the change made to the original after the first one (the 9 appended to list 12), the first does not
example : ((histField (endOf ⟨[exInst], 30⟩ exHist) 2 0).map (fun v => v.seq (.box .list 0 [.box .dict 0 [.atom (.str [97]), .box .list 0 [.atom (.int 1), .atom (.int 9)]], .tup 0 [.atom .none, .box .set 0 []]])),
          (histField (endOf ⟨[exInst], 30⟩ exHist) 1 0).map (fun v => v.seq (.box .list 0 [.box .dict 0 [.atom (.str [97]), .box .list 0 [.atom (.int 1)], .atom (.str [122]), .atom (.int 0)], .tup 0 [.atom .none, .box .set 0 []]])))
    = (some true, some true) := by decide
-- the last deep copy of the original (instance 5) equals the original as it is THEN (cleared), not the first copy
example : (histField (endOf ⟨[exInst], 30⟩ exHist) 5 0).map Obj.mutIds = some [47] ∧
    (histField (endOf ⟨[exInst], 30⟩ exHist) 0 0).map Obj.mutIds = some [10] := by decide


/-! ## what lies outside the guards: witnesses -/

/-- `@frozen_dataclass class L: f0: Any; log: Any = field(default_factory=list, init=False)` with `log == [[]]` after construction -/
def exLogCls : Cls := [⟨0, true, false, false, true, false, false, [⟨0, .none, true, true⟩, ⟨1, .factory (.box .list 0 []), false, true⟩]⟩]
def exLogInst : Inst := ⟨exLogCls, [(0, .atom (.int 1)), (1, .box .list 30 [])], []⟩

/-- **the complement of `mutSafe`** (guard of `history_copies_meet_spec`): a change made in place to the object behind an `init=False` field
    is LOST by a copy — the generated `__init__` recomputes such a field (here: a new empty list from the factory), neither copy method
    can pass it on.  `x.log.append(7); x.copy_with().log == []`.  (Observed on the real library as well; the histories of the correspondence
    run stay inside `mutSafe`.) -/
theorem change_below_initFalse_field_is_lost :
    mutSafe exLogInst 30 = false ∧
    (match copyWith (exLogInst.mutate 30 (.push [.atom (.int 7)])) [] 40 with
     | .ok o => (o.result.fields.lookup 1).map (fun v => v.seq (.box .list 0 [])) | .error _ => none) = some true ∧
    ((exLogInst.mutate 30 (.push [.atom (.int 7)])).fields.lookup 1).map (fun v => v.seq (.box .list 0 [.atom (.int 7)])) = some true := by
  decide

/-- **outside `wfCls`: an `init=False` field without default** (the pattern "set in `__post_init__` with `object.__setattr__`", which the model's
    hooks — they only journal — do not perform): in the model the attribute stays unset, a copy leaves it unset, and `==` on such an instance
    is an AttributeError.  No theorem speaks about such classes; the correspondence run does not generate them. -/
def exUnsetCls : Cls := [⟨0, true, false, false, true, false, false, [⟨0, .none, true, true⟩, ⟨1, .none, false, true⟩]⟩]
theorem initFalse_without_default_is_outside :
    wfCls exUnsetCls = false ∧
    (match construct exUnsetCls [] [(0, .atom (.int 1))] 10 with
     | .ok m => (m.inst.fields.map (·.1), (match copyWith m.inst [] m.next with | .ok o => some (o.result.fields.map (·.1)) | .error _ => none),
                 (match eqOp m.inst m.inst with | .ok _ => none | .error e => some e))
     | .error _ => ([], none, none)) = ([0], some [0], some .attributeError) := by
  decide

/-! ### an independent reading of "what `__post_init__` does"

Walk down the hierarchy from the instance's class through the decorated classes until one defines a hook of its own (that one included):
the user's hook runs iff such a class exists — once, and first —, followed by one validation for every type-safe class on the way (each of
them wrapped what it found below it). -/

def hookPath : Cls → Cls
  | [] => []
  | l :: rest => if !l.decorated then hookPath rest else if l.postInit then [l] else l :: hookPath rest

def specPostInitEvents (c : Cls) : List Ev :=
  (if (hookPath c).any (·.postInit) then [Ev.post] else []) ++ List.replicate ((hookPath c).filter (·.typeSafe)).length Ev.validate

theorem replicate_snoc (n : Nat) : List.replicate n Ev.validate ++ [Ev.validate] = Ev.validate :: List.replicate n Ev.validate := by
  induction n with
  | zero => rfl
  | succ k ih => simp [List.replicate_succ, ih]

/-- **the user's hook runs at most once, and before every validation** — the model's journal is the independent reading above (rests on
    the generated order facts of `new_post_init`) -/
theorem postInitEvents_eq_spec : ∀ c : Cls, postInitEvents c = specPostInitEvents c := by
  intro c
  have hcfg : postInitCallsOld = true ∧ postInitOldFirst = true := by decide
  induction c with
  | nil => rfl
  | cons l rest ih =>
    unfold specPostInitEvents at ih ⊢
    by_cases hd : l.decorated = true
    · by_cases hp : l.postInit = true
      · cases hts : l.typeSafe <;> simp [postInitEvents, hookPath, hd, hp, hts, hcfg]
      · have hp' : l.postInit = false := by simpa using hp
        cases hts : l.typeSafe
        · simp [postInitEvents, hookPath, hd, hp', hts, hcfg, ih]
        · simp only [postInitEvents, hookPath, hd, hp', hts, hcfg, ih, Bool.not_true, Bool.false_eq_true, ↓reduceIte, List.any_cons,
            Bool.false_or, List.filter_cons, List.length_cons, List.replicate_succ]
          rw [List.append_assoc, replicate_snoc]
    · have hd' : l.decorated = false := by simpa using hd
      simp [postInitEvents, hookPath, hd', ih]

example : specPostInitEvents [⟨2, true, true, false, true, false, false, []⟩, ⟨0, true, true, false, true, false, true, []⟩] = [.post, .validate, .validate] := by decide

end PedVerif.Frozen
